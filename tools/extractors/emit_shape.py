"""Generated/EmitShape.lean from loguru/_handler.py, _error_interceptor.py, _simple_sinks.py, _logger.py (C04).

C04 has no numeric tables: what the theorems depend on is the *shape* of the error handling.  This
extractor reads that shape from the AST and turns it into Lean constants the hand-written model
`Emit/Model.lean` is defined in terms of:

  emitCaught            which error kinds the `except` clause around `Handler.emit`'s pipeline covers
  preLockStages         the order in which filter / dynamic format / exception formatting /
                        format_map / serialisation appear in `emit`, all before `_protected_lock`
  markerCheckedBeforeSet, markerResetInFinally     `_protected_lock`
  workerCaught, workerGetArm, workerWriteArm       the two `except` arms of `_queued_writer`
  removeUnpublishesFirst                           `Logger.remove`: registry published before `stop()`
  logLoopUnguarded                                 `_log`: plain `for handler: handler.emit(...)`
  printSkipsWhenNoStderr, printSwallows, printGuardsRecordStr   `ErrorInterceptor.print`
  streamFlushAfterWrite                            `StreamSink.write`
  stopMarksStoppedFirst                            `Handler.stop`
  taskCallbackRetrieves, taskCallbackReraises      `AsyncSink.write.check_exception`

Fail closed: any shape this file does not recognise makes the generated definitions absent.
"""
import ast

from extract_lib import Unsupported, emit, find_class, find_func, parse_module

ERR = {
    "ValueError": ["valueError"], "TypeError": ["typeError"], "KeyError": ["keyError"],
    "IndexError": ["indexError"], "AttributeError": ["attributeError"], "RuntimeError": ["runtimeError"],
    "OSError": ["osError"], "IOError": ["osError"], "EnvironmentError": ["osError"],
    "LookupError": ["keyError", "indexError"], "PermissionError": [], "FileNotFoundError": [],
    "UnicodeError": [], "UnicodeEncodeError": [], "RecursionError": [], "NotImplementedError": [],
    "ArithmeticError": [], "ZeroDivisionError": [], "AssertionError": [], "BrokenPipeError": [],
}
ALL = ["valueError", "typeError", "keyError", "indexError", "attributeError", "runtimeError", "osError", "other"]


def caught_set(type_node):
    """the subset of Py.Err a handler's type expression covers"""
    if type_node is None:
        return list(ALL)
    names = []
    if isinstance(type_node, ast.Name):
        names = [type_node.id]
    elif isinstance(type_node, ast.Tuple) and all(isinstance(e, ast.Name) for e in type_node.elts):
        names = [e.id for e in type_node.elts]
    else:
        raise Unsupported("except clause type " + ast.unparse(type_node))
    out = []
    for n in names:
        if n in ("Exception", "BaseException"):
            return list(ALL)
        if n not in ERR:
            raise Unsupported("unknown exception class in except clause: " + n)
        out += ERR[n]
    return [e for e in ALL if e in out]


def lean_pred(name, kinds, doc):
    body = "/-- %s -/\ndef %s (e : Py.Err) : Bool :=\n" % (doc, name)
    if len(kinds) == len(ALL):
        return body + "  match e with\n  | _ => true\n"
    body += "  match e with\n"
    for k in kinds:
        body += "  | .%s => true\n" % k
    body += "  | _ => false\n"
    return body


def lean_bool(name, val, doc):
    return "/-- %s -/\ndef %s : Bool := %s\n" % (doc, name, "true" if val else "false")


def strip_doc(body):
    if body and isinstance(body[0], ast.Expr) and isinstance(body[0].value, ast.Constant) \
            and isinstance(body[0].value.value, str):
        return body[1:]
    return body


def pos(node):
    return (node.lineno, node.col_offset)


def calls_in(node):
    for n in ast.walk(node):
        if isinstance(n, ast.Call):
            yield n


def is_attr_call(call, suffix):
    """call whose callee source text ends with `suffix` (e.g. '.format_map')"""
    return ast.unparse(call.func).endswith(suffix)



# ----------------------------------------------------------------------------- normalisation (robustness of tie G)
def _is_self_attr_chain(node):
    while isinstance(node, ast.Attribute):
        node = node.value
    return isinstance(node, ast.Name) and node.id == "self"


class _IfElseToIfExp(ast.NodeTransformer):
    """`if c: x = a` / `else: x = b`  ->  `x = a if c else b`"""

    def visit_If(self, node):
        self.generic_visit(node)
        if len(node.body) == 1 and len(node.orelse) == 1 and all(
                isinstance(b, ast.Assign) and len(b.targets) == 1 for b in (node.body[0], node.orelse[0])) \
                and ast.dump(node.body[0].targets[0]) == ast.dump(node.orelse[0].targets[0]):
            new = ast.Assign(targets=node.body[0].targets,
                             value=ast.IfExp(test=node.test, body=node.body[0].value, orelse=node.orelse[0].value))
            return ast.copy_location(new, node)
        return node


def normalize(fn):
    """a copy of the function in which
      * an if/else assigning one and the same target in both branches is a conditional expression,
      * a local that is assigned exactly once, at the top level of the function, from a pure `self.a.b` attribute
        chain is replaced by that chain (alias inlined),
      * the remaining locals are renamed `_v0, _v1, …` in order of first appearance (parameters keep their names)."""
    import copy
    fn = _IfElseToIfExp().visit(copy.deepcopy(fn))
    ast.fix_missing_locations(fn)
    params = {a.arg for a in fn.args.args + fn.args.kwonlyargs + fn.args.posonlyargs}
    if fn.args.vararg:
        params.add(fn.args.vararg.arg)
    if fn.args.kwarg:
        params.add(fn.args.kwarg.arg)
    stores = {}
    for n in ast.walk(fn):
        if isinstance(n, ast.Name) and isinstance(n.ctx, (ast.Store, ast.Del)):
            stores[n.id] = stores.get(n.id, 0) + 1
    alias = {}
    for st in list(fn.body):
        if isinstance(st, ast.Assign) and len(st.targets) == 1 and isinstance(st.targets[0], ast.Name) \
                and stores.get(st.targets[0].id) == 1 and st.targets[0].id not in params \
                and isinstance(st.value, ast.Attribute) and _is_self_attr_chain(st.value):
            alias[st.targets[0].id] = st.value
            fn.body.remove(st)

    class Inline(ast.NodeTransformer):
        def visit_Name(self, node):
            if node.id in alias and isinstance(node.ctx, ast.Load):
                import copy as _c
                return _c.deepcopy(alias[node.id])
            return node
    fn = Inline().visit(fn)
    order = []
    for n in sorted((n for n in ast.walk(fn) if isinstance(n, ast.Name)),
                    key=lambda n: (getattr(n, "lineno", 0), getattr(n, "col_offset", 0))):
        if n.id in stores and n.id not in params and n.id not in alias and n.id not in order:
            order.append(n.id)
    ren = {name: "_v%d" % k for k, name in enumerate(order)}
    for n in ast.walk(fn):
        if isinstance(n, ast.Name) and n.id in ren:
            n.id = ren[n.id]
    ast.fix_missing_locations(fn)
    return fn


def init_attr_defs(cls):
    """{attribute name: source of the value `__init__` assigns to self.<attribute>}"""
    out = {}
    init = find_func(cls, "__init__")
    for n in ast.walk(init):
        if isinstance(n, ast.Assign) and len(n.targets) == 1 and isinstance(n.targets[0], ast.Attribute) \
                and ast.unparse(n.targets[0].value) == "self":
            out[n.targets[0].attr] = ast.unparse(n.value)
    return out


# ----------------------------------------------------------------------------- Handler.emit
def shape_emit(tree):
    fn = find_func(tree, "emit", cls="Handler")
    body = strip_doc(fn.body)
    if len(body) != 1 or not isinstance(body[0], ast.Try):
        raise Unsupported("Handler.emit is not a single try statement")
    tr = body[0]
    if tr.finalbody or tr.orelse or len(tr.handlers) != 1:
        raise Unsupported("Handler.emit: try has finally/else or several handlers")
    h = tr.handlers[0]
    caught = caught_set(h.type)
    hb = [ast.unparse(s) for s in h.body]
    want = ["if not self._error_interceptor.should_catch():\n    raise", "self._error_interceptor.print(record)"]
    if len(h.body) == 3 and isinstance(h.body[0], ast.Assign) and len(h.body[0].targets) == 1 \
            and isinstance(h.body[0].targets[0], ast.Name) \
            and ast.unparse(h.body[0].value) == "self._error_interceptor.should_catch()":
        # the flag read into a local first: same thing
        hb = [x.replace("not %s:" % h.body[0].targets[0].id, "not self._error_interceptor.should_catch():")
              for x in hb[1:]]
    if hb != want:
        raise Unsupported("Handler.emit: except body is %r" % (hb,))
    # the with-statement of the lock
    withs = [s for s in tr.body if isinstance(s, ast.With)
             and ast.unparse(s.items[0].context_expr) == "self._protected_lock()"]
    if len(withs) != 1 or tr.body[-1] is not withs[0]:
        raise Unsupported("Handler.emit: `with self._protected_lock()` is not the last statement of the try")
    w = withs[0]
    wb = w.body
    def handoff(stmts, callee):
        return len(stmts) == 1 and isinstance(stmts[0], ast.Expr) and isinstance(stmts[0].value, ast.Call) \
            and ast.unparse(stmts[0].value.func) == callee and len(stmts[0].value.args) == 1 \
            and isinstance(stmts[0].value.args[0], ast.Name) and not stmts[0].value.keywords
    if not (len(wb) == 2 and ast.unparse(wb[0]) == "if self._stopped:\n    return"
            and isinstance(wb[1], ast.If) and ast.unparse(wb[1].test) == "self._enqueue"
            and handoff(wb[1].body, "self._queue.put") and handoff(wb[1].orelse, "self._sink.write")
            and wb[1].body[0].value.args[0].id == wb[1].orelse[0].value.args[0].id):
        raise Unsupported("Handler.emit: body of the locked section changed: %r" % ([ast.unparse(s) for s in wb],))
    # stage order before the lock: first occurrence of each stage's call
    first = {}
    for stmt in tr.body[:-1]:
        for c in calls_in(stmt):
            src = ast.unparse(c.func)
            st = None
            if src == "self._filter":
                st = "filter"
            elif src == "self._formatter" and len(c.args) == 1:
                st = "dynFormat"
            elif src.endswith(".format_exception"):
                st = "excFormat"
            elif src.endswith(".format_map"):
                st = "formatMap"
            elif src == "self._serialize_record":
                st = "serialize"
            elif src in ("self._queue.put", "self._sink.write"):
                raise Unsupported("Handler.emit: hand-off outside the locked section")
            if st is not None and (st not in first or pos(c) < first[st]):
                first[st] = pos(c)
    need = ["filter", "dynFormat", "excFormat", "formatMap", "serialize"]
    missing = [s for s in need if s not in first]
    if missing:
        raise Unsupported("Handler.emit: stages not found: %s" % missing)
    order = sorted(need, key=lambda s: first[s])
    # level threshold test comes first
    t0 = tr.body[0]
    if ast.unparse(t0) != "if self._levelno > record['level'].no:\n    return":
        raise Unsupported("Handler.emit: first statement is not the level threshold test")
    # the `is_raw` branch: is the handler's format applied to a raw message?
    raw_ifs = [x for x in tr.body[:-1] if isinstance(x, ast.If) and any(
        isinstance(n, ast.Name) and n.id == "is_raw" for n in ast.walk(x.test))]
    if len(raw_ifs) != 1:
        raise Unsupported("Handler.emit: %d statements test `is_raw`" % len(raw_ifs))
    ri = raw_ifs[0]
    if isinstance(ri.test, ast.Name):
        raw_branch, other = ri.body, ri.orelse
    elif isinstance(ri.test, ast.UnaryOp) and isinstance(ri.test.op, ast.Not) and isinstance(ri.test.operand, ast.Name):
        raw_branch, other = ri.orelse, ri.body
    else:
        raise Unsupported("Handler.emit: `is_raw` test is " + ast.unparse(ri.test))

    def has_fm(stmts):
        return any(ast.unparse(c.func).endswith(".format_map") for x in stmts for c in calls_in(x))
    if not raw_branch or not has_fm(other):
        raise Unsupported("Handler.emit: the non-raw branch no longer calls format_map / no raw branch")
    if any(first["formatMap"] == pos(c) for x in raw_branch for c in calls_in(x)):
        raise Unsupported("Handler.emit: first format_map call sits in the raw branch")
    return caught, order, not has_fm(raw_branch)


# ----------------------------------------------------------------------------- _protected_lock
def shape_lock(tree):
    """-> (test precedes the set and is outside the try, reset in a finally, marker is per thread)

    Two marker styles are understood: the code's `threading.local()` attribute read with
    `getattr(self.M, "acquired", False)`, and a single attribute holding the owner's thread ident
    (`self.M == threading.get_ident()` / `self.M = ident` / `self.M = None`) – the latter is NOT per thread."""
    fn = find_func(tree, "_protected_lock", cls="Handler")
    body = strip_doc(fn.body)
    ident_names = set()
    while body and isinstance(body[0], ast.Assign) and ast.unparse(body[0].value) == "threading.get_ident()" \
            and isinstance(body[0].targets[0], ast.Name):
        ident_names.add(body[0].targets[0].id)
        body = body[1:]
    style = {}

    def is_ident(node):
        return (isinstance(node, ast.Name) and node.id in ident_names) or ast.unparse(node) == "threading.get_ident()"

    def marker_of(node):
        src = ast.unparse(node)
        return src[5:] if src.startswith("self._") and src.count(".") == 1 else None

    def note(kind, attr):
        if attr is None:
            return False
        style.setdefault("kind", kind)
        style.setdefault("attr", attr)
        return style["kind"] == kind and style["attr"] == attr

    def is_marker_assign(s, val):
        if not (isinstance(s, ast.Assign) and len(s.targets) == 1):
            return False
        t = s.targets[0]
        if isinstance(t, ast.Attribute) and t.attr == "acquired" and isinstance(s.value, ast.Constant) \
                and s.value.value is val:
            return note("local", marker_of(t.value))
        if isinstance(t, ast.Attribute) and marker_of(t) is not None:
            if val is True and is_ident(s.value):
                return note("owner", marker_of(t))
            if val is False and isinstance(s.value, ast.Constant) and s.value.value is None:
                return note("owner", marker_of(t))
        return False

    def is_check(s):
        if not (isinstance(s, ast.If) and len(s.body) == 1 and isinstance(s.body[0], ast.Raise) and not s.orelse
                and ast.unparse(s.body[0].exc).startswith("RuntimeError(")):
            return False
        t = s.test
        if isinstance(t, ast.Call) and ast.unparse(t.func) == "getattr" and len(t.args) == 3 \
                and ast.unparse(t.args[1]) == "'acquired'" and ast.unparse(t.args[2]) == "False":
            return note("local", marker_of(t.args[0]))
        if isinstance(t, ast.Compare) and len(t.ops) == 1 and isinstance(t.ops[0], (ast.Eq, ast.Is)):
            l, r = t.left, t.comparators[0]
            if marker_of(l) is not None and is_ident(r):
                return note("owner", marker_of(l))
            if marker_of(r) is not None and is_ident(l):
                return note("owner", marker_of(r))
        return False

    def is_locked_yield(s):
        return isinstance(s, ast.With) and ast.unparse(s.items[0].context_expr) == "self._lock" \
            and len(s.body) == 1 and ast.unparse(s.body[0]) == "yield"

    def per_thread():
        if style.get("kind") != "local":
            return False
        want = "self.%s = threading.local()" % style["attr"]
        for name in ("__init__", "__setstate__"):
            f = find_func(tree, name, cls="Handler")
            if not any(isinstance(n, ast.Assign) and ast.unparse(n) == want for n in ast.walk(f)):
                return False
        return True

    # shape 1 (as written): check; set; try: with lock: yield; finally: reset
    if len(body) == 3 and is_check(body[0]) and is_marker_assign(body[1], True) and isinstance(body[2], ast.Try):
        t = body[2]
        if t.handlers or t.orelse or len(t.body) != 1 or not is_locked_yield(t.body[0]):
            raise Unsupported("_protected_lock: try body changed")
        if len(t.finalbody) == 1 and is_marker_assign(t.finalbody[0], False):
            return True, True, per_thread()
        raise Unsupported("_protected_lock: finally body changed")
    # shape 2: reset after the with, not in a finally
    if len(body) == 4 and is_check(body[0]) and is_marker_assign(body[1], True) and is_locked_yield(body[2]) \
            and is_marker_assign(body[3], False):
        return True, False, per_thread()
    # shape 3: check moved inside the try (its failure would run the finally and reset the marker)
    if len(body) == 1 and isinstance(body[0], ast.Try):
        t = body[0]
        if not t.handlers and not t.orelse and len(t.body) == 3 and is_check(t.body[0]) \
                and is_marker_assign(t.body[1], True) and is_locked_yield(t.body[2]) \
                and len(t.finalbody) == 1 and is_marker_assign(t.finalbody[0], False):
            return False, True, per_thread()
    raise Unsupported("_protected_lock: unrecognised shape")


# ----------------------------------------------------------------------------- _queued_writer
def arm_of(stmts):
    last = stmts[-1]
    if isinstance(last, ast.Continue):
        return "continue_"
    if isinstance(last, ast.Break):
        return "break_"
    if isinstance(last, ast.Raise):
        return "raise_"
    return None


def shape_worker(tree):
    fn = normalize(find_func(tree, "_queued_writer", cls="Handler"))
    loops = [s for s in fn.body if isinstance(s, ast.While)]
    if len(loops) != 1 or ast.unparse(loops[0].test) != "True" or loops[0].orelse:
        raise Unsupported("_queued_writer: no single `while True` loop")
    if fn.body[-1] is not loops[0]:
        raise Unsupported("_queued_writer: statements after the loop")
    for st in fn.body[:-1]:
        # before the loop: nothing but initialisation of locals with constants
        if not (isinstance(st, ast.Assign) and isinstance(st.value, ast.Constant)):
            raise Unsupported("_queued_writer: statement before the loop: " + ast.unparse(st))
    lb = loops[0].body
    if len(lb) != 4:
        raise Unsupported("_queued_writer: loop body has %d statements" % len(lb))
    t = lb[0]
    if not (isinstance(t, ast.Try) and len(t.body) == 1 and isinstance(t.body[0], ast.Assign)
            and len(t.body[0].targets) == 1 and isinstance(t.body[0].targets[0], ast.Name)
            and ast.unparse(t.body[0].value) == "self._queue.get()"
            and len(t.handlers) == 1 and not t.finalbody and not t.orelse):
        raise Unsupported("_queued_writer: get arm changed")
    item = t.body[0].targets[0].id          # the local that holds what came out of the queue
    caught_get = caught_set(t.handlers[0].type)
    hb = t.handlers[0].body
    reports_get = any(ast.unparse(c) == "self._error_interceptor.print(None)" for s in hb for c in calls_in(s))
    arm_get = arm_of(hb)
    if arm_get is None:
        raise Unsupported("_queued_writer: get arm falls through with a stale message")
    if ast.unparse(lb[1]) != "if %s is None:\n    break" % item:
        raise Unsupported("_queued_writer: sentinel test changed")
    if ast.unparse(lb[2]) != "if %s is True:\n    self._confirmation_event.set()\n    continue" % item:
        raise Unsupported("_queued_writer: confirmation branch changed")
    w = lb[3]
    if not (isinstance(w, ast.With) and ast.unparse(w.items[0].context_expr) == "self._queue_lock"
            and len(w.body) == 1 and isinstance(w.body[0], ast.Try)):
        raise Unsupported("_queued_writer: write section changed")
    t2 = w.body[0]
    if not (len(t2.body) == 1 and ast.unparse(t2.body[0]) == "self._sink.write(%s)" % item and len(t2.handlers) == 1
            and not t2.finalbody and not t2.orelse):
        raise Unsupported("_queued_writer: write arm changed")
    caught_write = caught_set(t2.handlers[0].type)
    hb2 = t2.handlers[0].body
    reports_write = any(ast.unparse(c) == "self._error_interceptor.print(%s.record)" % item
                        for s in hb2 for c in calls_in(s))
    arm_write = arm_of(hb2) or "continue_"   # falling off the end of the loop body = next iteration
    if caught_get != caught_write:
        raise Unsupported("_queued_writer: the two arms catch different classes")
    if not (reports_get and reports_write):
        raise Unsupported("_queued_writer: an arm no longer reports through the error interceptor")
    return caught_get, arm_get, arm_write


# ----------------------------------------------------------------------------- Logger.remove / _log
def shape_remove(tree):
    """is the reduced registry (and min_level) published before `stop()` is called on the popped handler?"""
    fn = find_func(tree, "remove", cls="Logger")
    loops = [n for n in ast.walk(fn) if isinstance(n, ast.For) and any(
        isinstance(c, ast.Call) and ast.unparse(c.func).endswith(".stop") for c in ast.walk(n))]
    if len(loops) != 1 or not isinstance(loops[0].target, ast.Name):
        raise Unsupported("Logger.remove: handler loop not found")
    loop = loops[0]
    key = loop.target.id
    body = loop.body
    # what the loop runs over: every id of the registry as it is when the call starts (handler_id None), or the one id
    it = loop.iter
    if isinstance(it, ast.Name):
        srcs = set()
        for n in ast.walk(fn):
            if isinstance(n, ast.Assign) and len(n.targets) == 1 and ast.unparse(n.targets[0]) == it.id:
                srcs.add(ast.unparse(n.value))
            if isinstance(n, ast.Assign) and isinstance(n.value, ast.IfExp) and len(n.targets) == 1 \
                    and ast.unparse(n.targets[0]) == it.id:
                srcs.discard(ast.unparse(n.value))
                srcs |= {ast.unparse(n.value.body), ast.unparse(n.value.orelse)}
        ok = {"list(self._core.handlers)", "list(self._core.handlers.keys())", "[handler_id]"}
        if not (srcs <= ok and "[handler_id]" in srcs and len(srcs) == 2):
            raise Unsupported("Logger.remove: the loop runs over %r" % (sorted(srcs),))
    else:
        raise Unsupported("Logger.remove: the loop runs over " + ast.unparse(it))
    if loop.orelse:
        raise Unsupported("Logger.remove: for/else")
    if any(isinstance(s, (ast.Try, ast.With, ast.If, ast.For, ast.While)) for s in body):
        raise Unsupported("Logger.remove: control flow inside the loop")
    idx = {}
    reg = popped = None
    for k, st in enumerate(body):
        src = ast.unparse(st)
        if isinstance(st, ast.Assign) and len(st.targets) == 1:
            tgt, val = ast.unparse(st.targets[0]), ast.unparse(st.value)
            if val == "self._core.handlers.copy()" and isinstance(st.targets[0], ast.Name):
                reg, idx["copy"] = tgt, k
            elif reg and val == "%s.pop(%s)" % (reg, key) and isinstance(st.targets[0], ast.Name):
                popped, idx["pop"] = tgt, k
            elif tgt == "self._core.handlers":
                if val != reg:
                    raise Unsupported("Logger.remove: publishes " + val)
                idx["pub"] = k
            elif tgt == "self._core.min_level":
                if not val.startswith("min("):
                    raise Unsupported("Logger.remove: min_level = " + val)
                idx["min"] = k
        elif isinstance(st, ast.Expr) and isinstance(st.value, ast.Call) and popped \
                and src == "%s.stop()" % popped:
            idx["stop"] = k
    missing = [x for x in ("copy", "pop", "pub", "min", "stop") if x not in idx]
    if missing:
        raise Unsupported("Logger.remove: not found in the loop: %s" % missing)
    if not (idx["copy"] < idx["pop"] < idx["pub"] and idx["pop"] < idx["min"]):
        raise Unsupported("Logger.remove: registry computed in an unexpected order")
    # the levels min_level is computed from must be those of the REDUCED registry
    between = " ".join(ast.unparse(s) for s in body[idx["pop"]:idx["min"] + 1])
    if "%s.values()" % reg not in between:
        raise Unsupported("Logger.remove: min_level not computed from the reduced registry")
    return idx["pub"] < idx["stop"] and idx["min"] < idx["stop"]


def shape_log(tree):
    fn = find_func(tree, "_log", cls="Logger")
    last = fn.body[-1]
    if not (isinstance(last, ast.For) and ast.unparse(last.iter) == "core.handlers.values()" and not last.orelse
            and len(last.body) == 1 and isinstance(last.body[0], ast.Expr)
            and isinstance(last.body[0].value, ast.Call)
            and ast.unparse(last.body[0].value.func) == "handler.emit"):
        raise Unsupported("Logger._log: handler loop changed: " + ast.unparse(last)[:200])
    return True


# ----------------------------------------------------------------------------- ErrorInterceptor.print
def shape_print(tree):
    """-> (returns at once without stderr, swallowed classes, str(record) guarded, the stream is looked up AT EACH
    CALL (not kept in an attribute from an earlier report))"""
    fn = find_func(tree, "print", cls="ErrorInterceptor")
    body = strip_doc(fn.body)
    # which object receives the report?
    recv = set()
    for c in calls_in(fn):
        f = ast.unparse(c.func)
        if f.endswith(".write"):
            recv.add(f[:-len(".write")])
        if f == "traceback.print_exception":
            if len(c.args) >= 5:
                recv.add(ast.unparse(c.args[4]))
            else:
                recv |= {ast.unparse(k.value) for k in c.keywords if k.arg == "file"} or {"?"}
    if len(recv) != 1:
        raise Unsupported("ErrorInterceptor.print: report written to several objects: %r" % (sorted(recv),))
    stream = recv.pop()
    stores_state = any(isinstance(n, (ast.Assign, ast.AugAssign, ast.AnnAssign)) and any(
        ast.unparse(t).startswith("self.") for t in (n.targets if isinstance(n, ast.Assign) else [n.target]))
        for n in ast.walk(fn))
    if stream == "sys.stderr":
        per_call = not stores_state
    else:
        src = [ast.unparse(n.value) for n in ast.walk(fn) if isinstance(n, ast.Assign)
               and any(ast.unparse(t) == stream for t in n.targets)]
        if src == ["sys.stderr"] and not stores_state:
            per_call = True
        elif src and all(x.startswith("self.") or x == "sys.stderr" for x in src):
            per_call = False          # taken from an attribute: state that survives between reports
        else:
            raise Unsupported("ErrorInterceptor.print: where does %s come from? %r" % (stream, src))
    skip = [x for x in body if isinstance(x, ast.If) and ast.unparse(x) == "if not %s:\n    return" % stream]
    skips = len(skip) == 1 and all(not isinstance(x, ast.Try) for x in body[:body.index(skip[0])])

    class Norm(ast.NodeTransformer):
        def visit_Name(self, node):
            return ast.parse("sys.stderr", mode="eval").body if node.id == stream else node
    if stream != "sys.stderr":
        body = [Norm().visit(x) for x in body]
    tries = [s for s in body if isinstance(s, ast.Try)]
    if len(tries) != 1 or body[-1] is not tries[0]:
        raise Unsupported("ErrorInterceptor.print: outer try not found / not last")
    t = tries[0]
    if t.orelse:
        raise Unsupported("ErrorInterceptor.print: try/else")
    swallowed = []
    for h in t.handlers:
        if [ast.unparse(s) for s in h.body] != ["pass"]:
            raise Unsupported("ErrorInterceptor.print: handler body is not `pass`")
        swallowed += caught_set(h.type)
    for s in t.finalbody:
        if not isinstance(s, ast.Delete):
            raise Unsupported("ErrorInterceptor.print: finally does more than `del`")
    writes = [ast.unparse(s) for s in t.body if not isinstance(s, ast.Try)]
    if not (writes and writes[0].startswith("sys.stderr.write('--- Logging error in Loguru Handler #%d ---\\n' % self._handler_id")):
        raise Unsupported("ErrorInterceptor.print: header line changed")
    rec_line = [x for x in t.body if isinstance(x, ast.Expr) and isinstance(x.value, ast.Call)
                and ast.unparse(x.value.func) == "sys.stderr.write" and len(x.value.args) == 1
                and isinstance(x.value.args[0], ast.BinOp) and isinstance(x.value.args[0].op, ast.Mod)
                and isinstance(x.value.args[0].left, ast.Constant) and x.value.args[0].left.value == "Record was: %s\n"
                and isinstance(x.value.args[0].right, ast.Name)]
    if len(rec_line) != 1:
        raise Unsupported("ErrorInterceptor.print: record line changed")
    repr_name = rec_line[0].value.args[0].right.id
    inner = [s for s in t.body if isinstance(s, ast.Try)]
    guards = False
    cls = find_class(tree, "ErrorInterceptor")
    helper_calls = [x for x in t.body if isinstance(x, ast.Assign) and len(x.targets) == 1
                    and ast.unparse(x.targets[0]) == repr_name and isinstance(x.value, ast.Call)
                    and isinstance(x.value.func, ast.Attribute)
                    and ast.unparse(x.value.func.value) in ("self", "ErrorInterceptor", "type(self)")
                    and [ast.unparse(a) for a in x.value.args] == ["record"] and not x.value.keywords]
    if len(inner) == 0 and len(helper_calls) == 1:
        # the rendering of the record moved into a private helper of the class: follow it one level deep
        hf = find_func(cls, helper_calls[0].value.func.attr)
        hp = [a.arg for a in hf.args.args if a.arg not in ("self", "cls")]
        hbody = strip_doc(hf.body)
        if len(hp) == 1 and len(hbody) == 1 and isinstance(hbody[0], ast.Try):
            it = hbody[0]
            if [ast.unparse(x) for x in it.body] == ["return str(%s)" % hp[0]] and len(it.handlers) == 1 \
                    and len(caught_set(it.handlers[0].type)) == len(ALL) and not it.finalbody and not it.orelse \
                    and len(it.handlers[0].body) == 1 and isinstance(it.handlers[0].body[0], ast.Return) \
                    and isinstance(it.handlers[0].body[0].value, ast.Constant):
                guards = True
            else:
                raise Unsupported("ErrorInterceptor.print: helper %s has an unexpected try" % hf.name)
        elif len(hp) == 1 and [ast.unparse(x) for x in hbody] == ["return str(%s)" % hp[0]]:
            guards = False
        else:
            raise Unsupported("ErrorInterceptor.print: helper %s not understood" % hf.name)
    elif len(inner) == 1:
        it = inner[0]
        if [ast.unparse(s) for s in it.body] == ["%s = str(record)" % repr_name] and len(it.handlers) == 1 \
                and len(caught_set(it.handlers[0].type)) == len(ALL) and not it.finalbody and not it.orelse \
                and len(it.handlers[0].body) == 1 and isinstance(it.handlers[0].body[0], ast.Assign) \
                and ast.unparse(it.handlers[0].body[0].targets[0]) == repr_name:
            guards = True
        else:
            raise Unsupported("ErrorInterceptor.print: inner try changed")
    elif len(inner) == 0:
        if not any("str(record)" in w for w in writes):
            raise Unsupported("ErrorInterceptor.print: record is no longer rendered with str()")
    else:
        raise Unsupported("ErrorInterceptor.print: several inner try statements")
    # the statements of the try body, in order, as a program the model interprets (`Gen.printProgram`)
    prog = []
    for x in t.body:
        if isinstance(x, ast.Try) or any(x is hc for hc in helper_calls):
            prog.append("render %s" % ("true" if guards else "false"))
            continue
        if isinstance(x, ast.Assign) and len(x.targets) == 1 and ast.unparse(x.targets[0]) == repr_name \
                and ast.unparse(x.value) == "str(record)":
            prog.append("render false")
            continue
        if isinstance(x, ast.Expr) and isinstance(x.value, ast.Call) and not x.value.keywords:
            f = ast.unparse(x.value.func)
            a = x.value.args
            if f == "sys.stderr.write" and len(a) == 1:
                if isinstance(a[0], ast.Constant) and a[0].value == "--- End of logging error ---\n":
                    prog.append("write .footer")
                    continue
                if isinstance(a[0], ast.BinOp) and isinstance(a[0].op, ast.Mod) and isinstance(a[0].left, ast.Constant):
                    if a[0].left.value == "--- Logging error in Loguru Handler #%d ---\n" \
                            and ast.unparse(a[0].right) == "self._handler_id":
                        prog.append("write .header")
                        continue
                    if a[0].left.value == "Record was: %s\n" and isinstance(a[0].right, ast.Name) \
                            and a[0].right.id == repr_name:
                        prog.append("write .record")
                        continue
            if f == "traceback.print_exception" and len(a) == 5 and ast.unparse(a[4]) == "sys.stderr":
                prog.append("write .traceback")
                continue
        raise Unsupported("ErrorInterceptor.print: statement of the try body not understood: " + ast.unparse(x)[:120])
    # the record must have been rendered before its line is written
    if "write .record" in prog and not any(p.startswith("render") for p in prog[:prog.index("write .record")]):
        raise Unsupported("ErrorInterceptor.print: record line written before the record is rendered")
    # between the stderr test and the try: nothing that can fail on account of stderr or the record (the
    # exception triple is taken from sys.exc_info() / the argument)
    for x in body[:-1]:
        if x in skip:
            continue
        for c in calls_in(x):
            if ast.unparse(c.func) not in ("sys.exc_info", "type"):
                raise Unsupported("ErrorInterceptor.print: call before the try: " + ast.unparse(c)[:80])
    return skips, [e for e in ALL if e in swallowed], guards, per_call, prog


# ----------------------------------------------------------------------------- sinks / stop
def shape_stream(tree):
    """`StreamSink.write`: is the text written before the stream is flushed?  (the flag attribute may have any
    name: it is identified by what `__init__` stores in it)"""
    cls = find_class(tree, "StreamSink")
    fn = find_func(cls, "write")
    body = strip_doc(fn.body)
    defs = init_attr_defs(cls)
    w = [k for k, x in enumerate(body) if ast.unparse(x) == "self._stream.write(message)"]
    f = []
    for k, x in enumerate(body):
        if isinstance(x, ast.If) and not x.orelse and [ast.unparse(b) for b in x.body] == ["self._stream.flush()"] \
                and isinstance(x.test, ast.Attribute) and ast.unparse(x.test.value) == "self" \
                and defs.get(x.test.attr, "").replace('"', "'") == "callable(getattr(stream, 'flush', None))":
            f.append(k)
    if len(body) != 2 or len(w) != 1 or len(f) != 1:
        raise Unsupported("StreamSink.write changed: %r" % ([ast.unparse(x) for x in body],))
    return w[0] < f[0]


def shape_sink_stop(ss_tree, fs_tree):
    """what the `stop()` method of every sink class does -> {SinkKind: StopAct}"""
    out = {}

    def classify(cls_name, tree):
        cls = find_class(tree, cls_name)
        fn = find_func(cls, "stop")
        body = strip_doc(fn.body)
        src = [ast.unparse(x) for x in body]
        if src == ["pass"] or not body:
            return "noUserCode"
        defs = init_attr_defs(cls)
        # `for t in self.<own task set>: t.cancel()` – cancels its own tasks, no user code
        if len(body) == 1 and isinstance(body[0], ast.For) and isinstance(body[0].target, ast.Name) \
                and _is_self_attr_chain(body[0].iter) and not body[0].orelse \
                and [ast.unparse(x) for x in body[0].body] == ["%s.cancel()" % body[0].target.id] \
                and "WeakSet" in defs.get(body[0].iter.attr, ""):
            return "noUserCode"
        # `if self.<flag>: self._stream.stop()` with flag = callable(getattr(stream, 'stop', None))
        if len(body) == 1 and isinstance(body[0], ast.If) and not body[0].orelse \
                and isinstance(body[0].test, ast.Attribute) and ast.unparse(body[0].test.value) == "self" \
                and defs.get(body[0].test.attr, "").replace('"', "'") == "callable(getattr(stream, 'stop', None))" \
                and [ast.unparse(x) for x in body[0].body] == ["self._stream.stop()"]:
            return "userIfCapable"
        if src == ["self._handler.close()"]:
            return "userAlways"
        raise Unsupported("%s.stop changed: %r" % (cls_name, src))
    out["stream"] = out["streamFlush"] = classify("StreamSink", ss_tree)
    out["standard"] = classify("StandardSink", ss_tree)
    out["coroutine"] = classify("AsyncSink", ss_tree)
    out["callable"] = classify("CallableSink", ss_tree)
    # the file sink's stop() closes the file and runs compression / retention: user callables may run (C08/C18 own
    # its shape); what matters here is that it exists
    find_func(find_class(fs_tree, "FileSink"), "stop")
    out["file"] = "userAlways"
    return out


def shape_stop(tree):
    """-> (`_stopped = True` first, lock statement is `self._protected_lock()` rather than the bare `self._lock`)"""
    fn = find_func(tree, "stop", cls="Handler")
    body = strip_doc(fn.body)
    if not (len(body) == 1 and isinstance(body[0], ast.With) and len(body[0].items) == 1):
        raise Unsupported("Handler.stop is not one with-statement")
    ctx = ast.unparse(body[0].items[0].context_expr)
    if ctx == "self._protected_lock()":
        protected = True
    elif ctx == "self._lock":
        protected = False
    else:
        raise Unsupported("Handler.stop: lock statement is " + ctx)
    wb = [ast.unparse(s) for s in body[0].body]
    if wb[-1] != "self._sink.stop()":
        raise Unsupported("Handler.stop: sink.stop() is not the last statement")
    if "self._stopped = True" not in wb:
        raise Unsupported("Handler.stop: _stopped is not set")
    # an enqueue handler: sentinel into the pipe, then the worker is joined – both before the sink is stopped
    enq = [x for x in body[0].body if isinstance(x, ast.If) and ast.unparse(x.test) == "self._enqueue" and not x.orelse]
    if len(enq) != 1:
        raise Unsupported("Handler.stop: `if self._enqueue:` block not found")
    calls = [ast.unparse(c) for x in enq[0].body for c in calls_in(x)]
    if "self._queue.put(None)" not in calls or "self._thread.join()" not in calls:
        raise Unsupported("Handler.stop: sentinel / join not found in the enqueue block: %r" % (calls,))
    drains = calls.index("self._queue.put(None)") < calls.index("self._thread.join()") \
        and body[0].body.index(enq[0]) < len(body[0].body) - 1
    for x in enq[0].body:
        if isinstance(x, (ast.Try, ast.With, ast.For, ast.While)):
            raise Unsupported("Handler.stop: control flow in the enqueue block")
    return wb.index("self._stopped = True") == 0, protected, drains


def shape_tasks(tree):
    """`Handler.tasks_to_complete`: a non-enqueue handler collects its tasks under `_protected_lock()`"""
    fn = normalize(find_func(tree, "tasks_to_complete", cls="Handler"))
    body = strip_doc(fn.body)
    w = body[-1]
    if not (isinstance(w, ast.With) and len(w.items) == 1
            and [ast.unparse(x) for x in w.body] == ["return self._sink.tasks_to_complete()"]):
        raise Unsupported("Handler.tasks_to_complete changed: %r" % ([ast.unparse(x) for x in body],))
    ctx = w.items[0].context_expr
    if isinstance(ctx, ast.Name):
        vals = [x.value for x in body[:-1] if isinstance(x, ast.Assign) and len(x.targets) == 1
                and ast.unparse(x.targets[0]) == ctx.id]
        if len(vals) != 1:
            raise Unsupported("Handler.tasks_to_complete: lock variable assigned %d times" % len(vals))
        ctx = vals[0]
    if not (isinstance(ctx, ast.IfExp) and ast.unparse(ctx.test) == "self._enqueue"
            and ast.unparse(ctx.body) == "self._queue_lock"):
        raise Unsupported("Handler.tasks_to_complete: lock choice changed: " + ast.unparse(ctx))
    other = ast.unparse(ctx.orelse)
    if other == "self._protected_lock()":
        return True
    if other == "self._lock":
        return False
    raise Unsupported("Handler.tasks_to_complete: lock of a non-enqueue handler is " + other)


def shape_async_write(tree):
    """which error kinds raised while the task is being scheduled (`self._function(message)`,
    `loop.create_task(...)`) are silently swallowed by `AsyncSink.write` -> list of Py.Err names.
    As written: none – the `except RuntimeError: return` guards the loop lookup only."""
    cls = find_class(tree, "AsyncSink")
    w = find_func(cls, "write")
    body = strip_doc(w.body)
    if not body or not isinstance(body[0], ast.Try):
        raise Unsupported("AsyncSink.write does not start with the loop lookup try")
    t = body[0]
    if t.finalbody or t.orelse or len(t.handlers) != 1 or [ast.unparse(x) for x in t.handlers[0].body] != ["return"]:
        raise Unsupported("AsyncSink.write: loop lookup handler changed")
    if not t.body or ast.unparse(t.body[0]) != "loop = self._loop or get_running_loop()":
        raise Unsupported("AsyncSink.write: loop lookup changed")
    guarded = caught_set(t.handlers[0].type)

    def schedules(node):
        return any(ast.unparse(c.func).endswith(".create_task") or ast.unparse(c.func) == "self._function"
                   for c in calls_in(node))
    inside = any(schedules(x) for x in t.body[1:])
    outside = [x for x in body[1:] if not isinstance(x, ast.FunctionDef) and schedules(x)]
    for x in body[1:]:
        if isinstance(x, (ast.Try, ast.With)) and schedules(x):
            raise Unsupported("AsyncSink.write: scheduling wrapped in another try/with")
    if not inside and not outside:
        raise Unsupported("AsyncSink.write: create_task not found")
    return guarded if inside else []


def shape_task(tree):
    cls = find_class(tree, "AsyncSink")
    fn = None
    for n in ast.walk(cls):
        if isinstance(n, ast.FunctionDef) and n.name == "check_exception":
            fn = n
    if fn is None:
        raise Unsupported("AsyncSink.write: check_exception not found")
    src = [ast.unparse(s) for s in fn.body]
    want = ["if future.cancelled() or future.exception() is None:\n    return",
            "if not self._error_interceptor.should_catch():\n    raise future.exception()",
            "self._error_interceptor.print(message.record, exception=future.exception())"]
    if src != want:
        raise Unsupported("AsyncSink.check_exception changed: %r" % (src,))
    w = find_func(cls, "write")
    ws = [ast.unparse(s) for s in w.body]
    if "task.add_done_callback(check_exception)" not in ws:
        raise Unsupported("AsyncSink.write: done-callback no longer registered")
    return True, True


def shape_complete_task(tree):
    """`AsyncSink._complete_task`: which error kinds of the awaited task are swallowed there (so that they do not reach
    the caller of `await logger.complete()`); and `AsyncSink.tasks_to_complete` hands one such wrapper per task"""
    cls = find_class(tree, "AsyncSink")
    fn = None
    for n in cls.body:
        if isinstance(n, ast.AsyncFunctionDef) and n.name == "_complete_task":
            fn = n
    if fn is None:
        raise Unsupported("AsyncSink._complete_task not found")
    params = [a.arg for a in fn.args.args if a.arg != "self"]
    if len(params) != 1:
        raise Unsupported("AsyncSink._complete_task: parameters changed")
    tries = [x for x in strip_doc(fn.body) if isinstance(x, ast.Try)]
    awaits = [n for n in ast.walk(fn) if isinstance(n, ast.Await) and ast.unparse(n.value) == params[0]]
    if len(awaits) != 1:
        raise Unsupported("AsyncSink._complete_task: the task is awaited %d times" % len(awaits))
    if not tries:
        return []                                   # awaited unguarded: nothing is swallowed
    if len(tries) != 1 or strip_doc(fn.body)[-1] is not tries[0]:
        raise Unsupported("AsyncSink._complete_task: try statement not last / several")
    t = tries[0]
    if [ast.unparse(x) for x in t.body] != ["await %s" % params[0]] or t.orelse or t.finalbody:
        raise Unsupported("AsyncSink._complete_task: try body changed")
    sw = []
    for h in t.handlers:
        if [ast.unparse(x) for x in h.body] != ["pass"]:
            raise Unsupported("AsyncSink._complete_task: handler body is not `pass`")
        sw += caught_set(h.type)
    ttc = find_func(cls, "tasks_to_complete")
    rets = [x for x in strip_doc(ttc.body) if isinstance(x, ast.Return)]
    if len(rets) != 1 or not isinstance(rets[0].value, ast.ListComp) \
            or not ast.unparse(rets[0].value.elt).startswith("self._complete_task(") \
            or ast.unparse(rets[0].value.generators[0].iter) != "self._tasks":
        raise Unsupported("AsyncSink.tasks_to_complete changed")
    return [e for e in ALL if e in sw]


def generate():
    errors = []
    body = "import LoguruModel.Emit.Base\nnamespace Emit.Gen\n\n"
    try:
        h, _ = parse_module("_handler.py")
        caught, order, raw_skips = shape_emit(h)
        body += lean_pred("emitCaught", caught, "error kinds covered by the `except` clause around `Handler.emit`'s pipeline")
        body += "/-- order of the stages that run before `_protected_lock` in `Handler.emit` -/\n"
        body += "def preLockStages : List Stage := [%s]\n" % ", ".join("." + s for s in order)
        body += lean_bool("rawSkipsFormatMap", raw_skips, "`Handler.emit`: the `is_raw` branch emits the message as it is, no `format_map` call in it")
        chk, fin, per = shape_lock(h)
        body += lean_bool("markerCheckedBeforeSet", chk, "`_protected_lock`: the re-entrancy test raises before the marker is set, outside the try")
        body += lean_bool("markerResetInFinally", fin, "`_protected_lock`: the marker is reset in a `finally`")
        body += lean_bool("markerPerThread", per, "`_protected_lock`: the marker is a `threading.local()` (created in __init__ and __setstate__), not one attribute shared by all threads")
        wcaught, ag, aw = shape_worker(h)
        body += lean_pred("workerCaught", wcaught, "error kinds covered by the two `except` clauses of `_queued_writer`")
        body += "/-- what the `get` arm of `_queued_writer` does after reporting -/\ndef workerGetArm : Arm := .%s\n" % ag
        body += "/-- what the `write` arm of `_queued_writer` does after reporting -/\ndef workerWriteArm : Arm := .%s\n" % aw
        first, prot, drains = shape_stop(h)
        body += lean_bool("stopDrainsBeforeSinkStop", drains, "`Handler.stop` of an enqueue handler: sentinel into the pipe, worker joined, and only then `sink.stop()`")
        body += lean_bool("stopMarksStoppedFirst", first, "`Handler.stop`: `_stopped = True` is the first statement under the lock")
        body += lean_bool("stopUsesProtectedLock", prot, "`Handler.stop`: takes the lock through `_protected_lock()` (re-entrancy detected), not the bare `self._lock`")
        body += lean_bool("tasksUseProtectedLock", shape_tasks(h), "`Handler.tasks_to_complete`: a non-enqueue handler uses `_protected_lock()`")
        lg, _ = parse_module("_logger.py")
        body += lean_bool("removeUnpublishesFirst", shape_remove(lg), "`Logger.remove`: the reduced registry and min_level are published before `handler.stop()`")
        body += lean_bool("logLoopUnguarded", shape_log(lg), "`Logger._log`: plain loop over the handlers, an exception of `emit` aborts it")
        ei, _ = parse_module("_error_interceptor.py")
        skips, sw, guards, percall, prog = shape_print(ei)
        body += lean_bool("printSkipsWhenNoStderr", skips, "`ErrorInterceptor.print`: returns at once when `sys.stderr` is falsy")
        body += lean_pred("printSwallows", sw, "error kinds of a failing `sys.stderr` that `print` swallows")
        body += lean_bool("printResolvesStderrPerCall", percall, "`ErrorInterceptor.print`: `sys.stderr` is looked up at each report, nothing is remembered from an earlier one")
        body += lean_bool("printGuardsRecordStr", guards, "`ErrorInterceptor.print`: `str(record)` failure replaced by a placeholder")
        body += "/-- the statements of the `try` body of `ErrorInterceptor.print`, in the order the code has them -/\n"
        body += "def printProgram : List PStep := [%s]\n" % ", ".join("." + p for p in prog)
        ss, _ = parse_module("_simple_sinks.py")
        body += lean_bool("streamFlushAfterWrite", shape_stream(ss), "`StreamSink.write`: write, then flush")
        body += lean_pred("asyncScheduleSwallows", shape_async_write(ss), "error kinds raised while a coroutine sink schedules its task (`create_task`) that `AsyncSink.write` silently swallows")
        fs, _ = parse_module("_file_sink.py")
        table = shape_sink_stop(ss, fs)
        body += "/-- what `stop()` of each sink class does: run no user code / the stream's `stop()` if it has one / always user code -/\n"
        body += "def sinkStop (k : SinkKind) : StopAct :=\n  match k with\n"
        for kind in ("callable", "stream", "streamFlush", "file", "coroutine", "standard"):
            body += "  | .%s => .%s\n" % (kind, table[kind])
        body += lean_pred("completeTaskSwallows", shape_complete_task(ss), "error kinds of an awaited task that `AsyncSink._complete_task` swallows (they are the done-callback's business)")
        r1, r2 = shape_task(ss)
        body += lean_bool("taskCallbackRetrieves", r1, "`AsyncSink`: a done-callback retrieves the task's exception")
        body += lean_bool("taskCallbackReraises", r2, "`AsyncSink`: with catch=False the callback re-raises it (loop exception handler)")
    except (Unsupported, SyntaxError, KeyError, AttributeError, IndexError, OSError) as e:
        errors.append("%s: %s" % (type(e).__name__, e))
    body += "\nend Emit.Gen\n"
    return emit("EmitShape", body,
                ["loguru/_handler.py", "loguru/_logger.py", "loguru/_error_interceptor.py", "loguru/_simple_sinks.py",
                 "loguru/_file_sink.py"],
                errors)
