#!/usr/bin/env python3
"""Tie G (DESIGN §1.3): regenerate lean/LoguruModel/Generated/*.lean from /repo's *current* source.

Every module `tools/extractors/*.py` exposes `generate() -> bool` and writes one Generated file
through `extract_lib.emit` (which only touches files whose content changed and fails closed).

Usage: extract.py [/repo]
"""
import importlib
import os
import sys

HERE = os.path.dirname(os.path.abspath(__file__))
sys.path.insert(0, HERE)
import extract_lib  # noqa: E402


def main():
    if len(sys.argv) > 1:
        extract_lib.set_repo(sys.argv[1])
    ok = True
    names = sorted(f[:-3] for f in os.listdir(os.path.join(HERE, "extractors")) if f.endswith(".py") and f != "__init__.py")
    only = os.environ.get("VERIF_EXTRACT_ONLY")
    for n in names:
        if only and n not in only.split(","):
            continue
        try:
            mod = importlib.import_module("extractors." + n)
            r = mod.generate()
            if not r:
                print("extract: %s: extraction failed (fail closed)" % n)
            ok = r and ok
        except Exception as e:  # never crash: fail closed per file
            print("extract: %s crashed: %r" % (n, e))
            ok = False
    print("extract: %s" % ("ok" if ok else "some tables could not be extracted (fail closed)"))
    sys.exit(0 if ok else 1)


if __name__ == "__main__":
    main()
