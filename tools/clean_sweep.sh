#!/bin/sh
# Clean-tree sweep (DESIGN §8.1): every quick check with several seeds on the unchanged tree; all must exit 0.
# usage: tools/clean_sweep.sh [tier] [parallelism] [seeds...]      (writes /tmp/clean_sweep.log)
cd "$(dirname "$0")/.." || exit 2
TIER=${1:-quick}; P=${2:-4}; shift; shift
SEEDS=${*:-0 1 2 7 12345}
: > /tmp/clean_sweep.log
for s in $SEEDS; do for c in 01 02 03 04 05 06 07 08 09 10 11 12 13 14 15 16 17 18 19 20; do echo "$s C$c"; done; done |
  xargs -P "$P" -L 1 sh -c 'out=$(VERIF_SEED=$0 ./check $1 --tier '"$TIER"' 2>&1); rc=$?; echo "seed=$0 $1 rc=$rc $(echo "$out" | grep -E "^\[C" | tail -1)" >> /tmp/clean_sweep.log; [ $rc -ne 0 ] && echo "$out" | grep -E "VIOLATION|broken" | sed "s/^/    /" >> /tmp/clean_sweep.log; true'
grep -c "rc=0" /tmp/clean_sweep.log; grep -v "rc=0" /tmp/clean_sweep.log | grep -v '^    ' | head -40
