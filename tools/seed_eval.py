#!/usr/bin/env python3
"""Evaluate one seeded change delivered by an independent agent in /tmp/seed/out/<ID>/ (patch.diff, demo.py,
notes.md; optional patch2.diff/demo2.py):  confirm it in a fresh scratch worktree (demo passes on the original,
fails with the patch, the pinned test suite still passes), run the property's quick check against the patched
tree, and store everything under /verif/seeded/<name>/.   Usage: seed_eval.py C07 [2]"""
import json, os, shutil, subprocess, sys, time

V = os.path.dirname(os.path.dirname(os.path.abspath(__file__)))
pid = sys.argv[1]
suffix = sys.argv[2] if len(sys.argv) > 2 else ""
ROUND = os.environ.get("SEED_ROUND", "1")          # round 2 seeds live in /tmp/seed2 and are named -c / -d
src = "/tmp/seed%s/out/%s" % ("" if ROUND == "1" else ROUND, pid)
patch = os.path.join(src, "patch%s.diff" % suffix)
demo = os.path.join(src, "demo%s.py" % suffix)
name = "%s-%s" % (pid, {"1": "abx", "2": "cde", "3": "fgh", "4": "ijk", "5": "lmn", "6": "opq"}[ROUND][int(suffix) - 1 if suffix else 0])
if not os.path.exists(patch) or os.environ.get("SEED_STORED"):   # re-evaluation of a stored seed
    src = os.path.join(V, "seeded", name)
    patch, demo = os.path.join(src, "patch.diff"), os.path.join(src, "demo.py")
wt = "/tmp/eval_%s" % name


def sh(cmd, **kw):
    p = subprocess.run(cmd, shell=True, stdout=subprocess.PIPE, stderr=subprocess.STDOUT, text=True, **kw)
    return p.returncode, p.stdout


def run_demo():
    try:
        return sh("cd %s && PYTHONPATH=%s timeout 300 /venv/bin/python %s" % (wt, wt, demo))
    except Exception as e:
        return 99, str(e)


meta = {"id": name, "property": pid, "source": "independent sub-agent (given only the property text and a scratch worktree)"}
sh("git -C /repo worktree remove --force %s" % wt)
rc, out = sh("git -C /repo worktree add --detach %s HEAD" % wt)
assert rc == 0, out
try:
    rc0, out0 = run_demo()
    meta["demo_on_original"] = {"exit": rc0, "tail": out0[-300:]}
    rc, out = sh("git -C %s apply %s" % (wt, patch))
    meta["patch_applies"] = rc == 0
    if rc != 0:
        meta["apply_error"] = out[-500:]
    rc1, out1 = run_demo()
    meta["demo_with_patch"] = {"exit": rc1, "tail": out1[-600:]}
    prev = {}
    if os.environ.get("SEED_NOBASELINE") and os.path.exists(os.path.join(V, "seeded", name, "meta.json")):
        prev = json.load(open(os.path.join(V, "seeded", name, "meta.json")))   # suite result of the first confirmation
    if prev.get("test_suite_ok"):
        rcb, meta["test_suite_with_patch"] = 0, prev.get("test_suite_with_patch", "") 
    else:
        rcb, outb = sh("python3 %s/tools/baseline.py --fast --repo %s" % (V, wt))
        meta["test_suite_with_patch"] = outb.strip().splitlines()[-1] if outb.strip() else ""
    meta["test_suite_ok"] = rcb == 0
    meta["confirmed"] = bool(rc0 == 0 and meta["patch_applies"] and rc1 != 0 and rcb == 0)
    checks = {}
    VC = "/tmp/evalverif_%s" % name
    # the COMMITTED machinery (git archive of HEAD, not the working tree: workers copy files back between commits)
    sh("rm -rf %s && mkdir -p %s && cd %s && git archive HEAD | tar -x -C %s && cp -r lean/.lake %s/lean/.lake"
       % (VC, VC, V, VC, VC))
    for prop in [pid] + [a for a in sys.argv[3:]]:
        t0 = time.time()
        rcc, outc = sh("cd %s && VERIF_REPO=%s ./check %s --tier quick" % (VC, wt, prop))
        lines = [l for l in outc.splitlines() if l.startswith(("VIOLATION", "KNOWN-FINDING", "[" + prop, "  broken"))]
        what = ""
        rp = [l.split("replay=")[1].split()[0] for l in lines if l.startswith("VIOLATION")]
        if rp:
            try:
                what = json.load(open(os.path.join(VC, rp[0]))).get("what", "")[:500]
            except Exception:
                pass
        checks[prop] = {"exit": rcc, "lines": lines[:8], "what": what, "wall_s": round(time.time() - t0, 1)}
    meta["checks"] = checks
    meta["detected"] = checks[pid]["exit"] == 1
    meta["detected_with_failing_input"] = any(l.startswith("VIOLATION") and "no-failing-input-found" not in l
                                              for l in checks[pid]["lines"])
finally:
    sh("git -C /repo worktree remove --force %s" % wt)
    sh("rm -rf /tmp/evalverif_%s" % name)
dst = os.path.join(V, "seeded", name)
os.makedirs(dst, exist_ok=True)
if os.path.abspath(src) != os.path.abspath(dst):
    shutil.copy(patch, os.path.join(dst, "patch.diff"))
    shutil.copy(demo, os.path.join(dst, "demo.py"))
    if os.path.exists(os.path.join(src, "notes.md")):
        shutil.copy(os.path.join(src, "notes.md"), os.path.join(dst, "notes.md"))
if os.path.exists(os.path.join(dst, "notes.md")):
    meta["needs_to_manifest"] = "see notes.md"
meta["what_i_ran"] = ("fresh worktree of /repo HEAD under /tmp; demo on original; git apply patch; demo with patch; "
                      "tools/baseline.py --fast --repo <worktree> (pinned suite vs BASELINE.json); "
                      "VERIF_REPO=<worktree> ./check %s --tier quick (from a private copy of the committed /verif); worktree removed" % pid)
json.dump(meta, open(os.path.join(dst, "meta.json"), "w"), indent=1)
print(json.dumps({k: meta[k] for k in ("id", "confirmed", "detected", "detected_with_failing_input")}))
print(json.dumps(meta.get("checks", {}), indent=1)[:1500])
