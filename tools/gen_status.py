#!/usr/bin/env python3
"""Regenerate the generated parts of DESIGN.md:
   * the per-property table of §0.1 (between <!-- STATUS-TABLE --> markers): theorem counts of Props/Cxx.lean,
     statements kept partial, known findings, repaired defects (from known_findings.json);
   * the table of §11 (between <!-- SEED-TABLE --> markers) from seeded/*/meta.json (tools/seed_table.py).
Nothing else of DESIGN.md is touched."""
import json, os, re, subprocess, sys

V = os.path.dirname(os.path.dirname(os.path.abspath(__file__)))


def status_table():
    kf = json.load(open(os.path.join(V, "known_findings.json")))["findings"]
    out = ["| Id | theorems in `Props/Cxx.lean` | statements kept partial (`_statement` def / `_partial` theorem) | known findings | defects repaired (`fix:` commits) |",
           "|----|------|------|------|------|"]
    total = 0
    for i in range(1, 21):
        pid = "C%02d" % i
        src = open(os.path.join(V, "lean", "LoguruModel", "Props", pid + ".lean")).read()
        src = re.sub(r"/-.*?-/", "", src, flags=re.S)
        names = re.findall(r"^(?:theorem|def|abbrev)\s+(\S+)", src, re.M)
        th = re.findall(r"^theorem\s+(\S+)", src, re.M)
        total += len(th)
        part = [n for n in names if re.search(r"_(statement|partial|statement_false)$", n)]
        known = [f["id"] for f in kf if f["property"] == pid and f["status"] == "known"]
        fixed = ["%s@%s" % (f["id"], f["commit"]) for f in kf if f["property"] == pid and f["status"] == "fixed"]
        out.append("| %s | %d | %s | %s | %s |" % (pid, len(th), ", ".join("`%s`" % p for p in part) or "–",
                                                  ", ".join(known) or "–", ", ".join(fixed) or "–"))
    out.append("| all | %d | | | |" % total)
    return "\n".join(out)


def defects_table():
    kf = json.load(open(os.path.join(V, "known_findings.json")))["findings"]
    out = ["| # | Prop | status | what fails | why not repaired |", "|---|------|--------|-----------|------|"]
    for f in sorted(kf, key=lambda f: int(f["id"][1:])):
        st = "known" if f["status"] == "known" else "fixed " + f["commit"]
        what = f["what"]
        if f["status"] == "fixed":
            what = what.split(f["commit"] + " ", 1)[-1]
        out.append("| %s | %s | %s | %s | %s |" % (f["id"], f["property"], st, what.replace("|", "/"),
                                                   f.get("why_not_fixed", "").replace("|", "/")))
    return "\n".join(out)


def seed_table():
    return subprocess.run([sys.executable, os.path.join(V, "tools", "seed_table.py")], stdout=subprocess.PIPE, text=True,
                          check=True).stdout.rstrip()


def refac_table():
    import glob
    rows = ["| refactoring | file(s) | suite green | verdict per check (ok = exit 0; tie = exit 1, no-failing-input-found) |",
            "|---|---|---|---|"]
    nfalse = ncrash = 0
    for f in sorted(glob.glob(os.path.join(V, "seeded", "refactorings", "*", "meta.json"))):
        m = json.load(open(f))
        patch = open(os.path.join(os.path.dirname(f), "patch.diff")).read()
        files = sorted(set(re.findall(r"^\+\+\+ b/(\S+)", patch, re.M)))
        vs = []
        for k, v in sorted(m["checks"].items()):
            w = v["verdict"]
            nfalse += w == "FAILING-INPUT"
            ncrash += w.startswith("CRASH")
            vs.append("%s %s" % (k, "ok" if w == "ok" else "tie" if w == "tie-broken" else w))
        rows.append("| %s | %s | %s | %s |" % (m["id"], ", ".join(x.replace("loguru/", "") for x in files),
                                                "yes" if m.get("test_suite_ok") else "NO", "; ".join(vs)))
    rows.append("")
    rows.append("Concrete failing inputs reported on a refactoring (false alarms): **%d**; crashes of a check: **%d**." % (nfalse, ncrash))
    return "\n".join(rows)


def splice(text, tag, body):
    a, b = "<!-- %s -->" % tag, "<!-- /%s -->" % tag
    i, j = text.index(a), text.index(b)
    return text[:i + len(a)] + "\n" + body + "\n" + text[j:]


p = os.path.join(V, "DESIGN.md")
t = open(p).read()
t = splice(t, "STATUS-TABLE", status_table())
t = splice(t, "DEFECTS-TABLE", defects_table())
t = splice(t, "SEED-TABLE", seed_table())
t = splice(t, "REFAC-TABLE", refac_table())
open(p, "w").write(t)
print("DESIGN.md: status table and seed table regenerated")
