#!/usr/bin/env python3
"""Print the Lean modules imported by lean/drivers/*.lean (or by the drivers named on the command line):
they must be built before `lake env lean --run drivers/X.lean` can load them."""
import glob, os, re, sys
V = os.path.dirname(os.path.dirname(os.path.abspath(__file__)))


def imports_of(path):
    mods = []
    for line in open(path, encoding="utf8"):
        m = re.match(r"\s*import\s+(LoguruModel[\w.]*)", line)
        if m:
            mods.append(m.group(1))
    return mods


if __name__ == "__main__":
    names = sys.argv[1:]
    files = [os.path.join(V, "lean", "drivers", n + ".lean") for n in names] or sorted(glob.glob(os.path.join(V, "lean", "drivers", "*.lean")))
    out = []
    for f in files:
        for m in imports_of(f):
            if m not in out:
                out.append(m)
    print(" ".join(out))
