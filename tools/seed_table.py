#!/usr/bin/env python3
"""Print the §11 table of DESIGN.md from seeded/*/meta.json."""
import json, glob, os, re
V = os.path.dirname(os.path.dirname(os.path.abspath(__file__)))
rows = []
for f in sorted(glob.glob(os.path.join(V, "seeded", "*", "meta.json"))):
    m = json.load(open(f))
    d = os.path.dirname(f)
    notes = open(os.path.join(d, "notes.md")).read() if os.path.exists(os.path.join(d, "notes.md")) else ""
    patch = open(os.path.join(d, "patch.diff")).read()
    files = sorted(set(re.findall(r"^\+\+\+ b/(\S+)", patch, re.M)))
    c = m["checks"][m["property"]]
    broken = [l.strip()[8:] for l in c["lines"] if l.strip().startswith("broken:")]
    how = "failing input" if m["detected_with_failing_input"] else ("obligation only (no-failing-input-found)" if m["detected"] else "MISSED")
    rows.append("| %s | %s | %s | %s | %s | %s |" % (
        m["id"], ", ".join(files), "yes" if m["confirmed"] else "NO", how,
        "; ".join(broken)[:160].replace("|", "/") or "–", (c.get("what") or "").replace("|", "/").replace("\n", " ")[:200]))
print("| seed | files changed | confirmed (demo ±, suite green) | caught by `./check <prop> --tier quick` | broken obligations | failing input reported |")
print("|---|---|---|---|---|---|")
print("\n".join(rows))
