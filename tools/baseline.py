#!/usr/bin/env python3
"""Run /repo's pinned test suite and compare with /root/.vp/BASELINE.json stable_pass.
Usage: baseline.py [--fast]   (--fast adds `-n 8` via pytest-xdist; default mirrors BASELINE cmd)
Exit 0 iff every stable_pass test passes.  Never used by a registered check."""
import json, os, subprocess, sys, tempfile, xml.etree.ElementTree as ET
fast = "--fast" in sys.argv
repo = "/repo"
if "--repo" in sys.argv:
    repo = sys.argv[sys.argv.index("--repo") + 1]
base = json.load(open("/root/.vp/BASELINE.json"))
fd, xml = tempfile.mkstemp(suffix=".xml"); os.close(fd)
cmd = ["/venv/bin/python", "-m", "pytest", "-ra", "-q", "-p", "no:cacheprovider", "--timeout=900",
       "--continue-on-collection-errors", "--junitxml=" + xml]
if fast: cmd += ["-n", "8"]
env = dict(os.environ); env.pop("LOGURU_VERIF", None)
env["PYTHONPATH"] = repo
p = subprocess.run(cmd, cwd=repo, env=env, stdout=subprocess.PIPE, stderr=subprocess.STDOUT, text=True)
passed, failed = set(), set()
for tc in ET.parse(xml).getroot().iter("testcase"):
    tid = (tc.get("classname") or "") + "::" + (tc.get("name") or "")
    if tc.find("failure") is not None or tc.find("error") is not None: failed.add(tid)
    elif tc.find("skipped") is not None: pass
    else: passed.add(tid)
passed -= failed
os.unlink(xml)
missing = sorted(set(base["stable_pass"]) - passed)
# a heavily loaded machine makes a few timing-dependent tests fail: re-run the missing ones alone (serially), twice at most
for _attempt in range(2):
    if not missing or len(missing) > 25:
        break
    ids = []
    for m in missing:
        cls, name = m.split("::", 1)
        ids.append(cls.replace(".", "/") + ".py::" + name)
    fd, xml2 = tempfile.mkstemp(suffix=".xml"); os.close(fd)
    subprocess.run(["/venv/bin/python", "-m", "pytest", "-q", "-p", "no:cacheprovider", "--timeout=900", "--junitxml=" + xml2] + ids,
                   cwd=repo, env=env, stdout=subprocess.PIPE, stderr=subprocess.STDOUT, text=True)
    try:
        for tc in ET.parse(xml2).getroot().iter("testcase"):
            tid = (tc.get("classname") or "") + "::" + (tc.get("name") or "")
            if tc.find("failure") is None and tc.find("error") is None and tc.find("skipped") is None:
                passed.add(tid)
    finally:
        os.unlink(xml2)
    missing = sorted(set(base["stable_pass"]) - passed)
print("passed=%d failed=%d stable_pass=%d missing=%d" % (len(passed), len(failed), len(base["stable_pass"]), len(missing)))
for m in missing[:40]: print("  MISSING", m)
sys.exit(1 if missing else 0)
