#!/usr/bin/env python3
"""Evaluate behaviour-preserving refactorings delivered in /tmp/refac/out/<ID>/patchN.diff (false-alarm round):
for each patch: fresh worktree of /repo HEAD, apply, pinned suite (tools/baseline.py --fast), then the quick checks of
the properties anchored in the touched area, run from a private copy of the committed /verif.  Verdict per check:
  ok (exit 0) | tie-broken (exit 1 with no-failing-input-found: acceptable by design) |
  FAILING-INPUT (exit 1 with a concrete input: a false alarm unless the refactoring is not equivalent) | CRASH (other).
Results: /verif/seeded/refactorings/<ID>-<n>/{patch.diff, meta.json}.   Usage: refac_eval.py R03 C03,C04,C09 [n ...]"""
import json, os, shutil, subprocess, sys, time

V = os.path.dirname(os.path.dirname(os.path.abspath(__file__)))
rid, props = sys.argv[1], sys.argv[2].split(",")
ns = sys.argv[3:] or ["1", "2", "3", "4"]


def sh(cmd):
    p = subprocess.run(cmd, shell=True, stdout=subprocess.PIPE, stderr=subprocess.STDOUT, text=True)
    return p.returncode, p.stdout


VC = "/tmp/refacverif_%s" % rid
sh("rm -rf %s && mkdir -p %s && cd %s && git ls-files -z | xargs -0 cp --parents -t %s && cp -r lean/.lake %s/lean/.lake"
   % (VC, VC, V, VC, VC))
try:
    for n in ns:
        patch = "/tmp/refac/out/%s/patch%s.diff" % (rid, n)
        if not os.path.exists(patch):
            continue
        name = "%s-%s" % (rid, n)
        wt = "/tmp/refaceval_%s" % name
        sh("git -C /repo worktree remove --force %s" % wt)
        rc, out = sh("git -C /repo worktree add --detach %s HEAD" % wt)
        meta = {"id": name, "kind": "behaviour-preserving refactoring (independent sub-agent)", "checks": {}}
        try:
            rc, out = sh("git -C %s apply %s" % (wt, patch))
            meta["patch_applies"] = rc == 0
            if rc == 0:
                rcb, outb = sh("python3 %s/tools/baseline.py --fast --repo %s" % (V, wt))
                meta["test_suite_ok"] = rcb == 0
                for prop in props:
                    t0 = time.time()
                    rcc, outc = sh("cd %s && VERIF_REPO=%s timeout 1500 ./check %s --tier quick" % (VC, wt, prop))
                    lines = [l for l in outc.splitlines() if l.startswith(("VIOLATION", "[" + prop, "  broken", "  what"))]
                    viol = [l for l in lines if l.startswith("VIOLATION")]
                    if rcc == 0:
                        verdict = "ok"
                    elif rcc == 1 and viol and all("no-failing-input-found" in l for l in viol):
                        verdict = "tie-broken"
                    elif rcc == 1 and viol:
                        verdict = "FAILING-INPUT"
                    else:
                        verdict = "CRASH rc=%s" % rcc
                    meta["checks"][prop] = {"verdict": verdict, "lines": lines[:6], "wall_s": round(time.time() - t0, 1),
                                            "tail": outc[-600:] if verdict.startswith("CRASH") else ""}
        finally:
            sh("git -C /repo worktree remove --force %s" % wt)
        dst = os.path.join(V, "seeded", "refactorings", name)
        os.makedirs(dst, exist_ok=True)
        shutil.copy(patch, os.path.join(dst, "patch.diff"))
        json.dump(meta, open(os.path.join(dst, "meta.json"), "w"), indent=1)
        print(name, meta.get("patch_applies"), meta.get("test_suite_ok"),
              {k: v["verdict"] for k, v in meta["checks"].items()}, flush=True)
finally:
    sh("rm -rf %s" % VC)
