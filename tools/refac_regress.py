#!/usr/bin/env python3
"""Re-evaluate every stored behaviour-preserving refactoring (seeded/refactorings/<ID>/patch.diff) against the COMMITTED
machinery (git archive HEAD): fresh worktree of /repo HEAD, apply, run the quick checks recorded in its meta.json.
Verdicts (DESIGN §11.1): ok | tie (exit 1, no-failing-input-found) | FAILING-INPUT (false alarm) | CRASH.
Usage: refac_regress.py [parallelism] [pattern]"""
import json, os, re, subprocess, sys, time
from concurrent.futures import ThreadPoolExecutor

V = os.path.dirname(os.path.dirname(os.path.abspath(__file__)))
P = int(sys.argv[1]) if len(sys.argv) > 1 else 4
PAT = sys.argv[2] if len(sys.argv) > 2 else "R"


def sh(cmd):
    p = subprocess.run(cmd, shell=True, stdout=subprocess.PIPE, stderr=subprocess.STDOUT, text=True)
    return p.returncode, p.stdout


def one(name):
    d = os.path.join(V, "seeded", "refactorings", name)
    meta = json.load(open(os.path.join(d, "meta.json")))
    wt, VC = "/tmp/refaceval_%s" % name, "/tmp/refacverif_%s" % name
    sh("git -C /repo worktree remove --force %s" % wt)
    sh("git -C /repo worktree add --detach %s HEAD" % wt)
    try:
        rc, out = sh("git -C %s apply %s/patch.diff" % (wt, d))
        meta["patch_applies"] = rc == 0
        if rc != 0:
            meta["apply_error"] = out[-400:]
            return name, meta
        sh("rm -rf %s && mkdir -p %s && cd %s && git archive HEAD | tar -x -C %s && cp -r lean/.lake %s/lean/.lake" % (VC, VC, V, VC, VC))
        for prop in sorted(meta.get("checks", {})):
            t0 = time.time()
            rcc, outc = sh("cd %s && VERIF_REPO=%s ./check %s --tier quick" % (VC, wt, prop))
            viol = [l for l in outc.splitlines() if l.startswith("VIOLATION")]
            if rcc == 0 and not viol:
                verdict = "ok"
            elif rcc == 1 and viol and all("no-failing-input-found" in l for l in viol):
                verdict = "tie"
            elif rcc == 1:
                verdict = "FAILING-INPUT"
            else:
                verdict = "CRASH"
            meta["checks"][prop] = {"exit": rcc, "verdict": verdict, "wall_s": round(time.time() - t0, 1),
                                    "lines": [l for l in outc.splitlines() if l.startswith(("VIOLATION", "[" + prop, "  broken"))][:6]}
    finally:
        sh("git -C /repo worktree remove --force %s" % wt)
        sh("rm -rf %s" % VC)
    json.dump(meta, open(os.path.join(d, "meta.json"), "w"), indent=1)
    return name, meta


names = sorted(n for n in os.listdir(os.path.join(V, "seeded", "refactorings")) if re.match(PAT, n))
with ThreadPoolExecutor(P) as ex:
    for name, meta in ex.map(one, names):
        print(name, "applies" if meta.get("patch_applies") else "NOAPPLY", " ".join("%s:%s" % (k, v.get("verdict")) for k, v in sorted(meta.get("checks", {}).items())), flush=True)
