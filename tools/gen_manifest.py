#!/usr/bin/env python3
"""Assemble /verif/MANIFEST.json from manifest/Cxx.json (one file per claimed property) and
properties.jsonl; properties without a file are listed under not_applicable with the reason in
manifest/not_applicable.json."""
import json, os
V = os.path.dirname(os.path.dirname(os.path.abspath(__file__)))
props = [json.loads(l)["id"] for l in open(os.path.join(V, "properties.jsonl")) if l.strip()]
na_reasons = json.load(open(os.path.join(V, "manifest", "not_applicable.json")))
base = json.load(open("/root/.vp/BASELINE.json"))["cmd"].replace("--junitxml=<file>", "--junitxml=/tmp/loguru_baseline.xml")
checks, na = [], []
for p in props:
    f = os.path.join(V, "manifest", p + ".json")
    if os.path.exists(f):
        d = json.load(open(f))
        checks.append({
            "property_id": p,
            "quick_cmd": "./check %s --tier quick" % p,
            "thorough_cmd": "./check %s --tier thorough" % p,
            "evidence_file": "evidence/%s.json" % p,
            "replay_cmd_template": "./check %s --replay {path}" % p,
            "engine": "lean-model+correspondence",
            "level_claimed": {"category": d.get("category", "proof"), "text": d["text"], "design_ref": d.get("design_ref", "DESIGN.md §4 " + p)},
            "level_note": d["note"],
            "technique": d.get("technique", "Lean 4 theorems over a model tied to the source by regenerated tables (extract.py) and a differential correspondence run"),
        })
    else:
        na.append({"property_id": p, "reason": na_reasons.get(p, "check not built yet in this session (see DESIGN.md §8 build order)")})
m = {
    "version": 1,
    "setup_cmd": "python3 tools/extract.py /repo; cd lean && lake build " + " ".join("LoguruModel.Props.%s LoguruModel.Audit.%s" % (c["property_id"], c["property_id"]) for c in checks) + " $(python3 ../tools/driver_targets.py)",
    "hooks": {"guard": "LOGURU_VERIF", "enable": "no source hooks are needed: the harness intercepts through module attributes, subclasses and documented parameters (DESIGN.md §6); the guard name is reserved",
              "baseline_off_cmd": base, "source_commits": [], "add_only": True},
    "engines": [{"name": "lean-model+correspondence", "path": "check", "serves_properties": [c["property_id"] for c in checks],
                 "kind_free_text": "Lean 4 model + theorems (lean/), tables regenerated from /repo by tools/extract.py, differential correspondence harness (harness/), direct oracles on the implementation for the failing-input search"}],
    "checks": checks,
    "not_applicable": na,
    "notes": "Every check: ./check Cxx --tier quick|thorough; exit 0 held / 1 VIOLATION / 2 infrastructure error. Known findings: known_findings.json.",
}
json.dump(m, open(os.path.join(V, "MANIFEST.json"), "w"), indent=1)
print("claimed:", [c["property_id"] for c in checks], "not claimed:", len(na))
