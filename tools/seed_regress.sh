#!/bin/sh
# Re-evaluate every stored seeded change (seeded/Cxx-y) against the committed machinery; P = parallelism.
# usage: tools/seed_regress.sh [P] [pattern]
P=${1:-4}; PAT=${2:-C}
cd "$(dirname "$0")/.."
ls seeded | grep -E "^${PAT}" | grep -E "^C[0-9][0-9]-[a-q]$" | while read n; do
  prop=${n%-*}; l=${n#*-}
  # "-" stands for "no suffix" (a trailing blank would make xargs -L join two lines)
  case $l in a) r=1; s=-;; b) r=1; s=2;; c) r=2; s=-;; d) r=2; s=2;; e) r=2; s=3;; f) r=3; s=-;; g) r=3; s=2;; h) r=3; s=3;; i) r=4; s=-;; j) r=4; s=2;; k) r=4; s=3;; l) r=5; s=-;; m) r=5; s=2;; n) r=5; s=3;; o) r=6; s=-;; p) r=6; s=2;; q) r=6; s=3;; esac
  echo "$r $prop $s"
done | xargs -P $P -L 1 sh -c 's=$2; [ "$s" = "-" ] && s=""; SEED_NOBASELINE=1 SEED_STORED=1 SEED_ROUND=$0 python3 tools/seed_eval.py $1 $s > /tmp/seedreg_$1_$0_$2.log 2>&1; echo "done $1 round $0 $2"'
