import LoguruModel.Catch.Tower
import LoguruModel.Catch.Threads
import LoguruModel.Catch.Options
import LoguruModel.Driver
open Catch Py.Gen

/-! line protocol of the C16 correspondence stream (see harness/c16.py, `line_of`):

    <kind> <cfgs> <env> <automaton> <ops>

    kind  fn | with | awith | gen | coro | agen
    cfgs  `;`-joined, innermost first;  cfg = M:X:R:L:D:O   (M, X bit strings indexed by class,
          R 0/1, L level no, D default, O = [F](n | k | r<cls>.<id> | q<call>!<call>…[$<cls>.<id>]) (F: the callable is falsy) with
          call = (f|w)=M^X^R^L^D^O'=(r<v> | e<cls>.<id>): catch()-protected calls made by the callback)
    env   <probes>@<bits>:<cls>.<id>@<minlevel>    probes = `-` or `,`-joined  cfg~(r<v> | e<cls>.<id>);
          minlevel = least level a handler accepts (no handler: 1000000)
    automaton   states `/`-joined, actions `,`-joined (0 = on send, 1+c = on throw of class c);
          action = y<v>_<next> | Y_<next> (echo) | r<v> | e<cls>.<id> | x (re-raise the injected one)
    ops   `-` or `,`-joined  s<v> | t<cls>.<id> | c
    answer:  W <results> T <events> U <results>

    thr <minlevel> <threads> <schedule>     (round 5: the guard flag across threads, Catch/Threads.lean)
    threads  `;`-joined  M:X:R:L:O:<cls>.<id>  (O = n | k | r<cls>.<id>); thread i runs one `__exit__` of a
             decorator for its exception;  schedule `,`-joined thread indices (one atomic step each) or `-`
    answer:  R <result per thread: s (suppress) | p (propagate) | e<cls>.<id> | ? (not finished)> T <tid>:<event>,…
    The flag storage is the GENERATED `Gen.flagStore`.

    opt <site: fn|with|awith> <depth> <lazy><colors><raw><capture> (bits)     (round 5: Catch/Options.lean)
    answer:  F <index of the frame the record names, counted from `_log`> O <exception>,<depth>,<record>,<lazy>,<colors>,<raw>,<capture>,<patchers>,<extra>
             (values `_log` finds under these names: t = the caught triple, n<k>, b0/b1, o<tag> = the logger's own object)
-/

def bit (bits : String) (i : Nat) : Bool := bits.toList.getD i '0' == '1'

def parseExc (s : String) : Option Exc :=
  match s.splitOn "." with
  | [c, i] => match c.toNat?, i.toNat? with
    | some c, some i => some ⟨c, i⟩
    | _, _ => none
  | _ => none

abbrev OnErr := Exc → G → Option Exc × G

def parseCallRes (s : String) : Option CallRes :=
  if s.startsWith "r" then (s.drop 1).toString.toNat?.map CallRes.ret
  else if s.startsWith "e" then (parseExc (s.drop 1).toString).map CallRes.raise
  else none

/-- onerror that calls nothing: `n` (None), `k` (returns), `r<cls>.<id>` (raises) -/
def parseSimpleOnerror (o : String) : Option (Option OnErr) :=
  if o == "n" then some none
  else if o == "k" then some (some (fun _ g => (none, g)))
  else if o.startsWith "r" then (parseExc (o.drop 1).toString).map (fun x => some (fun _ g => (some x, g)))
  else none

def parseCfgWith (sep : String) (onerr : String → Option (Option OnErr)) (s : String) : Option Cfg :=
  match s.splitOn sep with
  | [m, x, r, l, d, o] =>
    let falsy := o.startsWith "F"          -- the callable's truth value is False
    let o := if falsy then (o.drop 1).toString else o
    match l.toNat?, d.toNat?, onerr o with
    | some l, some d, some oe =>
      some { isMatch := fun e => bit m e.cls, excluded := fun e => bit x e.cls, reraise := r == "1",
             level := l, default := d, onerror := oe, onerrorFalsy := falsy }
    | _, _, _ => none
  | _ => none

def parseProbe (s : String) : Option Probe :=
  match s.splitOn "~" with
  | [c, o] => match parseCfgWith ":" parseSimpleOnerror c, parseCallRes o with
    | some c, some o => some ⟨c, o⟩
    | _, _ => none
  | _ => none

def parseEnv (s : String) : Option Env :=
  match s.splitOn "@" with
  | [ps, lr, ml] =>
    let probes := if ps == "-" then some [] else (ps.splitOn ",").mapM parseProbe
    match probes, lr.splitOn ":", ml.toNat? with
    | some probes, [bits, x], some ml =>
      (parseExc x).map fun x =>
        { probes := probes, logRaises := fun e => if bit bits e.cls then some x else none, minLevel := ml }
    | _, _, _ => none
  | _ => none

/-- one catch()-protected call made by an onerror callback: `f=<cfg with ^>=<out>` (decorated
    function) or `w=…` (`with` block inside a helper function) -/
structure NestedCall where
  isWith : Bool
  cfg : Cfg
  out : CallRes

def parseNested (s : String) : Option NestedCall :=
  match s.splitOn "=" with
  | [form, c, o] =>
    match parseCfgWith "^" parseSimpleOnerror c, parseCallRes o with
    | some c, some o => if form == "f" then some ⟨false, c, o⟩ else if form == "w" then some ⟨true, c, o⟩ else none
    | _, _ => none
  | _ => none

/-- the callback: run the calls in order through THEIR catchers, report each result (`probe`
    event); a call whose exception is not suppressed lets it escape the callback; finally raise
    `final` if given.  Same reading as `harness/c16.py: onerror_cb`. -/
def runNested (env : Env) (final : Option Exc) : List NestedCall → G → Option Exc × G
  | [], g => (final, g)
  | c :: cs, g =>
    let r := if c.isWith then withBlock (Catch.exit env) c.cfg (fun g => (c.out, g)) g
             else callWrapped (Catch.exit env) c.cfg (fun g => (c.out, g)) g
    match r with
    | (.raise x, g') => (some x, g'.push (.probe (.raise x)))
    | (.ret v, g') => runNested env final cs (g'.push (.probe (.ret v)))

def parseOnerror (env : Env) (o : String) : Option (Option OnErr) :=
  if o.startsWith "q" then
    let body := (o.drop 1).toString
    let (callsS, final) : String × Option (Option Exc) :=
      match body.splitOn "$" with
      | [c] => (c, some none)
      | [c, x] => (c, (parseExc x).map some)
      | _ => (body, none)
    match final, (callsS.splitOn "!").mapM parseNested with
    | some final, some calls => some (some (fun _ g => runNested env final calls g))
    | _, _ => none
  else parseSimpleOnerror o

def parseCfg (env : Env) (s : String) : Option Cfg := parseCfgWith ":" (parseOnerror env) s

inductive Action where
  | yieldC (v next : Nat) | echo (next : Nat) | ret (v : Nat) | raiseNew (e : Exc) | reraise

def parseAction (s : String) : Option Action :=
  if s == "x" then some .reraise
  else if s.startsWith "Y_" then (s.drop 2).toString.toNat?.map Action.echo
  else if s.startsWith "y" then
    match ((s.drop 1).toString).splitOn "_" with
    | [v, n] => match v.toNat?, n.toNat? with
      | some v, some n => some (.yieldC v n)
      | _, _ => none
    | _ => none
  else if s.startsWith "r" then (s.drop 1).toString.toNat?.map Action.ret
  else if s.startsWith "e" then (parseExc (s.drop 1).toString).map Action.raiseNew
  else none

def parseTable (s : String) : Option (List (List Action)) :=
  (s.splitOn "/").mapM fun row => (row.splitOn ",").mapM parseAction

/-- the table-driven body: same interpretation as `harness/c16.py: lookup` -/
def tableAuto (tbl : List (List Action)) : Auto G Nat where
  step s i g :=
    let row := tbl.getD s []
    match i with
    | .send v =>
      match row.getD 0 (.ret 0) with
      | .yieldC y n => (.yield y, n, g)
      | .echo n => (.yield v, n, g)
      | .ret r => (.ret r, s, g)
      | .raiseNew e => (.raise e, s, g)
      | .reraise => (.ret 0, s, g)
    | .throw e =>
      match row.getD (1 + e.cls) .reraise with
      | .yieldC y n => (.yield y, n, g)
      | .echo n => (.yield 0, n, g)
      | .ret r => (.ret r, s, g)
      | .raiseNew e' => (.raise e', s, g)
      | .reraise => (.raise e, s, g)

def parseOp (s : String) : Option Op :=
  if s == "c" then some .close
  else if s.startsWith "s" then (s.drop 1).toString.toNat?.map Op.send
  else if s.startsWith "t" then (parseExc (s.drop 1).toString).map Op.throw
  else none

def parseOps (s : String) : Option (List Op) := if s == "-" then some [] else (s.splitOn ",").mapM parseOp

def showExc (e : Exc) : String := s!"{e.cls}.{e.id}"
def showRes : Res → String
  | .yield v => s!"y{v}" | .stop v => s!"s{v}" | .raise e => "e" ++ showExc e | .closed => "c"
def showARes : ARes → String
  | .yield v => s!"y{v}" | .stopAsync => "a" | .raise e => "e" ++ showExc e | .closed => "c"
def showCall : CallRes → String
  | .ret v => s!"r{v}" | .raise e => "e" ++ showExc e
def showEvent : Event → String
  | .log l e d => s!"L{l}.{showExc e}.{d}" | .onerror e => "O" ++ showExc e | .probe r => "P" ++ showCall r
def joinOr (l : List String) : String := if l.isEmpty then "-" else ",".intercalate l

def g0 : G := ⟨false, []⟩

def toAOp : Op → AOp
  | .send v => .asend v | .throw e => .athrow e | .close => .aclose

def answer (w : List String) (g : G) (u : List String) : String :=
  s!"W {joinOr w} T {joinOr (g.trace.map showEvent)} U {joinOr u}"

def parseThread (s : String) : Option Activation :=
  match s.splitOn ":" with
  | [m, x, r, l, o, e] =>
    let oe : Option (Option (Option Exc)) :=
      if o == "n" then some none
      else if o == "k" then some (some none)
      else if o.startsWith "r" then (parseExc (o.drop 1).toString).map (fun x => some (some x))
      else none
    match l.toNat?, oe, parseExc e with
    | some l, some oe, some e =>
      some { cfg := { isMatch := fun e => bit m e.cls, excluded := fun e => bit x e.cls, reraise := r == "1",
                      level := l, onerror := oe },
             exc := e, depth := decoratorDepth, pc := .tests }
    | _, _, _ => none
  | _ => none

def showPc : Option Activation → String
  | some a => match a.pc with
    | .done .suppress => "s"
    | .done .propagate => "p"
    | .done (.raise x) => "e" ++ showExc x
    | _ => "?"
  | none => "?"

def stepThreads (ml threads sched : String) : String :=
  let sch : Option (List Nat) := if sched == "-" then some [] else (sched.splitOn ",").mapM String.toNat?
  match ml.toNat?, (threads.splitOn ";").mapM parseThread, sch with
  | some ml, some acts, some sch =>
    let w0 : TWorld := { flags := fun _ => false, acts := fun t => acts[t]?, trace := [] }
    let w := grun Gen.flagStore ml (fun _ => none) sch w0
    let rs := (List.range acts.length).map (fun t => showPc (w.acts t))
    let tr := w.trace.map (fun p => s!"{p.1}:{showEvent p.2}")
    s!"R {joinOr rs} T {joinOr tr}"
  | _, _, _ => "bad-op"

def showOpt : Option OptVal → String
  | some (.triple _) => "t" | some (.num n) => s!"n{n}" | some (.bool b) => if b then "b1" else "b0"
  | some (.other t) => s!"o{t}" | none => "?"

def stepOptions (site depth bits : String) : String :=
  match depth.toNat? with
  | some d =>
    let adj := if site == "fn" then decoratorDepth else if site == "with" then withDepth else asyncWithDepth
    let opts : List OptVal := [.other 1, .num d, .bool false, .bool (bit bits 0), .bool (bit bits 1), .bool (bit bits 2),
                               .bool (bit bits 3), .other 7, .other 8]
    let handed := catchOptions opts ⟨8, 101⟩ adj
    let names := ["exception", "depth", "record", "lazy", "colors", "raw", "capture", "patchers", "extra"]
    let fi := match recordFrameIndex handed with | some i => toString i | none => "?"
    s!"F {fi} O {",".intercalate (names.map (fun n => showOpt (logSees handed n.toList)))}"
  | none => "bad-op"

def step (line : String) : String :=
  match line.splitOn " " with
  | ["opt", site, depth, bits] => stepOptions site depth bits
  | ["thr", ml, threads, sched] => stepThreads ml threads sched
  | [kind, cfgs, env, auto, ops] =>
    match parseEnv env with
    | none => "bad-op"
    | some env =>
    match (cfgs.splitOn ";").mapM (parseCfg env), parseTable auto, parseOps ops with
    | some cfgs, some tbl, some ops =>
      let a := tableAuto tbl
      if kind == "fn" || kind == "with" || kind == "awith" then
        let body : G → CallRes × G := fun g =>
          match a.step 0 (.send 0) g with
          | (.raise e, _, g') => (.raise e, g')
          | (.ret v, _, g') => (.ret v, g')
          | (.yield v, _, g') => (.ret v, g')
        let wrapped := cfgs.foldl (fun b c =>
          if kind == "fn" then callWrapped (Catch.exit env) c b
          else if kind == "with" then withBlock (Catch.exit env) c b
          else asyncWithBlock (Catch.exit env) c b) body
        match wrapped g0, body g0 with
        | (r, g), (u, _) => answer [showCall r] g [showCall u]
      else if kind == "gen" || kind == "coro" then
        let k := if kind == "gen" then Kind.generator else Kind.coroutine
        -- the stack of decorators is the tower of Catch/Tower.lean (configurations outermost first)
        let outerFirst := cfgs.reverse
        match run (towerObj k env a outerFirst) (embN outerFirst (.unstarted 0)) ops g0,
              run (genObj k a) (.unstarted 0) ops g0 with
        | (rs, _, g), (us, _, _) => answer (rs.map showRes) g (us.map showRes)
      else if kind == "agen" then
        -- stacked decorators: AsyncGenCatchWrapper around AsyncGenCatchWrapper (since repo commit 2c59ddf the
        -- marked wrapper of an async generator function takes the async-generator branch again)
        let aops := ops.map toAOp
        match arun (agTower env (agenStep a) cfgs.reverse) (.unstarted 0) aops g0,
              arun (agenStep a) (.unstarted 0) aops g0 with
        | (rs, _, g), (us, _, _) => answer (rs.map showARes) g (us.map showARes)
      else "bad-op"
    | _, _, _ => "bad-op"
  | _ => "bad-op"

def main : IO Unit := driverLoop step
