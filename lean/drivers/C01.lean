import LoguruModel.Dispatch.Spec
import LoguruModel.Driver
open Dispatch Py

/-! one line = one whole history (ops joined by `|`), executed from a fresh `Core`;
    output = the observable of every op joined by `|`.  A leading `S ` runs the Lean spec instead. -/

def pStr (tok : String) : Option Str := decTok tok

def pLevel (t : String) : Option LevelArg :=
  if t = "bad" then some .bad
  else if t = "dflt" then some (.name Dispatch.Gen.addDefaultLevelName)      -- `add` without `level=`
  else if t.startsWith "n:" then (pStr (t.drop 2).toString).map .name
  else if t.startsWith "i:" then ((t.drop 2).toString.toInt?).map .int
  else none

def pKey (t : String) : Option DKey :=
  if t = "N" then some .none else if t = "B" then some .bad
  else if t.startsWith "s" then (pStr (t.drop 1).toString).map .str else none

def pVal (t : String) : Option DVal :=
  if t = "F" then some .false else if t = "T" then some .true else if t = "B" then some .bad
  else if t.startsWith "n" then (pStr (t.drop 1).toString).map .name
  else if t.startsWith "i" then ((t.drop 1).toString.toInt?).map .int else none

def pItems (t : String) : Option (List (DKey × DVal)) :=
  if t = "" then some [] else
  (t.splitOn ",").foldr (fun it acc =>
    match acc, it.splitOn "=" with
    | some l, [k, v] => (match pKey k, pVal v with | some k, some v => some ((k, v) :: l) | _, _ => none)
    | _, _ => none) (some [])

def pFilter (t : String) : Option FilterArg :=
  if t = "none" then some .none else if t = "builtin" then some .builtinFilter else if t = "bad" then some .bad
  else if t.startsWith "s:" then (pStr (t.drop 2).toString).map .str
  else if t.startsWith "c:" then ((t.drop 2).toString.toNat?).map .callable
  else if t.startsWith "d:" then (pItems (t.drop 2).toString).map .dict
  else none

def pMod (t : String) : Option (Option Str) :=
  if t = "N" then some none else if t.startsWith "s:" then (pStr (t.drop 2).toString).map some else none

def pNo (t : String) : Option NoArg :=
  if t = "none" then some .none else if t = "bad" then some .bad
  else if t.startsWith "i:" then ((t.drop 2).toString.toInt?).map .int else none

def pBool (t : String) : Option Bool := if t = "1" then some true else if t = "0" then some false else none

def pPrim (s : String) : Option Op :=
  match s.splitOn " " with
  | ["add", l, f] => (match pLevel l, pFilter f with | some l, some f => some (.add ⟨l, f, false, false⟩) | _, _ => none)
  | ["add", l, f, z] => (match pLevel l, pFilter f, pBool z with
      | some l, some f, some z => some (.add ⟨l, f, z, false⟩) | _, _, _ => none)
  | ["add", l, f, z, k] => (match pLevel l, pFilter f, pBool z, pBool k with
      | some l, some f, some z, some k => some (.add ⟨l, f, z, k⟩) | _, _, _, _ => none)
  | ["addbad"] => some .addBad
  | ["rm", i] => i.toInt?.map .remove
  | ["rmall"] => some .removeAll
  | ["rmbad"] => some .removeBad
  | ["level", n, no, o] => (match pStr n, pNo no, pBool o with
      | some n, some no, some o => some (.level n no o) | _, _, _ => none)
  | ["levelbad"] => some .levelBad
  | ["en", m] => (pMod m).map (fun m => .activate m true)
  | ["dis", m] => (pMod m).map (fun m => .activate m false)
  | ["enbad"] => some (.activateBad true)
  | ["disbad"] => some (.activateBad false)
  | ["log", l, m, z] => (match pLevel l, pMod m, pBool z with
      | some l, some m, some z => some (.log l m z) | _, _, _ => none)
  | ["logd", l, m, z, e, p, st] => (match pLevel l, pMod m, pBool z, pBool e, pMod p, pBool st with
      | some l, some m, some z, some e, some p, some st => some (.logDuring l m z e p st) | _, _, _, _, _, _ => none)
  | _ => none

def pOp (s : String) : Option Op :=
  match s.splitOn ";" with
  | [one] => if one.startsWith "cfg " then (pBool (one.drop 4).toString).map (fun h => .configure (if h then some [] else none) [] [])
             else pPrim one
  | hd :: subs =>
    match hd.splitOn " ", subs.foldr (fun x acc => match acc, pPrim x with
        | some l, some o => some (o :: l) | _, _ => none) (some []) with
    | ["cfg", h], some prims =>
      let adds := prims.filterMap (fun o => match o with | .add a => some a | _ => none)
      let lvls := prims.filterMap (fun o => match o with | .level n no ot => some (n, no, ot) | _ => none)
      let acts := prims.filterMap (fun o => match o with | .activate n s => some (n, s) | _ => none)
      (pBool h).map (fun h => .configure (if h then some adds else none) lvls acts)
    | _, _ => none
  | [] => none

def showOut : Out → String
  | .ok => "ok"
  | .id n => s!"id {n}"
  | .ids l => " ".intercalate ("ids" :: l.map toString)
  | .err e => s!"err {e}"
  | .delivered to z => " ".intercalate ("->" :: to.map toString) ++ s!" lazy={z}"

/-- callable filter number `k`: mirrored by `harness/c01.py: oracle_filter` -/
def orc : Oracle := fun k no M =>
  let h := match M with | none => 7 | some n => n.foldl (fun a c => a + c.toNat) 0
  (k + no.toNat + h) % 3 != 0

def step (line : String) : String :=
  let (spec, body) := if line.startsWith "S " then (true, (line.drop 2).toString) else (false, line)
  let ops := (body.splitOn "|").foldr (fun x acc => match acc, pOp x with
    | some l, some o => some (o :: l) | _, _ => none) (some [])
  match ops with
  | none => "bad-op"
  | some ops =>
    let outs := if spec then runSpec orc SState.init ops else run orc Core.init ops
    "|".intercalate (outs.map showOut)

def main : IO Unit := driverLoop step
