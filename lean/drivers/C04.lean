import LoguruModel.Emit.Model
import LoguruModel.Emit.Nested
import LoguruModel.Emit.PreLock
import LoguruModel.Driver
open Emit Py

/-!
line protocol (one scenario per line):

  run H=<id,level,catch,enq,kind,filter,dyn,ser;...> F=<i,h,stage,err;...> A=<i,h;...> R=<i,h,j|r<k>|c;...>
      X=<i;...> S=<i;...> N=<i;...> L=<i,level;...> E=<ok|absent|ErrName> D=<depth> O=<group;group;...>

  A: (message, handler) pairs the filter rejects      R: re-entrant writes (sink of h logs j while writing i)
  X: messages carrying an exception                   S: messages whose str(record) raises
  N: messages logged without event loop               L: level numbers (default 20)
  group = ops joined by '+';  op = l<i> | c | r<hid>.<k> | R<k> (remove() of all handlers)
  H may carry a 9th field: the stream object has a `stop` method (default 1)
  E modes: ok | absent | <Err> | <Err>@<h|r|t|f> (stderr raises when that chunk of a report is written)

answer: one observation per group joined by '|':
  <res+res..>:<sorted events joined by ','>:reg=<ids>:min=<level|inf>:<hid>=<sink msgs joined by '.'>;...
-/

def parseErr : String → Option Err
  | "ValueError" => some .valueError | "TypeError" => some .typeError | "KeyError" => some .keyError
  | "IndexError" => some .indexError | "AttributeError" => some .attributeError
  | "RuntimeError" => some .runtimeError | "OSError" => some .osError | "Other" => some .other
  | _ => none

def parseStage : String → Option Stage
  | "filter" => some .filter | "dynFormat" => some .dynFormat | "excFormat" => some .excFormat
  | "formatMap" => some .formatMap | "serialize" => some .serialize | "put" => some .put
  | "write" => some .write | "flush" => some .flush | "stop" => some .stop
  | "coroBody" => some .coroBody | "get" => some .get | _ => none

def parseKind : String → Option SinkKind
  | "callable" => some .callable | "stream" => some .stream | "streamFlush" => some .streamFlush
  | "file" => some .file | "coroutine" => some .coroutine | "standard" => some .standard | _ => none

def parseB : String → Option Bool
  | "1" => some true | "0" => some false | _ => none

def items (s : String) (sep : String) : List String := if s = "-" || s = "" then [] else s.splitOn sep

def allSome {α : Type} : List (Option α) → Option (List α)
  | [] => some []
  | none :: _ => none
  | some a :: rest => (allSome rest).map (a :: ·)

def nats (s : String) (sep : String) : Option (List Nat) := allSome ((items s sep).map String.toNat?)

def parseCfg (s : String) : Option Cfg :=
  match s.splitOn "," with
  | [id, lv, ca, en, kd, fi, dy, se] =>
    match id.toNat?, lv.toNat?, parseB ca, parseB en, parseKind kd, parseB fi, parseB dy, parseB se with
    | some id, some lv, some ca, some en, some kd, some fi, some dy, some se =>
      some { id := id, level := lv, catch_ := ca, enqueue := en, kind := kd, hasFilter := fi, dynamic := dy,
             serialize := se }
    | _, _, _, _, _, _, _, _ => none
  | [id, lv, ca, en, kd, fi, dy, se, sp] =>
    match id.toNat?, lv.toNat?, parseB ca, parseB en, parseKind kd, parseB fi, parseB dy, parseB se, parseB sp with
    | some id, some lv, some ca, some en, some kd, some fi, some dy, some se, some sp =>
      some { id := id, level := lv, catch_ := ca, enqueue := en, kind := kd, hasFilter := fi, dynamic := dy,
             serialize := se, stoppable := sp }
    | _, _, _, _, _, _, _, _, _ => none
  | _ => none

def parseFault (s : String) : Option (Nat × Nat × Stage × Err) :=
  match s.splitOn "," with
  | [i, h, st, e] =>
    match i.toNat?, h.toNat?, parseStage st, parseErr e with
    | some i, some h, some st, some e => some (i, h, st, e)
    | _, _, _, _ => none
  | _ => none

/-- `i,h,<j | r<k> | c>`: what the sink of `h` does with the logger while writing message `i` -/
def parseReenter (s : String) : Option (Nat × Nat × InnerAct) :=
  match s.splitOn "," with
  | [i, h, a] =>
    let act : Option InnerAct :=
      if a = "c" then some .completeSelf
      else if a.startsWith "r" then (a.drop 1).toString.toNat?.map InnerAct.removeSelf
      else a.toNat?.map InnerAct.log
    match i.toNat?, h.toNat?, act with
    | some i, some h, some act => some (i, h, act)
    | _, _, _ => none
  | _ => none

def parseChunk : String → Option Chunk
  | "h" => some .header | "r" => some .record | "t" => some .traceback | "f" => some .footer | _ => none

def showChunk : Chunk → String
  | .header => "h" | .record => "r" | .traceback => "t" | .footer => "f"

/-- `ok | absent | <Err> | <Err>@<h|r|t|f>` (stderr breaks when that chunk of a report is written) -/
def parseMode (e : String) : Option StderrMode :=
  if e = "ok" then some .ok else if e = "absent" then some .absent else
  match e.splitOn "@" with
  | [k] => (parseErr k).map .fails
  | [k, c] => match parseErr k, parseChunk c with
    | some k, some c => some (.failsAt c k)
    | _, _ => none
  | _ => none

/-- `E=<default>/<i>:<mode>/...`: what `sys.stderr` is while message / operation `i` is processed -/
def parseModes (e : String) : Option (StderrMode × List (Nat × StderrMode)) :=
  match e.splitOn "/" with
  | [] => none
  | d :: rest =>
    let ovs := allSome (rest.map (fun t => match t.splitOn ":" with
      | [i, m] => match i.toNat?, parseMode m with
        | some i, some m => some (i, m)
        | _, _ => none
      | _ => none))
    match parseMode d, ovs with
    | some d, some ovs => some (d, ovs)
    | _, _ => none

def parseOp (s : String) : Option Op :=
  if s = "c" then some .complete
  else if s.startsWith "l" then (s.drop 1).toString.toNat?.map Op.log
  else if s.startsWith "R" then (s.drop 1).toString.toNat?.map Op.removeAll
  else if s.startsWith "r" then
    match (s.drop 1).toString.splitOn "." with
    | [h, k] => match h.toNat?, k.toNat? with
      | some h, some k => some (.remove h k)
      | _, _ => none
    | _ => none
  else none

def showRes : Res → String
  | .ok => "ok" | .raised e => toString e | .blocked => "BLOCKED"

def showSrc : Src → String
  | .emit => "m" | .worker => "w" | .task => "m"

def showEvent : Event → String
  | .report hid msg kind ph src =>
    let m := if ph then "p" else match msg with
      | some m => toString m
      | none => "n"
    s!"R{hid}.{m}.{kind}.{if ph then 1 else 0}.{showSrc src}"
  | .loopError hid msg kind => s!"L{hid}.{msg}.{kind}"
  | .partialReport hid msg ph chunks src =>
    -- the record is identifiable only if its line was written
    let m := if chunks.contains .record then (if ph then "p" else match msg with
      | some m => toString m
      | none => "n") else "-"
    s!"P{hid}.{m}.{"".intercalate (chunks.map showChunk)}.{showSrc src}"

def showState (w : World) : String :=
  let regIds := ".".intercalate (w.reg.map (fun p => toString p.1.id))
  let minS := match w.minLevel with | none => "inf" | some m => toString m
  let all := (w.reg ++ w.removed).toArray.qsort (fun a b => a.1.id < b.1.id) |>.toList
  let sinks := ";".intercalate (all.map (fun p => s!"{p.1.id}={".".intercalate (p.2.sink.map toString)}"))
  s!"reg={if regIds = "" then "-" else regIds}:min={minS}:{sinks}"

/-- run one group of ops; stops at a blocked op -/
def runGroup (stepF : World → Op → WRet) : List Op → World → World × List Event × List Res × Bool
  | [], w => (w, [], [], false)
  | op :: ops, w =>
    let r := stepF w op
    match r.res with
    | .blocked => (r.w, r.ev, [.blocked], true)
    | x => let t := runGroup stepF ops r.w; (t.1, r.ev ++ t.2.1, x :: t.2.2.1, t.2.2.2)

def runGroups (stepF : World → Op → WRet) : List (List Op) → World → List String
  | [], _ => []
  | g :: gs, w =>
    let t := runGroup stepF g w
    let evs := (t.2.1.map showEvent).toArray.qsort (· < ·) |>.toList
    let line := s!"{"+".intercalate (t.2.2.1.map showRes)}:{",".intercalate evs}:{showState t.1}"
    if t.2.2.2 then [line] else line :: runGroups stepF gs t.1

def field (toks : List String) (key : String) : Option String :=
  (toks.find? (fun t => t.startsWith (key ++ "="))).map (fun t => (t.drop (key.length + 1)).toString)

/-- `print P=<0|1> F=<-|<h|r|t|f>:<Err>> S=<0|1>`: one call of `ErrorInterceptor.print` at the level of its writes
    (`Print.printP Gen.printProgram`): stderr truthy?, the chunk whose write raises, `str(record)` raises?
    answer: `<chunks written>:<placeholder 0|1>:<escaping error | ->` -/
def stepPrint (toks : List String) : String :=
  match field toks "P", field toks "F", field toks "S" with
  | some p, some f, some s =>
    let wr : Option (Chunk → Option Err) :=
      if f = "-" then some (fun _ => none) else
      match f.splitOn ":" with
      | [c, e] => match parseChunk c, parseErr e with
        | some c, some e => some (fun c' => if c' = c then some e else none)
        | _, _ => none
      | _ => none
    match parseB p, wr, parseB s with
    | some p, some wr, some s =>
      let o := Print.printP Gen.printProgram ⟨p, wr, s⟩
      let ch := "".intercalate (o.chunks.map showChunk)
      let esc := match o.escapes with | some e => toString e | none => "-"
      s!"{if ch = "" then "-" else ch}:{if o.placeholder && o.chunks.contains .record then 1 else 0}:{esc}"
    | _, _, _ => "bad-op"
  | _, _, _ => "bad-op"

def step (line : String) : String :=
  match line.splitOn " " with
  | "print" :: toks => stepPrint toks
  | "run" :: toks =>
    match field toks "H", field toks "F", field toks "A", field toks "R", field toks "X", field toks "S",
          field toks "N", field toks "L", field toks "E", field toks "D", field toks "O" with
    | some h, some f, some a, some r, some x, some s, some nl, some l, some e, some d, some o =>
      let cfgs := allSome ((items h ";").map parseCfg)
      let faults := allSome ((items f ";").map parseFault)
      let rej := allSome ((items a ";").map (fun s => nats s ","))
      let ree := allSome ((items r ";").map parseReenter)
      let lv := allSome ((items l ";").map (fun s => nats s ","))
      let groups := allSome ((items o ";").map (fun g => allSome ((items g "+").map parseOp)))
      let mode := parseModes e
      -- W=<i;...>: messages logged with opt(raw=True) (optional field)
      let raws : List Nat := match field toks "W" with
        | some ws => (nats ws ";").getD []
        | none => []
      match cfgs, faults, rej, ree, nats x ";", nats s ";", nats nl ";", lv, mode, d.toNat?, groups with
      | some cfgs, some faults, some rej, some ree, some xs, some ss, some nls, some lv, some mode, some d,
        some groups =>
        let env : Env :=
          { level := fun i => match lv.find? (fun p => p.head? = some i) with
              | some [_, v] => v
              | _ => 20,
            hasExc := fun i => xs.contains i,
            fault := fun i hh st => (faults.find? (fun p => p.1 = i ∧ p.2.1 = hh ∧ p.2.2.1 = st)).map (·.2.2.2),
            accept := fun i hh => !(rej.contains [i, hh]),
            stderr := fun i _ => match mode.2.find? (fun p => p.1 = i) with
              | some p => p.2
              | none => mode.1,
            strFails := fun i => ss.contains i,
            reenter := fun i hh => (ree.filter (fun p => p.1 = i ∧ p.2.1 = hh)).map (·.2.2),
            loop := fun i => !(nls.contains i),
            raw := fun i => raws.contains i }
        let w := cfgs.foldl (fun w c => addW c w) ({} : World)
        -- registry-level re-entrancy (Emit/Nested.lean); when no sink re-enters, the handler-level model
        -- (Emit/Model.lean, the one `emit_characterised` & co speak about) must give the same answer
        -- Q=<i,h,j;...>: the filter of handler h logs message j while it is asked about message i (Emit/PreLock.lean)
        let pres : List (List Nat) := match field toks "Q" with
          | some q => (allSome ((items q ";").map (fun s => nats s ","))).getD []
          | none => []
        let pre : Nat → Nat → List Nat := fun i hh =>
          (pres.filter (fun p => p.head? = some i ∧ p[1]? = some hh)).filterMap (fun p => p[2]?)
        let nested := "|".intercalate
          (if pres.isEmpty then runGroups (stepWN env d) groups w else runGroups (stepWNP env pre d) groups w)
        if ree.isEmpty && pres.isEmpty then
          let flat := "|".intercalate (runGroups (stepW env d) groups w)
          if flat = nested then nested else "LAYER-MISMATCH " ++ flat ++ " /// " ++ nested
        else nested
      | _, _, _, _, _, _, _, _, _, _, _ => "bad-op"
    | _, _, _, _, _, _, _, _, _, _, _ => "bad-op"
  | _ => "bad-op"

def main : IO Unit := driverLoop step
