import LoguruModel.Markup.Spec
import LoguruModel.Markup.Tree
import LoguruModel.Markup.SgrString
import LoguruModel.Markup.Handlers
import LoguruModel.Markup.Format
import LoguruModel.Driver
open Markup Py

def encToks (ts : List Tok) : String :=
  if ts.isEmpty then "_" else
  ",".intercalate (ts.map fun
    | .text s => "T" ++ encTok s
    | .ansi s => "A" ++ encTok s
    | .level => "L"
    | .closing => "C")

def encSegs (segs : List Seg) (tail : Str) : String :=
  " ".intercalate ((segs.map fun s => encTok s.pre ++ "," ++ toString s.nb ++ "," ++ encTok s.inner) ++ [encTok tail])

def exS : Except Err Str → String
  | .ok s => "ok " ++ encTok s
  | .error e => "err " ++ toString e

def decList (s : String) : Option (List Str) :=
  if s = "_" then some [] else
  (s.splitOn ",").foldr (fun t acc => match decTok t, acc with
    | some x, some a => some (x :: a)
    | _, _ => none) (some [])

/-- chunk = lit;F|N;name;conv;spec -/
def decChunk (s : String) : Option Chunk :=
  match s.splitOn ";" with
  | [lit, "N"] => (decTok lit).map fun l => ⟨l, none⟩
  | [lit, "F", name, conv, spec] =>
    match decTok lit, decTok name, decTok conv, decTok spec with
    | some l, some n, some c, some sp => some ⟨l, some ⟨n, c.head?, sp⟩⟩
    | _, _, _, _ => none
  | _ => none

def decChunks (s : String) : Option (List Chunk) :=
  if s = "_" then some [] else
  (s.splitOn ",").foldr (fun t acc => match decChunk t, acc with
    | some x, some a => some (x :: a)
    | _, _ => none) (some [])

/-- feed = R|M followed by the text token -/
def decFeeds (s : String) : Option (List (Str × Bool)) :=
  if s = "_" then some [] else
  (s.splitOn ",").foldr (fun t acc =>
    match decTok (t.drop 1).toString, acc with
    | some x, some a => some ((x, t.startsWith "R") :: a)
    | _, _ => none) (some [])

/-- state of the `multi` op: the live core, and the core of the ORIGINAL logger frozen when it was copied -/
structure MS where
  cur : MCore := {}
  orig : Option MCore := none
  out : List String := []
  bad : Bool := false

def showEmit (c : MCore) (name : Str) : String :=
  if c.handlers.isEmpty then "_" else
  "|".intercalate (c.handlers.map fun ih => match ih.2.emitFormat c.ansi name with
    | .ok s => "ok:" ++ encTok s
    | .error e => "err:" ++ toString e)

def multiOp (st : MS) (op : String) : MS :=
  if st.bad then st else
  let fail : MS := { st with bad := true }
  let apply (o : MOp) : MS := match mstep st.cur o with
    | .ok c => { st with cur := c }
    | .error _ => fail
  match op.splitOn ";" with
  | ["A", id, c, d, fmt] =>
    match id.toNat?, decTok fmt with
    | some i, some f =>
      match parse f with
      | .ok toks => apply (.add i toks (c == "1") (d == "1"))
      | .error _ => fail
    | _, _ => fail
  | ["L", name, color] =>
    match decTok name, decTok color with
    | some n, some col => apply (.level n col)
    | _, _ => fail
  | ["R", id] =>
    match id.toNat? with
    | some i => apply (.remove i)
    | none => fail
  | ["C"] => { st with orig := some st.cur }
  | ["G", name] =>
    match decTok name with
    | some n => { st with out := st.out ++ [showEmit st.cur n] }
    | none => fail
  | ["O", name] =>
    match decTok name, st.orig with
    | some n, some o => { st with out := st.out ++ [showEmit o n] }
    | _, _ => fail
  | _ => fail

def step (line : String) : String :=
  match line.splitOn " " with
  | ["parse", t] =>
    match decTok t with
    | some t => match parse t with
      | .ok toks => "ok " ++ encToks toks
      | .error e => "err " ++ toString e
    | none => "bad-op"
  | ["scan", t] =>
    match decTok t with
    | some t => let (segs, tail) := scan t; encSegs segs tail
    | none => "bad-op"
  | ["code", t] =>
    match decTok t with
    | some t => match getAnsiCode t with
      | some a => "some " ++ encTok a
      | none => "none"
    | none => "bad-op"
  | ["ansify", t] =>
    match decTok t with
    | some t => exS (ansify t)
    | none => "bad-op"
  | ["unansi", t] =>
    match decTok t with
    | some t => encTok (Spec.unansi t)
    | none => "bad-op"
  | ["sfmt", spec, t] =>
    match decTok spec, decTok t with
    | some sp, some t => exS (strFormat sp t)
    | _, _ => "bad-op"
  | ["pair", chunks, feeds, color, vals] =>
    match decChunks chunks, decFeeds feeds, decTok color, decList vals with
    | some ch, some fs, some col, some vs =>
      match ansify col with
      | .error e => "err-level " ++ toString e
      | .ok lvl =>
        match handlerPair ch fs lvl vs with
        | .ok (c, p) => "ok " ++ encTok c ++ " " ++ encTok p
        | .error e => "err " ++ toString e
    | _, _, _, _ => "bad-op"
  | ["pairw", chunks, feeds, color, vals, msg] =>
    match decChunks chunks, decFeeds feeds, decTok color, decList vals, decTok msg with
    | some ch, some fs, some col, some vs, some m =>
      match ansify col with
      | .error e => "err-level " ++ toString e
      | .ok lvl =>
        match handlerPairRewritten ch fs lvl vs m with
        | .ok (c, p) => "ok " ++ encTok c ++ " " ++ encTok p
        | .error e => "err " ++ toString e
    | _, _, _, _, _ => "bad-op"
  | ["sgrstr", t] =>
    match decTok t with
    | some t =>
      let cs := Spec.sgrStr t
      if cs.isEmpty then "ok _" else
      "ok " ++ ",".intercalate (cs.map fun (c, st) => toString c.toNat ++ "/" ++ ";".intercalate (st.map encTok))
    | none => "bad-op"
  | ["tree", lvl, t] =>
    match decList lvl, decTok t with
    | some lv, some t =>
      match Spec.tree lv t with
      | .ok cs =>
        if cs.isEmpty then "ok _" else
        "ok " ++ ",".intercalate (cs.map fun (c, st) => toString c.toNat ++ "/" ++ ";".intercalate (st.map encTok))
      | .error .bad => "err bad"
      | .error .unclosed => "err unclosed"
    | _, _ => "bad-op"
  | ["multi", init, ops] =>
    let st0 := (init.splitOn ",").foldl (fun st o => multiOp st ("L;" ++ o)) ({} : MS)
    let st := (ops.splitOn ",").foldl multiOp st0
    if st.bad then "bad-op" else if st.out.isEmpty then "_" else ",".intercalate st.out
  | ["ws", n] =>
    match n.toNat? with
    | some n => if isWs (Char.ofNat n) then "1" else "0"
    | none => "bad-op"
  | _ => "bad-op"

def main : IO Unit := driverLoop step
