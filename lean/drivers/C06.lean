import LoguruModel.Markup.Model
import LoguruModel.Driver
open Markup Py

def encToks (ts : List Tok) : String :=
  if ts.isEmpty then "_" else
  ",".intercalate (ts.map fun
    | .text s => "T" ++ encTok s
    | .ansi s => "A" ++ encTok s
    | .level => "L"
    | .closing => "C")

def encSegs (segs : List Seg) (tail : Str) : String :=
  " ".intercalate ((segs.map fun s => encTok s.pre ++ "," ++ toString s.nb ++ "," ++ encTok s.inner) ++ [encTok tail])

def exS : Except Err Str → String
  | .ok s => "ok " ++ encTok s
  | .error e => "err " ++ toString e

def step (line : String) : String :=
  match line.splitOn " " with
  | ["parse", t] =>
    match decTok t with
    | some t => match parse t with
      | .ok toks => "ok " ++ encToks toks
      | .error e => "err " ++ toString e
    | none => "bad-op"
  | ["scan", t] =>
    match decTok t with
    | some t => let (segs, tail) := scan t; encSegs segs tail
    | none => "bad-op"
  | ["code", t] =>
    match decTok t with
    | some t => match getAnsiCode t with
      | some a => "some " ++ encTok a
      | none => "none"
    | none => "bad-op"
  | ["ansify", t] =>
    match decTok t with
    | some t => exS (ansify t)
    | none => "bad-op"
  | ["ws", n] =>
    match n.toNat? with
    | some n => if isWs (Char.ofNat n) then "1" else "0"
    | none => "bad-op"
  | _ => "bad-op"

def main : IO Unit := driverLoop step
