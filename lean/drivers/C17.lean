import LoguruModel.Frames.Model
import LoguruModel.Driver
open Frames Py

/-- library frames: contents are irrelevant to the theorems; the harness canonicalises the
implementation's library frames to the same tokens -/
def libFrame (fn : Str) : Frame :=
  { gname := some (some "loguru._logger".toList), file := "<loguru>/_logger.py".toList, func := fn, line := 0 }

def showVal : Val → String
  | .str s => "s:" ++ encTok s
  | .int i => "i:" ++ toString i
  | .optStr none => "n"
  | .optStr (some s) => "s:" ++ encTok s
  | .unknown => "?"

def showRecord (r : Record) : String :=
  " ".intercalate [showVal r.name, showVal r.function, showVal r.line, showVal r.module, showVal r.fileName,
    showVal r.filePath, showVal r.threadId, showVal r.processId, showVal r.time, showVal r.elapsed]

def parseGname (t : String) : Option (Option (Option Str)) :=
  if t = "!" then some none
  else if t = "~" then some (some none)
  else (decTok t).map (fun s => some (some s))

def parseFrames : List String → Option (List Frame)
  | [] => some []
  | g :: fi :: fu :: li :: rest =>
    match parseGname g, decTok fi, decTok fu, li.toInt?, parseFrames rest with
    | some g, some fi, some fu, some li, some fs => some ({ gname := g, file := fi, func := fu, line := li } :: fs)
    | _, _, _, _, _ => none
  | _ => none

def optionsWith (depth : Int) : List Int := [0, depth, 0, 0, 0, 0, 1, 0, 0]

/-- the return path of `opt()` the final `Logger(...)` call sits on (the last one of the table) -/
def lastOptPath : DepthFwd := (Gen.optPaths.getLast?.map (·.2)).getD .param

/-- one token of a derivation history: `b` bind, `p` patch, `od` opt() without depth, `o<int>` opt(depth=<int>) -/
def parseDeriv (t : String) : Option Deriv :=
  if t = "b" then some .bind
  else if t = "p" then some .patch
  else if t = "od" then some (.opt Gen.optDepthDefault lastOptPath)
  else if t.startsWith "o" then (t.drop 1).toInt?.map (fun d => .opt d lastOptPath)
  else none

def parseDerivs (t : String) : Option (List Deriv) :=
  if t = "-" then some [] else (t.splitOn ".").mapM parseDeriv

def step (line : String) : String :=
  match line.splitOn " " with
  | "s" :: kind :: nm :: seq :: tid :: pid :: now :: start :: frames =>
    -- a record made through `loguru.logger.<derivation history>`: the model computes the options itself
    match decTok nm, parseDerivs seq, tid.toInt?, pid.toInt?, now.toInt?, start.toInt?, parseFrames frames with
    | some nm, some ds, some tid, some pid, some now, some start, some us =>
      let ex : Exec := { threadId := tid, threadName := [], processId := pid, processName := [], now := now, start := start }
      match derivedFromRoot 0 ds with
      | .error e => "err " ++ toString e
      | .ok opts =>
        let res : Option (Except Err Record) :=
          if kind = "m" then
            (Gen.methods.find? (fun m => m.name == nm)).map (fun m => logViaMethodC libFrame m opts us ex)
          else if kind = "c" then
            (Gen.catchRows.find? (fun w => w.shape == nm)).map (fun w => logViaCatchC libFrame w opts us ex)
          else none
        match res with
        | some (.ok r) => "ok " ++ showRecord r
        | some (.error e) => "err " ++ toString e
        | none => "bad-op"
    | _, _, _, _, _, _, _ => "bad-op"
  | kind :: nm :: depth :: tid :: pid :: now :: start :: frames =>
    match decTok nm, depth.toInt?, tid.toInt?, pid.toInt?, now.toInt?, start.toInt?, parseFrames frames with
    | some nm, some depth, some tid, some pid, some now, some start, some us =>
      let ex : Exec := { threadId := tid, threadName := [], processId := pid, processName := [], now := now, start := start }
      let res : Option (Except Err Record) :=
        if kind = "m" then
          (Gen.methods.find? (fun m => m.name == nm)).map (fun m => logViaMethodC libFrame m (optionsWith depth) us ex)
        else if kind = "c" then
          (Gen.catchRows.find? (fun w => w.shape == nm)).map (fun w => logViaCatchC libFrame w (optionsWith depth) us ex)
        else none
      match res with
      | some (.ok r) => "ok " ++ showRecord r
      | some (.error e) => "err " ++ toString e
      | none => "bad-op"
    | _, _, _, _, _, _, _ => "bad-op"
  | ["path", p] =>
    match decTok p with
    | some p => "ok " ++ encTok (basename p) ++ " " ++ encTok (stem (basename p))
    | none => "bad-op"
  | _ => "bad-op"

def main : IO Unit := driverLoop step
