import LoguruModel.Parse.Finditer
import LoguruModel.Driver
open Parse Py

/-! Line protocol of the Parse model (C20).
  fi <scanner> <text>            findIter over chunksOf k text for every k = 1 .. |text|+1 (space separated)
  reads <scanner> <read>*        findIter over the given reads ("-" = empty read = end of input)
  scan <scanner> <text>          the whole-text scan with spans  s:e:value,…
  parse <file> <cast> <patOk> <read>*    events, number of dicts, error of `parse` (line scanner)
scanner ∈ {line, block, linem (= generic finditer of the anchored line matcher)}; values: hex tokens, block values `a;b`; empty list `_`; `!Err` suffix. -/

def showVals (vs : List String) : String := if vs.isEmpty then "_" else ",".intercalate vs

def showRes (r : List String × Option Err) : String :=
  match r.2 with
  | none => showVals r.1
  | some e => showVals r.1 ++ "!" ++ toString e

def lineVal (v : List Char) : String := encTok v
def blockVal (v : List Char × List Char) : String := encTok v.1 ++ ";" ++ encTok v.2

def findIterS (sc : String) (reads : List (List Char)) : Option String :=
  match sc with
  | "line" => let r := findIter (lineScanner '\n') reads; some (showRes (r.1.map lineVal, r.2))
  | "block" => let r := findIter (blockScanner '\n') reads; some (showRes (r.1.map blockVal, r.2))
  | "linem" => let r := findIter (finditer (lineMatcher '\n')) reads; some (showRes (r.1.map lineVal, r.2))
  | _ => none

def scanS (sc : String) (t : List Char) : Option String :=
  match sc with
  | "line" => some (showVals ((lineScanner '\n' t).map (fun m => s!"{m.s}:{m.e}:{lineVal m.val}")))
  | "block" => some (showVals ((blockScanner '\n' t).map (fun m => s!"{m.s}:{m.e}:{blockVal m.val}")))
  | "linem" => some (showVals ((finditer (lineMatcher '\n') t).map (fun m => s!"{m.s}:{m.e}:{lineVal m.val}")))
  | _ => none

def decAll (toks : List String) : Option (List (List Char)) :=
  toks.foldr (fun t acc => match decTok t, acc with
    | some x, some r => some (x :: r)
    | _, _ => none) (some [])

def fileArg : String → Option FileArg
  | "pathStr" => some .pathStr | "pathLike" => some .pathLike | "textFile" => some .textFile
  | "binaryFile" => some .binaryFile | "other" => some .other | _ => none

def showEvent : Event → String
  | .opened => "O" | .read => "R" | .closed => "C"

def step (line : String) : String :=
  match line.splitOn " " with
  | ["fi", sc, t] =>
    match decTok t with
    | some t =>
      let outs := (List.range (t.length + 1)).map (fun i => findIterS sc (chunksOf (i + 1) t))
      if outs.all Option.isSome then " ".intercalate (outs.map (fun o => o.getD "")) else "bad-op"
    | none => "bad-op"
  | "reads" :: sc :: toks =>
    match decAll toks with
    | some reads => (findIterS sc reads).getD "bad-op"
    | none => "bad-op"
  | ["scan", sc, t] =>
    match decTok t with
    | some t => (scanS sc t).getD "bad-op"
    | none => "bad-op"
  | "parse" :: f :: c :: p :: toks =>
    match fileArg f, decAll toks with
    | some f, some reads =>
      let cast : Option (CastArg Nat (List Char)) :=
        match c with
        | "dict" => some (.dict []) | "fn" => some (.fn id) | "invalid" => some .invalid | _ => none
      match cast with
      | some cast =>
        let scan : Scanner Char (List (Nat × List Char)) :=
          fun t => (lineScanner '\n' t).map (fun m => ⟨m.s, m.e, [(0, m.val)]⟩)
        let r := parse f cast (p == "1") scan reads
        let ev := String.join (r.events.map showEvent)
        (if ev.isEmpty then "_" else ev) ++ " " ++ toString r.out.length ++ " " ++
          (match r.err with | none => "ok" | some e => toString e)
      | none => "bad-op"
    | _, _ => "bad-op"
  | _ => "bad-op"

def main : IO Unit := driverLoop step
