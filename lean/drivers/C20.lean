import LoguruModel.Parse.Finditer
import LoguruModel.Parse.Trace
import LoguruModel.Parse.Cont
import LoguruModel.Driver
open Parse Py

/-! Line protocol of the Parse model (C20).
  fi <scanner> <text>            findIter over chunksOf k text for every k = 1 .. |text|+1 (space separated)
  reads <scanner> <read>*        findIter over the given reads ("-" = empty read = end of input)
  scan <scanner> <text>          the whole-text scan with spans  s:e:value,…
  parse <file> <cast> <patOk> <read>*    events, number of dicts, error of `parse` (line scanner)
  trace <file> <strIsPath> <openErr|-> <kindOk> <patOk> <cast> <limit|-> <chunk> <read>*
                                 event trace of the lazy pipeline (line scanner, groupdict {0: line});
                                 read = hex token | "-" (empty) | "!Err" (the read raises);
                                 cast = none | dict | dictraise:<code point> | fn | fnraise:<code point> | invalid;
                                 output O,R,Y<tok>,E<Err>,C …
scanner ∈ {line, block, linem (= generic finditer of the anchored line matcher), cont (line + indented continuation lines)}; values: hex tokens, block values `a;b`; empty list `_`; `!Err` suffix. -/

def showVals (vs : List String) : String := if vs.isEmpty then "_" else ",".intercalate vs

def showRes (r : List String × Option Err) : String :=
  match r.2 with
  | none => showVals r.1
  | some e => showVals r.1 ++ "!" ++ toString e

def lineVal (v : List Char) : String := encTok v
def blockVal (v : List Char × List Char) : String := encTok v.1 ++ ";" ++ encTok v.2

def findIterS (sc : String) (reads : List (List Char)) : Option String :=
  match sc with
  | "line" => let r := findIter (lineScanner '\n') reads; some (showRes (r.1.map lineVal, r.2))
  | "block" => let r := findIter (blockScanner '\n') reads; some (showRes (r.1.map blockVal, r.2))
  | "linem" => let r := findIter (finditer (lineMatcher '\n')) reads; some (showRes (r.1.map lineVal, r.2))
  | "cont" => let r := findIter (contScanner '\n' ' ') reads; some (showRes (r.1.map lineVal, r.2))
  | _ => none

def scanS (sc : String) (t : List Char) : Option String :=
  match sc with
  | "line" => some (showVals ((lineScanner '\n' t).map (fun m => s!"{m.s}:{m.e}:{lineVal m.val}")))
  | "block" => some (showVals ((blockScanner '\n' t).map (fun m => s!"{m.s}:{m.e}:{blockVal m.val}")))
  | "linem" => some (showVals ((finditer (lineMatcher '\n') t).map (fun m => s!"{m.s}:{m.e}:{lineVal m.val}")))
  | "cont" => some (showVals ((contScanner '\n' ' ' t).map (fun m => s!"{m.s}:{m.e}:{lineVal m.val}")))
  | _ => none

def decAll (toks : List String) : Option (List (List Char)) :=
  toks.foldr (fun t acc => match decTok t, acc with
    | some x, some r => some (x :: r)
    | _, _ => none) (some [])

def fileArg : String → Option FileArg
  | "pathStr" => some .pathStr | "pathLike" => some .pathLike | "textFile" => some .textFile
  | "binaryFile" => some .binaryFile | "other" => some .other | _ => none

def showEvent : Event → String
  | .opened => "O" | .read => "R" | .closed => "C"

def errOf : String → Option Err
  | "ValueError" => some .valueError | "TypeError" => some .typeError | "KeyError" => some .keyError
  | "IndexError" => some .indexError | "OSError" => some .osError | "RuntimeError" => some .runtimeError
  | "Other" => some .other | _ => none

def readOf (tok : String) : Option (ReadRes Char) :=
  if tok.startsWith "!" then (errOf (tok.drop 1).toString).map .error else (decTok tok).map .ok

def readsOf (toks : List String) : Option (List (ReadRes Char)) :=
  toks.foldr (fun t acc => match readOf t, acc with
    | some x, some r => some (x :: r)
    | _, _ => none) (some [])

def convRaise (c : Char) : List Char → Except Err (List Char) :=
  fun v => if v.contains c then .error .valueError else .ok ('#' :: v)

def castOf (c : String) : Option (CastArgE Nat (List Char)) :=
  match c.splitOn ":" with
  | ["none"] => some (.dict [])
  | ["dict"] => some (.dict [(0, fun v => .ok ('#' :: v)), (5, fun v => .ok v)])
  | ["dictraise", n] => n.toNat?.map (fun n => .dict [(0, convRaise (Char.ofNat n))])
  | ["fn"] => some (.fn (fun g => .ok (g.map (fun kv => (kv.1, '#' :: kv.2)))))
  | ["fnraise", n] => n.toNat?.map (fun n => .fn (fun g =>
      if g.any (fun kv => kv.2.contains (Char.ofNat n)) then .error .valueError
      else .ok (g.map (fun kv => (kv.1, '#' :: kv.2)))))
  | ["invalid"] => some .invalid
  | _ => none

def showTEv : TEv (List (Nat × List Char)) → String
  | .opened => "O" | .read => "R" | .closed => "C"
  | .raised e => "E" ++ toString e
  | .yielded g => "Y" ++ ";".intercalate (g.map (fun kv => encTok kv.2))

def bit : String → Option Bool
  | "1" => some true | "0" => some false | _ => none

def traceS (f sp oe ko po c lim ch : String) (toks : List String) : String :=
  match fileArg f, bit sp, bit ko, bit po, castOf c, ch.toNat?, readsOf toks with
  | some f, some sp, some ko, some po, some cast, some ch, some reads =>
    let oe? : Option (Option Err) := if oe == "-" then some none else (errOf oe).map some
    let lim? : Option (Option Nat) := if lim == "-" then some none else lim.toNat?.map some
    match oe?, lim? with
    | some oe, some lim =>
      let scan : Scanner Char (List (Nat × List Char)) := mapVal (fun v => [(0, v)]) (lineScanner '\n')
      let vv : ValView (List Char) := ⟨fun _ => false, fun v => !v.isEmpty⟩
      let tr := parseTrace { file := f, strIsPath := sp, openErr := oe, kindOk := ko, patternOk := po,
                             chunk := ch, reads := reads } cast vv scan lim
      if tr.isEmpty then "_" else ",".intercalate (tr.map showTEv)
    | _, _ => "bad-op"
  | _, _, _, _, _, _, _ => "bad-op"

def step (line : String) : String :=
  match line.splitOn " " with
  | ["fi", sc, t] =>
    match decTok t with
    | some t =>
      let outs := (List.range (t.length + 1)).map (fun i => findIterS sc (chunksOf (i + 1) t))
      if outs.all Option.isSome then " ".intercalate (outs.map (fun o => o.getD "")) else "bad-op"
    | none => "bad-op"
  | "reads" :: sc :: toks =>
    match decAll toks with
    | some reads => (findIterS sc reads).getD "bad-op"
    | none => "bad-op"
  | ["scan", sc, t] =>
    match decTok t with
    | some t => (scanS sc t).getD "bad-op"
    | none => "bad-op"
  | "trace" :: f :: sp :: oe :: ko :: po :: c :: lim :: ch :: toks => traceS f sp oe ko po c lim ch toks
  | "parse" :: f :: c :: p :: toks =>
    match fileArg f, decAll toks with
    | some f, some reads =>
      let cast : Option (CastArg Nat (List Char)) :=
        match c with
        | "dict" => some (.dict []) | "fn" => some (.fn id) | "invalid" => some .invalid | _ => none
      match cast with
      | some cast =>
        let scan : Scanner Char (List (Nat × List Char)) :=
          fun t => (lineScanner '\n' t).map (fun m => ⟨m.s, m.e, [(0, m.val)]⟩)
        let r := parse f cast (p == "1") scan reads
        let ev := String.join (r.events.map showEvent)
        (if ev.isEmpty then "_" else ev) ++ " " ++ toString r.out.length ++ " " ++
          (match r.err with | none => "ok" | some e => toString e)
      | none => "bad-op"
    | _, _ => "bad-op"
  | _ => "bad-op"

def main : IO Unit := driverLoop step
