import LoguruModel.Conc.Activation
import LoguruModel.Generated.ConcShape
open Activation

/-! Acceptor for `Activation.step` (C02, visibility of enable()/disable()): replays the activation-related
shared accesses of a real scheduler trace, projected on one module name.  `reset` starts a new trace;
`<tid> <label…>` must be an enabled transition of the model run with the publication order read from the
source (`Conc.ShapeGen.actFirst`).  For `readEn` the answer tells whether the model has a cache hit (and for which
rule-set version) and for `done` which version the model's call used and which version had been returned when the
call began, so that the harness can compare with what the real call did. -/

def parseLab (s : St) (t : Nat) : List String → Option Lab
  | ["startChange"] => some .startChange
  | ["startLog"] => some .startLog
  | ["acq"] => some .acq
  | ["copy"] => some .copy
  | ["pubAct"] => some .pubAct
  | ["pubEn"] => some .pubEn
  | ["rel"] => some .rel
  | ["readEn", d] => d.toNat?.map .readEn
  | ["readEn2", d] => d.toNat?.map .readEn2
  | ["readAct", v] => v.toNat?.map .readAct
  | ["fill"] => some .fill
  | ["done"] => (match s.pc t with | .l4 v => some (.done v) | _ => none)
  | _ => none

def describe (s : St) (s' : St) (t : Nat) (lab : Lab) : String :=
  match lab, s'.pc t with
  | .readEn _, .l4 v => s!"ok hit {v}"
  | .readEn _, .l1 _ => "ok miss"
  | .done v, _ => s!"ok done {v} {s.startRet t}"
  | .copy, .c2 d => s!"ok dict {d}"
  | _, _ => "ok"

def main : IO Unit := do
  let stdin ← IO.getStdin
  let stdout ← IO.getStdout
  let mut s : St := {}
  let mut go := true
  while go do
    let line ← stdin.getLine
    if line.isEmpty then
      go := false
    else
      let l := if line.endsWith "\n" then (line.dropEnd 1).toString else line
      match l.splitOn " " with
      | ["reset"] =>
        s := {}
        stdout.putStrLn "ok"
      | t :: rest =>
        match t.toNat? with
        | some t =>
          match parseLab s t rest with
          | some lab =>
            match step Conc.ShapeGen.actFirst s t lab with
            | some s' =>
              stdout.putStrLn (describe s s' t lab)
              s := s'
            | none => stdout.putStrLn s!"reject not-enabled act={s.act} en={s.en} lock={s.lock}"
          | none => stdout.putStrLn "reject bad-label"
        | none => stdout.putStrLn "bad-op"
      | [] => stdout.putStrLn "bad-op"
  stdout.flush
