import LoguruModel.FileSink.Model
import LoguruModel.FileSink.RenamePath
import LoguruModel.Driver
open FileSink Py

/-! line protocol of the FileSink model (C08 and C18), see harness/c08.py -/

def encName : Name → String
  | .base k => s!"b_{k}"
  | .other k => s!"o_{k}"
  | .ren n d c => s!"R_{d}_{c}_" ++ encName n
  | .arc n => "A_" ++ encName n

def decNameToks : Nat → List String → Option (Name × List String)
  | 0, _ => none
  | fuel + 1, toks =>
    match toks with
    | "b" :: k :: r => k.toNat?.map fun k => (.base k, r)
    | "o" :: k :: r => k.toNat?.map fun k => (.other k, r)
    | "R" :: d :: c :: r =>
      match d.toNat?, c.toNat?, decNameToks fuel r with
      | some d, some c, some (n, r') => some (.ren n d c, r')
      | _, _, _ => none
    | "A" :: r => (decNameToks fuel r).map fun (n, r') => (.arc n, r')
    | _ => none

def decName (s : String) : Option Name :=
  let toks := s.splitOn "_"
  match decNameToks (toks.length + 1) toks with
  | some (n, []) => some n
  | _ => none

def encIds (l : List Nat) : String := ",".intercalate (l.map toString)
def decIds (s : String) : Option (List Nat) :=
  if s == "" then some [] else (s.splitOn ",").mapM (·.toNat?)

def encEntry : Entry → String
  | .file c => "f:" ++ encIds c
  | .arch .stream c => "s:" ++ encIds c
  | .arch .noMember c => "n:" ++ encIds c
  | .arch .broken c => "x:" ++ encIds c
  | .arch (.member n) c => "m/" ++ encName n ++ ":" ++ encIds c

def decEntry (s : String) : Option Entry :=
  match s.splitOn ":" with
  | [k, ids] =>
    match decIds ids with
    | none => none
    | some c =>
      if k == "f" then some (.file c)
      else if k == "s" then some (.arch .stream c)
      else if k == "n" then some (.arch .noMember c)
      else if k == "x" then some (.arch .broken c)
      else if k.startsWith "m/" then (decName (k.drop 2).toString).map fun n => .arch (.member n) c
      else none
  | _ => none

def encFS (fs : FS) : String := ";".intercalate (fs.map fun (n, e) => encName n ++ "=" ++ encEntry e)

def decFS (s : String) : Option FS :=
  if s == "-" then some [] else
  (s.splitOn ";").mapM fun item =>
    match item.splitOn "=" with
    | [n, e] => match decName n, decEntry e with
      | some n, some e => some (n, e)
      | _, _ => none
    | _ => none

def encEv : Ev → String
  | .mkdirs => "mkdirs" | .open n => "open/" ++ encName n | .fstat => "fstat" | .write => "write"
  | .flush => "flush" | .close => "close" | .stat => "stat" | .getctime n => "getctime/" ++ encName n
  | .rename a b => "rename/" ++ encName a ++ "/" ++ encName b | .remove n => "remove/" ++ encName n
  | .glob => "glob" | .openr n => "openr/" ++ encName n | .copen n => "copen/" ++ encName n
  | .ccopy => "ccopy" | .rotcall => "rotcall" | .compcall n => "compcall/" ++ encName n | .retstat => "retstat"

def decBool (s : String) : Option Bool := if s == "1" then some true else if s == "0" then some false else none

def decCfg (s : String) : Option Cfg :=
  match s.splitOn "," with
  | [r, c, t, w, g] =>
    let comp : Option (Option Comp) :=
      if c == "none" then some none else if c == "copy" then some (some (.fmt .copy))
      else if c == "add" then some (some (.fmt .add)) else if c == "write" then some (some (.fmt .write))
      else if c == "call" then some (some .callable) else none
    match decBool r, comp, decBool t, decBool w, g.toNat? with
    | some r, some c, some t, some w, some g => some { hasRot := r, comp := c, hasRet := t, watch := w, nglob := g }
    | _, _, _, _, _ => none
  | _ => none

def decRet (s : String) : Option (List RetStep) :=
  if s == "-" then some [] else
  (s.splitOn ",").mapM fun t =>
    if t == "s" then some .stat
    else if t.startsWith "d/" then (decName (t.drop 2).toString).map .del
    else none

def decOrc (rot clk c1 c2 ret : String) : Option Orc :=
  match decBool rot, clk.toNat?, c1.toNat?, c2.toNat?, decRet ret with
  | some r, some k, some a, some b, some s => some { rot := r, clk := k, ct1 := a, ct2 := b, ret := s }
  | _, _, _, _, _ => none

def decOp (s : String) : Option Op :=
  match s.splitOn ":" with
  | ["i", rot, clk, c1, c2, ret] => (decOrc rot clk c1 c2 ret).map .init
  | ["w", rot, clk, c1, c2, ret] => (decOrc rot clk c1 c2 ret).map .write
  | ["s", rot, clk, c1, c2, ret] => (decOrc rot clk c1 c2 ret).map .stop
  | ["r"] => some .restart
  | ["xd", n] => (decName n).map .extDelete
  | ["xr", n] => (decName n).map .extReplace
  | _ => none

def decFaults (s : String) : Option (List Bool) :=
  if s == "-" then some [] else s.toList.mapM fun c => if c == '1' then some true else if c == '0' then some false else none

def encRes : Except Err Unit → String
  | .ok _ => "ok"
  | .error e => toString e

def showRun (cfg : Cfg) (ops : List Op) (w0 : W) : String :=
  let log := runLog cfg ops w0
  let rec go (prevLen : Nat) : List (Except Err Unit × W) → List String
    | [] => []
    | (r, w) :: rest =>
      let evs := (w.trace.take (w.trace.length - prevLen)).reverse
      (encRes r ++ "|" ++ ",".intercalate (evs.map encEv) ++ "|" ++ encFS w.fs) :: go w.trace.length rest
  let wf := run cfg ops w0
  " # ".intercalate (go 0 log ++
    ["G|" ++ encIds wf.written.reverse ++ "|" ++ encIds wf.deleted ++ "|" ++ encIds wf.orphaned ++ "|" ++
      ",".intercalate (wf.clobbered.map encName)])

def step (line : String) : String :=
  match line.splitOn " " with
  | "run" :: cfg :: fs :: nid :: faults :: ops =>
    match decCfg cfg, decFS fs, nid.toNat?, decFaults faults, ops.mapM decOp with
    | some cfg, some fs, some nid, some faults, some ops =>
      showRun cfg ops { fs := fs, faults := faults, nextId := nid }
    | _, _, _, _, _ => "bad-op"
  | "gen" :: root :: date :: ext :: taken =>
    -- string-level `generate_rename_path`: root, date text, ext, then the existing paths
    match decTok root, decTok date, decTok ext, taken.mapM decTok with
    | some root, some date, some ext, some taken =>
      match generateRenamePath taken root date ext with
      | some r => "ok " ++ encTok r
      | none => "none"
    | _, _, _, _ => "bad-op"
  | ["fmt", s] =>
    match decTok s with
    | some s =>
      match parseCompression s with
      | .ok (k, ext) => "ok " ++ (match k with | .copy => "copy" | .add => "add" | .write => "write") ++ " " ++ encTok ext
      | .error e => "err " ++ toString e
    | none => "bad-op"
  | _ => "bad-op"

def main : IO Unit := driverLoop step
