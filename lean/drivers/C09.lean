import LoguruModel.Buffer.Model
import LoguruModel.Driver
open Buffer Py

/-
line protocol (one line in, one line out):

  crash <E> <rot> <comp> <ret> <K> <J> <call>*     file sink; E = "~" (no file) or token of the existing content;
                                                   K calls return, then J primitives of call K+1 run, then the process dies
        -> ok <pending> <file>*                    files on disk, oldest first
  stream <hasFlush> <hasStaticFlush> <lineBufferingAttr> <writeThrough> <lineBuffered> <K> <call>*   stream sink over a user stream
                                                   (what it exposes; how its file really buffers); dies after K calls
        -> ok <pending> <os>
  exitf <enq> <owner> <rot> <comp> <ret> <Q> <call>*       one file handler, the last Q calls still queued at interpreter exit
        -> ok <registered> <stopped> <hung> <open> <compressions> <retentions> <pending> <file>*
  exits <enq> <owner> <flushable> <stoppable> <Q> <call>*  one stream handler
        -> ok <registered> <stopped> <hung> <stops> <pending> <os>
  text <terminator: f|s> <call>                    -> ok <emitted text>

  call = <rotDue 0|1>:<kind s|d>:<raw 0|1>:<serialize 0|1>:<body>:<exc>
-/

/-- linear-time variant of `Py.decTok` (texts of several KiB cross this pipe) -/
def decTokFast (tok : String) : Option Str :=
  if tok = "-" then some [] else
  (tok.splitOn ".").mapM (fun h => (parseHex h).map Char.ofNat)

def bit (s : String) : Option Bool := if s = "1" then some true else if s = "0" then some false else none

def parseCall (term : Str) (s : String) : Option Call :=
  match s.splitOn ":" with
  | [r, k, raw, ser, body, exc] =>
    match bit r, bit raw, bit ser, decTokFast body, decTokFast exc with
    | some r, some raw, some ser, some body, some exc =>
      let kind := if k = "s" then some FormatKind.static else if k = "d" then some FormatKind.dynamic else none
      match kind with
      | some kind =>
        let m : Msg := { body := body, exc := exc, raw := raw, serialize := ser }
        some (r, emitText kind term (fun _ => body) m)
      | none => none
    | _, _, _, _, _ => none
  | _ => none

def parseCalls (term : Str) (l : List String) : Option (List Call) := l.mapM (parseCall term)

def encList (l : List Str) : String := " ".intercalate (l.map encTok)

def b01 (b : Bool) : String := if b then "1" else "0"

/-- state of a handler at interpreter exit: the first calls already went through its sink – directly,
or (enqueue) through the worker thread, which may have ended early; then nobody reads the queue -/
def atExit (enq own : Bool) (q : Nat) (calls : List Call) (sink0 : Sink) : Handler :=
  let direct := calls.take (calls.length - q)
  let queued := calls.drop (calls.length - q)
  if enq then
    let (k, unread) := workerRun Gen.workerOps sink0 direct
    let alive := unread.isEmpty
    { enqueue := true, owner := own, queue := if alive then queued else [], sink := k,
      stopped := false, sentinel := false, joined := false, hung := false }
  else
    { enqueue := false, owner := own, queue := [], sink := calls.foldl Sink.write sink0,
      stopped := false, sentinel := false, joined := false, hung := false }

def step (line : String) : String :=
  match line.splitOn " " with
  | "crash" :: e :: rot :: comp :: ret :: k :: j :: rest =>
    let ex : Option (Option Str) := if e = "~" then some none else (decTokFast e).map some
    match ex, bit rot, bit comp, bit ret, k.toNat?, j.toNat?, parseCalls Gen.fileTerminator rest with
    | some ex, some rot, some comp, some ret, some k, some j, some calls =>
      let s := runCalls (FileSink.new ex rot comp ret) (calls.take k)
      let s := match calls.drop k with
        | c :: _ => runPrims s ((writePrims (c.1 && s.hasRotation) c.2).take j)
        | [] => s
      "ok " ++ encTok s.pendingText ++ " " ++ encList s.disk
    | _, _, _, _, _, _, _ => "bad-op"
  | "stream" :: fl :: sfl :: lba :: wt :: lb :: k :: rest =>
    match bit fl, bit sfl, bit lba, bit wt, bit lb, k.toNat?, parseCalls Gen.streamTerminator rest with
    | some fl, some sfl, some lba, some wt, some lb, some k, some calls =>
      let s0 : Stream := StreamSink.new { os := [], pending := [], lineBuffering := lb, closed := false } fl sfl lba wt
      let s := ((calls.take k).map (·.2)).foldl Stream.sinkWrite s0
      "ok " ++ encTok s.file.pending ++ " " ++ encTok s.file.crash
    | _, _, _, _, _, _, _ => "bad-op"
  | "exitf" :: enq :: own :: rot :: comp :: ret :: q :: rest =>
    match bit enq, bit own, bit rot, bit comp, bit ret, q.toNat?, parseCalls Gen.fileTerminator rest with
    | some enq, some own, some rot, some comp, some ret, some q, some calls =>
      let q := if enq then min q calls.length else 0
      let h : Handler := atExit enq own q calls (.file (FileSink.new none rot comp ret))
      let lg := interpreterExit { handlers := [h], removed := [] }
      let h' := match lg.removed, lg.handlers with
        | x :: _, _ => x
        | [], x :: _ => x
        | [], [] => h
      match h'.sink with
      | .file f => "ok " ++ toString lg.handlers.length ++ " " ++ b01 h'.stopped ++ " " ++ b01 h'.hung ++ " " ++
          b01 f.file.isSome ++ " " ++ toString f.compressions ++ " " ++ toString f.retentions ++ " " ++
          encTok f.pendingText ++ " " ++ encList f.disk
      | _ => "bad-op"
    | _, _, _, _, _, _, _ => "bad-op"
  | "exits" :: enq :: own :: fl :: stoppable :: q :: rest =>
    match bit enq, bit own, bit fl, bit stoppable, q.toNat?, parseCalls Gen.streamTerminator rest with
    | some enq, some own, some fl, some stoppable, some q, some calls =>
      let q := if enq then min q calls.length else 0
      let s0 : Stream := StreamSink.new { os := [], pending := [], lineBuffering := false, closed := false } fl fl false false
      let h : Handler := atExit enq own q calls (.stream s0 stoppable 0)
      let lg := interpreterExit { handlers := [h], removed := [] }
      let h' := match lg.removed, lg.handlers with
        | x :: _, _ => x
        | [], x :: _ => x
        | [], [] => h
      match h'.sink with
      | .stream s _ n => "ok " ++ toString lg.handlers.length ++ " " ++ b01 h'.stopped ++ " " ++ b01 h'.hung ++ " " ++
          toString n ++ " " ++ encTok s.file.pending ++ " " ++ encTok s.file.os
      | _ => "bad-op"
    | _, _, _, _, _, _ => "bad-op"
  | ["text", t, c] =>
    let term := if t = "f" then some Gen.fileTerminator else if t = "s" then some Gen.streamTerminator else none
    match term with
    | some term =>
      match parseCall term c with
      | some call => "ok " ++ encTok call.2
      | none => "bad-op"
    | none => "bad-op"
  | _ => "bad-op"

def main : IO Unit := driverLoop step
