import LoguruModel.Buffer.Layers
import LoguruModel.Driver
open Buffer Py

/-
line protocol (one line in, one line out):

  crash <E> <rot> <comp> <ret> <K> <J> <call>*     file sink; E = "~" (no file) or token of the existing content;
                                                   K calls return, then J primitives of call K+1 run, then the process dies
        -> ok <pending> <file>*                    files on disk, oldest first
  stream <hasFlush> <hasStaticFlush> <lineBufferingAttr> <writeThrough> <lineBuffered> <K> <call>*   stream sink over a user stream
                                                   (what it exposes; how its file really buffers); dies after K calls
        -> ok <pending> <os>
  exitf <enq> <owner> <rot> <comp> <ret> <Q> <call>*       one file handler, the last Q calls still queued at interpreter exit
        -> ok <registered> <stopped> <hung> <open> <compressions> <retentions> <pending> <file>*
  exits <enq> <owner> <flushable> <stoppable> <Q> <call>*  one stream handler
        -> ok <registered> <stopped> <hung> <stops> <pending> <os>
  text <terminator: f|s> <call>                    -> ok <emitted text>
  crashx <E> <rot> <comp> <ret> <buffering> <mode a|w|x> <delay> <K> <J> <call>*   file sink with explicit open() arguments,
                                                   watch=True when a call carries the "moved" flag
  lstream <hasFlush> <hasStaticFlush> <lineBufferingAttr> <writeThroughAttr> <buffered> <lineBuffering> <writeThrough> <K> <call>*
                                                   stream sink over the LAYERED stream model (no size-driven spill)
        -> ok <text still in the two layers> <os>
  exitfx <enq> <owner> <rot> <comp> <ret> <buffering> <mode> <delay> <dead> <Q> <call>*
  exitsx <enq> <owner> <hasFlush> <hasStaticFlush> <hasStop> <hasStaticStop> <dead> <Q> <call>*
                                                   dead = "-" or the number of messages the worker wrote before it ended

  kern <hasFlush> <hasStaticFlush> <lineBuffering> <writeThrough> <hasStop> <hasStaticStop>
        -> ok <flushed after one write 0|1> <stop() calls of StreamSink.stop>

  call = <flags 0..7 = rotDue + 2*moved + 4*poisoned (the record cannot be un-pickled by the worker)>:<kind s|d>:<raw 0|1>:<serialize 0|1>:<body>:<exc>

  call = <rotDue 0|1>:<kind s|d>:<raw 0|1>:<serialize 0|1>:<body>:<exc>
-/

/-- linear-time variant of `Py.decTok` (texts of several KiB cross this pipe) -/
def decTokFast (tok : String) : Option Str :=
  if tok = "-" then some [] else
  (tok.splitOn ".").mapM (fun h => (parseHex h).map Char.ofNat)

def bit (s : String) : Option Bool := if s = "1" then some true else if s = "0" then some false else none

/-- a call token: `(poisoned, moved, rotDue, text)`; the first field is 0..7 = rotDue + 2 * moved + 4 * poisoned -/
def parseCallP (term : Str) (s : String) : Option (Bool × Bool × Call) :=
  match s.splitOn ":" with
  | [r, k, raw, ser, body, exc] =>
    match r.toNat?, bit raw, bit ser, decTokFast body, decTokFast exc with
    | some n, some raw, some ser, some body, some exc =>
      let kind := if k = "s" then some FormatKind.static else if k = "d" then some FormatKind.dynamic else none
      match kind with
      | some kind =>
        if n < 8 then
          let m : Msg := { body := body, exc := exc, raw := raw, serialize := ser }
          some (n / 4 % 2 == 1, n / 2 % 2 == 1, n % 2 == 1, emitText kind term (fun _ => body) m)
        else none
      | none => none
    | _, _, _, _, _ => none
  | _ => none

def parseCallX (term : Str) (s : String) : Option (Bool × Call) := (parseCallP term s).map (·.2)

def parseCallsP (term : Str) (l : List String) : Option (List (Bool × Call)) :=
  l.mapM (fun s => (parseCallP term s).map (fun x => (x.1, x.2.2)))

def parseCall (term : Str) (s : String) : Option Call := (parseCallX term s).map (·.2)

def parseCallsX (term : Str) (l : List String) : Option (List (Bool × Call)) := l.mapM (parseCallX term)

def parseCalls (term : Str) (l : List String) : Option (List Call) := l.mapM (parseCall term)

def encList (l : List Str) : String := " ".intercalate (l.map encTok)

def b01 (b : Bool) : String := if b then "1" else "0"

def parseModeTok (s : String) : Option OpenMode :=
  if s = "a" then some .append else if s = "w" then some .truncate else if s = "x" then some .exclusive else none

/-- `-` = the worker is alive; `n` = it ended (a sink raised a BaseException) after writing n messages,
the message it was writing is gone with it -/
def parseDead (s : String) : Option (Option Nat) := if s = "-" then some none else s.toNat?.map some

/-- state of a handler at interpreter exit, built by running the model's own `Handler.emit` (the
GENERATED tail) for every call and the worker thread for all but the last `q` messages; a flagged call
carries a record that cannot be un-pickled by the worker -/
def atExit (enq own : Bool) (q : Nat) (fcalls : List (Bool × Call)) (sink0 : Sink) (dead : Option Nat) : Handler :=
  let calls := fcalls.map (·.2)
  let h0 : Handler := { enqueue := enq, owner := own, queue := [], sink := sink0,
                        stopped := false, sentinel := false, joined := false, hung := false }
  let logs := calls.map Ev.log
  if enq && fcalls.any (·.1) then
    let h := h0.run logs
    let items := fcalls.map (fun x => if x.1 then QItem.poison else QItem.msg x.2)
    let (k, unread) := workerRunQ Gen.workerOps sink0 items
    -- the loop ended on an item and left others unread (a loop ending on the very last item changes nothing observable)
    let ended := !unread.isEmpty
    if ended then { h with sink := k, queue := msgsOf unread, workerDead := true }
    else { h with sink := k, queue := [] }
  else
  match dead with
  | none => h0.run (logs ++ List.replicate (if enq then calls.length - q else 0) Ev.worker)
  | some d =>
    let h := h0.run (logs ++ List.replicate d Ev.worker)
    if enq then { h with queue := h.queue.drop 1, workerDead := true } else h

def fileExit (enq own rot comp ret : Bool) (buf : Int) (mode : OpenMode) (delay : Bool) (dead : Option Nat) (q : Nat)
    (calls : List (Bool × Call)) : String :=
  let q := if enq then min q calls.length else 0
  let h : Handler := atExit enq own q calls (.file (FileSink.newWith none rot comp ret buf mode delay)) dead
  let lg := interpreterExit { handlers := [h], removed := [] }
  let h' := match lg.removed, lg.handlers with
    | x :: _, _ => x
    | [], x :: _ => x
    | [], [] => h
  match h'.sink with
  | .file f => "ok " ++ toString lg.handlers.length ++ " " ++ b01 h'.stopped ++ " " ++ b01 h'.hung ++ " " ++
      b01 f.file.isSome ++ " " ++ toString f.compressions ++ " " ++ toString f.retentions ++ " " ++
      encTok f.pendingText ++ " " ++ encList f.disk
  | _ => "bad-op"

def streamExit (enq own fl sfl hasStop hasStaticStop : Bool) (dead : Option Nat) (q : Nat) (calls : List (Bool × Call)) : String :=
  let q := if enq then min q calls.length else 0
  let s0 : Stream := StreamSink.new { os := [], pending := [], lineBuffering := false, closed := false } fl sfl false false
  let h : Handler := atExit enq own q calls (.stream s0 (Gen.stoppableOf hasStop hasStaticStop fl sfl false false) 0) dead
  let lg := interpreterExit { handlers := [h], removed := [] }
  let h' := match lg.removed, lg.handlers with
    | x :: _, _ => x
    | [], x :: _ => x
    | [], [] => h
  match h'.sink with
  | .stream s _ n => "ok " ++ toString lg.handlers.length ++ " " ++ b01 h'.stopped ++ " " ++ b01 h'.hung ++ " " ++
      toString n ++ " " ++ encTok s.file.pending ++ " " ++ encTok s.file.os
  | _ => "bad-op"

def step (line : String) : String :=
  match line.splitOn " " with
  | "crash" :: e :: rot :: comp :: ret :: k :: j :: rest =>
    let ex : Option (Option Str) := if e = "~" then some none else (decTokFast e).map some
    match ex, bit rot, bit comp, bit ret, k.toNat?, j.toNat?, parseCalls Gen.fileTerminator rest with
    | some ex, some rot, some comp, some ret, some k, some j, some calls =>
      let s := runCalls (FileSink.new ex rot comp ret) (calls.take k)
      let s := match calls.drop k with
        | c :: _ => runPrims s ((writePrims (c.1 && s.hasRotation) c.2).take j)
        | [] => s
      "ok " ++ encTok s.pendingText ++ " " ++ encList s.disk
    | _, _, _, _, _, _, _ => "bad-op"
  | "crashx" :: e :: rot :: comp :: ret :: buf :: mode :: delay :: k :: j :: rest =>
    let ex : Option (Option Str) := if e = "~" then some none else (decTokFast e).map some
    match ex, bit rot, bit comp, bit ret, buf.toInt?, parseModeTok mode, bit delay, k.toNat?, j.toNat?,
        parseCallsX Gen.fileTerminator rest with
    | some ex, some rot, some comp, some ret, some buf, some mode, some delay, some k, some j, some calls =>
      let s := (calls.take k).foldl (fun s c => s.writeW c.1 c.2.1 c.2.2) (FileSink.newWith ex rot comp ret buf mode delay)
      let s := match calls.drop k with
        | c :: _ => runPrims s ((writePrimsW c.1 (c.2.1 && s.hasRotation) c.2.2).take j)
        | [] => s
      "ok " ++ encTok s.pendingText ++ " " ++ encList s.disk
    | _, _, _, _, _, _, _, _, _, _ => "bad-op"
  | "stream" :: fl :: sfl :: lba :: wt :: lb :: k :: rest =>
    match bit fl, bit sfl, bit lba, bit wt, bit lb, k.toNat?, parseCalls Gen.streamTerminator rest with
    | some fl, some sfl, some lba, some wt, some lb, some k, some calls =>
      let s0 : Stream := StreamSink.new { os := [], pending := [], lineBuffering := lb, closed := false } fl sfl lba wt
      let s := ((calls.take k).map (·.2)).foldl Stream.sinkWrite s0
      "ok " ++ encTok s.file.pending ++ " " ++ encTok s.file.crash
    | _, _, _, _, _, _, _ => "bad-op"
  | "lstream" :: fl :: sfl :: lba :: wta :: bu :: lb :: wt :: k :: rest =>
    match bit fl, bit sfl, bit lba, bit wta, bit bu, bit lb, bit wt, k.toNat?, parseCalls Gen.streamTerminator rest with
    | some fl, some sfl, some lba, some wta, some bu, some lb, some wt, some k, some calls =>
      let f0 : Layered := { os := [], bin := [], text := [], buffered := bu, lineBuffering := lb, writeThrough := wt,
                            closed := false }
      let s0 : LStream := { file := f0, flushable := Gen.flushableOf fl sfl lba wta }
      let s := ((calls.take k).map (·.2)).foldl (fun s m => s.sinkWrite m Spill.none) s0
      "ok " ++ encTok (s.file.bin ++ s.file.text) ++ " " ++ encTok s.file.crash
    | _, _, _, _, _, _, _, _, _ => "bad-op"
  | "exitf" :: enq :: own :: rot :: comp :: ret :: q :: rest =>
    match bit enq, bit own, bit rot, bit comp, bit ret, q.toNat?, parseCalls Gen.fileTerminator rest,
        parseMode Gen.fileMode with
    | some enq, some own, some rot, some comp, some ret, some q, some calls, some mode =>
      fileExit enq own rot comp ret Gen.fileBuffering mode false none q (calls.map (fun c => (false, c)))
    | _, _, _, _, _, _, _, _ => "bad-op"
  | "exitfx" :: enq :: own :: rot :: comp :: ret :: buf :: mode :: delay :: dead :: q :: rest =>
    match bit enq, bit own, bit rot, bit comp, bit ret, buf.toInt?, parseModeTok mode, bit delay, parseDead dead,
        q.toNat?, parseCallsP Gen.fileTerminator rest with
    | some enq, some own, some rot, some comp, some ret, some buf, some mode, some delay, some dead, some q, some calls =>
      fileExit enq own rot comp ret buf mode delay dead q calls
    | _, _, _, _, _, _, _, _, _, _, _ => "bad-op"
  | "exits" :: enq :: own :: fl :: stoppable :: q :: rest =>
    match bit enq, bit own, bit fl, bit stoppable, q.toNat?, parseCalls Gen.streamTerminator rest with
    | some enq, some own, some fl, some stoppable, some q, some calls =>
      streamExit enq own fl fl stoppable stoppable none q (calls.map (fun c => (false, c)))
    | _, _, _, _, _, _ => "bad-op"
  | "exitsx" :: enq :: own :: fl :: sfl :: hs :: shs :: dead :: q :: rest =>
    match bit enq, bit own, bit fl, bit sfl, bit hs, bit shs, parseDead dead, q.toNat?,
        parseCallsP Gen.streamTerminator rest with
    | some enq, some own, some fl, some sfl, some hs, some shs, some dead, some q, some calls =>
      streamExit enq own fl sfl hs shs dead q calls
    | _, _, _, _, _, _, _, _, _ => "bad-op"
  | ["kern", hf, sf, lb, wt, hs, ss] =>
    match bit hf, bit sf, bit lb, bit wt, bit hs, bit ss with
    | some hf, some sf, some lb, some wt, some hs, some ss =>
      let s0 : Stream := StreamSink.new { os := [], pending := [], lineBuffering := false, closed := false } hf sf lb wt
      let s1 := s0.sinkWrite "m".toList
      "ok " ++ b01 (s1.file.pending.isEmpty) ++ " " ++ toString (streamStopCalls (Gen.stoppableOf hs ss hf sf lb wt) 0)
    | _, _, _, _, _, _ => "bad-op"
  | ["text", t, c] =>
    let term := if t = "f" then some Gen.fileTerminator else if t = "s" then some Gen.streamTerminator else none
    match term with
    | some term =>
      match parseCall term c with
      | some call => "ok " ++ encTok call.2
      | none => "bad-op"
    | none => "bad-op"
  | _ => "bad-op"

def main : IO Unit := driverLoop step
