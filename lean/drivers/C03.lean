import LoguruModel.Queue.Model
import LoguruModel.Driver
open Queue

/-! Acceptor for `Queue.step`.  `reset p1 p2 …` starts a new trace; thread k (k ≥ 1) belongs to
process p_k, thread 0 is the worker.  `<tid> <label…>` must be an enabled transition.
`sink` prints the sink content as `t:m,t:m,…`, `handled` the worker's log `t:m:w|r|u,…`. -/

def parseItem : List String → Option Item
  | ["msg", t, m] => match t.toNat?, m.toNat? with
    | some t, some m => some (.msg t m)
    | _, _ => none
  | ["confirm"] => some .confirm
  | ["sentinel"] => some .sentinel
  | _ => none

def parseLab : List String → Option Lab
  | ["startLog", m] => m.toNat?.map .startLog
  | ["startStop"] => some .startStop
  | ["startComplete"] => some .startComplete
  | ["acqL"] => some .acqL
  | ["relL"] => some .relL
  | ["rStopped", b] => some (.rStopped (b == "1"))
  | ["wStopped"] => some .wStopped
  | "put" :: rest => (parseItem rest).map .put
  | "get" :: rest => (parseItem rest).map .get
  | "getFail" :: rest => (parseItem rest).map .getFail
  | ["getRaise"] => some .getRaise
  | ["writeFail"] => some .writeFail
  | ["putFail"] => some .putFail
  | ["join"] => some .join
  | ["sinkStop"] => some .sinkStop
  | ["acqConf"] => some .acqConf
  | ["relConf"] => some .relConf
  | ["waitEvent"] => some .waitEvent
  | ["clearEvent"] => some .clearEvent
  | ["write"] => some .write
  | ["setEvent"] => some .setEvent
  | _ => none

def main : IO Unit := do
  let stdin ← IO.getStdin
  let stdout ← IO.getStdout
  let mut s : St := {}
  let mut procs : Array Nat := #[]
  let mut go := true
  while go do
    let line ← stdin.getLine
    if line.isEmpty then
      go := false
    else
      let l := if line.endsWith "\n" then (line.dropEnd 1).toString else line
      match l.splitOn " " with
      | "reset" :: ps =>
        s := {}
        procs := (ps.filterMap String.toNat?).toArray
        stdout.putStrLn "ok"
      | ["sink"] =>
        stdout.putStrLn ("sink " ++ ",".intercalate (s.sink.map (fun e => s!"{e.1}:{e.2}")))
      | ["handled"] =>
        let o : Outcome → String := fun o => match o with
          | .written => "w" | .refused => "r" | .unreadable => "u"
        stdout.putStrLn ("handled " ++ ",".intercalate (s.handled.map (fun e => s!"{e.1.1}:{e.1.2}:{o e.2}")))
      | t :: rest =>
        match t.toNat?, parseLab rest with
        | some t, some lab =>
          let pa := procs
          let proc : Tid → Pid := fun u => pa.getD (u - 1) 0
          match step proc s t lab with
          | some s' =>
            s := s'
            stdout.putStrLn "ok"
          | none => stdout.putStrLn s!"reject not-enabled queue-len={s.queue.length} event={s.event} conf={s.confLock}"
        | _, _ => stdout.putStrLn "bad-op"
      | [] => stdout.putStrLn "bad-op"
  stdout.flush
