import LoguruModel.Context.Model
import LoguruModel.Driver
open Context Py

/-! line protocol of C12
  prog <op> <op> …     op = ctx:code[:arg…]   (see harness/c12.py `op_token`)
    -> events | loggers | final context values
  cv <op> <op> …       pure contextvars programme (Py/ContextVars.lean)
    -> one result per op
-/

abbrev A := Assoc Nat Nat
abbrev Pt := Nat × Nat × Nat × Nat   -- patcher: (id, key, value, mode)

/-- mode 0: `extra[key] = value` (idempotent); mode 1: `extra[key] = extra.get(key, 0) + value`
(not idempotent: running it twice shows) -/
def papply (p : Pt) (x : A) : A :=
  if p.2.2.2 = 0 then merge x [(p.2.1, p.2.2.1)]
  else merge x [(p.2.1, (get? x p.2.1).getD 0 + p.2.2.1)]

def parseKw (s : String) : Option A :=
  if s = "_" then some [] else
  (s.splitOn ",").foldl (fun acc item => match acc, item.splitOn "=" with
    | some a, [k, v] => match k.toNat?, v.toNat? with
      | some k, some v => some (a ++ [(k, v)])
      | _, _ => none
    | _, _ => none) (some [])

def parsePt (s : String) : Option Pt :=
  match s.splitOn "," with
  | [i, k, v] => match i.toNat?, k.toNat?, v.toNat? with
    | some i, some k, some v => some (i, k, v, 0)
    | _, _, _ => none
  | [i, k, v, m] => match i.toNat?, k.toNat?, v.toNat?, m.toNat? with
    | some i, some k, some v, some m => some (i, k, v, m)
    | _, _, _, _ => none
  | _ => none

def parseBool (s : String) : Option Bool := if s = "1" then some true else if s = "0" then some false else none

def parseFlags (s : String) : Option Flags :=
  match s.splitOn "," with
  | [e, d, r, l, c, w, cap] =>
    match e.toNat?, d.toInt?, parseBool r, parseBool l, parseBool c, parseBool w, parseBool cap with
    | some e, some d, some r, some l, some c, some w, some cap =>
      some { exception := e, depth := d, record := r, lazy := l, colors := c, raw := w, capture := cap }
    | _, _, _, _, _, _, _ => none
  | _ => none

def parseOp (tok : String) : Option (Nat × Op Nat Nat Pt) :=
  match tok.splitOn ":" with
  | c :: rest =>
    match c.toNat? with
    | none => none
    | some c =>
      (match rest with
      | ["E", kw] => (parseKw kw).map Op.enter
      | ["X"] => some Op.exit
      | ["R", k, kd] =>
        let kind : Option ExitKind := if kd = "e" then some .exception else if kd = "b" then some .baseException
          else if kd = "n" then some .normal else none
        match k.toNat?, kind with
        | some k, some kind => some (Op.raise k kind) | _, _ => none
      | ["L", l, kw] => match l.toNat?, parseKw kw with
        | some l, some kw => some (Op.log l kw) | _, _ => none
      | ["B", l, kw] => match l.toNat?, parseKw kw with
        | some l, some kw => some (Op.bind l kw) | _, _ => none
      | ["P", l, p] => match l.toNat?, parsePt p with
        | some l, some p => some (Op.patch l p) | _, _ => none
      | ["O", l, f] => match l.toNat?, parseFlags f with
        | some l, some f => some (Op.opt l f) | _, _ => none
      | ["C", e, p] =>
        let e' : Option (Option A) := if e = "-" then some none else (parseKw e).map some
        let p' : Option (Option Pt) := if p = "-" then some none else (parsePt p).map some
        match e', p' with
        | some e, some p => some (Op.configure e p) | _, _ => none
      | ["S", b] => (parseBool b).map Op.spawn
      | ["A"] => some Op.addHandler
      | ["D", i] => i.toNat?.map Op.removeHandler
      | _ => none).map (fun op => (c, op))
  | _ => none

def showKw (a : A) : String :=
  if a.isEmpty then "_" else ",".intercalate (a.map (fun kv => s!"{kv.1}={kv.2}"))

def showEvent : Event Nat Nat Pt → String
  | .patched c p seen => s!"p:{c}:{p.1}:{showKw seen}"
  | .delivered c h x => s!"d:{c}:{h}:{showKw x}"
  | .error c e => s!"e:{c}:{e}"

def b01 (b : Bool) : String := if b then "1" else "0"

def showOpts (o : Opts Nat Nat Pt) : String :=
  let f := o.flags
  let ps := if o.patchers.isEmpty then "_" else ",".intercalate (o.patchers.map (fun p => toString p.1))
  s!"o:{f.exception},{f.depth},{b01 f.record},{b01 f.lazy},{b01 f.colors},{b01 f.raw},{b01 f.capture}:{ps}:{showKw o.extra}"

def parseAll {α} (f : String → Option α) (toks : List String) : Option (List α) :=
  toks.foldr (fun t acc => match f t, acc with
    | some x, some xs => some (x :: xs) | _, _ => none) (some [])

/-- pure contextvars programme: tokens are held in a table, referenced by creation index -/
structure CvSt where
  s : ContextVars.State Nat
  toks : List (ContextVars.Token Nat)

def cvStep (st : CvSt) (tok : String) : Option (CvSt × String) :=
  match tok.splitOn ":" with
  | [c, "get"] => c.toNat?.map (fun c => (st, match ContextVars.get st.s c with | some v => toString v | none => "-"))
  | [c, "set", v] => match c.toNat?, v.toNat? with
    | some c, some v =>
      let r := ContextVars.set st.s c v
      some ({ s := r.1, toks := st.toks ++ [r.2] }, "t" ++ toString st.toks.length)
    | _, _ => none
  | [c, "reset", i] => match c.toNat?, i.toNat? with
    | some c, some i =>
      match st.toks[i]? with
      | none => none
      | some t => match ContextVars.reset st.s c t with
        | .ok s' => some ({ st with s := s' }, "ok")
        | .error e => some (st, toString e)
    | _, _ => none
  | [c, "spawn", b] => match c.toNat?, parseBool b with
    | some c, some b =>
      let r := ContextVars.spawn st.s c b
      some ({ st with s := r.1 }, "c" ++ toString r.2)
    | _, _ => none
  | _ => none

def step (line : String) : String :=
  match line.splitOn " " with
  | "prog" :: toks =>
    match parseAll parseOp (toks.filter (· ≠ "")) with
    | none => "bad-op"
    | some ops =>
      let s := run papply (init : State Nat Nat Pt) ops
      let ev := " ".intercalate (s.out.map showEvent)
      let lg := " ".intercalate (s.loggers.map showOpts)
      let vs := " ".intercalate ((List.range s.cv.n).map (fun c =>
        "v:" ++ (match ContextVars.get s.cv c with | some a => showKw a | none => "-")))
      ev ++ " | " ++ lg ++ " | " ++ vs
  | "cv" :: toks =>
    let r := (toks.filter (· ≠ "")).foldl (fun acc t => match acc with
      | none => none
      | some (st, outs) => match cvStep st t with
        | some (st', o) => some (st', outs ++ [o])
        | none => none) (some (({ s := ContextVars.init, toks := [] } : CvSt), ([] : List String)))
    match r with
    | some (_, outs) => " ".intercalate outs
    | none => "bad-op"
  | _ => "bad-op"

def main : IO Unit := driverLoop step
