import LoguruModel.Context.Model
import LoguruModel.Context.Heap
import LoguruModel.Context.Multi
import LoguruModel.Driver
open Context Py

/-! line protocol of C12
  prog <op> <op> …     op = ctx:code[:arg…]   (see harness/c12.py `op_token`)
    -> events | loggers | final context values
  cv <op> <op> …       pure contextvars programme (Py/ContextVars.lean)
    -> one result per op
-/

abbrev A := Assoc Nat Nat
abbrev Pt := Nat × Nat × Nat × Nat   -- patcher: (id, key, value, mode)

/-- mode even: `extra[key] = value` (idempotent); mode odd: `extra[key] = extra.get(key, 0) + value`
(not idempotent: running it twice shows) -/
def papply (p : Pt) (x : A) : A :=
  if p.2.2.2 % 2 = 0 then merge x [(p.2.1, p.2.2.1)]
  else merge x [(p.2.1, (get? x p.2.1).getD 0 + p.2.2.1)]

/-- `bool(patcher)`: modes 2 and 3 are the set / add patchers whose object is falsy (`__bool__` / `__len__`) -/
def ptruthy (p : Pt) : Bool := p.2.2.2 < 2

def parseKw (s : String) : Option A :=
  if s = "_" then some [] else
  (s.splitOn ",").foldl (fun acc item => match acc, item.splitOn "=" with
    | some a, [k, v] => match k.toNat?, v.toNat? with
      | some k, some v => some (a ++ [(k, v)])
      | _, _ => none
    | _, _ => none) (some [])

def parsePt (s : String) : Option Pt :=
  match s.splitOn "," with
  | [i, k, v] => match i.toNat?, k.toNat?, v.toNat? with
    | some i, some k, some v => some (i, k, v, 0)
    | _, _, _ => none
  | [i, k, v, m] => match i.toNat?, k.toNat?, v.toNat?, m.toNat? with
    | some i, some k, some v, some m => some (i, k, v, m)
    | _, _, _, _ => none
  | _ => none

def parseBool (s : String) : Option Bool := if s = "1" then some true else if s = "0" then some false else none

def parseFlags (s : String) : Option Flags :=
  match s.splitOn "," with
  | [e, d, r, l, c, w, cap] =>
    match e.toNat?, d.toInt?, parseBool r, parseBool l, parseBool c, parseBool w, parseBool cap with
    | some e, some d, some r, some l, some c, some w, some cap =>
      some { exception := e, depth := d, record := r, lazy := l, colors := c, raw := w, capture := cap }
    | _, _, _, _, _, _, _ => none
  | _ => none

def parseOp (tok : String) : Option (Nat × Op Nat Nat Pt) :=
  match tok.splitOn ":" with
  | c :: rest =>
    match c.toNat? with
    | none => none
    | some c =>
      (match rest with
      | ["E", kw] => (parseKw kw).map Op.enter
      | ["X"] => some Op.exit
      | ["R", k, kd] =>
        let kind : Option ExitKind := if kd = "e" then some .exception else if kd = "b" then some .baseException
          else if kd = "n" then some .normal else none
        match k.toNat?, kind with
        | some k, some kind => some (Op.raise k kind) | _, _ => none
      | ["L", l, kw] => match l.toNat?, parseKw kw with
        | some l, some kw => some (Op.log l kw) | _, _ => none
      | ["B", l, kw] => match l.toNat?, parseKw kw with
        | some l, some kw => some (Op.bind l kw) | _, _ => none
      | ["P", l, p] => match l.toNat?, parsePt p with
        | some l, some p => some (Op.patch l p) | _, _ => none
      | ["O", l, f] => match l.toNat?, parseFlags f with
        | some l, some f => some (Op.opt l f) | _, _ => none
      | ["C", e, p] =>
        let e' : Option (Option A) := if e = "-" then some none else (parseKw e).map some
        let p' : Option (Option Pt) := if p = "-" then some none else (parsePt p).map some
        match e', p' with
        | some e, some p => some (Op.configure e p) | _, _ => none
      | ["S", b] => (parseBool b).map Op.spawn
      | ["A"] => some Op.addHandler
      | ["D", i] => i.toNat?.map Op.removeHandler
      | _ => none).map (fun op => (c, op))
  | _ => none

def showKw (a : A) : String :=
  if a.isEmpty then "_" else ",".intercalate (a.map (fun kv => s!"{kv.1}={kv.2}"))

def showEvent : Event Nat Nat Pt → String
  | .patched c p seen => s!"p:{c}:{p.1}:{showKw seen}"
  | .delivered c h x => s!"d:{c}:{h}:{showKw x}"
  | .error c e => s!"e:{c}:{e}"

def b01 (b : Bool) : String := if b then "1" else "0"

def showOpts (o : Opts Nat Nat Pt) : String :=
  let f := o.flags
  let ps := if o.patchers.isEmpty then "_" else ",".intercalate (o.patchers.map (fun p => toString p.1))
  s!"o:{f.exception},{f.depth},{b01 f.record},{b01 f.lazy},{b01 f.colors},{b01 f.raw},{b01 f.capture}:{ps}:{showKw o.extra}"

def parseAll {α} (f : String → Option α) (toks : List String) : Option (List α) :=
  toks.foldr (fun t acc => match f t, acc with
    | some x, some xs => some (x :: xs) | _, _ => none) (some [])

/-- pure contextvars programme: tokens are held in a table, referenced by creation index -/
structure CvSt where
  s : ContextVars.State Nat
  toks : List (ContextVars.Token Nat)

def cvStep (st : CvSt) (tok : String) : Option (CvSt × String) :=
  match tok.splitOn ":" with
  | [c, "get"] => c.toNat?.map (fun c => (st, match ContextVars.get st.s c with | some v => toString v | none => "-"))
  | [c, "set", v] => match c.toNat?, v.toNat? with
    | some c, some v =>
      let r := ContextVars.set st.s c v
      some ({ s := r.1, toks := st.toks ++ [r.2] }, "t" ++ toString st.toks.length)
    | _, _ => none
  | [c, "reset", i] => match c.toNat?, i.toNat? with
    | some c, some i =>
      match st.toks[i]? with
      | none => none
      | some t => match ContextVars.reset st.s c t with
        | .ok s' => some ({ st with s := s' }, "ok")
        | .error e => some (st, toString e)
    | _, _ => none
  | [c, "spawn", b] => match c.toNat?, parseBool b with
    | some c, some b =>
      let r := ContextVars.spawn st.s c b
      some ({ st with s := r.1 }, "c" ++ toString r.2)
    | _, _ => none
  | _ => none


/-! object-level programmes (Context/Heap.lean): `hprog <op> …`
  c:a:kw            the caller builds a dict          c:C:i     configure(extra=<i-th dict the caller built>)
  c:B:l:kw          bind                              c:O:l:cap opt()/patch(): shares the receiver's extra object
  c:E:kw  c:X  c:S:copy                               c:L:l:kw:p;p;…  logging call, patcher chain (id,key,value,mode)
  c:M:o<i>|r<j>:set,k,v|del,k|clear                   the caller mutates its i-th dict / the j-th record's extra
    -> K:<core.extra> | L:<bound extra of every logger> | R:<extra of every record> -/
open Context.Heap in
def parseHOp (s : HState Nat Nat) (tok : String) : Option (Nat × HOp Nat Nat) :=
  match tok.splitOn ":" with
  | c :: rest =>
    match c.toNat? with
    | none => none
    | some c =>
      (match rest with
      | ["a", kw] => (parseKw kw).map HOp.alloc
      | ["C", i] => i.toNat?.map (fun i => HOp.configure (s.owned.getD i s.heap.length))
      | ["B", l, kw] => match l.toNat?, parseKw kw with
        | some l, some kw => some (HOp.bind l kw []) | _, _ => none
      | ["O", l, cap] => match l.toNat?, parseBool cap with
        | some l, some cap => some (HOp.opt l cap) | _, _ => none
      | ["E", kw] => (parseKw kw).map (fun kw => HOp.enter kw [])
      | ["X"] => some HOp.exit
      | ["S", b] => (parseBool b).map HOp.spawn
      | ["L", l, kw, ps] =>
        let chain : Option (List Pt) := if ps = "_" then some [] else parseAll parsePt (ps.splitOn ";")
        match l.toNat?, parseKw kw, chain with
        | some l, some kw, some chain => some (HOp.log l kw (fun x => chain.foldl (fun acc p => papply p acc) x) [])
        | _, _, _ => none
      | ["M", tgt, how] =>
        let r : Option Nat :=
          if tgt.startsWith "o" then (tgt.drop 1).toNat?.map (fun i => s.owned.getD i s.heap.length)
          else if tgt.startsWith "r" then (tgt.drop 1).toNat?.map (fun j => s.records.getD j s.heap.length)
          else none
        let f : Option (A → A) := match how.splitOn "," with
          | ["set", k, v] => match k.toNat?, v.toNat? with
            | some k, some v => some (fun x => merge x [(k, v)]) | _, _ => none
          | ["del", k] => k.toNat?.map (fun k => fun x => x.filter (fun kv => kv.1 ≠ k))
          | ["clear"] => some (fun _ => [])
          | _ => none
        match r, f with
        | some r, some f => some (HOp.mutate r f) | _, _ => none
      | _ => none).map (fun op => (c, op))
  | _ => none

open Context.Heap in
def runH (toks : List String) : Option (HState Nat Nat) :=
  toks.foldl (fun acc t => match acc with
    | none => none
    | some s => (parseHOp s t).map (fun e => hstep s e.1 e.2)) (some hinit)


/-! several cores (Context/Multi.lean): `mprog <op> …`, op = ctx:core:code[:arg…] with the codes of `prog`
(logger numbers are local to the core) plus `ctx:core:Y:l` = copy.deepcopy(logger l of that core)
    -> events | loggers of core 0, of core 1, … | final context values -/
def parseMOp (tok : String) : Option (Nat × MOp Nat Nat Pt) :=
  match tok.splitOn ":" with
  | c :: i :: rest =>
    match c.toNat?, i.toNat? with
    | some cn, some i =>
      (match rest with
      | ["Y", l] => l.toNat?.map (fun l => (cn, MOp.deepcopy i l))
      | _ => (parseOp (":".intercalate (c :: rest))).map (fun e => (e.1, MOp.on i e.2)))
    | _, _ => none
  | _ => none

def step (line : String) : String :=
  match line.splitOn " " with
  | "prog" :: toks =>
    match parseAll parseOp (toks.filter (· ≠ "")) with
    | none => "bad-op"
    | some ops =>
      let s := run papply (initT ptruthy : State Nat Nat Pt) ops
      let ev := " ".intercalate (s.out.map showEvent)
      let lg := " ".intercalate (s.loggers.map showOpts)
      let vs := " ".intercalate ((List.range s.cv.n).map (fun c =>
        "v:" ++ (match ContextVars.get s.cv c with | some a => showKw a | none => "-")))
      ev ++ " | " ++ lg ++ " | " ++ vs
  | "mprog" :: toks =>
    match parseAll parseMOp (toks.filter (· ≠ "")) with
    | none => "bad-op"
    | some ops =>
      let m := mrun papply (minit ptruthy : MState Nat Nat Pt) ops
      let s := m.shared
      let ev := " ".intercalate (s.out.map showEvent)
      let lg := " ".intercalate ((m.cores.map (fun k => k.loggers.map showOpts)).flatten)
      let vs := " ".intercalate ((List.range s.cv.n).map (fun c =>
        "v:" ++ (match ContextVars.get s.cv c with | some a => showKw a | none => "-")))
      ev ++ " | " ++ lg ++ " | " ++ vs
  | "hprog" :: toks =>
    match runH (toks.filter (· ≠ "")) with
    | none => "bad-op"
    | some s =>
      "K:" ++ showKw (Heap.cell s.heap s.core) ++ " | " ++
      " ".intercalate (s.loggers.map (fun p => "L:" ++ showKw (Heap.cell s.heap p.2))) ++ " | " ++
      " ".intercalate (s.records.map (fun r => "R:" ++ showKw (Heap.cell s.heap r)))
  | "cv" :: toks =>
    let r := (toks.filter (· ≠ "")).foldl (fun acc t => match acc with
      | none => none
      | some (st, outs) => match cvStep st t with
        | some (st', o) => some (st', outs ++ [o])
        | none => none) (some (({ s := ContextVars.init, toks := [] } : CvSt), ([] : List String)))
    match r with
    | some (_, outs) => " ".intercalate outs
    | none => "bad-op"
  | _ => "bad-op"

def main : IO Unit := driverLoop step
