import LoguruModel.Exc.Model
import LoguruModel.Exc.Spec
import LoguruModel.Exc.Frames
import LoguruModel.Exc.Closing
import LoguruModel.Exc.FormatList
import LoguruModel.Driver
open Exc Py

/-! line protocol (space separated tokens, texts as hex tokens):

  fmt|std <bt> <dg> <co> <limit|n> <maxLen> <fromDec> <budget> <root> <nexc> exn*
  exn   := <truthy> <cause|-1> <context|-1> <suppress> <nmembers|-1> id* <ntb> frame* <nparents> frame*
  frame := <file> <line> <func> <source> <hidden> <nvals> val*
  val   := <repr tok | !> <typename tok>
  val <maxLen> <repr tok | !> <typename tok>
  uses <string over d,c>      (flags reported by successive uses of one catch object)
  vlines <maxLen> <repr tok | !> <typename tok>      (number of display lines, characters on them)
  fmtall <limit|n> <maxLen> <fromDec> <budget> <root> <nexc> exn*      (all eight modes)
  xf <bt> <isFirst> <fromDec> <limit|n> <tb flags|-> <caller flags|->   (`Exc.extractLoop` on a synthetic stack: one
        character per frame, h = loguru's own file, v = any other; traceback frames are numbered 1.., callers 1001..;
        answer = `<number>:<mark>` of the frames shown)
  slice <lo|n> <hi|n> <len>      (`Py.slice` on [0, …, len-1])
  fl <digits>      (`Exc.formatListLoop` on frames identified by one digit each; answer: f<digit> per frame line,
        r<n> per "repeated n more times")
  closing <diagnose> <frames shown> <final source non-empty> <is AssertionError> <e|s|!>   (`Exc.assertSuffix`;
        str(exc) = empty / non-empty / raises)
-/

abbrev P := StateT (List String) Option

def tok : P String := fun s => match s with | [] => none | t :: r => some (t, r)
def pNat : P Nat := do let t ← tok; match t.toNat? with | some n => pure n | none => failure
def pInt : P Int := do let t ← tok; match t.toInt? with | some n => pure n | none => failure
def pBool : P Bool := do let t ← tok; if t = "1" then pure true else if t = "0" then pure false else failure
def pStr : P Str := do let t ← tok; match decTok t with | some s => pure s | none => failure
def pOptId : P (Option Nat) := do let i ← pInt; pure (if i < 0 then none else some i.toNat)
def pMany {α : Type} (p : P α) : Nat → P (List α)
  | 0 => pure []
  | n + 1 => do let a ← p; let r ← pMany p n; pure (a :: r)

def pVal : P Val := do
  let t ← tok
  let ty ← pStr
  if t = "!" then pure { repr := .error .other, typeName := ty }
  else match decTok t with
    | some s => pure { repr := .ok s, typeName := ty }
    | none => failure

def pFrame : P Frame := do
  let file ← pStr; let line ← pInt; let func ← pStr; let source ← pStr; let hidden ← pBool
  let n ← pNat; let vals ← pMany pVal n
  pure { info := { file, line, func, source }, hidden, vals }

def pExn : P Exn := do
  let truthy ← pBool; let cause ← pOptId; let context ← pOptId; let suppress ← pBool
  let nm ← pInt
  let group ← if nm < 0 then pure none else (do let ms ← pMany pNat nm.toNat; pure (some ms))
  let ntb ← pNat; let tb ← pMany pFrame ntb
  let np ← pNat; let parents ← pMany pFrame np
  pure { truthy, cause, context, suppress, group, tb, parents }

def b (x : Bool) : String := if x then "1" else "0"

def showPiece : Piece → String
  | .pfx => "pfx"
  | .intro g d p => s!"intro,{b g},{d},{b p}"
  | .frame f m d => s!"frame,{encTok f.file},{f.line},{encTok f.func},{b m},{d}"
  | .value t d => s!"val,{encTok t},{d}"
  | .repeated n d => s!"rep,{n},{d}"
  | .causeMsg d => s!"cause,{d}"
  | .contextMsg d => s!"context,{d}"
  | .excOnly e d => s!"only,{e},{d}"
  | .ruler (some n) f d => s!"ruler,{n},{b f},{d}"
  | .ruler none f d => s!"ruler,x,{b f},{d}"
  | .more n d => s!"more,{n},{d}"
  | .maxDepth d => s!"maxdepth,{d}"
  | .groupEnd d => s!"end,{d}"

def showRes : Except Err (List Piece) → String
  | .ok ps => "ok " ++ " ".intercalate (ps.map showPiece)
  | .error e => "err " ++ toString e

/-- `fmtall`: the eight backtrace × diagnose × colorize modes for one heap, answers joined by " | " -/
def pAll : P (Heap × Option Int × Nat × Nat × Nat × Bool) := do
  let kind ← tok
  if kind ≠ "fmtall" then failure
  let lt ← tok
  let limit ← if lt = "n" then pure none else match lt.toInt? with | some k => pure (some k) | none => failure
  let maxLen ← pNat; let fromDec ← pBool; let budget ← pNat; let root ← pNat
  let n ← pNat; let heap ← pMany pExn n
  pure (heap, limit, maxLen, budget, root, fromDec)

def allModes : List (Bool × Bool × Bool) :=
  [(false, false, false), (false, false, true), (false, true, false), (false, true, true),
   (true, false, false), (true, false, true), (true, true, false), (true, true, true)]

def pCase : P (Bool × Heap × Opts × Nat × Nat × Bool) := do
  let kind ← tok
  let std ← if kind = "fmt" then pure false else if kind = "std" then pure true else failure
  let backtrace ← pBool; let diagnose ← pBool; let colorize ← pBool
  let lt ← tok
  let limit ← if lt = "n" then pure none else match lt.toInt? with | some k => pure (some k) | none => failure
  let maxLen ← pNat; let fromDec ← pBool; let budget ← pNat; let root ← pNat
  let n ← pNat; let heap ← pMany pExn n
  pure (std, heap, { backtrace, diagnose, colorize, limit, maxLen }, budget, root, fromDec)

def step (line : String) : String :=
  match line.splitOn " " with
  | ["uses", pat] =>
    -- one catch object: 'd' = decorator use, 'c' = context-manager use; answer = the flag reported by each use
    let us := pat.toList.filterMap fun ch => if ch = 'd' then some Use.decorator else if ch = 'c' then some Use.context else none
    if us.length ≠ pat.length then "bad-op"
    else "ok " ++ String.ofList ((runUses ⟨Gen.catchContextFlag⟩ us).map fun f => if f then '1' else '0')
  | ["vlines", ml, r, ty] =>
    match ml.toNat?, decTok ty with
    | some ml, some ty =>
      let v : Option Val := if r = "!" then some { repr := .error .other, typeName := ty }
        else (decTok r).map fun s => { repr := .ok s, typeName := ty }
      match v with
      | some v =>
        let ls := displayLines ml v
        s!"ok {ls.length} {(ls.map List.length).sum}"
      | none => "bad-op"
    | _, _ => "bad-op"
  | ["val", ml, r, ty] =>
    match ml.toNat?, decTok ty with
    | some ml, some ty =>
      if r = "!" then "ok " ++ encTok (formatValue ml { repr := .error .other, typeName := ty })
      else match decTok r with
        | some s => "ok " ++ encTok (formatValue ml { repr := .ok s, typeName := ty })
        | none => "bad-op"
    | _, _ => "bad-op"
  | ["xf", bt, fi, fd, lt, tbs, ps] =>
    let flag (t : String) : Option Bool := if t = "1" then some true else if t = "0" then some false else none
    let limit : Option (Option Int) := if lt = "n" then some none else lt.toInt?.map some
    let frames (base : Int) (fl : String) : Option (List Frame) :=
      if fl = "-" then some [] else
      let cs := fl.toList
      if cs.all (fun c => c = 'h' || c = 'v') then
        some ((List.range cs.length).zip cs |>.map fun (i, c) =>
          { info := { file := [], line := base + i, func := [], source := [] }, hidden := c = 'h', vals := [] })
      else none
    match flag bt, flag fi, flag fd, limit, frames 1 tbs, frames 1001 ps with
    | some bt, some fi, some fd, some limit, some tb, some parents =>
      let o : Opts := { backtrace := bt, diagnose := false, colorize := false, limit, maxLen := 128 }
      "ok" ++ String.join ((extractLoop o fi fd tb parents).map fun s => s!" {s.fr.info.line}:{b s.mark}")
    | _, _, _, _, _, _ => "bad-op"
  | ["fl", ds] =>
    let ids := if ds = "-" then [] else ds.toList
    if ids.all Char.isDigit then
      let fs : List Shown := ids.map fun c =>
        ⟨{ info := { file := [], line := (c.toNat - 48 : Nat), func := [], source := [] }, hidden := false, vals := [] }, false⟩
      let o : Opts := { backtrace := false, diagnose := false, colorize := false, limit := none, maxLen := 128 }
      "ok" ++ String.join ((formatListLoop o 0 none Gen.flInit fs).map fun p =>
        match p with
        | .frame f _ _ => s!" f{f.line}"
        | .repeated n _ => s!" r{n}"
        | _ => " ?")
    else "bad-op"
  | ["closing", dg, fr, fs, ia, st] =>
    let flag (t : String) : Option Bool := if t = "1" then some true else if t = "0" then some false else none
    let str : Option (Except Err Str) :=
      if st = "e" then some (.ok []) else if st = "s" then some (.ok ['m']) else if st = "!" then some (.error .other) else none
    match flag dg, flag fr, flag fs, flag ia, str with
    | some dg, some fr, some fs, some ia, some str =>
      match assertSuffix dg fr fs { isAssertion := ia, str } with
      | .ok r => "ok " ++ b r
      | .error e => "err " ++ toString e
    | _, _, _, _, _ => "bad-op"
  | ["slice", lo, hi, n] =>
    let bound (t : String) : Option (Option Int) := if t = "n" then some none else t.toInt?.map some
    match bound lo, bound hi, n.toNat? with
    | some lo, some hi, some n => "ok" ++ String.join ((Py.slice lo hi (List.range n)).map fun i => s!" {i}")
    | _, _, _ => "bad-op"
  | "fmtall" :: rest =>
    match pAll.run ("fmtall" :: rest) with
    | some ((heap, limit, maxLen, budget, root, fromDec), []) =>
      " | ".intercalate (allModes.map fun (bt, dg, co) =>
        showRes (formatException heap { backtrace := bt, diagnose := dg, colorize := co, limit, maxLen } budget root fromDec))
    | _ => "bad-op"
  | toks =>
    match pCase.run toks with
    | some ((std, heap, o, budget, root, fromDec), []) =>
      if std then showRes (.ok (Exc.stdFormat heap o root fromDec))
      else showRes (formatException heap o budget root fromDec)
    | _ => "bad-op"

def main : IO Unit := driverLoop step
