import LoguruModel.Conc.Levels
import LoguruModel.Generated.ConcShape
open Levels

/-! Acceptor for `Levels.step` (C02, level table): replays the level-table accesses of a real scheduler trace.
`reset` starts a new trace; `<tid> <label…>` must be an enabled transition of the model run with the two shape
parameters read from the source.  `construct` answers the handler number and the level count the model's handler
knows, `emit` answers the count the visited handler knows, so that the harness can compare with the real
`_precolorized_formats`. -/

def parseLab : List String → Option Lab
  | ["startLevel"] => some .startLevel
  | ["startAdd"] => some .startAdd
  | ["startRemove", h] => h.toNat?.map .startRemove
  | ["startLog", l] => l.toNat?.map .startLog
  | ["acq"] => some .acq
  | ["rel"] => some .rel
  | ["setAnsi"] => some .setAnsi
  | ["pubLookup"] => some .pubLookup
  | ["readReg"] => some .readReg
  | ["upd", h] => h.toNat?.map .upd
  | ["construct"] => some .construct
  | ["register"] => some .register
  | ["unreg"] => some .unreg
  | ["readLookup", n] => n.toNat?.map .readLookup
  | ["emit", h] => h.toNat?.map .emit
  | ["done"] => some .done
  | _ => none

def describe (s s' : St) (t : Nat) (lab : Lab) : String :=
  match lab, s'.pc t with
  | .construct, .a2 h => s!"ok construct {h} {s'.known h}"
  | .construct, .b1 h => s!"ok construct {h} {s'.known h}"
  | .emit h, _ => s!"ok emit {s.known h}"
  | .readReg, .n4 todo => s!"ok reg {todo}"
  | .readReg, .l2 _ todo => s!"ok reg {todo}"
  | .readLookup _, .l1 _ => "ok exists"
  | .readLookup _, .idle => "ok missing"
  | _, _ => "ok"

def main : IO Unit := do
  let stdin ← IO.getStdin
  let stdout ← IO.getStdout
  let mut s : St := {}
  let mut go := true
  while go do
    let line ← stdin.getLine
    if line.isEmpty then
      go := false
    else
      let l := if line.endsWith "\n" then (line.dropEnd 1).toString else line
      match l.splitOn " " with
      | ["reset"] =>
        s := {}
        stdout.putStrLn "ok"
      | t :: rest =>
        match t.toNat?, parseLab rest with
        | some t, some lab =>
          match step Conc.ShapeGen.lookupFirst Conc.ShapeGen.lockedConstruct s t lab with
          | some s' =>
            stdout.putStrLn (describe s s' t lab)
            s := s'
          | none => stdout.putStrLn s!"reject not-enabled ansi={s.ansi} lookup={s.lookup} reg={s.reg} lock={s.lock}"
        | _, _ => stdout.putStrLn "bad-op"
      | [] => stdout.putStrLn "bad-op"
  stdout.flush
