import LoguruModel.Conc.ForkHooks
import LoguruModel.Generated.Locks
import LoguruModel.Generated.ConcShape
open ForkHooks

/-! Acceptor for `ForkHooks.step` (C15, the at-fork hooks iterating the weak lock sets against concurrent add()):
replays the hook-related events of a real scheduler trace (logger-lock operations of forking and adding threads, the
begin / end of each pass of a hook over `handler_locks` ∪ `queue_locks`, every registration of a lock).  The model runs
with the three shape parameters read from the source.  Every answer carries the model's set size and error flag so
that the harness can compare them with the real `len()` of the weak sets. -/

def parseLab : List String → Option Lab
  | ["startFork"] => some .startFork
  | ["startAdd"] => some .startAdd
  | ["acq"] => some .acq
  | ["rel"] => some .rel
  | ["iterBegin"] => some .iterBegin
  | ["iterEnd"] => some .iterEnd
  | ["fork"] => some .fork
  | ["register"] => some .register
  | _ => none

def main : IO Unit := do
  let stdin ← IO.getStdin
  let stdout ← IO.getStdout
  let mut s : St := {}
  let mut go := true
  while go do
    let line ← stdin.getLine
    if line.isEmpty then
      go := false
    else
      let l := if line.endsWith "\n" then (line.dropEnd 1).toString else line
      match l.splitOn " " with
      | ["reset"] =>
        s := {}
        stdout.putStrLn "ok 0 false 0"
      | t :: rest =>
        match t.toNat?, parseLab rest with
        | some t, some lab =>
          match step Locks.Gen.loggerFirst Locks.Gen.loggerLast Conc.ShapeGen.lockedConstruct s t lab with
          | some s' =>
            s := s'
            stdout.putStrLn s!"ok {s.nlocks} {s.iterErr} {s.forks}"
          | none => stdout.putStrLn s!"reject not-enabled lock={s.lock} nlocks={s.nlocks}"
        | _, _ => stdout.putStrLn "bad-op"
      | [] => stdout.putStrLn "bad-op"
  stdout.flush
