import LoguruModel.Datetime.Model
import LoguruModel.Datetime.Cache
import LoguruModel.Driver
open Datetime Py

def showOut (r : Except Err Out) (sep : String) : String :=
  match r with
  | .ok (.text t) => "ok" ++ sep ++ encTok t
  | .ok (.strftime utc sp) => "strftime" ++ sep ++ (if utc then "1" else "0") ++ sep ++ encTok sp
  | .error e => "err" ++ sep ++ toString e

def parseDt (y mo d h mi s us off tz : String) : Option Dt :=
  match y.toInt?, mo.toInt?, d.toInt?, h.toInt?, mi.toInt?, s.toInt?, us.toInt?, off.toInt?, decTok tz with
  | some y, some mo, some d, some h, some mi, some s, some us, some off, some tz =>
    some { year := y, month := mo, day := d, hour := h, minute := mi, second := s,
           microsecond := us, offsetUs := off, tzname := tz }
  | _, _, _, _, _, _, _, _, _ => none

/-- one call of a history: `spec,y,mo,d,h,mi,s,us,off,tz` -/
def parseCall (tok : String) : Option (Str × Dt) :=
  match tok.splitOn "," with
  | [spec, y, mo, d, h, mi, s, us, off, tz] =>
    match decTok spec, parseDt y mo d h mi s us off tz with
    | some spec, some dt => some (spec, dt)
    | _, _ => none
  | _ => none

def step (line : String) : String :=
  match line.splitOn " " with
  | ["fmt", spec, y, mo, d, h, mi, s, us, off, tz] =>
    match decTok spec, parseDt y mo d h mi s us off tz with
    | some spec, some dt => showOut (formatDt spec dt) " "
    | _, _ => "bad-op"
  | "hist" :: size :: calls =>
    -- a history of calls through the two-stage model with an LRU memoiser of the given size (`-` = unbounded)
    let maxsize : Option (Option Nat) := if size == "-" then some none else size.toNat?.map some
    match maxsize, calls.mapM parseCall with
    | some ms, some cs => ";".intercalate ((runHistory id (lruPolicy ms) [] cs).map (showOut · ":"))
    | _, _ => "bad-op"
  | "pct" :: fmt :: vals =>
    -- `fmt % tuple(vals)` as the model reads it (`Datetime.percentFormat`); a value is `i<int>` or `s<token>`
    let parseVal (v : String) : Option Val :=
      if v.startsWith "i" then (v.drop 1).toString.toInt?.map Val.int
      else if v.startsWith "s" then (decTok (v.drop 1).toString).map Val.str
      else none
    match decTok fmt, vals.mapM parseVal with
    | some f, some vs =>
      match percentFormat f vs with
      | .ok t => "ok " ++ encTok t
      | .error e => "err " ++ toString e
    | _, _ => "bad-op"
  | ["civil", z] =>
    match z.toInt? with
    | some z =>
      match Calendar.civilOfDays z with
      | (y, m, d) => s!"{y} {m} {d} {Calendar.weekdayOfDays z} {Calendar.yday y m d} {Calendar.daysOfCivil y m d}"
    | none => "bad-op"
  | _ => "bad-op"

def main : IO Unit := driverLoop step
