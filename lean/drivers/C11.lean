import LoguruModel.Datetime.Model
import LoguruModel.Driver
open Datetime Py

def step (line : String) : String :=
  match line.splitOn " " with
  | ["fmt", spec, y, mo, d, h, mi, s, us, off, tz] =>
    match decTok spec, y.toInt?, mo.toInt?, d.toInt?, h.toInt?, mi.toInt?, s.toInt?, us.toInt?, off.toInt?, decTok tz with
    | some spec, some y, some mo, some d, some h, some mi, some s, some us, some off, some tz =>
      let dt : Dt := { year := y, month := mo, day := d, hour := h, minute := mi, second := s,
                       microsecond := us, offsetUs := off, tzname := tz }
      match formatDt spec dt with
      | .ok (.text t) => "ok " ++ encTok t
      | .ok (.strftime utc sp) => "strftime " ++ (if utc then "1 " else "0 ") ++ encTok sp
      | .error e => "err " ++ toString e
    | _, _, _, _, _, _, _, _, _, _ => "bad-op"
  | ["civil", z] =>
    match z.toInt? with
    | some z =>
      match Calendar.civilOfDays z with
      | (y, m, d) => s!"{y} {m} {d} {Calendar.weekdayOfDays z} {Calendar.yday y m d} {Calendar.daysOfCivil y m d}"
    | none => "bad-op"
  | _ => "bad-op"

def main : IO Unit := driverLoop step
