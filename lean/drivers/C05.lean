import LoguruModel.Format.Model
import LoguruModel.Format.LogCall
import LoguruModel.Format.Handler
import LoguruModel.Driver
open Py Py.Fmt Format

/-! line protocol of the Format area (C05).  Values are symbolic paths (`Str`): the harness uses a
Python class `Sym` with exactly these answers, so that both sides are fully deterministic. -/

def showPiece (p : Piece) : String :=
  match p.field with
  | none => encTok p.lit ++ ",N"
  | some f => encTok p.lit ++ ",F," ++ encTok f.name ++ "," ++ encTok f.spec ++ "," ++
      (match f.conv with | none => "N" | some c => encTok [c])

def showParsed (r : Parsed) : String :=
  (match r.2 with | none => "ok" | some e => "err:" ++ e.toString) ++
    String.join (r.1.map (fun p => " " ++ showPiece p))

def showStep : Step → String
  | .attr n => "A," ++ encTok n
  | .idx i => "I," ++ toString i
  | .key k => "K," ++ encTok k

def showSplit (r : First × Steps) : String :=
  (match r.1 with | .num i => "num," ++ toString i | .name s => "name," ++ encTok s) ++ " " ++
  (match r.2.2 with | none => "ok" | some e => "err:" ++ e.toString) ++
    String.join (r.2.1.map (fun p => " " ++ showStep p))

def startsX (s : Str) : Bool := match s with | 'x' :: _ => true | _ => false

/-- the symbolic universe: arguments `@0 … @(n-1)`, keywords by name; names/keys/specs starting with
`x` fail (AttributeError / KeyError / ValueError), indices ≥ 5 fail (IndexError) -/
def symEnv (nargs : Nat) (kw : List Str) (hasArgs : Bool) : Env Str where
  args := (List.range nargs).map (fun i => '@' :: natStr i)
  hasArgs := hasArgs
  kwargs := fun k => if kw.contains k then .ok k else .error .keyError
  getattr := fun v n => if startsX n then .error .attributeError else .ok (v ++ ['.'] ++ n)
  getidx := fun v i => if i ≥ 5 then .error .indexError else .ok (v ++ ['['] ++ natStr i ++ [']'])
  getkey := fun v k => if startsX k then .error .keyError else .ok (v ++ ['['] ++ k ++ [']'])
  convert := fun c v => .ok (v ++ ['!', c])
  format := fun v spec =>
    if startsX spec then .error .valueError
    else if v = "exception".toList ∧ spec = [] then .ok []
    else .ok (['⟦'] ++ v ++ ['|'] ++ spec ++ ['⟧'])

/-- the markup parser of the driver: the harness only sends templates whose top-level literal text holds
no `<` (format specs may), so a text that reaches the parser with a `<` is refused -/
def mkD (s : Str) : Except Err Str := if s.contains '<' then .error .valueError else .ok s

def showRes : Except Err Str → String
  | .ok s => "ok " ++ encTok s
  | .error e => "err " ++ toString e

def decKw (s : String) : Option (List Str) :=
  if s = "-" then some [] else (s.splitOn ",").mapM decTok

def bool? (s : String) : Option Bool := if s = "1" then some true else if s = "0" then some false else none

def step (line : String) : String :=
  match line.splitOn " " with
  | ["parse", t] => match decTok t with
    | some t => showParsed (parse t)
    | none => "bad-op"
  | ["split", t] => match decTok t with
    | some t => showSplit (fieldNameSplit t)
    | none => "bad-op"
  | ["prep", t] => match decTok t with
    | some t => showRes (prepareFormat mkD t)
    | none => "bad-op"
  | ["sfmt", n, kw, t] => match n.toNat?, decKw kw, decTok t with
    | some n, some kw, some t => showRes (strFormat (symEnv n kw true) t)
    | _, _, _ => "bad-op"
  | ["fmap", kw, t] => match decKw kw, decTok t with
    | some kw, some t => showRes (strFormat (symEnv 0 kw false) t)
    | _, _ => "bad-op"
  | ["cfmt", n, kw, t] => match n.toNat?, decKw kw, decTok t with
    | some n, some kw, some t => showRes (coloredFormat mkD (symEnv n kw true) t)
    | _, _, _ => "bad-op"
  | ["msg", colors, n, kw, t] => match bool? colors, n.toNat?, decKw kw, decTok t with
    | some c, some n, some kw, some t => showRes (logMessage mkD (symEnv n kw true) c (n != 0) (!kw.isEmpty) t)
    | _, _, _, _ => "bad-op"
  | ["emit", raw, dyn, col, kw, t, m] => match bool? raw, bool? dyn, bool? col, decKw kw, decTok t, decTok m with
    | some raw, some dyn, some col, some kw, some t, some m =>
      -- static handler: the format was composed and prepared at add(); dynamic: prepared at emit
      let fmt := if dyn then (if raw then .ok [] else prepareFormat mkD t) else addFormat mkD t Gen.terminatorCallable
      (match fmt with
       | .error e => (if dyn then "err " else "adderr ") ++ toString e
       | .ok f => showRes (emitText (symEnv 0 kw false) raw dyn col true f m))
    | _, _, _, _, _, _ => "bad-op"
  | ["call", flags, n, kw, fails, so, t] =>
    -- one logging call up to record["message"]: flags = lazy capture record colors; arguments `@i`, keywords by
    -- name (value = name); `fails` = the lazy arguments whose call raises KeyError; `so` = str(message)
    match flags.toList.map (· == '1'), n.toNat?, decKw kw, decKw fails, decTok so, decTok t with
    | [lz, cp, rc, cl], some n, some kw, some fails, some so, some t =>
      let o : LogOpts := { lazy := lz, capture := cp, record := rc, colors := cl }
      let args := (List.range n).map (fun i => '@' :: natStr i)
      let force : Str → Except Err Str := fun v => if fails.contains v then .error .keyError else .ok v
      (match logCall mkD (symEnv 0 [] true) o force "record".toList t so args (kw.map (fun k => (k, k))) with
       | .error e => "err " ++ toString e
       | .ok (m, s) => "ok " ++ encTok m ++ " " ++ String.intercalate "," ("=" :: s.extraUpd.map (fun p => encTok p.1)) ++
           " " ++ String.intercalate "," ("=" :: s.forced.map encTok))
    | _, _, _, _, _, _ => "bad-op"
  | "dyn" :: kw :: ts =>
    -- a history of records through ONE dynamic-format handler (colorize=False); one template per record
    match decKw kw, ts.mapM decTok with
    | some kw, some ts =>
      String.intercalate " " ("dyn" :: (dynRun mkD (ts.map (fun t => (symEnv 0 kw false, t))) []).map
        (fun r => match r with | .ok x => "ok:" ++ encTok x | .error e => "err:" ++ toString e))
    | _, _ => "bad-op"
  | ["efull", raw, dyn, col, given, differs] =>
    -- which text `emit` hands to the sink: M = record["message"], C = the coloured message, F = format_map
    match bool? raw, bool? dyn, bool? col, bool? given, bool? differs with
    | some raw, some dyn, some col, some given, some differs =>
      let cm : Option ColoredMsg := if given then some ⟨(if differs then ['X'] else ['M']), ['C']⟩ else none
      (match emitFull (symEnv 0 [] false) ['M'] cm raw dyn col ['F'] with
       | .ok x => String.ofList x
       | .error e => "err " ++ toString e)
    | _, _, _, _, _ => "bad-op"
  | _ => "bad-op"

def main : IO Unit := driverLoop step
