import LoguruModel.Rotation.Ctime
import LoguruModel.Rotation.Stream
import LoguruModel.Rotation.CatchUp
import LoguruModel.Rotation.FloatParsers
import LoguruModel.Rotation.Platform
import LoguruModel.Driver
/-! line-protocol driver of the Rotation area (C07, C19); see harness/c07.py for the grammar -/
open Rotation Py

def ints (s : String) : Option (List Int) := (s.splitOn ",").mapM String.toInt?

def parseItem (tok : String) : Option SpecItem :=
  let body := (tok.drop 1).toString
  match tok.toList.head? with
  | some 'N' => body.toInt?.map .num
  | some 'D' => body.toInt?.map .td
  | some 'S' => (decTok body).map .str
  | some 'T' =>
    match body.splitOn "," with
    | h :: m :: s :: us :: tz :: _ =>     -- an optional sixth field names the kind of tzinfo object (same model)
      match h.toInt?, m.toInt?, s.toInt?, us.toInt? with
      | some h, some m, some s, some us =>
        if tz == "n" then some (.time { hour := h, minute := m, second := s, microsecond := us, tz := none })
        else tz.toInt?.map fun z => .time { hour := h, minute := m, second := s, microsecond := us, tz := some z }
      | _, _, _, _ => none
    | _ => none
  | _ => none

def parseSpec (s : String) : Option (List SpecItem) :=
  if s == "-" then some [] else (s.splitOn ";").mapM parseItem

def parseCall (s : String) : Option CallIn :=
  match ints s with
  | some [ct, utc, off, b, c, tell] => some { ctime := ct, stamp := ⟨utc, off⟩, bytes := b, chars := c, tell := tell }
  | _ => none

def parseMsg (s : String) : Option Msg :=
  match ints s with
  | some [utc, off, b, c] => some { stamp := ⟨utc, off⟩, bytes := b, chars := c, disk := b }
  | some [utc, off, b, c, d] => some { stamp := ⟨utc, off⟩, bytes := b, chars := c, disk := d }
  | _ => none

def bits (bs : List Bool) : String := String.ofList (bs.map fun b => if b then '1' else '0')

def showFiles (fs : List FileRec) : String :=
  "|".intercalate (fs.map fun f => ",".intercalate (f.msgs.map fun p => toString p.1))

def showTime (t : TimeInit) : String :=
  s!"{t.hour},{t.minute},{t.second},{t.microsecond}," ++ (match t.tz with | none => "n" | some z => toString z)

def leafDesc : Leaf → String
  | .size l => s!"size:{l}"
  | .time cfg =>
    let st := match cfg.step with
      | .day => "day" | .weekday w => s!"weekday{w}" | .interval d => s!"interval{d}" | .freq _ => "freq"
    let ti := match cfg.timeInit with | none => "-" | some t => showTime t
    s!"time:{st}:{ti}"

def step (line : String) : String :=
  match line.splitOn " " with
  | "fn" :: spec :: calls =>
    match parseSpec spec, calls.mapM parseCall with
    | some items, some cs =>
      match makeRotation items with
      | .error e => "err " ++ toString e
      | .ok ls => "ok " ++ bits (runCalls ls (initStates ls) cs)
    | _, _ => "bad-op"
  | ["plat", a, b, c] =>
    -- which creation-time functions load_ctime_functions installs for (os.name == "nt", st_birthtime, xattr functions)
    (match platformOf (a == "1") (b == "1") (c == "1") with
     | .windows => "windows" | .macos => "macos" | .linuxXattr => "linux" | .noXattr => "fallback")
  | "sinku" :: spec :: ct :: sz :: msgs =>
    -- a sink history on a file system that cannot persist the creation tag
    match parseSpec spec, ct.toInt?, sz.toInt?,
      msgs.mapM (fun t => if t == "R" then some SinkOp.restart else (parseMsg t).map SinkOp.msg) with
    | some items, some ct, some sz, some ops =>
      match makeRotation items with
      | .error e => "err " ++ toString e
      | .ok ls => "ok " ++ showFiles ((Sink.runOpsOn false ls (Sink.init ls ct sz) ops).files)
    | _, _, _, _ => "bad-op"
  | "sink" :: spec :: ct :: sz :: msgs =>
    match parseSpec spec, ct.toInt?, sz.toInt?,
      msgs.mapM (fun t => if t == "R" then some SinkOp.restart
                          else if t.startsWith "X" then ((t.drop 1).toString.toInt?).map SinkOp.foreign
                          else (parseMsg t).map SinkOp.msg) with
    | some items, some ct, some sz, some ops =>
      match makeRotation items with
      | .error e => "err " ++ toString e
      | .ok ls => "ok " ++ showFiles ((Sink.runOps ls (Sink.init ls ct sz) ops).files)
    | _, _, _, _ => "bad-op"
  | "steps" :: spec :: calls =>
    -- how often each call invokes the step function (first limit + catch-up loop); single time condition
    match parseSpec spec, calls.mapM parseCall with
    | some items, some cs =>
      match makeRotation items with
      | .error e => "err " ++ toString e
      | .ok [.time cfg] => "ok " ++ ",".intercalate ((timeRunSteps cfg none cs).map toString)
      | .ok _ => "not-time"
    | _, _ => "bad-op"
  | "stream" :: sz :: ops =>
    -- a text stream opened in append mode on a file of `sz` bytes: W<n>:<k> write n bytes of which the policy hands
    -- k (of all then pending) to the OS, X<k> another writer, Ms / Mt / Mf = size read by seek+tell / tell / fstat
    match sz.toInt? with
    | none => "bad-op"
    | some sz =>
      let rec go (s : Stream) (acc : List String) : List String → Option (Stream × List String)
        | [] => some (s, acc.reverse)
        | t :: rest =>
          let body := (t.drop 1).toString
          match t.toList.head? with
          | some 'W' =>
            match body.splitOn ":" with
            | [n, k] =>
              match n.toInt?, k.toInt? with
              | some n, some k => go (s.write (fun _ _ => k) n) acc rest
              | _, _ => none
            | _ => none
          | some 'X' => match body.toInt? with | some k => go (s.foreign k) acc rest | none => none
          | some 'M' =>
            let src? : Option SizeSource := if body == "s" then some .seekEndTell else if body == "t" then some .tellOnly
              else if body == "f" then some .statSize else none
            match src? with
            | some src => let r := s.measure src; go r.2 (toString r.1 :: acc) rest
            | none => none
          | _ => none
      match go (Stream.opened sz) [] ops with
      | some (s, vals) => s!"ok {",".intercalate vals} {s.disk} {s.pending} {s.fdpos}"
      | none => "bad-op"
  | ["mk", spec] =>
    match parseSpec spec with
    | some items =>
      match makeRotation items with
      | .error e => "err " ++ toString e
      | .ok ls => "ok " ++ ";".intercalate (ls.map leafDesc)
    | none => "bad-op"
  | ["size", tok] =>
    match decTok tok with
    | some s =>
      match parseSize s with
      | .error e => "err " ++ toString e
      | .ok none => "none"
      | .ok (some q) => s!"ok {q.num}/{q.den} {q.floor}"
    | none => "bad-op"
  | ["sizef", tok] =>
    -- parse_size in binary64, as Python computes it: the exact value of the resulting double
    match decTok tok with
    | some s =>
      match parseSizeF s with
      | .error e => "err " ++ toString e
      | .ok none => "none"
      | .ok (some v) =>
        match v, F64.toRat v with
        | _, some q => s!"ok {q.1}/{q.2} {q.1 / (q.2 : Int)}"
        | .inf neg, _ => if neg then "-inf" else "inf"
        | _, _ => "nan"
    | none => "bad-op"
  | ["durf", tok] =>
    -- parse_duration in binary64 + timedelta(seconds=float), as Python computes it
    match decTok tok with
    | some s =>
      match parseDurationF s with
      | .error e => "err " ++ toString e
      | .ok none => "none"
      | .ok (some us) => s!"ok {us}"
    | none => "bad-op"
  | ["dur", tok] =>
    match decTok tok with
    | some s =>
      match parseDuration s with
      | .error e => "err " ++ toString e
      | .ok none => "none"
      | .ok (some us) => s!"ok {us}"
    | none => "bad-op"
  | ["daytime", tok] =>
    match decTok tok with
    | some s =>
      match parseDaytime s with
      | .error e => "err " ++ toString e
      | .ok none => "none"
      | .ok (some (d, t)) =>
        "ok " ++ (match d with | none => "n" | some d => toString d) ++ " " ++
          (match t with | none => "n" | some t => showTime t)
    | none => "bad-op"
  | ["freq", tok, t] =>
    match decTok tok, t.toInt? with
    | some s, some t =>
      match parseFrequency s with
      | none => "none"
      | some k => s!"ok {k.apply t}"
    | _, _ => "bad-op"
  | ["stepd", t] => match t.toInt? with | some t => s!"ok {forwardDay t}" | none => "bad-op"
  | ["stepw", w, t] =>
    match w.toInt?, t.toInt? with
    | some w, some t => s!"ok {forwardWeekday t w}"
    | _, _ => "bad-op"
  | ["ctime", plat, xa, mt, ct, atm] =>
    -- get_ctime on a file with the given stat times; then set_ctime(ts = mtime + 1) followed by get_ctime
    let p? : Option Platform := if plat == "l" then some .linuxXattr else if plat == "f" then some .noXattr else none
    let x? : Option (Option Int) := if xa == "n" then some none else xa.toInt?.map some
    match p?, x?, mt.toInt?, ct.toInt?, atm.toInt? with
    | some p, some x, some mt, some ct, some atm =>
      let m : FileMeta := { st := { st_mtime := mt, st_ctime := ct, st_atime := atm, st_birthtime := 0 }, crtime := x }
      s!"ok {getCtime p m} {getCtime p (setCtime p true m (mt + 1))}"
    | _, _, _, _, _ => "bad-op"
  | ["civil", z] =>
    match z.toInt? with
    | some z =>
      match Calendar.civilOfDays z with
      | (y, m, d) =>
        -- also the two month starts `CalendarMonthFact` speaks about
        s!"{y} {m} {d} {Calendar.weekdayOfDays z} {Calendar.daysOfCivil y m d} {monthStart (12 * y + m - 1) / 86400000000} {monthStart (12 * y + m) / 86400000000}"
    | none => "bad-op"
  | _ => "bad-op"

def main : IO Unit := driverLoop step
