import LoguruModel.Retention.Spec
import LoguruModel.Retention.Dispatch
import LoguruModel.Driver
open Py Py.Glob Retention Retention.Spec

def b2s (b : Bool) : String := if b then "1" else "0"

def tokStr : PTok → String
  | .lit c => toHex c.toNat
  | .field => "F"

def kindOf (f : String) : Kind :=
  if f == "1" || f == "r" then .regular else if f == "d" then .directory else if f == "p" then .fifo
  else if f == "s" then .socket else if f == "c" then .charDevice else if f == "b" then .blockDevice
  else if f == "m" then .missing else .directory

def parseEntries : List String → Option (List Entry)
  | [] => some []
  | n :: f :: m :: rest =>
    match decTok n, m.toInt?, parseEntries rest with
    | some n, some m, some es => some ({ name := n, kind := kindOf f, mtime := m } :: es)
    | _, _, _ => none
  | _ => none

def actStr : Act → String
  | .close => "close" | .rename => "rename" | .compress => "compress"
  | .retention => "retention" | .create => "create"

def parseArg (kind arg : String) : Option RetArg :=
  if kind == "s" then (decTok arg).map RetArg.str
  else if kind == "t" then arg.toInt?.map RetArg.timedelta
  else if kind == "i" then arg.toInt?.map RetArg.int
  else if kind == "c" then some RetArg.callable
  else if kind == "n" then some RetArg.none
  else if kind == "o" then some RetArg.other
  else none

def step (line : String) : String :=
  match line.splitOn " " with
  | ["fn", p, n] =>
    match decTok p, decTok n with
    | some p, some n => b2s (fnmatch p n)
    | _, _ => "bad-op"
  | ["esc", s] =>
    match decTok s with
    | some s => encTok (escape s)
    | none => "bad-op"
  | ["sx", s] =>
    match decTok s with
    | some s => let r := splitext s; encTok r.1 ++ " " ++ encTok r.2
    | none => "bad-op"
  | ["pm", p, n] =>
    match decTok p, decTok n with
    | some p, some n => b2s (pathMatch p n)
    | _, _ => "bad-op"
  | ["parse", s] =>
    match decTok s with
    | some s =>
      match parseTemplate s with
      | .ok ts => "ok " ++ (if ts.isEmpty then "-" else ".".intercalate (ts.map tokStr))
      | .error e => "err " ++ toString e
    | none => "bad-op"
  | ["pats", s] =>
    match decTok s with
    | some s =>
      match makeGlobPatterns s with
      | .ok ps => "ok " ++ " ".intercalate (ps.map encTok)
      | .error e => "err " ++ toString e
    | none => "bad-op"
  | ["fam", p, n] =>
    match decTok p, decTok n with
    | some p, some n =>
      match familyB p n with
      | some b => b2s b
      | none => "err"
    | _, _ => "bad-op"
  | "ret" :: path :: kind :: arg :: now :: rest =>
    match decTok path, arg.toInt?, now.toInt?, parseEntries rest with
    | some path, some arg, some now, some es =>
      let pol : Option Policy := if kind == "c" then some (.count arg) else if kind == "a" then some (.age arg) else none
      match pol with
      | some pol =>
        match retentionOf path pol now es with
        | .ok del => "ok " ++ " ".intercalate (del.map (fun e => encTok e.name))
        | .error e => "err " ++ toString e
      | none => "bad-op"
    | _, _, _, _ => "bad-op"
  | ["mk", kind, arg] =>
    match parseArg kind arg with
    | some a =>
      match makeRetention a with
      | .ok .noRetention => "none"
      | .ok .callable => "callable"
      | .ok (.policy (.count n)) => s!"count {n}"
      | .ok (.policy (.age us)) => s!"age {us}"
      | .error e => "err " ++ toString e
    | none => "bad-op"
  | "retcfg" :: path :: kind :: arg :: now :: rest =>
    match decTok path, parseArg kind arg, now.toInt?, parseEntries rest with
    | some path, some a, some now, some es =>
      match retentionConfigured path a now es with
      | .ok del => "ok " ++ " ".intercalate (del.map (fun e => encTok e.name))
      | .error e => "err " ++ toString e
    | _, _, _, _ => "bad-op"
  | "sel" :: path :: rest =>
    match decTok path, parseEntries rest with
    | some path, some es =>
      match makeGlobPatterns path with
      | .ok ps => "ok " ++ " ".intercalate ((selectLogs ps es).map (fun e => encTok e.name))
      | .error e => "err " ++ toString e
    | _, _ => "bad-op"
  | ["term", fo, hr, hret, hc, sp, ir] =>
    let c : TermCfg := { fileOpen := fo == "1", hasRotation := hr == "1", hasRetention := hret == "1",
                         hasCompression := hc == "1", samePath := sp == "1" }
    " ".intercalate ((terminate c (ir == "1")).map actStr)
  | _ => "bad-op"

def main : IO Unit := driverLoop step
