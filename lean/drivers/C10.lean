import LoguruModel.Retention.Spec
import LoguruModel.Retention.Dispatch
import LoguruModel.Retention.Collect
import LoguruModel.Retention.Created
import LoguruModel.Retention.Managed
import LoguruModel.Driver
open Py Py.Glob Retention Retention.Spec

def b2s (b : Bool) : String := if b then "1" else "0"

def tokStr : PTok → String
  | .lit c => toHex c.toNat
  | .field => "F"

def kindOf (f : String) : Kind :=
  if f == "1" || f == "r" then .regular else if f == "d" then .directory else if f == "p" then .fifo
  else if f == "s" then .socket else if f == "c" then .charDevice else if f == "b" then .blockDevice
  else if f == "m" then .missing else .directory

def parseEntries : List String → Option (List Entry)
  | [] => some []
  | n :: f :: m :: rest =>
    match decTok n, m.toInt?, parseEntries rest with
    | some n, some m, some es => some ({ name := n, kind := kindOf f, mtime := m } :: es)
    | _, _, _ => none
  | _ => none

def actStr : Act → String
  | .close => "close" | .rename => "rename" | .compress => "compress"
  | .retention => "retention" | .create => "create"

def parseArg (kind arg : String) : Option RetArg :=
  if kind == "s" then (decTok arg).map RetArg.str
  else if kind == "t" then arg.toInt?.map RetArg.timedelta
  else if kind == "i" then arg.toInt?.map RetArg.int
  else if kind == "c" then some RetArg.callable
  else if kind == "n" then some RetArg.none
  else if kind == "o" then some RetArg.other
  else none

/-- events of a directory history: `P name kind mtime` | `D name` | `R now` -/
def parseEvs : Nat → List String → Option (List Ev)
  | _, [] => some []
  | 0, _ => none
  | fuel + 1, "P" :: n :: f :: m :: rest =>
    match decTok n, m.toInt?, parseEvs fuel rest with
    | some n, some m, some es => some (.put { name := n, kind := kindOf f, mtime := m } :: es)
    | _, _, _ => none
  | fuel + 1, "D" :: n :: rest =>
    match decTok n, parseEvs fuel rest with
    | some n, some es => some (.del n :: es)
    | _, _ => none
  | fuel + 1, "R" :: now :: rest =>
    match now.toInt?, parseEvs fuel rest with
    | some now, some es => some (.pass now :: es)
    | _, _ => none
  | _, _ => none

def encNames (l : List Str) : String := if l.isEmpty then "-" else ",".intercalate (l.map encTok)

/-- run a history; per pass: what the policy removes (count / age) or is handed (callable) -/
def runHist (ps : List Str) (cfg : Configured) : List Entry → List Ev → List String → List Entry × List String
  | dir, [], acc => (dir, acc.reverse)
  | dir, ev :: rest, acc =>
    match cfg, ev with
    | .policy pol, .pass now =>
      runHist ps cfg (stepEv ps pol dir ev) rest (encNames ((passRemoves ps pol now dir).map (·.name)) :: acc)
    | _, .pass _ =>
      runHist ps cfg dir rest (encNames (handedNames id ps dir) :: acc)
    | _, _ => runHist ps cfg (stepEv ps (.count 0) dir ev) rest acc

/-- template tokens with fills: `L<hex>` literal character, `F<enc>` a field rendered to the text -/
def parseFToks : List String → Option (List FTok)
  | [] => some []
  | t :: rest =>
    match parseFToks rest with
    | none => none
    | some r =>
      if t.startsWith "F" then (decTok (t.drop 1).toString).map (fun s => FTok.fill s :: r)
      else if t.startsWith "L" then
        match decTok (t.drop 1).toString with
        | some [c] => some (FTok.lit c :: r)
        | _ => none
      else none

def step (line : String) : String :=
  match line.splitOn " " with
  | ["fn", p, n] =>
    match decTok p, decTok n with
    | some p, some n => b2s (fnmatch p n)
    | _, _ => "bad-op"
  | ["esc", s] =>
    match decTok s with
    | some s => encTok (escape s)
    | none => "bad-op"
  | ["sx", s] =>
    match decTok s with
    | some s => let r := splitext s; encTok r.1 ++ " " ++ encTok r.2
    | none => "bad-op"
  | ["pm", p, n] =>
    match decTok p, decTok n with
    | some p, some n => b2s (pathMatch p n)
    | _, _ => "bad-op"
  | ["parse", s] =>
    match decTok s with
    | some s =>
      match parseTemplate s with
      | .ok ts => "ok " ++ (if ts.isEmpty then "-" else ".".intercalate (ts.map tokStr))
      | .error e => "err " ++ toString e
    | none => "bad-op"
  | ["pats", s] =>
    match decTok s with
    | some s =>
      match makeGlobPatterns s with
      | .ok ps => "ok " ++ " ".intercalate (ps.map encTok)
      | .error e => "err " ++ toString e
    | none => "bad-op"
  | ["fam", p, n] =>
    match decTok p, decTok n with
    | some p, some n =>
      match familyB p n with
      | some b => b2s b
      | none => "err"
    | _, _ => "bad-op"
  | ["mgd", p, n] =>
    match decTok p, decTok n with
    | some p, some n =>
      match managedB p n with
      | some b => b2s b
      | none => "err"
    | _, _ => "bad-op"
  | "ret" :: path :: kind :: arg :: now :: rest =>
    match decTok path, arg.toInt?, now.toInt?, parseEntries rest with
    | some path, some arg, some now, some es =>
      let pol : Option Policy := if kind == "c" then some (.count arg) else if kind == "a" then some (.age arg) else none
      match pol with
      | some pol =>
        match retentionOf path pol now es with
        | .ok del => "ok " ++ " ".intercalate (del.map (fun e => encTok e.name))
        | .error e => "err " ++ toString e
      | none => "bad-op"
    | _, _, _, _ => "bad-op"
  | ["mk", kind, arg] =>
    match parseArg kind arg with
    | some a =>
      match makeRetention a with
      | .ok .noRetention => "none"
      | .ok .callable => "callable"
      | .ok (.policy (.count n)) => s!"count {n}"
      | .ok (.policy (.age us)) => s!"age {us}"
      | .error e => "err " ++ toString e
    | none => "bad-op"
  | "retcfg" :: path :: kind :: arg :: now :: rest =>
    match decTok path, parseArg kind arg, now.toInt?, parseEntries rest with
    | some path, some a, some now, some es =>
      match retentionConfigured path a now es with
      | .ok del => "ok " ++ " ".intercalate (del.map (fun e => encTok e.name))
      | .error e => "err " ++ toString e
    | _, _, _, _ => "bad-op"
  | "sel" :: path :: rest =>
    match decTok path, parseEntries rest with
    | some path, some es =>
      match makeGlobPatterns path with
      | .ok ps => "ok " ++ " ".intercalate ((selectLogs ps es).map (fun e => encTok e.name))
      | .error e => "err " ++ toString e
    | _, _ => "bad-op"
  | "hist" :: path :: kind :: arg :: rest =>
    match decTok path, parseArg kind arg, parseEvs (rest.length + 1) rest with
    | some path, some a, some evs =>
      match makeGlobPatterns path, makeRetention a with
      | .ok ps, .ok cfg =>
        let r := runHist ps cfg [] evs []
        "ok " ++ "|".intercalate r.2 ++ " # " ++ encNames (r.1.map (·.name))
      | .error e, _ => "err " ++ toString e
      | _, .error e => "err " ++ toString e
    | _, _, _ => "bad-op"
  | "own" :: path :: date :: counter :: toks =>
    -- the sink's own names: created path, its family membership, the rename target and its membership
    match decTok path, decTok date, parseFToks toks with
    | some path, some date, some v =>
      let created := instantiate v
      let cnt : Option Str := if counter == "-" then none else decTok counter
      let ren := renameTarget created date cnt
      let fam (n : Str) : String := match familyB path n with | some b => b2s b | none => "err"
      encTok created ++ " " ++ fam created ++ " " ++ encTok ren ++ " " ++ fam ren
    | _, _, _ => "bad-op"
  | ["term", fo, hr, hret, hc, sp, ir] =>
    let c : TermCfg := { fileOpen := fo == "1", hasRotation := hr == "1", hasRetention := hret == "1",
                         hasCompression := hc == "1", samePath := sp == "1" }
    " ".intercalate ((terminate c (ir == "1")).map actStr)
  | _ => "bad-op"

def main : IO Unit := driverLoop step
