import LoguruModel.Conc.Model
import LoguruModel.Driver
open Conc

/-! Acceptor: replays a real trace (one shared access per line) on `Conc.step`.
`reset` starts a new trace; `<tid> <label…>` must be an enabled transition of the model.  When a logging call
returns after its handler loop the answer carries the model's bookkeeping of that call (written / skipped / found
stopped / snapshot) so that the harness can compare it with what the real sinks received. -/

def parseIds (s : String) : Option (List Nat) :=
  if s = "-" then some [] else
  (s.splitOn ",").foldr (fun x acc => match x.toNat?, acc with
    | some n, some l => some (n :: l)
    | _, _ => none) (some [])

def parseLab : List String → Option Lab
  | ["start", "add"] => some (.start .add)
  | ["start", "remove", h] => h.toNat?.map (fun n => .start (.remove n))
  | ["start", "removeall"] => some (.start .removeAll)
  | ["start", "log", m] => m.toNat?.map (fun n => .start (.log n))
  | ["start", "other"] => some (.start .other)
  | ["start", "fork"] => some (.start .fork)
  | ["start", "complete"] => some (.start .complete)
  | ["forkAcq", ids] => (parseIds ids).map .forkAcq
  | ["forked"] => some .forked
  | ["acqCore"] => some .acqCore
  | ["relCore"] => some .relCore
  | ["acqH", h] => h.toNat?.map .acqH
  | ["relH", h] => h.toNat?.map .relH
  | ["rCount", n] => n.toNat?.map .rCount
  | ["wCount", n] => n.toNat?.map .wCount
  | ["rReg", ids] => (parseIds ids).map .rReg
  | ["wReg", ids] => (parseIds ids).map .wReg
  | ["rStopped", h, b] => h.toNat?.map (fun n => .rStopped n (b == "1"))
  | ["wStopped", h] => h.toNat?.map .wStopped
  | ["wBegin", h] => h.toNat?.map .wBegin
  | ["wEnd", h] => h.toNat?.map .wEnd
  | ["sinkStop", h] => h.toNat?.map .sinkStop
  | ["skip", h] => h.toNat?.map .skip
  | ["early"] => some .early
  | ["raise"] => some .raise
  | _ => none

def main : IO Unit := do
  let stdin ← IO.getStdin
  let stdout ← IO.getStdout
  let mut s : St := {}
  let mut go := true
  while go do
    let line ← stdin.getLine
    if line.isEmpty then
      go := false
    else
      let l := if line.endsWith "\n" then (line.dropEnd 1).toString else line
      match l.splitOn " " with
      | ["reset"] =>
        s := {}
        stdout.putStrLn "ok"
      | t :: rest =>
        match t.toNat?, parseLab rest with
        | some t, some lab =>
          match step s t lab with
          | some s' =>
            -- a logging call returns: report what the model says it delivered (ghost bookkeeping of Conc/Exact)
            match lab, s.pc t with
            | .early, .lL m [] wr =>
              stdout.putStrLn s!"ok ret {t} {m} wr={wr} skipped={s.skipped t} gone={s.gone t} snap={s.snap t}"
            | _, _ => stdout.putStrLn "ok"
            s := s'
          | none => stdout.putStrLn s!"reject not-enabled reg={s.reg} count={s.count} core={s.coreLock}"
        | _, _ => stdout.putStrLn "bad-op"
      | [] => stdout.putStrLn "bad-op"
  stdout.flush
