import LoguruModel.Json.Model
import LoguruModel.Driver
open Json Py Py.JsonStr

/-!
Line protocol of the C14 model driver (harness/c14.py).

  esc <0|1> <tok>                      -> ok <tok>            encodeStr ensure_ascii s
  dec <tok>                            -> ok <tok> <tok> | none     decodeStr (text, rest)
  dumps <ea> <default> <sort> <skip> <nan> <k> <strOf…> <value>  -> ok <tok> | err <Kind>
                                          dumps ea (toJson ⟨default, sort_keys, skipkeys, allow_nan⟩ v)
  opts                                 -> <default> <sort> <skip> <nan> <ea>   the REGENERATED keyword arguments
  loads <tok>                          -> ok <tok> | none     dumps false (loads s)
  ser <text> <k> <strOf…> <20 fields>  -> ok <tok> | err <Kind>     serializeRecord
  emit <0|1> <text> <k> <strOf…> <20 fields>  -> same, through `emit serialize`
  hemit <catch> <0|1> <text> <k> <strOf…> <20 fields>  -> wrote <tok> | raised <Kind> | reported <Kind>   handlerEmit
  col <n|0|1> <0|1> <0|1>              -> 0|1                 handlerColorize colorize serialize sinkWants
  readlines <tok>                      -> ok <n> <tok>…       readLines (what a line-by-line reader yields)

value tokens (prefix order): n  T  F  i<int>  d<floattok>  s<tok>  l<count> v…  m<count> (key v)…  o<id>
key tokens: k<tok> (str)  Ki<int>  Kd<floattok>  KT  KF  Kn  Ko<id> (a key json has no rule for)
strOf table: k entries, `<tok>` = str(obj) or `!Kind` = str(obj) raised
exception: x0 | x1 (N | s<tok>) <value> (T|F)
-/

def errOfString (s : String) : Err :=
  if s = "ValueError" then .valueError else if s = "TypeError" then .typeError
  else if s = "KeyError" then .keyError else if s = "IndexError" then .indexError
  else if s = "AttributeError" then .attributeError else if s = "RuntimeError" then .runtimeError
  else if s = "OSError" then .osError else .other

def mkFloat (s : Str) : Option FloatTok :=
  if h : floatTokOK s = true then some ⟨s, h⟩ else none

def tail1 (s : String) : String := String.ofList (s.toList.drop 1)

def tail2 (s : String) : String := String.ofList (s.toList.drop 2)

def pKey (k : String) : Option PyKey :=
  match k.toList with
  | 'k' :: _ => (decTok (tail1 k)).map PyKey.str
  | ['K', 'T'] => some (.bool true)
  | ['K', 'F'] => some (.bool false)
  | ['K', 'n'] => some .none
  | 'K' :: 'i' :: _ => (tail2 k).toInt?.map PyKey.int
  | 'K' :: 'd' :: _ => (decTok (tail2 k)).bind mkFloat |>.map PyKey.float
  | 'K' :: 'o' :: _ => (tail2 k).toNat?.map PyKey.other
  | _ => none

mutual
partial def pVal (ts : List String) : Option (PyVal × List String) :=
  match ts with
  | [] => none
  | t :: r =>
    match t.toList with
    | ['n'] => some (.none, r)
    | ['T'] => some (.bool true, r)
    | ['F'] => some (.bool false, r)
    | 'i' :: _ => (tail1 t).toInt?.map (fun i => (.int i, r))
    | 'd' :: _ => (decTok (tail1 t)).bind mkFloat |>.map (fun f => (.float f, r))
    | 's' :: _ => (decTok (tail1 t)).map (fun s => (.str s, r))
    | 'o' :: _ => (tail1 t).toNat?.map (fun i => (.opaque i, r))
    | 'l' :: _ => (tail1 t).toNat?.bind (fun n => (pList n r).map (fun p => (.list p.1, p.2)))
    | 'm' :: _ => (tail1 t).toNat?.bind (fun n => (pMembers n r).map (fun p => (.dict p.1, p.2)))
    | _ => none
partial def pList (n : Nat) (ts : List String) : Option (PyList × List String) :=
  match n with
  | 0 => some (.nil, ts)
  | n + 1 =>
    match pVal ts with
    | none => none
    | some (v, r) => (pList n r).map (fun p => (.cons v p.1, p.2))
partial def pMembers (n : Nat) (ts : List String) : Option (PyMembers × List String) :=
  match n with
  | 0 => some (.nil, ts)
  | n + 1 =>
    match ts with
    | k :: r =>
      match pKey k, pVal r with
      | some k', some (v, r') => (pMembers n r').map (fun p => (.cons k' v p.1, p.2))
      | _, _ => none
    | [] => none
end

/-- the `str(obj)` oracle as a table -/
def pTable (ts : List String) : Option ((Nat → Except Err Str) × List String) :=
  match ts with
  | [] => none
  | k :: r =>
    match k.toNat? with
    | none => none
    | some k =>
      if r.length < k then none else
      let ents := (r.take k).map (fun e =>
        match e.toList with
        | '!' :: _ => (Except.error (errOfString (tail1 e)) : Except Err Str)
        | _ => match decTok e with
          | some s => .ok s
          | none => .error .other)
      some (fun i => ents.getD i (.error .other), r.drop k)

def pExc (ts : List String) : Option (Option ExcInfo × List String) :=
  match ts with
  | "x0" :: r => some (none, r)
  | "x1" :: ty :: r =>
    let tyv : Option (Option Str) :=
      if ty = "N" then some none
      else match ty.toList with
        | 's' :: _ => (decTok (tail1 ty)).map some
        | _ => none
    match tyv, pVal r with
    | some tyv, some (v, b :: r') =>
      if b = "T" then some (some ⟨tyv, v, true⟩, r')
      else if b = "F" then some (some ⟨tyv, v, false⟩, r') else none
    | _, _ => none
  | _ => none

def pRecord (ts : List String) : Option Record := do
  let (elapsed, ts) ← pVal ts
  let (elapsedSeconds, ts) ← pVal ts
  let (exception, ts) ← pExc ts
  let (extra, ts) ← pVal ts
  let (fileName, ts) ← pVal ts
  let (filePath, ts) ← pVal ts
  let (function, ts) ← pVal ts
  let (levelIcon, ts) ← pVal ts
  let (levelName, ts) ← pVal ts
  let (levelNo, ts) ← pVal ts
  let (line, ts) ← pVal ts
  let (message, ts) ← pVal ts
  let (module, ts) ← pVal ts
  let (name, ts) ← pVal ts
  let (processId, ts) ← pVal ts
  let (processName, ts) ← pVal ts
  let (threadId, ts) ← pVal ts
  let (threadName, ts) ← pVal ts
  let (time, ts) ← pVal ts
  let (timeTimestamp, ts) ← pVal ts
  if ts ≠ [] then none else
  pure { elapsed, elapsedSeconds, exception, extra, fileName, filePath, function, levelIcon, levelName,
         levelNo, line, message, module, name, processId, processName, threadId, threadName, time,
         timeTimestamp }

def showRes : Except Err Str → String
  | .ok s => "ok " ++ encTok s
  | .error e => "err " ++ toString e

def step (line : String) : String :=
  match line.splitOn " " with
  | ["esc", ea, tok] =>
    match decTok tok with
    | some s => "ok " ++ encTok (encodeStr (ea = "1") s)
    | none => "bad-op"
  | ["dec", tok] =>
    match decTok tok with
    | some s =>
      match decodeStr s with
      | some (x, r) => "ok " ++ encTok x ++ " " ++ encTok r
      | none => "none"
    | none => "bad-op"
  | ["loads", tok] =>
    match decTok tok with
    | some s =>
      match loads s with
      | some v => "ok " ++ encTok (dumps false v)
      | none => "none"
    | none => "bad-op"
  | ["readlines", tok] =>
    match decTok tok with
    | some s => (readLines s).foldl (fun acc l => acc ++ " " ++ encTok l) ("ok " ++ toString (readLines s).length)
    | none => "bad-op"
  | ["col", c, s, w] =>
    let c : Option Bool := if c = "n" then none else some (c = "1")
    if handlerColorize c (s = "1") (w = "1") then "1" else "0"
  | ["opts"] =>
    let b (x : Bool) : String := if x then "1" else "0"
    b genOpts.useDefault ++ " " ++ b genOpts.sortKeys ++ " " ++ b genOpts.skipKeys ++ " " ++ b genOpts.allowNan
      ++ " " ++ b Gen.ensureAscii
  | "dumps" :: ea :: df :: so :: sk :: an :: rest =>
    match pTable rest with
    | some (strOf, r) =>
      match pVal r with
      | some (v, []) =>
        showRes (match toJson ⟨df = "1", so = "1", sk = "1", an = "1"⟩ strOf v with
          | .ok j => .ok (dumps (ea = "1") j)
          | .error e => .error e)
      | _ => "bad-op"
    | none => "bad-op"
  | "ser" :: text :: rest =>
    match decTok text, pTable rest with
    | some text, some (strOf, r) =>
      match pRecord r with
      | some rec => showRes (serializeRecord strOf text rec)
      | none => "bad-op"
    | _, _ => "bad-op"
  | "hemit" :: c :: ser :: text :: rest =>
    match decTok text, pTable rest with
    | some text, some (strOf, r) =>
      match pRecord r with
      | some rec =>
        match handlerEmit (c = "1") (ser = "1") strOf text rec with
        | .wrote s => "wrote " ++ encTok s
        | .raised e => "raised " ++ toString e
        | .reported e => "reported " ++ toString e
      | none => "bad-op"
    | _, _ => "bad-op"
  | "emit" :: ser :: text :: rest =>
    match decTok text, pTable rest with
    | some text, some (strOf, r) =>
      match pRecord r with
      | some rec => showRes (emit (ser = "1") strOf text rec)
      | none => "bad-op"
    | _, _ => "bad-op"
  | _ => "bad-op"

def main : IO Unit := driverLoop step
