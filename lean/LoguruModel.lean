-- This module serves as the root of the `LoguruModel` library.
-- Import modules here that should be built as part of the library.
import LoguruModel.Basic
