def hello := "world"
