import LoguruModel.Buffer.Model
/-
C09 – the LAYERS of a CPython text stream, as `io.open` / `io.TextIOWrapper` build them:

    TextIOWrapper (pending text, `line_buffering`, `write_through`)
      over  BufferedWriter (a byte buffer)          – or directly over the raw file (`buffering=0`)
        over  the file descriptor (`write(2)`: what survives the death of the process)

`TextFile` (Buffer/Model.lean) lumps the two user-space layers into one `pending` and ignores the
size-driven spills of both layers (CPython hands the pending text to the buffer when it exceeds the
8 KiB chunk, and the buffer to the OS when it is full).  Here the layers are separate and the spills
are an ORACLE (`Spill`): every theorem below holds for EVERY spill behaviour, so none of them is
limited to "texts below 8 KiB".  MODELLED, not verified (`_io_TextIOWrapper_write_impl`):

    write(s):  [the pending text would exceed the chunk: hand it to the buffer first]
               pending += s
               if chunk full, or write_through, or (line_buffering and s has \n or \r): hand pending to the buffer
               if line_buffering and s has \n or \r:  buffer.flush()
    flush():   hand pending to the buffer; buffer.flush()

so `write_through` alone reaches the BUFFER, not the OS: only over a raw (unbuffered) file is it durable.
`TextFile` is the exact abstraction of this model without spills (`toTextFile_write`, `toTextFile_flush`).
-/
namespace Buffer
open Py

structure Layered where
  os : Str              -- handed to the operating system
  bin : Str             -- in the BufferedWriter's buffer (always empty when there is no such layer)
  text : Str            -- TextIOWrapper's pending text
  buffered : Bool       -- is there a BufferedWriter between the text layer and the file descriptor?
  lineBuffering : Bool
  writeThrough : Bool
  closed : Bool
  deriving Repr, DecidableEq

/-- the size-driven behaviour of the two layers during one `write` – an oracle: `pre` / `post` = the
text layer hands its pending text down before / after appending; `n1`, `n2` = how many characters
the binary layer passes on to the OS at each hand-over (any number: a full buffer is written out
entirely or in part) -/
structure Spill where
  pre : Bool
  post : Bool
  n1 : Nat
  n2 : Nat
  deriving Repr, DecidableEq

/-- no size-driven spill at all (short texts) -/
def Spill.none : Spill := ⟨false, false, 0, 0⟩

namespace Layered

/-- everything written so far and not yet lost, in order -/
def all (l : Layered) : Str := l.os ++ l.bin ++ l.text

/-- `buffer.write(b)`: a BufferedWriter keeps `b` (and may pass on any prefix of what it holds);
a raw file writes at once -/
def binWrite (l : Layered) (b : Str) (n : Nat) : Layered :=
  if l.buffered then { l with os := l.os ++ (l.bin ++ b).take n, bin := (l.bin ++ b).drop n }
  else { l with os := l.os ++ (l.bin ++ b), bin := [] }

def binFlush (l : Layered) : Layered := { l with os := l.os ++ l.bin, bin := [] }

/-- `_textiowrapper_writeflush`: the pending text goes to the layer below -/
def textFlush (l : Layered) (n : Nat) : Layered := binWrite { l with text := [] } l.text n

def flush (l : Layered) : Layered := if l.closed then l else (l.textFlush 0).binFlush

def write (l : Layered) (s : Str) (sp : Spill) : Layered :=
  if l.closed then l
  else
    let need := l.lineBuffering && hasLineEnd s
    let l1 := if sp.pre then l.textFlush sp.n1 else l
    let l2 := { l1 with text := l1.text ++ s }
    let l3 := if sp.post || need || l.writeThrough then l2.textFlush sp.n2 else l2
    if need then l3.binFlush else l3

def close (l : Layered) : Layered := { l.flush with closed := true }

/-- what a reader finds after the process died abruptly -/
def crash (l : Layered) : Str := l.os

/-- the one-buffer view of `Buffer/Model.lean` -/
def toTextFile (l : Layered) : TextFile :=
  { os := l.os, pending := l.bin ++ l.text, lineBuffering := l.lineBuffering, closed := l.closed }

/-- same configuration (layers and flags), still open or still closed -/
def SameCfg (a b : Layered) : Prop :=
  a.buffered = b.buffered ∧ a.lineBuffering = b.lineBuffering ∧ a.writeThrough = b.writeThrough ∧ a.closed = b.closed

end Layered

/-! ### a stream sink over a layered stream -/

structure LStream where
  file : Layered
  flushable : Bool
  deriving Repr, DecidableEq

def runLStreamOp (m : Str) (sp : Spill) (s : LStream) : StreamOp → LStream
  | .write => { s with file := s.file.write m sp }
  | .flushIfFlushable => if s.flushable then { s with file := s.file.flush } else s
  | .flush => if s.flushable then { s with file := s.file.flush } else s

/-- `StreamSink.write(message)` (GENERATED statement list) over the layers -/
def LStream.sinkWrite (s : LStream) (m : Str) (sp : Spill) : LStream :=
  Gen.streamWriteOps.foldl (runLStreamOp m sp) s

def runLStream (s : LStream) (ws : List (Str × Spill)) : LStream :=
  ws.foldl (fun s w => s.sinkWrite w.1 w.2) s

def runLayered (l : Layered) (ws : List (Str × Spill)) : Layered :=
  ws.foldl (fun l w => l.write w.1 w.2) l

def textsL (ws : List (Str × Spill)) : Str := (ws.map (·.1)).flatten

end Buffer
