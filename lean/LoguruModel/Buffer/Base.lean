import LoguruModel.Py.Basic
/-
C09 – base types of the `Buffer` model.

The small methods C09 is anchored in (`StreamSink.write`, `FileSink._close_file`, `Handler.stop`,
the per-handler body of `Logger.remove`, the module level of `loguru/__init__.py`) are extracted
from /repo as *lists of primitive operations* (tie G); `Buffer/Model.lean` interprets those lists.
The constructors below are the vocabulary of the extractor (`tools/extractors/buffer_tables.py`).
-/
namespace Buffer
open Py

/-- statements of `StreamSink.write` -/
inductive StreamOp where
  | write              -- `self._stream.write(message)`
  | flushIfFlushable   -- `if self._flushable: self._stream.flush()`
  | flush              -- `self._stream.flush()` (unconditional; raises on a stream without flush)
  deriving DecidableEq, Repr

/-- statements of `StreamSink.stop` -/
inductive StreamStopOp where
  | stopIfStoppable    -- `if self._stoppable: self._stream.stop()`
  | stop               -- `self._stream.stop()` (unconditional; raises on a stream without stop)
  deriving DecidableEq, Repr

/-- what the tail of `Handler.emit` (inside its lock) does with the formatted message -/
inductive EmitAct where
  | queuePut           -- `self._queue.put(str_record)`
  | sinkWrite          -- `self._sink.write(str_record)`
  deriving DecidableEq, Repr

/-- statements of the tail of `Handler.emit` inside `with self._protected_lock()` -/
inductive EmitOp where
  | returnIfStopped                       -- `if self._stopped: return`
  | ifEnqueue (yes no : List EmitAct)     -- `if self._enqueue: … else: …`
  | act (a : EmitAct)                     -- unconditional
  deriving DecidableEq, Repr

/-- statements of `FileSink._close_file` (the attribute resets are not represented) -/
inductive CloseOp where
  | flush              -- `self._file.flush()`
  | close              -- `self._file.close()`
  deriving DecidableEq, Repr

/-- top-level steps of `FileSink._terminate_file(is_rotating)` -/
inductive TermOp where
  | closeIfOpen        -- `if self._file is not None: self._close_file()`
  | renameIfRotating   -- `if is_rotating: …; if new_path == old_path: … os.rename(old_path, renamed_path)`
  | endOfLife          -- `if is_rotating or self._rotation_function is None:` compression, retention
  | createIfRotating   -- `if is_rotating: self._create_file(new_path); …`
  deriving DecidableEq, Repr

/-- statements of `FileSink.write` -/
inductive WriteOp where
  | openIfNone         -- `if self._file is None: …_create_file(path)`
  | reopenIfWatched    -- `if self._watch: self._reopen_if_needed()`
  | rotateIfDue        -- `if rotation_function(...): self._terminate_file(is_rotating=True)`
  | fileWrite          -- `self._file.write(message)`
  deriving DecidableEq, Repr

/-- statements of `Handler.stop` (inside `with self._protected_lock()`) -/
inductive StopOp where
  | setStopped         -- `self._stopped = True`
  | returnIfNotOwner   -- `if self._owner_process_pid != os.getpid(): return` (enqueue only)
  | putSentinel        -- `self._queue.put(None)`             (enqueue only)
  | joinWorker         -- `self._thread.join()`               (enqueue only)
  | joinWorkerTimeout  -- `self._thread.join(<timeout>)`: returns although the worker may still be busy
  | closeQueue         -- `self._queue.close()`               (enqueue only)
  | sinkStop           -- `self._sink.stop()`
  deriving DecidableEq, Repr

/-- statements of the `while True:` loop of `Handler._queued_writer` -/
inductive WorkerOp where
  | get                -- `try: message = queue.get()  except Exception: <report>; continue`
  | getBreakOnError    -- … but some handler of that `try` ends the loop (`break` / `return` / re-raise), or an
                       --   `Exception` class escapes it: an item that cannot be un-pickled may END the worker
  | breakIfNone        -- `if message is None: break`
  | breakIfFalsy       -- `if not message: break`  (true of `None` AND of a message whose text is empty)
  | confirmIfTrue      -- `if message is True: self._confirmation_event.set(); continue`
  | write              -- `with lock: self._sink.write(message)` (errors are reported, the loop goes on)
  deriving DecidableEq, Repr

/-- statements of the per-handler loop body of `Logger.remove` -/
inductive RemoveOp where
  | unregister         -- pop from the handlers dict, recompute `min_level`, publish the new dict
  | handlerStop        -- `handler.stop()`
  deriving DecidableEq, Repr

/-- what `loguru/__init__.py` registers with `atexit` -/
inductive Hook where
  | loggerRemove       -- `atexit.register(logger.remove)` (remove() without argument = all handlers)
  deriving DecidableEq, Repr

/-- operands of the template concatenation in `Logger.add` for string formats -/
inductive FmtPart where
  | format             -- the user's `format`
  | terminator         -- the per-sink-kind `terminator`
  | lit (s : Str)      -- a literal, expected: `"{exception}"`
  deriving DecidableEq, Repr

/-- `s` contains `\n` or `\r` (what makes a line-buffered `TextIOWrapper` flush) -/
def hasLineEnd (s : Str) : Bool := s.any (fun c => c == '\n' || c == '\r')

end Buffer
