import LoguruModel.Buffer.Model
/-
C09 – helper lemmas for Props/C09.lean: one-step facts about `FileSink.write` (with a crash between
any two primitives), `FileSink.stop`, `StreamSink.write`, `Handler.stop`, and their lifting to
arbitrary call sequences by induction.  Core Lean only.
-/
namespace Buffer
open Py

theorem openDefault_eq (e : Option Str) :
    openDefault e = some { os := e.getD [], pending := [], lineBuffering := true, closed := false } := by
  simp [openDefault, openText, Gen.fileBuffering, Gen.fileMode]

theorem openMode_none (b : Int) (hb : b ≠ 0) (m : OpenMode) :
    openMode b m none = .ok { os := [], pending := [], lineBuffering := b == 1, closed := false } := by
  cases m <;> simp [openMode, hb]

theorem parseMode_default : parseMode Gen.fileMode = some .append := by decide

/-- the sink has an open, usable file object (and a `buffering` that `open()` accepts in text mode) -/
def Open (s : FileSink) : Prop := ∃ f, s.file = some f ∧ f.closed = false ∧ s.atPath = none ∧ s.buffering ≠ 0

def FileSink.content (s : FileSink) : Str := s.durable ++ s.pendingText

theorem writePrims_eq (r : Bool) (m : Str) :
    writePrims r m = [.openIfNone] ++ (if r then [.closeIfOpen, .rename, .endOfLife true, .create] else []) ++ [.fwrite m] := by
  cases r <;> simp [writePrims, Gen.fileWriteOps, writeOpPrims, terminatePrims, Gen.terminateOps, termOpPrims]


theorem TextFile.write_open (f : TextFile) (hc : f.closed = false) (m : Str) :
    (f.write m).closed = false ∧ (f.write m).lineBuffering = f.lineBuffering ∧
    (f.write m).os ++ (f.write m).pending = f.os ++ f.pending ++ m ∧
    (f.lineBuffering = true → hasLineEnd m = true → (f.write m).pending = []) ∧
    (hasLineEnd m = false → (f.write m).os = f.os ∧ (f.write m).pending = f.pending ++ m) := by
  unfold TextFile.write TextFile.flush
  cases hl : f.lineBuffering <;> cases hm : hasLineEnd m <;> simp [hc]

/-- one `FileSink.write`: all properties of the step at once -/
theorem write_step (s : FileSink) (h : Open s) (r : Bool) (m : Str) :
    Open (s.write r m) ∧ (s.write r m).content = s.content ++ m := by
  obtain ⟨f, hf, hc, ha, hbz⟩ := h
  obtain ⟨rot, atp, file, hr, hcm, hrt, nc, nr, bu, mo⟩ := s
  simp only at hf ha hbz; subst hf ha
  have W := TextFile.write_open f hc m
  unfold FileSink.write
  rw [writePrims_eq]
  cases hb : (r && hr)
  · simp [runPrims, runPrim, Open, FileSink.content, FileSink.durable, FileSink.disk, FileSink.pendingText, W.1, W.2.2.1, hbz]
  · have W2 := TextFile.write_open { os := [], pending := [], lineBuffering := bu == 1, closed := false } rfl m
    simp [runPrims, runPrim, Open, FileSink.content, FileSink.durable, FileSink.disk, FileSink.pendingText,
      Gen.closeFileOps, runCloseOp, TextFile.close, TextFile.flush, hc, FileSink.reopen, openMode_none bu hbz, W2.1, hbz]
    have := W2.2.2.1
    simp at this
    simp [this]

/-- open, line buffered, nothing in user space – and configured with `buffering=1`, so that the file a
rotation creates is line buffered again (whatever the `mode`) -/
def Ready (s : FileSink) : Prop :=
  ∃ f, s.file = some f ∧ f.closed = false ∧ f.lineBuffering = true ∧ f.pending = [] ∧ s.atPath = none ∧
    s.buffering = 1

theorem Ready.open {s : FileSink} (h : Ready s) : Open s := by
  obtain ⟨f, a, b, _, _, e, g⟩ := h; exact ⟨f, a, b, e, by rw [g]; decide⟩

/-- a sink constructed with `buffering=1` and ANY mode, `delay=False`: ready, and the disk holds what
the mode keeps of the earlier content -/
theorem newWith_ready (e : Option Str) (r c t : Bool) (mo : OpenMode) (hx : mo = .exclusive → e = none) :
    Ready (FileSink.newWith e r c t 1 mo false) ∧ (FileSink.newWith e r c t 1 mo false).durable = mo.keeps e := by
  cases mo <;> cases e <;>
    simp_all [FileSink.newWith, FileSink.blank, Gen.initOpens, runPrim, FileSink.reopen, openMode, Ready, FileSink.durable,
      FileSink.disk, OpenMode.keeps]

theorem new_eq (e : Option Str) (r c t : Bool) :
    FileSink.new e r c t = FileSink.newWith e r c t 1 .append false := by
  simp [FileSink.new, parseMode_default, Gen.fileBuffering]

theorem new_ready (e : Option Str) (r c t : Bool) :
    Ready (FileSink.new e r c t) ∧ (FileSink.new e r c t).durable = e.getD [] := by
  rw [new_eq]
  exact newWith_ready e r c t .append (by simp)

/-- crash between any two primitives of one `FileSink.write` (rotation included) -/
theorem write_prefix (s : FileSink) (h : Ready s) (r : Bool) (m : Str) (hm : hasLineEnd m = true) (j : Nat) :
    (runPrims s ((writePrims (r && s.hasRotation) m).take j)).durable =
      s.durable ++ (if (writePrims (r && s.hasRotation) m).length ≤ j then m else []) := by
  obtain ⟨f, hf, hc, hl, hp, ha, hbu⟩ := h
  obtain ⟨rot, atp, file, hr, hcm, hrt, nc, nr, bu, mo⟩ := s
  simp only at hf ha hbu; subst hf ha hbu
  obtain ⟨os, pe, lb, cl⟩ := f
  simp only at hc hl hp; subst hc hl hp
  rw [writePrims_eq]
  cases hb : (r && hr)
  · rcases j with _ | _ | j <;>
      simp [runPrims, runPrim, FileSink.durable, FileSink.disk, TextFile.write, TextFile.flush, hm]
  · rcases j with _ | _ | _ | _ | _ | _ | j <;>
      simp [runPrims, runPrim, FileSink.durable, FileSink.disk, TextFile.write, TextFile.flush, hm,
        Gen.closeFileOps, runCloseOp, TextFile.close, FileSink.reopen, openMode_none]

theorem write_ready (s : FileSink) (h : Ready s) (r : Bool) (m : Str) (hm : hasLineEnd m = true) :
    Ready (s.write r m) ∧ (s.write r m).durable = s.durable ++ m := by
  obtain ⟨f, hf, hc, hl, hp, ha, hbu⟩ := h
  obtain ⟨rot, atp, file, hr, hcm, hrt, nc, nr, bu, mo⟩ := s
  simp only at hf ha hbu; subst hf ha hbu
  obtain ⟨os, pe, lb, cl⟩ := f
  simp only at hc hl hp; subst hc hl hp
  unfold FileSink.write
  rw [writePrims_eq]
  cases hb : (r && hr) <;>
    simp [Ready, runPrims, runPrim, FileSink.durable, FileSink.disk, TextFile.write, TextFile.flush, hm,
        Gen.closeFileOps, runCloseOp, TextFile.close, FileSink.reopen, openMode_none]


def texts (cs : List Call) : Str := (cs.map (·.2)).flatten

theorem runCalls_ready (cs : List Call) : ∀ (s : FileSink), Ready s → (∀ c ∈ cs, hasLineEnd c.2 = true) →
    Ready (runCalls s cs) ∧ (runCalls s cs).durable = s.durable ++ texts cs := by
  induction cs with
  | nil => intro s h _; simp [runCalls, texts, h]
  | cons c cs ih =>
    intro s h hall
    have h1 := write_ready s h c.1 c.2 (hall c (by simp))
    have h2 := ih (s.write c.1 c.2) h1.1 (fun d hd => hall d (by simp [hd]))
    simp only [runCalls, List.foldl_cons] at h2 ⊢
    refine ⟨h2.1, ?_⟩
    rw [h2.2, h1.2]; simp [texts]

/-- every write extends `content` = durable ++ pending, whatever the text and the buffering -/
theorem runCalls_content (cs : List Call) : ∀ (s : FileSink), Open s →
    Open (runCalls s cs) ∧ (runCalls s cs).content = s.content ++ texts cs := by
  induction cs with
  | nil => intro s h; simp [runCalls, texts, h]
  | cons c cs ih =>
    intro s h
    have h1 := write_step s h c.1 c.2
    have h2 := ih (s.write c.1 c.2) h1.1
    simp only [runCalls, List.foldl_cons] at h2 ⊢
    refine ⟨h2.1, ?_⟩
    rw [h2.2, h1.2]; simp [texts]

theorem stopPrims_eq : stopPrims = [.closeIfOpen, .endOfLife false] := by
  simp [stopPrims, Gen.fileStopTerminate, terminatePrims, Gen.terminateOps, termOpPrims]

/-- `FileSink.stop()` on an open sink: the file is flushed and closed, nothing stays in user space,
compression / retention run exactly when no rotation is configured -/
theorem stop_open (s : FileSink) (h : Open s) :
    s.stop.file = none ∧ s.stop.durable = s.content ∧ s.stop.pendingText = [] ∧
    s.stop.compressions = s.compressions + (if s.hasCompression && !s.hasRotation then 1 else 0) ∧
    s.stop.retentions = s.retentions + (if s.hasRetention && !s.hasRotation then 1 else 0) := by
  obtain ⟨f, hf, hc, ha, _⟩ := h
  obtain ⟨rot, atp, file, hr, hcm, hrt, nc, nr, bu, mo⟩ := s
  simp only at hf ha; subst hf ha
  unfold FileSink.stop
  rw [stopPrims_eq]
  simp [runPrims, runPrim, FileSink.durable, FileSink.disk, FileSink.content, FileSink.pendingText,
    Gen.closeFileOps, runCloseOp, TextFile.close, TextFile.flush, hc, Gen.endOfLife, Gen.compressionGuard,
    Gen.retentionGuard]
  cases hcm <;> cases hr <;> cases hrt <;> simp


theorem stream_write (s : Stream) (hf : s.flushable = true) (hc : s.file.closed = false) (m : Str) :
    (s.sinkWrite m).file.pending = [] ∧ (s.sinkWrite m).file.os = s.file.os ++ s.file.pending ++ m ∧
    (s.sinkWrite m).file.closed = false ∧ (s.sinkWrite m).flushable = true := by
  obtain ⟨⟨os, pe, lb, cl⟩, fl⟩ := s
  simp only at hf hc; subst hf hc
  cases lb <;> cases hm : hasLineEnd m <;>
    simp [Stream.sinkWrite, Gen.streamWriteOps, runStreamOp, TextFile.write, TextFile.flush, hm]

def runStream (s : Stream) (ms : List Str) : Stream := ms.foldl Stream.sinkWrite s

theorem runStream_flushed (ms : List Str) : ∀ (s : Stream), s.flushable = true → s.file.closed = false →
    s.file.pending = [] →
    (runStream s ms).file.pending = [] ∧ (runStream s ms).file.os = s.file.os ++ ms.flatten ∧
    (runStream s ms).file.closed = false ∧ (runStream s ms).flushable = true := by
  induction ms with
  | nil => intro s a b c; simp [runStream, a, b, c]
  | cons m ms ih =>
    intro s a b c
    have h1 := stream_write s a b m
    have h2 := ih (s.sinkWrite m) h1.2.2.2 h1.2.2.1 h1.1
    simp only [runStream, List.foldl_cons] at h2 ⊢
    refine ⟨h2.1, ?_, h2.2.2.1, h2.2.2.2⟩
    rw [h2.2.1, h1.2.1, c]; simp

/-- the worker loop as the code has it: a message – whatever its text, the EMPTY text included – is
written and the loop goes on; only the sentinel ends it; the confirmation token is not written -/
theorem workerIter_gen (k : Sink) :
    (∀ c, workerIter Gen.workerOps k (.msg c) = some (k.write c)) ∧
    workerIter Gen.workerOps k .sentinel = none ∧ workerIter Gen.workerOps k .confirm = some k := by
  simp [Gen.workerOps, workerIter]

theorem workerIter_poison (k : Sink) : workerIter Gen.workerOps k .poison = some k := by
  simp [Gen.workerOps, workerIter]

/-- the worker over any items without a sentinel: every MESSAGE among them is written, in order, whatever
else travels through the queue (confirmation tokens, items that cannot be un-pickled) -/
theorem workerRunQ_all (q : List QItem) (hq : ∀ it ∈ q, it ≠ .sentinel) : ∀ k : Sink,
    workerRunQ Gen.workerOps k q = ((msgsOf q).foldl Sink.write k, []) := by
  induction q with
  | nil => intro k; rfl
  | cons it r ih =>
    intro k
    have ih' := ih (fun x hx => hq x (by simp [hx]))
    cases it with
    | msg c => simp [workerRunQ, (workerIter_gen k).1 c, ih', msgsOf]
    | confirm => simp [workerRunQ, (workerIter_gen k).2.2, ih', msgsOf]
    | sentinel => exact absurd rfl (hq .sentinel (by simp))
    | poison => simp [workerRunQ, workerIter_poison k, ih', msgsOf]

theorem workerRun_all (q : List Call) : ∀ k : Sink, workerRun Gen.workerOps k q = (q.foldl Sink.write k, []) := by
  induction q with
  | nil => intro k; rfl
  | cons c r ih => intro k; simp [workerRun, (workerIter_gen k).1 c, ih]

/-- what `Handler.stop` must leave behind -/
def Handler.final (h : Handler) : Handler :=
  { h with stopped := true, sentinel := h.enqueue, joined := h.enqueue, queue := [],
           sink := (h.queue.foldl Sink.write h.sink).stop }

/-- a handler `remove()` may meet: not yet stopped, worker (if any) running, and without `enqueue`
nothing is ever queued.  `owner` (does `stop()` run in the process that called `add()`?) is
ARBITRARY for handlers without `enqueue` – a process forked after `add()` (daemonisation) finalises
the handlers it inherited; only an enqueued handler belongs to the process that runs its worker -/
def Live (h : Handler) : Prop :=
  h.stopped = false ∧ (h.enqueue = true → h.owner = true) ∧ h.sentinel = false ∧ h.joined = false ∧
  h.hung = false ∧ (h.enqueue = false → h.queue = []) ∧ h.workerDead = false

theorem handler_stop (h : Handler) (hl : Live h) : h.stop = h.final := by
  obtain ⟨enq, own, q, sk, st, se, jo, hu, wd⟩ := h
  obtain ⟨a, b, c, d, e, f, g⟩ := hl
  simp only at a b c d e f g; subst a c d e g
  cases enq
  · simp at f; subst f
    cases own <;> simp [Handler.stop, Handler.final, Gen.handlerStopOps, runStopOp]
  · simp at b; subst b
    simp [Handler.stop, Handler.final, Gen.handlerStopOps, runStopOp, workerRun_all, (workerIter_gen _).2.1]

theorem removeOne_live (h : Handler) (hl : Live h) : removeOne h = (h.final, true) := by
  simp [removeOne, Gen.removeOps, runRemoveOp, handler_stop h hl]

theorem exit_eq (lg : Logger) (hl : ∀ h ∈ lg.handlers, Live h) :
    interpreterExit lg = { handlers := [], removed := lg.removed ++ lg.handlers.map Handler.final } := by
  have hm : lg.handlers.map removeOne = lg.handlers.map (fun h => (h.final, true)) :=
    List.map_congr_left (fun h hh => removeOne_live h (hl h hh))
  simp [interpreterExit, Gen.atexitHooks, runHook, Logger.removeAll, Gen.removeNoneTakesAll, hm,
    List.filter_map, Function.comp_def]
  rw [List.filter_eq_self.mpr (by simp)]

end Buffer

namespace Buffer
open Py

theorem sink_fold_file (cs : List Call) : ∀ f : FileSink, cs.foldl Sink.write (.file f) = .file (runCalls f cs) := by
  induction cs with
  | nil => intro f; rfl
  | cons c cs ih => intro f; simp only [List.foldl_cons, Sink.write, runCalls]; rw [ih]; rfl

theorem sink_fold_stream (cs : List Call) : ∀ (s : Stream) (st : Bool) (n : Nat),
    cs.foldl Sink.write (.stream s st n) = .stream (runStream s (cs.map (·.2))) st n := by
  induction cs with
  | nil => intro s st n; rfl
  | cons c cs ih => intro s st n; simp only [List.foldl_cons, Sink.write, List.map_cons, runStream]; rw [ih]; rfl

end Buffer
namespace Buffer
open Py

def FileSink.config (s : FileSink) : Bool × Bool × Bool := (s.hasRotation, s.hasCompression, s.hasRetention)

theorem runPrim_config (s : FileSink) (p : Prim) : (runPrim s p).config = s.config := by
  cases p <;> simp only [runPrim, FileSink.config] <;> (try split) <;> (try split) <;> rfl

theorem runPrims_config (ps : List Prim) : ∀ s : FileSink, (runPrims s ps).config = s.config := by
  induction ps with
  | nil => intro s; rfl
  | cons p ps ih => intro s; simp only [runPrims, List.foldl_cons] at ih ⊢; rw [ih, runPrim_config]

theorem runCalls_config (cs : List Call) : ∀ s : FileSink, (runCalls s cs).config = s.config := by
  induction cs with
  | nil => intro s; rfl
  | cons c cs ih =>
    intro s; simp only [runCalls, List.foldl_cons] at ih ⊢; rw [ih]; exact runPrims_config _ _
end Buffer

namespace Buffer
open Py

/-! ### round 5: the tail of `Handler.emit`, interleavings with the worker thread, other `open()` arguments -/

/-- the REGENERATED tail of `Handler.emit`: a stopped handler drops the message; otherwise an enqueued
handler appends it to its queue and any other handler has written it through its sink – before the
logging call returns -/
theorem emit_gen (h : Handler) (c : Call) :
    h.emit c = if h.stopped then h else if h.enqueue then { h with queue := h.queue ++ [c] }
      else { h with sink := h.sink.write c } := by
  obtain ⟨enq, own, q, sk, st, se, jo, hu, wd⟩ := h
  cases st <;> cases enq <;> simp [Handler.emit, Gen.emitOps, runEmitOp, runEmitAct]

/-- the sink as it will be once the worker has caught up with the queue -/
def Handler.pendingSink (h : Handler) : Sink := h.queue.foldl Sink.write h.sink

theorem step_live (h : Handler) (hl : Live h) (e : Ev) :
    Live (h.step e) ∧ (h.step e).enqueue = h.enqueue ∧
    (h.step e).pendingSink = (match e with | .log c => h.pendingSink.write c | .worker => h.pendingSink) := by
  obtain ⟨enq, own, q, sk, st, se, jo, hu, wd⟩ := h
  obtain ⟨a, b, c, d, f, g, w⟩ := hl
  simp only at a b c d f g w; subst a c d f w
  cases e with
  | log x =>
    cases enq
    · simp at g; subst g
      simp [Handler.step, emit_gen, Live, Handler.pendingSink]
    · simp at b; subst b
      simp [Handler.step, emit_gen, Live, Handler.pendingSink]
  | worker =>
    cases enq
    · simp at g; subst g
      simp [Handler.step, Handler.workerStep, Live, Handler.pendingSink]
    · simp at b; subst b
      cases q with
      | nil => simp [Handler.step, Handler.workerStep, Live, Handler.pendingSink]
      | cons x r =>
        simp [Handler.step, Handler.workerStep, Live, Handler.pendingSink, (workerIter_gen sk).1 x]

theorem run_live (evs : List Ev) : ∀ (h : Handler), Live h →
    Live (h.run evs) ∧ (h.run evs).enqueue = h.enqueue ∧
    (h.run evs).pendingSink = (logged evs).foldl Sink.write h.pendingSink := by
  induction evs with
  | nil => intro h hl; exact ⟨hl, rfl, rfl⟩
  | cons e evs ih =>
    intro h hl
    obtain ⟨l1, e1, p1⟩ := step_live h hl e
    obtain ⟨l2, e2, p2⟩ := ih (h.step e) l1
    simp only [Handler.run, List.foldl_cons] at l2 e2 p2 ⊢
    refine ⟨l2, e2.trans e1, ?_⟩
    rw [p2, p1]
    cases e <;> simp [logged]

/-- `stop()` of an enqueued handler whose worker thread has ended (whatever the reason): nothing hangs,
the sink is stopped, the queue stays unread -/
theorem stop_dead_worker (h : Handler) (he : h.enqueue = true) (ho : h.owner = true) (hd : h.workerDead = true) :
    h.stop = { h with stopped := true, sentinel := true, joined := true, sink := h.sink.stop } := by
  obtain ⟨enq, own, q, sk, st, se, jo, hu, wd⟩ := h
  simp only at he ho hd; subst he ho hd
  simp [Handler.stop, Gen.handlerStopOps, runStopOp]

/-- a sink constructed with ANY buffering `open()` accepts and any mode: open, and disk + user space
hold what the mode keeps of the earlier content -/
theorem newWith_open (e : Option Str) (r c t : Bool) (b : Int) (hb : b ≠ 0) (mo : OpenMode)
    (hx : mo = .exclusive → e = none) :
    Open (FileSink.newWith e r c t b mo false) ∧ (FileSink.newWith e r c t b mo false).content = mo.keeps e ∧
    (FileSink.newWith e r c t b mo false).config = (r, c, t) := by
  cases mo <;> cases e <;>
    simp_all [FileSink.newWith, FileSink.blank, Gen.initOpens, runPrim, FileSink.reopen, openMode, Open, FileSink.content,
      FileSink.durable, FileSink.disk, FileSink.pendingText, OpenMode.keeps, FileSink.config]

theorem openIfNone_idem (s : FileSink) (h : s.file = none) :
    runPrim (runPrim s .openIfNone) .openIfNone = runPrim s .openIfNone := by
  cases hr' : s.reopen with
  | none =>
    have e1 : runPrim s .openIfNone = s := by
      obtain ⟨rot, atp, file, hr, hcm, hrt, nc, nr, bu, mo⟩ := s
      simp only at h; subst h
      simp [runPrim, hr']
    rw [e1, e1]
  | some f =>
    have e1 : (runPrim s .openIfNone).file = some f := by simp [runPrim, h, hr']
    generalize runPrim s .openIfNone = s1 at e1
    simp [runPrim, e1]

/-- `delay=True` only postpones the `open()`: the first `write` opens the file exactly as the
constructor would have -/
theorem delayed_write (e : Option Str) (r c t : Bool) (b : Int) (mo : OpenMode) (rd : Bool) (m : Str) :
    (FileSink.newWith e r c t b mo true).write rd m = (FileSink.newWith e r c t b mo false).write rd m := by
  unfold FileSink.write
  have h1 : (FileSink.newWith e r c t b mo true).hasRotation = (FileSink.newWith e r c t b mo false).hasRotation := by
    have := runPrim_config (FileSink.blank e r c t b mo) .openIfNone
    simp only [FileSink.config, Prod.mk.injEq] at this
    simp [FileSink.newWith, Gen.initOpens, this.1]
  rw [h1, writePrims_eq]
  simp only [runPrims, List.append_assoc, List.foldl_append, List.foldl_cons, List.foldl_nil]
  congr 1
  congr 1
  simp only [FileSink.newWith, Gen.initOpens, Bool.not_true, Bool.false_eq_true, ↓reduceIte, Bool.not_false]
  exact (openIfNone_idem _ rfl).symm

/-! ### `watch=True` -/

theorem writePrimsW_eq (mv r : Bool) (m : Str) :
    writePrimsW mv r m = [.openIfNone] ++ (if mv then [.reopenMoved] else []) ++
      (if r then [.closeIfOpen, .rename, .endOfLife true, .create] else []) ++ [.fwrite m] := by
  cases r <;> cases mv <;>
    simp [writePrimsW, Gen.fileWriteOps, writeOpPrimsW, writeOpPrims, terminatePrims, Gen.terminateOps, termOpPrims]

theorem writeW_not_moved (s : FileSink) (r : Bool) (m : Str) : s.writeW false r m = s.write r m := by
  simp [FileSink.writeW, FileSink.write, writePrimsW_eq, writePrims_eq]

/-- the re-open after an external move: everything written so far stays on disk (in the moved file),
the new file object is ready -/
theorem reopenMoved_ready (s : FileSink) (h : Ready s) :
    Ready (runPrim s .reopenMoved) ∧ (runPrim s .reopenMoved).durable = s.durable := by
  obtain ⟨f, hf, hc, hl, hp, ha, hbu⟩ := h
  obtain ⟨rot, atp, file, hr, hcm, hrt, nc, nr, bu, mo⟩ := s
  simp only at hf ha hbu; subst hf ha hbu
  obtain ⟨os, pe, lb, cl⟩ := f
  simp only at hc hl hp; subst hc hl hp
  simp [Ready, runPrim, FileSink.durable, FileSink.disk, Gen.closeFileOps, runCloseOp, TextFile.close, TextFile.flush,
    FileSink.reopen, openMode_none]

theorem writeW_ready (s : FileSink) (h : Ready s) (mv r : Bool) (m : Str) (hm : hasLineEnd m = true) :
    Ready (s.writeW mv r m) ∧ (s.writeW mv r m).durable = s.durable ++ m := by
  cases mv
  · rw [writeW_not_moved]; exact write_ready s h r m hm
  · have h1 := reopenMoved_ready s h
    have hcfg := runPrim_config s .reopenMoved
    simp only [FileSink.config, Prod.mk.injEq] at hcfg
    have h2 := write_ready _ h1.1 r m hm
    have e : s.writeW true r m = (runPrim s .reopenMoved).write r m := by
      obtain ⟨f, hf, _⟩ := h
      obtain ⟨f1, hf1, _⟩ := h1.1
      have o1 : runPrim s .openIfNone = s := by simp [runPrim, hf]
      have o2 : runPrim (runPrim s .reopenMoved) .openIfNone = runPrim s .reopenMoved := by
        generalize runPrim s .reopenMoved = s1 at hf1
        simp [runPrim, hf1]
      simp only [FileSink.writeW, FileSink.write, writePrimsW_eq, writePrims_eq, hcfg.1, runPrims, ↓reduceIte,
        List.append_assoc, List.foldl_append, List.foldl_cons, List.foldl_nil, o1, o2]
    rw [e, h2.2, h1.2]
    exact ⟨h2.1, rfl⟩

/-! ### exit with some worker threads already gone -/

/-- an enqueued handler of this process whose worker thread has ended -/
def DeadWorker (h : Handler) : Prop :=
  h.enqueue = true ∧ h.owner = true ∧ h.workerDead = true ∧ h.stopped = false ∧ h.hung = false

/-- what `stop()` leaves of it -/
def Handler.finalDead (h : Handler) : Handler :=
  { h with stopped := true, sentinel := true, joined := true, sink := h.sink.stop }

/-- what `stop()` leaves of a handler that is live or has lost its worker -/
def Handler.finalAny (h : Handler) : Handler :=
  if h.workerDead then h.finalDead else h.final

theorem removeOne_any (h : Handler) (hh : Live h ∨ DeadWorker h) : removeOne h = (h.finalAny, true) := by
  rcases hh with hl | ⟨a, b, c, _, _⟩
  · have : h.workerDead = false := hl.2.2.2.2.2.2
    simp [removeOne_live h hl, Handler.finalAny, this]
  · simp [removeOne, Gen.removeOps, runRemoveOp, stop_dead_worker h a b c, Handler.finalAny, c, Handler.finalDead]

theorem exit_eq_any (lg : Logger) (hl : ∀ h ∈ lg.handlers, Live h ∨ DeadWorker h) :
    interpreterExit lg = { handlers := [], removed := lg.removed ++ lg.handlers.map Handler.finalAny } := by
  have hm : lg.handlers.map removeOne = lg.handlers.map (fun h => (h.finalAny, true)) :=
    List.map_congr_left (fun h hh => removeOne_any h (hl h hh))
  simp [interpreterExit, Gen.atexitHooks, runHook, Logger.removeAll, Gen.removeNoneTakesAll, hm,
    List.filter_map, Function.comp_def]
  rw [List.filter_eq_self.mpr (by simp)]

end Buffer
