import LoguruModel.Buffer.Model
/-
C09 – helper lemmas for Props/C09.lean: one-step facts about `FileSink.write` (with a crash between
any two primitives), `FileSink.stop`, `StreamSink.write`, `Handler.stop`, and their lifting to
arbitrary call sequences by induction.  Core Lean only.
-/
namespace Buffer
open Py

theorem openDefault_eq (e : Option Str) :
    openDefault e = some { os := e.getD [], pending := [], lineBuffering := true, closed := false } := by
  simp [openDefault, openText, Gen.fileBuffering, Gen.fileMode]

/-- the sink has an open, usable file object -/
def Open (s : FileSink) : Prop := ∃ f, s.file = some f ∧ f.closed = false ∧ s.atPath = none

def FileSink.content (s : FileSink) : Str := s.durable ++ s.pendingText

theorem writePrims_eq (r : Bool) (m : Str) :
    writePrims r m = [.openIfNone] ++ (if r then [.closeIfOpen, .rename, .endOfLife true, .create] else []) ++ [.fwrite m] := by
  cases r <;> simp [writePrims, Gen.fileWriteOps, writeOpPrims, terminatePrims, Gen.terminateClosesOpenFile]


theorem TextFile.write_open (f : TextFile) (hc : f.closed = false) (m : Str) :
    (f.write m).closed = false ∧ (f.write m).lineBuffering = f.lineBuffering ∧
    (f.write m).os ++ (f.write m).pending = f.os ++ f.pending ++ m ∧
    (f.lineBuffering = true → hasLineEnd m = true → (f.write m).pending = []) ∧
    (hasLineEnd m = false → (f.write m).os = f.os ∧ (f.write m).pending = f.pending ++ m) := by
  unfold TextFile.write TextFile.flush
  cases hl : f.lineBuffering <;> cases hm : hasLineEnd m <;> simp [hc]

/-- one `FileSink.write`: all properties of the step at once -/
theorem write_step (s : FileSink) (h : Open s) (r : Bool) (m : Str) :
    Open (s.write r m) ∧ (s.write r m).content = s.content ++ m := by
  obtain ⟨f, hf, hc, ha⟩ := h
  obtain ⟨rot, atp, file, hr, hcm, hrt, nc, nr⟩ := s
  simp only at hf ha; subst hf ha
  have W := TextFile.write_open f hc m
  unfold FileSink.write
  rw [writePrims_eq]
  cases hb : (r && hr)
  · simp [runPrims, runPrim, Open, FileSink.content, FileSink.durable, FileSink.disk, FileSink.pendingText, W.1, W.2.2.1]
  · have W2 := TextFile.write_open { os := [], pending := [], lineBuffering := true, closed := false } rfl m
    simp [runPrims, runPrim, Open, FileSink.content, FileSink.durable, FileSink.disk, FileSink.pendingText,
      Gen.closeFileOps, runCloseOp, TextFile.close, TextFile.flush, hc, openDefault_eq, W2.1]
    have := W2.2.2.1
    simp at this
    simp [this]

/-- open, line buffered, nothing in user space -/
def Ready (s : FileSink) : Prop :=
  ∃ f, s.file = some f ∧ f.closed = false ∧ f.lineBuffering = true ∧ f.pending = [] ∧ s.atPath = none

theorem Ready.open {s : FileSink} (h : Ready s) : Open s := by
  obtain ⟨f, a, b, _, _, e⟩ := h; exact ⟨f, a, b, e⟩

theorem new_ready (e : Option Str) (r c t : Bool) :
    Ready (FileSink.new e r c t) ∧ (FileSink.new e r c t).durable = e.getD [] := by
  simp [FileSink.new, runPrim, openDefault_eq, Ready, FileSink.durable, FileSink.disk]

/-- crash between any two primitives of one `FileSink.write` (rotation included) -/
theorem write_prefix (s : FileSink) (h : Ready s) (r : Bool) (m : Str) (hm : hasLineEnd m = true) (j : Nat) :
    (runPrims s ((writePrims (r && s.hasRotation) m).take j)).durable =
      s.durable ++ (if (writePrims (r && s.hasRotation) m).length ≤ j then m else []) := by
  obtain ⟨f, hf, hc, hl, hp, ha⟩ := h
  obtain ⟨rot, atp, file, hr, hcm, hrt, nc, nr⟩ := s
  simp only at hf ha; subst hf ha
  obtain ⟨os, pe, lb, cl⟩ := f
  simp only at hc hl hp; subst hc hl hp
  rw [writePrims_eq]
  cases hb : (r && hr)
  · rcases j with _ | _ | j <;>
      simp [runPrims, runPrim, FileSink.durable, FileSink.disk, TextFile.write, TextFile.flush, hm]
  · rcases j with _ | _ | _ | _ | _ | _ | j <;>
      simp [runPrims, runPrim, FileSink.durable, FileSink.disk, TextFile.write, TextFile.flush, hm,
        Gen.closeFileOps, runCloseOp, TextFile.close, openDefault_eq]

theorem write_ready (s : FileSink) (h : Ready s) (r : Bool) (m : Str) (hm : hasLineEnd m = true) :
    Ready (s.write r m) ∧ (s.write r m).durable = s.durable ++ m := by
  obtain ⟨f, hf, hc, hl, hp, ha⟩ := h
  obtain ⟨rot, atp, file, hr, hcm, hrt, nc, nr⟩ := s
  simp only at hf ha; subst hf ha
  obtain ⟨os, pe, lb, cl⟩ := f
  simp only at hc hl hp; subst hc hl hp
  unfold FileSink.write
  rw [writePrims_eq]
  cases hb : (r && hr) <;>
    simp [Ready, runPrims, runPrim, FileSink.durable, FileSink.disk, TextFile.write, TextFile.flush, hm,
        Gen.closeFileOps, runCloseOp, TextFile.close, openDefault_eq]


def texts (cs : List Call) : Str := (cs.map (·.2)).flatten

theorem runCalls_ready (cs : List Call) : ∀ (s : FileSink), Ready s → (∀ c ∈ cs, hasLineEnd c.2 = true) →
    Ready (runCalls s cs) ∧ (runCalls s cs).durable = s.durable ++ texts cs := by
  induction cs with
  | nil => intro s h _; simp [runCalls, texts, h]
  | cons c cs ih =>
    intro s h hall
    have h1 := write_ready s h c.1 c.2 (hall c (by simp))
    have h2 := ih (s.write c.1 c.2) h1.1 (fun d hd => hall d (by simp [hd]))
    simp only [runCalls, List.foldl_cons] at h2 ⊢
    refine ⟨h2.1, ?_⟩
    rw [h2.2, h1.2]; simp [texts]

/-- every write extends `content` = durable ++ pending, whatever the text and the buffering -/
theorem runCalls_content (cs : List Call) : ∀ (s : FileSink), Open s →
    Open (runCalls s cs) ∧ (runCalls s cs).content = s.content ++ texts cs := by
  induction cs with
  | nil => intro s h; simp [runCalls, texts, h]
  | cons c cs ih =>
    intro s h
    have h1 := write_step s h c.1 c.2
    have h2 := ih (s.write c.1 c.2) h1.1
    simp only [runCalls, List.foldl_cons] at h2 ⊢
    refine ⟨h2.1, ?_⟩
    rw [h2.2, h1.2]; simp [texts]

theorem stopPrims_eq : stopPrims = [.closeIfOpen, .endOfLife false] := by
  simp [stopPrims, Gen.fileStopTerminate, terminatePrims, Gen.terminateClosesOpenFile]

/-- `FileSink.stop()` on an open sink: the file is flushed and closed, nothing stays in user space,
compression / retention run exactly when no rotation is configured -/
theorem stop_open (s : FileSink) (h : Open s) :
    s.stop.file = none ∧ s.stop.durable = s.content ∧ s.stop.pendingText = [] ∧
    s.stop.compressions = s.compressions + (if s.hasCompression && !s.hasRotation then 1 else 0) ∧
    s.stop.retentions = s.retentions + (if s.hasRetention && !s.hasRotation then 1 else 0) := by
  obtain ⟨f, hf, hc, ha⟩ := h
  obtain ⟨rot, atp, file, hr, hcm, hrt, nc, nr⟩ := s
  simp only at hf ha; subst hf ha
  unfold FileSink.stop
  rw [stopPrims_eq]
  simp [runPrims, runPrim, FileSink.durable, FileSink.disk, FileSink.content, FileSink.pendingText,
    Gen.closeFileOps, runCloseOp, TextFile.close, TextFile.flush, hc, Gen.endOfLife, Gen.compressionGuard,
    Gen.retentionGuard]
  cases hcm <;> cases hr <;> cases hrt <;> simp


theorem stream_write (s : Stream) (hf : s.flushable = true) (hc : s.file.closed = false) (m : Str) :
    (s.sinkWrite m).file.pending = [] ∧ (s.sinkWrite m).file.os = s.file.os ++ s.file.pending ++ m ∧
    (s.sinkWrite m).file.closed = false ∧ (s.sinkWrite m).flushable = true := by
  obtain ⟨⟨os, pe, lb, cl⟩, fl⟩ := s
  simp only at hf hc; subst hf hc
  cases lb <;> cases hm : hasLineEnd m <;>
    simp [Stream.sinkWrite, Gen.streamWriteOps, runStreamOp, TextFile.write, TextFile.flush, hm]

def runStream (s : Stream) (ms : List Str) : Stream := ms.foldl Stream.sinkWrite s

theorem runStream_flushed (ms : List Str) : ∀ (s : Stream), s.flushable = true → s.file.closed = false →
    s.file.pending = [] →
    (runStream s ms).file.pending = [] ∧ (runStream s ms).file.os = s.file.os ++ ms.flatten ∧
    (runStream s ms).file.closed = false ∧ (runStream s ms).flushable = true := by
  induction ms with
  | nil => intro s a b c; simp [runStream, a, b, c]
  | cons m ms ih =>
    intro s a b c
    have h1 := stream_write s a b m
    have h2 := ih (s.sinkWrite m) h1.2.2.2 h1.2.2.1 h1.1
    simp only [runStream, List.foldl_cons] at h2 ⊢
    refine ⟨h2.1, ?_, h2.2.2.1, h2.2.2.2⟩
    rw [h2.2.1, h1.2.1, c]; simp

/-- the worker loop as the code has it: a message – whatever its text, the EMPTY text included – is
written and the loop goes on; only the sentinel ends it; the confirmation token is not written -/
theorem workerIter_gen (k : Sink) :
    (∀ c, workerIter Gen.workerOps k (.msg c) = some (k.write c)) ∧
    workerIter Gen.workerOps k .sentinel = none ∧ workerIter Gen.workerOps k .confirm = some k := by
  simp [Gen.workerOps, workerIter]

theorem workerRun_all (q : List Call) : ∀ k : Sink, workerRun Gen.workerOps k q = (q.foldl Sink.write k, []) := by
  induction q with
  | nil => intro k; rfl
  | cons c r ih => intro k; simp [workerRun, (workerIter_gen k).1 c, ih]

/-- what `Handler.stop` must leave behind -/
def Handler.final (h : Handler) : Handler :=
  { h with stopped := true, sentinel := h.enqueue, joined := h.enqueue, queue := [],
           sink := (h.queue.foldl Sink.write h.sink).stop }

/-- a handler `remove()` may meet: not yet stopped, worker (if any) running, and without `enqueue`
nothing is ever queued.  `owner` (does `stop()` run in the process that called `add()`?) is
ARBITRARY for handlers without `enqueue` – a process forked after `add()` (daemonisation) finalises
the handlers it inherited; only an enqueued handler belongs to the process that runs its worker -/
def Live (h : Handler) : Prop :=
  h.stopped = false ∧ (h.enqueue = true → h.owner = true) ∧ h.sentinel = false ∧ h.joined = false ∧
  h.hung = false ∧ (h.enqueue = false → h.queue = [])

theorem handler_stop (h : Handler) (hl : Live h) : h.stop = h.final := by
  obtain ⟨enq, own, q, sk, st, se, jo, hu⟩ := h
  obtain ⟨a, b, c, d, e, f⟩ := hl
  simp only at a b c d e f; subst a c d e
  cases enq
  · simp at f; subst f
    cases own <;> simp [Handler.stop, Handler.final, Gen.handlerStopOps, runStopOp]
  · simp at b; subst b
    simp [Handler.stop, Handler.final, Gen.handlerStopOps, runStopOp, workerRun_all, (workerIter_gen _).2.1]

theorem removeOne_live (h : Handler) (hl : Live h) : removeOne h = (h.final, true) := by
  simp [removeOne, Gen.removeOps, runRemoveOp, handler_stop h hl]

theorem exit_eq (lg : Logger) (hl : ∀ h ∈ lg.handlers, Live h) :
    interpreterExit lg = { handlers := [], removed := lg.removed ++ lg.handlers.map Handler.final } := by
  have hm : lg.handlers.map removeOne = lg.handlers.map (fun h => (h.final, true)) :=
    List.map_congr_left (fun h hh => removeOne_live h (hl h hh))
  simp [interpreterExit, Gen.atexitHooks, runHook, Logger.removeAll, Gen.removeNoneTakesAll, hm,
    List.filter_map, Function.comp_def]
  rw [List.filter_eq_self.mpr (by simp)]

end Buffer

namespace Buffer
open Py

theorem sink_fold_file (cs : List Call) : ∀ f : FileSink, cs.foldl Sink.write (.file f) = .file (runCalls f cs) := by
  induction cs with
  | nil => intro f; rfl
  | cons c cs ih => intro f; simp only [List.foldl_cons, Sink.write, runCalls]; rw [ih]; rfl

theorem sink_fold_stream (cs : List Call) : ∀ (s : Stream) (st : Bool) (n : Nat),
    cs.foldl Sink.write (.stream s st n) = .stream (runStream s (cs.map (·.2))) st n := by
  induction cs with
  | nil => intro s st n; rfl
  | cons c cs ih => intro s st n; simp only [List.foldl_cons, Sink.write, List.map_cons, runStream]; rw [ih]; rfl

end Buffer
namespace Buffer
open Py

def FileSink.config (s : FileSink) : Bool × Bool × Bool := (s.hasRotation, s.hasCompression, s.hasRetention)

theorem runPrim_config (s : FileSink) (p : Prim) : (runPrim s p).config = s.config := by
  cases p <;> simp only [runPrim, FileSink.config] <;> (try split) <;> (try split) <;> rfl

theorem runPrims_config (ps : List Prim) : ∀ s : FileSink, (runPrims s ps).config = s.config := by
  induction ps with
  | nil => intro s; rfl
  | cons p ps ih => intro s; simp only [runPrims, List.foldl_cons] at ih ⊢; rw [ih, runPrim_config]

theorem runCalls_config (cs : List Call) : ∀ s : FileSink, (runCalls s cs).config = s.config := by
  induction cs with
  | nil => intro s; rfl
  | cons c cs ih =>
    intro s; simp only [runCalls, List.foldl_cons] at ih ⊢; rw [ih]; exact runPrims_config _ _
end Buffer
