import LoguruModel.Buffer.Base
import LoguruModel.Generated.Buffer
/-
C09 – `Buffer` model: what has reached the operating system when a logging call returns, and what
interpreter exit does to the handlers.  Mirrors the code as it is:

* `TextFile`      CPython's text file object (`open(path, mode, buffering, encoding=…)`): characters
                  handed to the OS (`os`, survive the death of the process) vs characters still in
                  user-space buffers (`pending`, lost by `os._exit` / SIGKILL).  MODELLED, not verified:
                  `TextIOWrapper(line_buffering=True)` flushes after a `write(s)` iff `s` contains
                  `\n` or `\r`.  (For texts without a line end the model is exact only while the
                  pending bytes stay below CPython's 8 KiB chunk size – larger texts spill early.)
* `Stream`        `StreamSink` over a user stream; `sinkWrite` interprets the GENERATED statement list.
* `FileSink`      file sink opened with the GENERATED defaults; `write`/`stop` are lists of primitive
                  steps (`Prim`) so that a crash can be placed between any two of them.
* `Handler`, `Logger`, `interpreterExit`   `Handler.stop`, `Logger.remove`, the `atexit` list – all
                  interpreting GENERATED statement lists.
-/
namespace Buffer
open Py

/-! ### text file object -/

structure TextFile where
  os : Str
  pending : Str
  lineBuffering : Bool
  closed : Bool
  deriving Repr, DecidableEq

/-- `open(path, mode, buffering)` on a path whose current content is `existing` (`none` = no file).
`buffering=0` is refused in text mode; `1` selects line buffering; anything else block buffering. -/
def openText (buffering : Int) (mode : Str) (existing : Option Str) : Except Err TextFile :=
  if buffering == 0 then .error .valueError
  else if mode.contains 'a' then
    .ok { os := existing.getD [], pending := [], lineBuffering := buffering == 1, closed := false }
  else if mode.contains 'w' then
    .ok { os := [], pending := [], lineBuffering := buffering == 1, closed := false }
  else .error .osError

/-- what `open()` makes of the mode string of a sink (exactly one of a / w / x; `r` cannot be written to) -/
inductive OpenMode where
  | append | truncate | exclusive
  deriving DecidableEq, Repr

def parseMode (mode : Str) : Option OpenMode :=
  if mode.contains 'a' then some .append
  else if mode.contains 'w' then some .truncate
  else if mode.contains 'x' then some .exclusive
  else none

/-- `open(path, mode, buffering)` for a parsed mode: `a` keeps what is there, `w` truncates, `x` refuses an
existing file; `buffering=1` selects line buffering, any other non-zero value block buffering -/
def openMode (buffering : Int) (mode : OpenMode) (existing : Option Str) : Except Err TextFile :=
  if buffering == 0 then .error .valueError
  else match mode, existing with
    | .append, e => .ok { os := e.getD [], pending := [], lineBuffering := buffering == 1, closed := false }
    | .truncate, _ => .ok { os := [], pending := [], lineBuffering := buffering == 1, closed := false }
    | .exclusive, none => .ok { os := [], pending := [], lineBuffering := buffering == 1, closed := false }
    | .exclusive, some _ => .error .osError

/-- what is on disk at the path right after a successful `open` -/
def OpenMode.keeps (mode : OpenMode) (existing : Option Str) : Str :=
  match mode with
  | .append => existing.getD []
  | _ => []

namespace TextFile

def flush (f : TextFile) : TextFile :=
  if f.closed then f else { f with os := f.os ++ f.pending, pending := [] }

/-- `f.write(s)`; on a closed file Python raises `ValueError` and nothing changes -/
def write (f : TextFile) (s : Str) : TextFile :=
  if f.closed then f
  else
    let g := { f with pending := f.pending ++ s }
    if f.lineBuffering && hasLineEnd s then g.flush else g

def close (f : TextFile) : TextFile := { f.flush with closed := true }

/-- what a reader finds after the process died abruptly -/
def crash (f : TextFile) : Str := f.os

end TextFile

/-! ### the text a handler emits -/

/-- how the handler's template was built -/
inductive FormatKind where
  | static     -- `format` is a string: template = `format + terminator + "{exception}"`
  | dynamic    -- `format` is a callable: the template it returns is used as is
  deriving DecidableEq, Repr

/-- one logging call as the handler sees it: `body` is the rendering of the user's `format` part
(for `raw` calls: the message itself; for dynamic formats: of the returned template), `exc` the
rendering of `{exception}` -/
structure Msg where
  body : Str
  exc : Str
  raw : Bool
  serialize : Bool := false
  deriving Repr, DecidableEq

/-- rendering of one operand of the GENERATED template concatenation -/
def renderPart (terminator : Str) (m : Msg) : FmtPart → Str
  | .format => m.body
  | .terminator => terminator
  | .lit s => if s == "{exception}".toList then m.exc else s

/-- the text given to the sink (before `serialize`) -/
def emitPlain (kind : FormatKind) (terminator : Str) (m : Msg) : Str :=
  if m.raw then m.body
  else match kind with
    | .static => (Gen.templateParts.map (renderPart terminator m)).flatten
    | .dynamic => m.body

/-- `Handler.emit`: with `serialize=True` the text is the JSON document (opaque: `json`) plus the
GENERATED suffix -/
def emitText (kind : FormatKind) (terminator : Str) (json : Str → Str) (m : Msg) : Str :=
  if m.serialize then json (emitPlain kind terminator m) ++ Gen.serializeSuffix
  else emitPlain kind terminator m

/-! ### stream sink -/

structure Stream where
  file : TextFile
  flushable : Bool
  deriving Repr, DecidableEq

/-- `StreamSink(stream)`: `_flushable` is decided once, by the GENERATED kernel, from what the stream
exposes: a callable `flush` (`hasFlush`: found by `getattr`, i.e. also when provided through
`__getattr__` delegation or a property; `hasStaticFlush`: found by a static lookup that runs no user code), its `line_buffering` and `write_through` attributes (a real file object
reports its own buffering; a user class may report anything or nothing) -/
def StreamSink.new (file : TextFile) (hasFlush hasStaticFlush lineBufferingAttr writeThrough : Bool) : Stream :=
  { file := file, flushable := Gen.flushableOf hasFlush hasStaticFlush lineBufferingAttr writeThrough }

def runStreamOp (m : Str) (s : Stream) : StreamOp → Stream
  | .write => { s with file := s.file.write m }
  | .flushIfFlushable => if s.flushable then { s with file := s.file.flush } else s
  | .flush => if s.flushable then { s with file := s.file.flush } else s

/-- `StreamSink.write(message)` -/
def Stream.sinkWrite (s : Stream) (m : Str) : Stream :=
  Gen.streamWriteOps.foldl (runStreamOp m) s

/-- `StreamSink.stop()`: how many times the stream's own `stop()` gets called, given the `_stoppable`
flag decided in `__init__` – interprets the GENERATED statement list -/
def runStreamStopOp (stoppable : Bool) (n : Nat) : StreamStopOp → Nat
  | .stopIfStoppable => if stoppable then n + 1 else n
  | .stop => n + 1

def streamStopCalls (stoppable : Bool) (n : Nat) : Nat :=
  Gen.streamStopOps.foldl (runStreamStopOp stoppable) n

/-! ### file sink -/

structure FileSink where
  rotated : List Str          -- files moved aside by rotation (closed, on disk), oldest first
  atPath : Option Str         -- on-disk content at `path` while no file object is open
  file : Option TextFile      -- the open file object (its `os` IS the on-disk content at `path`)
  hasRotation : Bool
  hasCompression : Bool
  hasRetention : Bool
  compressions : Nat          -- calls of the compression function
  retentions : Nat            -- calls of the retention function
  buffering : Int             -- `self._kwargs["buffering"]`: every `open()` of this sink uses it
  mode : OpenMode             -- `self._kwargs["mode"]`
  deriving Repr, DecidableEq

/-- primitive steps of `FileSink.write` / `_terminate_file`; a crash may fall between any two -/
inductive Prim where
  | openIfNone
  | closeIfOpen
  | rename
  | endOfLife (isRotating : Bool)
  | create
  | fwrite (m : Str)
  | reopenMoved         -- `watch=True`: somebody moved the file away; `_reopen_if_needed` closes the stale
                        --   object (its buffer goes to the moved file) and creates a new file at the path
  deriving Repr, DecidableEq

def openDefault (existing : Option Str) : Option TextFile :=
  match openText Gen.fileBuffering Gen.fileMode existing with
  | .ok f => some f
  | .error _ => none

/-- `open(path, **self._kwargs)` as `_create_file` does it: with the sink's OWN buffering and mode -/
def FileSink.reopen (s : FileSink) : Option TextFile :=
  match openMode s.buffering s.mode s.atPath with
  | .ok f => some f
  | .error _ => none

def runCloseOp (f : TextFile) : CloseOp → TextFile
  | .flush => f.flush
  | .close => f.close

def runPrim (s : FileSink) : Prim → FileSink
  | .openIfNone =>
    match s.file with
    | some _ => s
    | none => { s with file := s.reopen, atPath := if s.reopen.isSome then none else s.atPath }
  | .closeIfOpen =>
    match s.file with
    | none => s
    | some f =>
      let f' := Gen.closeFileOps.foldl runCloseOp f
      if f'.closed then { s with file := none, atPath := some f'.os } else s
  | .rename =>
    match s.file, s.atPath with
    | none, some c => { s with rotated := s.rotated ++ [c], atPath := none }
    | _, _ => s
  | .endOfLife isRot =>
    let hasOld := if isRot then !s.rotated.isEmpty else s.atPath.isSome
    let eol := Gen.endOfLife isRot s.hasRotation
    { s with compressions := s.compressions + (if eol && Gen.compressionGuard s.hasCompression hasOld then 1 else 0),
             retentions := s.retentions + (if eol && Gen.retentionGuard s.hasRetention then 1 else 0) }
  | .create =>
    match s.file with
    | some _ => s
    | none => { s with file := s.reopen, atPath := if s.reopen.isSome then none else s.atPath }
  | .fwrite m =>
    match s.file with
    | some f => { s with file := some (f.write m) }
    | none => s
  | .reopenMoved =>
    match s.file with
    | none => s
    | some f =>
      let f' := Gen.closeFileOps.foldl runCloseOp f
      if f'.closed then
        let s1 := { s with rotated := s.rotated ++ [f'.os], file := none, atPath := none }
        { s1 with file := s1.reopen }
      else s

def runPrims (s : FileSink) (ps : List Prim) : FileSink := ps.foldl runPrim s

/-- `_terminate_file(is_rotating)` -/
def termOpPrims (isRot : Bool) : TermOp → List Prim
  | .closeIfOpen => [.closeIfOpen]
  | .renameIfRotating => if isRot then [.rename] else []
  | .endOfLife => [.endOfLife isRot]
  | .createIfRotating => if isRot then [.create] else []

/-- the steps in the order the source has them (GENERATED `terminateOps`) -/
def terminatePrims (isRot : Bool) : List Prim := (Gen.terminateOps.map (termOpPrims isRot)).flatten

def writeOpPrims (rotDue : Bool) (m : Str) : WriteOp → List Prim
  | .openIfNone => [.openIfNone]
  | .reopenIfWatched => []                      -- `watch=False` (the default) in this model
  | .rotateIfDue => if rotDue then terminatePrims true else []
  | .fileWrite => [.fwrite m]

/-- `FileSink.write(message)`; `rotDue` is the verdict of the rotation function (an oracle here) -/
def writePrims (rotDue : Bool) (m : Str) : List Prim :=
  (Gen.fileWriteOps.map (writeOpPrims rotDue m)).flatten

/-- `FileSink.write` of a sink with `watch=True`; `moved` = the verdict of the `os.stat` comparison in
`_reopen_if_needed` (an oracle: what other processes did to the path) -/
def writeOpPrimsW (moved rotDue : Bool) (m : Str) : WriteOp → List Prim
  | .reopenIfWatched => if moved then [.reopenMoved] else []
  | op => writeOpPrims rotDue m op

def writePrimsW (moved rotDue : Bool) (m : Str) : List Prim :=
  (Gen.fileWriteOps.map (writeOpPrimsW moved rotDue m)).flatten

def stopPrims : List Prim :=
  match Gen.fileStopTerminate with
  | some isRot => terminatePrims isRot
  | none => []

namespace FileSink

/-- the attributes before any file is opened -/
def blank (existing : Option Str) (rot comp ret : Bool) (buffering : Int) (mode : OpenMode) : FileSink :=
  { rotated := [], atPath := existing, file := none, hasRotation := rot, hasCompression := comp,
    hasRetention := ret, compressions := 0, retentions := 0, buffering := buffering, mode := mode }

/-- `FileSink(path, …, mode=…, buffering=…, delay=…)` on a path whose content is `existing`: whether the
file is opened at once is the GENERATED decision `initOpens` -/
def newWith (existing : Option Str) (rot comp ret : Bool) (buffering : Int) (mode : OpenMode) (delay : Bool) : FileSink :=
  if Gen.initOpens delay then runPrim (blank existing rot comp ret buffering mode) .openIfNone
  else blank existing rot comp ret buffering mode

/-- `FileSink(path, …)` with the GENERATED defaults of `mode` / `buffering` and `delay=False` -/
def new (existing : Option Str) (rot comp ret : Bool) : FileSink :=
  match parseMode Gen.fileMode with
  | some m => newWith existing rot comp ret Gen.fileBuffering m false
  | none => { rotated := [], atPath := existing, file := none, hasRotation := rot, hasCompression := comp,
              hasRetention := ret, compressions := 0, retentions := 0, buffering := Gen.fileBuffering, mode := .append }

def write (s : FileSink) (rotDue : Bool) (m : Str) : FileSink := runPrims s (writePrims (rotDue && s.hasRotation) m)

def stop (s : FileSink) : FileSink := runPrims s stopPrims

/-- `write` on a `watch=True` sink -/
def writeW (s : FileSink) (moved rotDue : Bool) (m : Str) : FileSink :=
  runPrims s (writePrimsW moved (rotDue && s.hasRotation) m)

/-- the files on disk (contents), oldest first, as a reader finds them after the process died -/
def disk (s : FileSink) : List Str :=
  s.rotated ++ [match s.file with | some f => f.os | none => s.atPath.getD []]

/-- characters still in user space -/
def pendingText (s : FileSink) : Str := match s.file with | some f => f.pending | none => []

def durable (s : FileSink) : Str := s.disk.flatten

end FileSink

/-- a logging call on a file handler without `enqueue`: `(rotation due, emitted text)` -/
abbrev Call := Bool × Str

def runCalls (s : FileSink) (cs : List Call) : FileSink := cs.foldl (fun s c => s.write c.1 c.2) s

/-! ### handlers, remove(), interpreter exit -/

inductive Sink where
  | file (f : FileSink)
  | stream (s : Stream) (stoppable : Bool) (stops : Nat)
  deriving Repr, DecidableEq

def Sink.write (k : Sink) (c : Call) : Sink :=
  match k with
  | .file f => .file (f.write c.1 c.2)
  | .stream s st n => .stream (s.sinkWrite c.2) st n

def Sink.stop : Sink → Sink
  | .file f => .file f.stop
  | .stream s st n => .stream s st (streamStopCalls st n)

/-- what travels through the queue of an enqueued handler -/
inductive QItem where
  | msg (c : Call)     -- a `Message` (a `str`: falsy iff its text is empty)
  | confirm            -- `True`, put by `complete()`
  | sentinel           -- `None`, put by `stop()`
  | poison             -- a message whose record cannot be un-pickled: `queue.get()` raises in the worker
  deriving Repr, DecidableEq

/-- one iteration of the worker loop on one item: `none` = the loop (and the thread) ends,
`some sink` = it goes on with that sink -/
def workerIter : List WorkerOp → Sink → QItem → Option Sink
  | [], k, _ => some k
  | .get :: r, k, it =>
    match it with
    | .poison => some k            -- reported, `continue`: the item is lost, the loop goes on
    | _ => workerIter r k it
  | .getBreakOnError :: r, k, it =>
    match it with
    | .poison => none              -- the error ends the loop (and the thread)
    | _ => workerIter r k it
  | .breakIfNone :: r, k, it =>
    match it with
    | .sentinel => none
    | _ => workerIter r k it
  | .breakIfFalsy :: r, k, it =>
    match it with
    | .sentinel => none
    | .msg c => if c.2.isEmpty then none else workerIter r k it
    | .confirm => workerIter r k it
    | .poison => workerIter r k it
  | .confirmIfTrue :: r, k, it =>
    match it with
    | .confirm => some k
    | _ => workerIter r k it
  | .write :: r, k, it =>
    match it with
    | .msg c => workerIter r (k.write c) it
    | _ => workerIter r k it          -- `sink.write(None)` raises, is reported, the loop goes on

/-- the worker thread over the messages in the queue: the sink it leaves and the messages it never
read (because its loop ended before them) -/
def workerRun (ops : List WorkerOp) : Sink → List Call → Sink × List Call
  | k, [] => (k, [])
  | k, c :: r =>
    match workerIter ops k (.msg c) with
    | some k' => workerRun ops k' r
    | none => (k, r)

/-- the worker thread over ANY items (messages, confirmation tokens, items that cannot be un-pickled):
the sink it leaves and the items it never read -/
def workerRunQ (ops : List WorkerOp) : Sink → List QItem → Sink × List QItem
  | k, [] => (k, [])
  | k, it :: r =>
    match workerIter ops k it with
    | some k' => workerRunQ ops k' r
    | none => (k, r)

/-- the messages among queue items, in order -/
def msgsOf : List QItem → List Call
  | [] => []
  | .msg c :: r => c :: msgsOf r
  | _ :: r => msgsOf r

structure Handler where
  enqueue : Bool
  owner : Bool              -- `stop()` runs in the process that created the handler
  queue : List Call         -- put by `emit`, not yet written by the worker thread
  sink : Sink
  stopped : Bool
  sentinel : Bool           -- `None` has been put on the queue
  joined : Bool             -- the worker thread has been joined
  hung : Bool               -- `join()` on a worker that will never see the sentinel
  workerDead : Bool := false -- the worker thread has ended before `stop()` (a sink raised a `BaseException`)
  deriving Repr, DecidableEq

/-- one statement of `Handler.stop`; the Bool component of the state is "stop() has returned" -/
def runStopOp (st : Handler × Bool) (op : Bool × StopOp) : Handler × Bool :=
  let (h, returned) := st
  if returned || (op.1 && !h.enqueue) then st
  else match op.2 with
    | .setStopped => ({ h with stopped := true }, false)
    | .returnIfNotOwner => (h, !h.owner)
    | .putSentinel => ({ h with sentinel := true }, false)
    | .joinWorker =>
      if h.workerDead then
        -- `join()` on a thread that has ended returns at once; nobody reads the queue any more
        ({ h with joined := true }, false)
      else if h.sentinel then
        -- the worker (GENERATED loop body) takes the queued messages in FIFO order, then the sentinel
        let (k, unread) := workerRun Gen.workerOps h.sink h.queue
        if unread.isEmpty && (workerIter Gen.workerOps k .sentinel).isSome then
          ({ h with sink := k, queue := [], hung := true }, true)     -- the sentinel does not end the loop
        else ({ h with sink := k, queue := unread, joined := true }, false)
      else ({ h with hung := true }, true)
    | .joinWorkerTimeout =>
      -- a bounded wait: for a backlog longer than the bound (slow sink, burst) the call returns while
      -- the queue is still unread – the model takes that (adversarial) case
      (h, false)
    | .closeQueue => (h, false)
    | .sinkStop => ({ h with sink := h.sink.stop }, false)

/-- the tail of `Handler.emit` (GENERATED statement list) for one formatted message; Bool = "returned" -/
def runEmitAct (c : Call) (h : Handler) : EmitAct → Handler
  | .queuePut => { h with queue := h.queue ++ [c] }
  | .sinkWrite => { h with sink := h.sink.write c }

def runEmitOp (c : Call) (st : Handler × Bool) : EmitOp → Handler × Bool
  | .returnIfStopped => if st.2 then st else (st.1, st.1.stopped)
  | .ifEnqueue yes no => if st.2 then st else ((if st.1.enqueue then yes else no).foldl (runEmitAct c) st.1, false)
  | .act a => if st.2 then st else (runEmitAct c st.1 a, false)

/-- `Handler.emit` from the point where the text is formatted: what the logging call has done with it
when it returns -/
def Handler.emit (h : Handler) (c : Call) : Handler := (Gen.emitOps.foldl (runEmitOp c) (h, false)).1

/-- what can happen to a handler between `add()` and the end of the program: a logging call, or the
worker thread (enqueue) taking the oldest queued message -/
inductive Ev where
  | log (c : Call)
  | worker
  deriving Repr, DecidableEq

def Handler.workerStep (h : Handler) : Handler :=
  if h.enqueue && !h.workerDead then
    match h.queue with
    | [] => h
    | c :: r =>
      match workerIter Gen.workerOps h.sink (.msg c) with
      | some k => { h with sink := k, queue := r }
      | none => { h with queue := r, workerDead := true }
  else h

def Handler.step (h : Handler) : Ev → Handler
  | .log c => h.emit c
  | .worker => h.workerStep

def Handler.run (h : Handler) (evs : List Ev) : Handler := evs.foldl Handler.step h

/-- the texts the program's logging calls handed to this handler, in order -/
def logged : List Ev → List Call
  | [] => []
  | .log c :: r => c :: logged r
  | .worker :: r => logged r

def Handler.stop (h : Handler) : Handler := (Gen.handlerStopOps.foldl runStopOp (h, false)).1

/-- loop body of `Logger.remove` for one handler; Bool = "no longer registered" -/
def runRemoveOp (st : Handler × Bool) : RemoveOp → Handler × Bool
  | .unregister => (st.1, true)
  | .handlerStop => (st.1.stop, st.2)

def removeOne (h : Handler) : Handler × Bool := Gen.removeOps.foldl runRemoveOp (h, false)

structure Logger where
  handlers : List Handler        -- registered
  removed : List Handler         -- handlers `remove()` has processed, in order
  deriving Repr, DecidableEq

/-- `logger.remove()` (no argument) -/
def Logger.removeAll (lg : Logger) : Logger :=
  if Gen.removeNoneTakesAll then
    let rs := lg.handlers.map removeOne
    { handlers := (rs.filter (fun r => !r.2)).map (·.1),
      removed := lg.removed ++ (rs.filter (fun r => r.2)).map (·.1) }
  else lg

def runHook (lg : Logger) : Hook → Logger
  | .loggerRemove => lg.removeAll

/-- normal interpreter exit (return from main, `sys.exit`, unhandled exception): the `atexit`
callbacks run; afterwards the process is gone (what is not in the OS by then is lost) -/
def interpreterExit (lg : Logger) : Logger := Gen.atexitHooks.foldl runHook lg

end Buffer
