import LoguruModel.Buffer.Lemmas
import LoguruModel.Buffer.Layers
/-
C09 – lemmas about the layered stream model of Buffer/Layers.lean; every one holds for EVERY
size-driven spill behaviour of the two layers (the `Spill` oracle).
-/
namespace Buffer
open Py

namespace Layered

theorem binWrite_spec (l : Layered) (b : Str) (n : Nat) :
    ∃ q, (l.binWrite b n).os = l.os ++ q ∧ q ++ (l.binWrite b n).bin = l.bin ++ b ∧
      (l.binWrite b n).text = l.text ∧ SameCfg (l.binWrite b n) l := by
  unfold binWrite
  cases hb : l.buffered
  · exact ⟨l.bin ++ b, by simp [SameCfg, hb]⟩
  · exact ⟨(l.bin ++ b).take n, by simp [SameCfg, hb]⟩


theorem binWrite_raw (l : Layered) (hb : l.buffered = false) (b : Str) (n : Nat) :
    (l.binWrite b n).os = l.os ++ (l.bin ++ b) ∧ (l.binWrite b n).bin = [] := by
  simp [binWrite, hb]


theorem textFlush_spec (l : Layered) (n : Nat) :
    ∃ q, (l.textFlush n).os = l.os ++ q ∧ q ++ (l.textFlush n).bin = l.bin ++ l.text ∧
      (l.textFlush n).text = [] ∧ SameCfg (l.textFlush n) l := by
  obtain ⟨q, h1, h2, h3, h4⟩ := binWrite_spec { l with text := [] } l.text n
  exact ⟨q, h1, h2, h3, h4⟩


/-- ONE write, any spill behaviour: the OS content only grows (by `q`), and nothing is lost or
reordered: what the OS gained plus what the two layers hold is what they held plus the new text -/
theorem write_window (l : Layered) (hc : l.closed = false) (s : Str) (sp : Spill) :
    ∃ q, (l.write s sp).os = l.os ++ q ∧ q ++ (l.write s sp).bin ++ (l.write s sp).text = l.bin ++ l.text ++ s ∧
      SameCfg (l.write s sp) l := by
  unfold write
  simp only [hc, Bool.false_eq_true, ↓reduceIte]
  -- step 1: optional hand-over before appending
  have h1 : ∃ q1, (if sp.pre then l.textFlush sp.n1 else l).os = l.os ++ q1 ∧
      q1 ++ (if sp.pre then l.textFlush sp.n1 else l).bin ++ (if sp.pre then l.textFlush sp.n1 else l).text = l.bin ++ l.text ∧
      SameCfg (if sp.pre then l.textFlush sp.n1 else l) l := by
    cases sp.pre
    · exact ⟨[], by simp [SameCfg]⟩
    · obtain ⟨q, a, b, c, d⟩ := textFlush_spec l sp.n1
      exact ⟨q, by simpa using a, by simp [c, b], by simpa using d⟩
  generalize (if sp.pre then l.textFlush sp.n1 else l) = l1 at h1
  obtain ⟨q1, a1, b1, c1⟩ := h1
  -- step 2: append, then optional hand-over
  let l2 : Layered := { l1 with text := l1.text ++ s }
  have h3 : ∀ c : Bool, ∃ q3, (if c then l2.textFlush sp.n2 else l2).os = l2.os ++ q3 ∧
      q3 ++ (if c then l2.textFlush sp.n2 else l2).bin ++ (if c then l2.textFlush sp.n2 else l2).text = l2.bin ++ l2.text ∧
      SameCfg (if c then l2.textFlush sp.n2 else l2) l2 := by
    intro c
    cases c
    · exact ⟨[], by simp [SameCfg]⟩
    · obtain ⟨q, a, b, c, d⟩ := textFlush_spec l2 sp.n2
      exact ⟨q, by simpa using a, by simp [c, b], by simpa using d⟩
  obtain ⟨q3, a3, b3, c3⟩ := h3 (sp.post || (l.lineBuffering && hasLineEnd s) || l.writeThrough)
  show ∃ q, (if (l.lineBuffering && hasLineEnd s) = true then
      (if (sp.post || (l.lineBuffering && hasLineEnd s) || l.writeThrough) = true then l2.textFlush sp.n2 else l2).binFlush
      else (if (sp.post || (l.lineBuffering && hasLineEnd s) || l.writeThrough) = true then l2.textFlush sp.n2 else l2)).os = _ ∧ _
  generalize (if (sp.post || (l.lineBuffering && hasLineEnd s) || l.writeThrough) = true then l2.textFlush sp.n2 else l2) = l3 at a3 b3 c3
  have e2 : l2.os = l1.os ∧ l2.bin = l1.bin ∧ l2.text = l1.text ++ s := ⟨rfl, rfl, rfl⟩
  have cfg : SameCfg l3 l := by
    obtain ⟨x1, x2, x3, x4⟩ := c3
    obtain ⟨y1, y2, y3, y4⟩ := c1
    exact ⟨x1.trans y1, x2.trans y2, x3.trans y3, x4.trans y4⟩
  have key : q1 ++ q3 ++ l3.bin ++ l3.text = l.bin ++ l.text ++ s := by
    have : q1 ++ (q3 ++ l3.bin ++ l3.text) = q1 ++ (l2.bin ++ l2.text) := by rw [b3]
    rw [e2.2.1, e2.2.2] at this
    calc q1 ++ q3 ++ l3.bin ++ l3.text = q1 ++ (q3 ++ l3.bin ++ l3.text) := by simp
      _ = q1 ++ (l1.bin ++ (l1.text ++ s)) := this
      _ = (q1 ++ l1.bin ++ l1.text) ++ s := by simp
      _ = l.bin ++ l.text ++ s := by rw [b1]
  cases (l.lineBuffering && hasLineEnd s)
  · refine ⟨q1 ++ q3, ?_, key, cfg⟩
    simp [a3, e2.1, a1]
  · refine ⟨q1 ++ q3 ++ l3.bin, ?_, ?_, ?_⟩
    · simp [binFlush, a3, e2.1, a1]
    · simpa [binFlush] using key
    · simpa [binFlush, SameCfg] using cfg


/-- a write whose text has a line end, on a line-buffered stream: BOTH layers are empty afterwards and
the OS holds everything – whatever the sizes involved -/
theorem write_line_end (l : Layered) (hc : l.closed = false) (hl : l.lineBuffering = true) (s : Str)
    (hs : hasLineEnd s = true) (sp : Spill) :
    (l.write s sp).bin = [] ∧ (l.write s sp).text = [] ∧ (l.write s sp).os = l.all ++ s := by
  obtain ⟨q, a, b, _⟩ := write_window l hc s sp
  have hb : (l.write s sp).bin = [] ∧ (l.write s sp).text = [] := by
    unfold write
    simp only [hc, hl, hs, Bool.false_eq_true, ↓reduceIte, Bool.and_self, Bool.or_true, Bool.true_or]
    refine ⟨rfl, ?_⟩
    show (textFlush _ _).text = []
    exact (textFlush_spec _ _).choose_spec.2.2.1
  rw [hb.1, hb.2] at b
  refine ⟨hb.1, hb.2, ?_⟩
  rw [a]
  simp only [List.append_nil] at b
  rw [b]; simp [all]


theorem flush_spec (l : Layered) (hc : l.closed = false) :
    (l.flush).os = l.all ∧ (l.flush).bin = [] ∧ (l.flush).text = [] ∧ SameCfg l.flush l := by
  obtain ⟨q, a, b, c, d⟩ := textFlush_spec l 0
  unfold flush
  simp only [hc, Bool.false_eq_true, ↓reduceIte]
  refine ⟨?_, rfl, ?_, ?_⟩
  · simp only [binFlush, a, all]
    rw [List.append_assoc, b]; simp
  · simpa [binFlush] using c
  · simpa [binFlush, SameCfg] using d


/-- `write_through` over a RAW file: every write is in the OS when it returns -/
theorem write_through_raw (l : Layered) (hc : l.closed = false) (hw : l.writeThrough = true)
    (hb : l.buffered = false) (s : Str) (sp : Spill) :
    (l.write s sp).bin = [] ∧ (l.write s sp).text = [] ∧ (l.write s sp).os = l.all ++ s := by
  obtain ⟨q, a, b, _⟩ := write_window l hc s sp
  have hb' : (l.write s sp).bin = [] ∧ (l.write s sp).text = [] := by
    unfold write
    simp only [hc, hw, Bool.false_eq_true, ↓reduceIte, Bool.or_true]
    have e : ∀ l' : Layered, l'.buffered = false → ∀ n, (l'.textFlush n).bin = [] ∧ (l'.textFlush n).text = [] := by
      intro l' h' n
      exact ⟨(binWrite_raw _ (by simpa using h') _ _).2, (textFlush_spec _ _).choose_spec.2.2.1⟩
    have hb1 : (if sp.pre then l.textFlush sp.n1 else l).buffered = false := by
      cases sp.pre
      · simpa using hb
      · have := (textFlush_spec l sp.n1).choose_spec.2.2.2.1
        simpa [hb] using this
    generalize (if sp.pre then l.textFlush sp.n1 else l) = l1 at hb1
    have := e { l1 with text := l1.text ++ s } (by simpa using hb1) sp.n2
    cases (l.lineBuffering && hasLineEnd s)
    · simpa using this
    · simp [binFlush, this.2]
  rw [hb'.1, hb'.2] at b
  refine ⟨hb'.1, hb'.2, ?_⟩
  rw [a]
  simp only [List.append_nil] at b
  rw [b]; simp [all]


/-- `TextFile` is the exact one-buffer abstraction of the layers when nothing spills by size -/
theorem toTextFile_write (l : Layered) (hb : l.buffered = true) (s : Str) :
    (l.write s Spill.none).toTextFile = l.toTextFile.write s := by
  obtain ⟨os, bin, text, bu, lb, wt, cl⟩ := l
  simp only at hb; subst hb
  cases cl <;> cases lb <;> cases wt <;> cases hs : hasLineEnd s <;>
    simp [write, Spill.none, toTextFile, TextFile.write, TextFile.flush, textFlush, binWrite, binFlush, hs]


theorem toTextFile_flush (l : Layered) : l.flush.toTextFile = l.toTextFile.flush := by
  obtain ⟨os, bin, text, bu, lb, wt, cl⟩ := l
  cases cl <;> cases bu <;>
    simp [flush, toTextFile, TextFile.flush, textFlush, binWrite, binFlush]

end Layered

theorem lstream_write (s : LStream) (hf : s.flushable = true) (hc : s.file.closed = false) (m : Str) (sp : Spill) :
    (s.sinkWrite m sp).file.bin = [] ∧ (s.sinkWrite m sp).file.text = [] ∧
    (s.sinkWrite m sp).file.os = s.file.all ++ m ∧ (s.sinkWrite m sp).file.closed = false ∧
    (s.sinkWrite m sp).flushable = true := by
  obtain ⟨q, a, b, c⟩ := Layered.write_window s.file hc m sp
  have hc' : (s.file.write m sp).closed = false := by rw [c.2.2.2]; exact hc
  obtain ⟨f1, f2, f3, f4⟩ := Layered.flush_spec (s.file.write m sp) hc'
  have : s.sinkWrite m sp = { file := (s.file.write m sp).flush, flushable := true } := by
    obtain ⟨fl, fb⟩ := s
    simp only at hf; subst hf
    simp [LStream.sinkWrite, Gen.streamWriteOps, runLStreamOp]
  rw [this]
  refine ⟨f2, f3, ?_, ?_, rfl⟩
  · show (s.file.write m sp).flush.os = _
    rw [f1]
    simp only [Layered.all, a]
    rw [List.append_assoc, List.append_assoc, ← List.append_assoc q, b]
    simp
  · show (s.file.write m sp).flush.closed = false
    rw [f4.2.2.2]; exact hc'


theorem runLStream_flushed (ws : List (Str × Spill)) : ∀ (s : LStream), s.flushable = true → s.file.closed = false →
    s.file.bin = [] → s.file.text = [] →
    (runLStream s ws).file.os = s.file.os ++ textsL ws ∧
    (runLStream s ws).file.bin = [] ∧ (runLStream s ws).file.text = [] := by
  induction ws with
  | nil => intro s _ _ hb ht; simp [runLStream, textsL, hb, ht]
  | cons w ws ih =>
    intro s a b hb ht
    obtain ⟨h1, h2, h3, h4, h5⟩ := lstream_write s a b w.1 w.2
    have h := ih (s.sinkWrite w.1 w.2) h5 h4 h1 h2
    simp only [runLStream, List.foldl_cons] at h ⊢
    refine ⟨?_, h.2⟩
    rw [h.1, h3]; simp [Layered.all, hb, ht, textsL]


/-- any sequence of writes, any spill behaviour: the OS gained `p`, and `p` plus what the two layers
hold is exactly what they held plus the texts written – nothing lost, nothing reordered, nothing foreign -/
theorem runLayered_window (ws : List (Str × Spill)) : ∀ (l : Layered), l.closed = false →
    ∃ p, (runLayered l ws).os = l.os ++ p ∧
      p ++ (runLayered l ws).bin ++ (runLayered l ws).text = l.bin ++ l.text ++ textsL ws ∧
      Layered.SameCfg (runLayered l ws) l := by
  induction ws with
  | nil => intro l _; exact ⟨[], by simp [runLayered, textsL, Layered.SameCfg]⟩
  | cons w ws ih =>
    intro l hc
    obtain ⟨q, a, b, c⟩ := Layered.write_window l hc w.1 w.2
    have hc' : (l.write w.1 w.2).closed = false := by rw [c.2.2.2]; exact hc
    obtain ⟨p, a', b', c'⟩ := ih (l.write w.1 w.2) hc'
    simp only [runLayered, List.foldl_cons] at a' b' c' ⊢
    refine ⟨q ++ p, ?_, ?_, ?_⟩
    · rw [a', a]; simp
    · have : q ++ (p ++ (List.foldl (fun l w => l.write w.1 w.2) (l.write w.1 w.2) ws).bin ++
          (List.foldl (fun l w => l.write w.1 w.2) (l.write w.1 w.2) ws).text) =
          q ++ ((l.write w.1 w.2).bin ++ (l.write w.1 w.2).text ++ textsL ws) := by rw [b']
      calc _ = q ++ (p ++ (List.foldl (fun l w => l.write w.1 w.2) (l.write w.1 w.2) ws).bin ++
            (List.foldl (fun l w => l.write w.1 w.2) (l.write w.1 w.2) ws).text) := by simp
        _ = q ++ ((l.write w.1 w.2).bin ++ (l.write w.1 w.2).text ++ textsL ws) := this
        _ = (q ++ (l.write w.1 w.2).bin ++ (l.write w.1 w.2).text) ++ textsL ws := by simp
        _ = l.bin ++ l.text ++ w.1 ++ textsL ws := by rw [b]
        _ = _ := by simp [textsL]
    · obtain ⟨x1, x2, x3, x4⟩ := c'
      obtain ⟨y1, y2, y3, y4⟩ := c
      exact ⟨x1.trans y1, x2.trans y2, x3.trans y3, x4.trans y4⟩

/-- the abstraction commutes with whole histories of writes (no size-driven spill) -/
theorem toTextFile_run (ms : List Str) : ∀ (l : Layered), l.buffered = true →
    (runLayered l (ms.map (fun m => (m, Spill.none)))).toTextFile = ms.foldl TextFile.write l.toTextFile := by
  induction ms with
  | nil => intro l _; rfl
  | cons m ms ih =>
    intro l hb
    have hb' : (l.write m Spill.none).buffered = true := by
      unfold Layered.write
      obtain ⟨os, bin, text, bu, lb, wt, cl⟩ := l
      simp only at hb; subst hb
      cases cl <;> cases lb <;> cases wt <;> cases hasLineEnd m <;>
        simp [Spill.none, Layered.textFlush, Layered.binWrite, Layered.binFlush]
    have := ih (l.write m Spill.none) hb'
    simp only [runLayered, List.map_cons, List.foldl_cons] at this ⊢
    rw [this, Layered.toTextFile_write l hb m]

end Buffer
