/-
STACKED `catch()` decorators on a generator / coroutine function, any number of them (round 5).

`Catcher.__call__` dispatches on the KIND of function object it is handed (`iscoroutinefunction`,
`isgeneratorfunction`, `isasyncgenfunction`, else); the `catch_wrapper` it returns for a generator
function is again a generator function (it contains `yield from`), for a coroutine function again a
coroutine function (`async def` without `yield`) – so the next decorator of the stack takes the SAME
branch (`Gen.wrapperKinds`, regenerated from the AST; `Props/C16: wrapper_kind_preserved`).  A stack of
n decorators is therefore the n-fold tower `wrapAuto cₙ (genObj (wrapAuto cₙ₋₁ …))` defined here, and
the bisimulation of `Bisim.lean` lifts through it: a QUIET wrapper is itself a quiet automaton
(`quiet_lift_run`), whence transparency of the whole tower by induction over the list of configurations.
-/
import LoguruModel.Catch.Bisim

namespace Catch
open Py.Gen

variable {σ : Type}

/-! ### which branch of `Catcher.__call__` a function object takes, and what kind of function object
    the wrapper it gets back is -/

/-- what `Catcher.__call__` can find out about the function it is handed: its kind (`inspect`, i.e. the
    code flags CO_COROUTINE / CO_GENERATOR / CO_ASYNC_GENERATOR, of which a code object carries at most
    one) and whether it carries the marker attribute -/
structure FnObj where
  kind : FnKind
  marked : Bool
  deriving DecidableEq, Repr

def atomHolds (f : FnObj) : BranchAtom → Bool
  | .isKind k => f.kind == k
  | .hasMarker => f.marked

/-- the branch test: a disjunction of atoms; no atom = the final `else` -/
def branchTaken (f : FnObj) (b : Branch) : Bool := b.atoms.isEmpty || b.atoms.any (atomHolds f)

/-- decorating `f` with a given branch table: the first branch (source order) whose test holds defines
    the wrapper; `functools.update_wrapper` then copies `f.__dict__` – marker included – onto it -/
def decoratedWith (branches : List Branch) (f : FnObj) : Option FnObj :=
  (branches.find? (branchTaken f)).map fun b =>
    { kind := b.wrapperKind, marked := b.setsMarker || (Gen.wrapperCopiesDict && f.marked) }

/-- … with the table GENERATED from the source -/
def decorated (f : FnObj) : Option FnObj := decoratedWith Gen.branches f

/-- after `n` decorators -/
def stacked : Nat → FnObj → Option FnObj
  | 0, f => some f
  | n + 1, f => (stacked n f).bind decorated

/-- the PROTOCOL of what a call of `f` returns, as the next decorator will treat it: a marked plain
    function is (the wrapper of) an async generator function -/
def proto (f : FnObj) : FnKind := if f.kind = .plain ∧ f.marked then .asyncgen else f.kind

/-- the branch table before repo commit 2c59ddf: the async-generator branch neither looked for a marker
    nor set one -/
def branchesBefore2c59ddf : List Branch := [
  { atoms := [.isKind .coroutine], wrapperKind := .coroutine, setsMarker := false },
  { atoms := [.isKind .generator], wrapperKind := .generator, setsMarker := false },
  { atoms := [.isKind .asyncgen], wrapperKind := .plain, setsMarker := false },
  { atoms := [], wrapperKind := .plain, setsMarker := false }]

/-! ### a quiet wrapper is a quiet automaton -/

/-- what the wrapper's own frame does when the wrapped object's frame did `r` and nothing is caught -/
def liftOutcome (k : Kind) : Outcome × σ × G → Outcome × WState (GState σ) × G
  | (.yield v, s, g) => (.yield v, .delegating (.suspended s), g)
  | (.ret v, _, g) => (.ret v, .delegating .done, g)
  | (.raise e, _, g) => (.raise (pep479 k e), .delegating .done, g)

theorem finishWith_quiet (k : Kind) (env : Env) (cfg : Cfg) (r : Outcome × σ × G)
    (h : raisesOk k (Uncaught cfg) r) :
    finishWith (exit env) cfg (dconv (settle k r)) = liftOutcome k r := by
  obtain ⟨o, s', g'⟩ := r
  cases o with
  | yield v => simp [settle, dconv, finishWith, liftOutcome]
  | ret v => simp [settle, dconv, finishWith, liftOutcome, exit_none]
  | raise e =>
    simp only [raisesOk] at h
    simp [settle, dconv, finishWith, liftOutcome, exit_uncaught env cfg _ _ _ h]

theorem raisesOk_lift (k : Kind) (P : G → Exc → Prop) (r : Outcome × σ × G) (h : raisesOk k P r) :
    raisesOk k P (liftOutcome k r) := by
  obtain ⟨o, s', g'⟩ := r
  cases o with
  | yield v => trivial
  | ret v => trivial
  | raise e => simpa [raisesOk, liftOutcome, pep479_idem] using h

theorem raisesOk_mono (k : Kind) {P P' : G → Exc → Prop} (hP : ∀ g e, P g e → P' g e)
    (r : Outcome × σ × G) (h : raisesOk k P r) : raisesOk k P' r := by
  obtain ⟨o, s', g'⟩ := r
  cases o with
  | yield v => trivial
  | ret v => trivial
  | raise e => exact hP _ _ h

/-- ONE STEP: if an operation is quiet for the wrapped object (w.r.t. `P`, `Q`) and the catcher handles
    nothing that satisfies `P` or `Q`, the same operation is quiet – w.r.t. the same `P`, `Q` – for the
    WRAPPER taken as the body automaton of the next decorator -/
theorem quiet_lift_step (k : Kind) (env : Env) (cfg : Cfg) (a : Auto G σ) {P Q : G → Exc → Prop}
    (hP : ∀ g e, P g e → Uncaught cfg g e) (hQ : ∀ g e, Q g e → Uncaught cfg g e)
    (st : GState σ) (op : Op) (g : G) (h : quietStep k a P Q st op g) :
    quietStep k (wrapAuto (exit env) cfg (genObj k a)) P Q (emb st) op g := by
  cases st with
  | unstarted s =>
    cases op with
    | send v =>
      simp only [quietStep] at h
      simp only [emb, quietStep]
      intro hv
      have h' := h hv
      have hf := finishWith_quiet k env cfg _ (raisesOk_mono k hP _ h')
      simp only [wrapAuto, genObj, genStep, if_true]
      rw [hf]
      exact raisesOk_lift k P _ h'
    | throw e => simp [emb, quietStep]
    | close => simp [emb, quietStep]
  | suspended s =>
    cases op with
    | send v =>
      simp only [quietStep] at h
      simp only [emb, quietStep, wrapAuto, genObj, genStep, delegate]
      rw [finishWith_quiet k env cfg _ (raisesOk_mono k hP _ h)]
      exact raisesOk_lift k P _ h
    | throw x =>
      simp only [quietStep] at h
      simp only [emb, quietStep, wrapAuto, genObj, genStep, delegate, h.1, Bool.false_eq_true, if_false]
      refine ⟨trivial, ?_⟩
      rw [finishWith_quiet k env cfg _ (raisesOk_mono k hP _ h.2)]
      exact raisesOk_lift k P _ h.2
    | close =>
      simp only [quietStep] at h
      have hge : genExit.isGenExit = true := rfl
      simp only [emb, quietStep, wrapAuto, genObj, genStep, delegate, hge, if_true]
      revert h
      generalize a.step s (.throw genExit) g = r
      obtain ⟨o, s', g'⟩ := r
      cases o with
      | yield v => simp
      | ret v =>
        intro h
        simp [settleClose, dclose, finishWith, exit_uncaught env cfg _ _ _ (hQ _ _ h), hge]
        exact h
      | raise e =>
        by_cases he : e.isGenExit = true
        · simp only [he, if_true]
          intro h
          simp [settleClose, dclose, finishWith, exit_uncaught env cfg _ _ _ (hQ _ _ h), hge, he]
          exact h
        · simp only [he, Bool.false_eq_true, if_false]
          intro h
          have hne : (pep479 k e).isGenExit = false := pep479_not_genexit k e (by simpa using he)
          simp [settleClose, dclose, finishWith, exit_uncaught env cfg _ _ _ (hP _ _ h), he, hne, pep479_idem]
          exact h
  | done => cases op <;> simp [emb, quietStep]

/-- ALL DRIVER SEQUENCES: a run that is quiet for the wrapped object is quiet for the wrapper as an automaton -/
theorem quiet_lift_run (k : Kind) (env : Env) (cfg : Cfg) (a : Auto G σ) {P Q : G → Exc → Prop}
    (hP : ∀ g e, P g e → Uncaught cfg g e) (hQ : ∀ g e, Q g e → Uncaught cfg g e) (ops : List Op) :
    ∀ (st : GState σ) (g : G), quietRun k a P Q st ops g →
      quietRun k (wrapAuto (exit env) cfg (genObj k a)) P Q (emb st) ops g := by
  induction ops with
  | nil => intro _ _ _; trivial
  | cons op ops ih =>
    intro st g h
    obtain ⟨h1, h2⟩ := h
    refine ⟨quiet_lift_step k env cfg a hP hQ st op g h1, ?_⟩
    have hs := wrapped_step_quiet k env cfg a st op g (quietStep_mono k a hP hQ st op g h1)
    have hs' : (genObj k (wrapAuto (exit env) cfg (genObj k a))).step (emb st) op g
        = embRes ((genObj k a).step st op g) := hs
    rw [hs']
    have ih' := ih _ _ h2
    generalize (genObj k a).step st op g = r at ih' ⊢
    obtain ⟨r0, st', g'⟩ := r
    exact ih'

/-! ### the tower -/

/-- state type of a body decorated with the configurations `cfgs` (outermost first) -/
def TState (σ : Type) : List Cfg → Type
  | [] => σ
  | _ :: cs => WState (GState (TState σ cs))

/-- the body automaton seen by a driver of `catch(c₁)(catch(c₂)(… catch(cₙ)(f)))`, `cfgs = [c₁, …, cₙ]` -/
def towerAuto (k : Kind) (env : Env) (a : Auto G σ) : (cfgs : List Cfg) → Auto G (TState σ cfgs)
  | [] => a
  | c :: cs => wrapAuto (exit env) c (genObj k (towerAuto k env a cs))

/-- the state of the stack that corresponds to a state of the undecorated object -/
def embN : (cfgs : List Cfg) → GState σ → GState (TState σ cfgs)
  | [], st => st
  | _ :: cs, st => emb (embN cs st)

/-- the object a call of the n-fold decorated generator / coroutine function returns -/
def towerObj (k : Kind) (env : Env) (a : Auto G σ) (cfgs : List Cfg) : Obj G (GState (TState σ cfgs)) :=
  genObj k (towerAuto k env a cfgs)

theorem tower_run_quiet (k : Kind) (env : Env) (a : Auto G σ) {P Q : G → Exc → Prop} (cfgs : List Cfg)
    (hP : ∀ c ∈ cfgs, ∀ g e, P g e → Uncaught c g e) (hQ : ∀ c ∈ cfgs, ∀ g e, Q g e → Uncaught c g e)
    (ops : List Op) (st : GState σ) (g : G) (h : quietRun k a P Q st ops g) :
    quietRun k (towerAuto k env a cfgs) P Q (embN cfgs st) ops g ∧
    run (towerObj k env a cfgs) (embN cfgs st) ops g =
      ((run (genObj k a) st ops g).1, embN cfgs (run (genObj k a) st ops g).2.1, (run (genObj k a) st ops g).2.2) := by
  induction cfgs with
  | nil => exact ⟨h, rfl⟩
  | cons c cs ih =>
    have ih' := ih (fun c' hc' => hP c' (List.mem_cons_of_mem _ hc')) (fun c' hc' => hQ c' (List.mem_cons_of_mem _ hc'))
    obtain ⟨hq, hr⟩ := ih'
    have hPc := hP c (List.mem_cons_self ..)
    have hQc := hQ c (List.mem_cons_self ..)
    refine ⟨quiet_lift_run k env c (towerAuto k env a cs) hPc hQc ops _ g hq, ?_⟩
    have hw := wrapped_run_quiet k env c (towerAuto k env a cs) ops (embN cs st) g
      (quietRun_mono k _ hPc hQc ops _ g hq)
    have hw' : run (towerObj k env a (c :: cs)) (embN (c :: cs) st) ops g =
        ((run (towerObj k env a cs) (embN cs st) ops g).1, emb (run (towerObj k env a cs) (embN cs st) ops g).2.1,
         (run (towerObj k env a cs) (embN cs st) ops g).2.2) := hw
    rw [hw', hr]
    rfl

/-! ### stacked decorators on an ASYNC GENERATOR function: `AsyncGenCatchWrapper` around `AsyncGenCatchWrapper`
    (the wrapper object has no state of its own, so the state type does not grow) -/

variable {τ : Type}

/-- the object a call of `catch(c₁)(… catch(cₙ)(agenfunc))` returns, `cfgs = [c₁, …, cₙ]` outermost first -/
def agTower (env : Env) (inner : τ → AOp → G → ARes × τ × G) : List Cfg → τ → AOp → G → ARes × τ × G
  | [] => inner
  | c :: cs => agWrapStep (exit env) c (agTower env inner cs)

/-- `asend` of one wrapper layer is transparent unless the wrapped object's `asend` raises something this
    catcher handles (any wrapped object with the `asend/athrow/aclose` interface) -/
theorem agWrap_asend_transparent (env : Env) (cfg : Cfg) (inner : τ → AOp → G → ARes × τ × G) (t : τ) (v : Val) (g : G)
    (h : ∀ e t' g', inner t (.asend v) g = (.raise e, t', g') → Uncaught cfg g' e) :
    agWrapStep (exit env) cfg inner t (.asend v) g = inner t (.asend v) g := by
  unfold agWrapStep
  simp only
  rcases hr : inner t (.asend v) g with ⟨r, t', g'⟩
  cases r with
  | yield y => simp [agAsend, exit_none]
  | stopAsync => simp [agAsend, exit_none]
  | raise e => simp [agAsend, exit_uncaught env cfg decoratorDepth e g' (h e t' g' hr)]
  | closed => simp [agAsend]

/-- one operation is quiet for a whole stack: an exception arising on an `asend` of the undecorated
    generator is handled by NO catcher of the stack (`athrow`/`aclose` bypass every layer) -/
def quietAStack (cfgs : List Cfg) (inner : τ → AOp → G → ARes × τ × G) (t : τ) (op : AOp) (g : G) : Prop :=
  match op with
  | .asend v => ∀ e t' g', inner t (.asend v) g = (.raise e, t', g') → ∀ c ∈ cfgs, Uncaught c g' e
  | .athrow _ => True
  | .aclose => True

theorem agTower_step_quiet (env : Env) (inner : τ → AOp → G → ARes × τ × G) (cfgs : List Cfg) (t : τ) (op : AOp) (g : G)
    (h : quietAStack cfgs inner t op g) : agTower env inner cfgs t op g = inner t op g := by
  induction cfgs with
  | nil => rfl
  | cons c cs ih =>
    have ih' : agTower env inner cs t op g = inner t op g := by
      apply ih
      cases op with
      | asend v => intro e t' g' hr c' hc'; exact h e t' g' hr c' (List.mem_cons_of_mem _ hc')
      | athrow x => trivial
      | aclose => trivial
    cases op with
    | asend v =>
      show agWrapStep (exit env) c (agTower env inner cs) t (.asend v) g = _
      rw [agWrap_asend_transparent env c (agTower env inner cs) t v g]
      · exact ih'
      · intro e t' g' hr
        rw [ih'] at hr
        exact h e t' g' hr c (List.mem_cons_self ..)
    | athrow x => exact ih'
    | aclose => exact ih'

def quietAStackRun (cfgs : List Cfg) (inner : τ → AOp → G → ARes × τ × G) : τ → List AOp → G → Prop
  | _, [], _ => True
  | t, op :: ops, g =>
    quietAStack cfgs inner t op g ∧
    quietAStackRun cfgs inner (inner t op g).2.1 ops (inner t op g).2.2

theorem agTower_run_quiet (env : Env) (inner : τ → AOp → G → ARes × τ × G) (cfgs : List Cfg) (ops : List AOp) :
    ∀ (t : τ) (g : G), quietAStackRun cfgs inner t ops g →
      arun (agTower env inner cfgs) t ops g = arun inner t ops g := by
  induction ops with
  | nil => intro _ _ _; rfl
  | cons op ops ih =>
    intro t g h
    obtain ⟨h1, h2⟩ := h
    have hs := agTower_step_quiet env inner cfgs t op g h1
    simp only [arun]
    rw [hs, ih _ _ h2]

/-- the exception passes the inner layers untouched and an OUTER catcher handles it: ITS record, ITS
    onerror, iteration ends (or re-raise) – the layers above that one see a normal end of iteration -/
theorem agTower_outer_catches (env : Env) (inner : τ → AOp → G → ARes × τ × G) (c : Cfg) (below : List Cfg)
    (t t' : τ) (v : Val) (g g' : G) (e : Exc)
    (hr : inner t (.asend v) g = (.raise e, t', g')) (hb : ∀ c' ∈ below, Uncaught c' g' e) (hc : Caught c g' e) :
    agTower env inner (c :: below) t (.asend v) g =
      match caughtResult env c decoratorDepth e g' with
      | (.suppress, g2) => (.stopAsync, t', g2)
      | (.propagate, g2) => (.raise e, t', g2)
      | (.raise x, g2) => (.raise x, t', g2) := by
  have hq : quietAStack below inner t (.asend v) g := by
    intro e2 t2 g2 hr2 c' hc'
    rw [hr] at hr2
    cases hr2
    exact hb c' hc'
  show agWrapStep (exit env) c (agTower env inner below) t (.asend v) g = _
  unfold agWrapStep
  simp only [agTower_step_quiet env inner below t (.asend v) g hq, hr, agAsend, exit_caught env c decoratorDepth e g' hc]
  generalize caughtResult env c decoratorDepth e g' = r
  obtain ⟨er, g2⟩ := r
  cases er <;> rfl

end Catch
