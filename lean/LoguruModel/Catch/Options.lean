/-
The options `Catcher.__exit__` hands to `_log` (round 5).  A logger carries nine options
(`Logger.__init__`: `self._options = (exception, depth, record, lazy, colors, raw, capture, patchers,
extra)`); `__exit__` unpacks `_, depth, _, *options = logger._options`, adjusts the depth and calls
`_log` with `[(type_, value, traceback_), depth, True, *options]`, which `_log` unpacks again BY POSITION.
Everything positional here is regenerated from the source (`Gen.initOptionNames`, `Gen.logOptionNames`,
`Gen.exitDepthPos/exitDropped/exitRestFrom`, `Gen.catchSlots`, `Gen.logFrameExtra`); the theorems of
`Props/C16` say, BY NAME, what the record of a caught exception is made with.
-/
import LoguruModel.Catch.Model

namespace Catch
open Py.Gen

/-- an option value: the caught exception triple, a number (depth), a truth value, or anything else
    (patcher list, extra dict, a user's `exception=` argument …) identified by a tag -/
inductive OptVal where
  | triple (e : Exc)
  | num (n : Nat)
  | bool (b : Bool)
  | other (tag : Nat)
  deriving DecidableEq, Repr

/-- `depth + k` on an option value (only numbers are depths) -/
def OptVal.addDepth : OptVal → Nat → OptVal
  | .num n, k => .num (n + k)
  | v, _ => v

/-- the list `__exit__` builds from the logger's options `opts` (by position), the caught exception and
    the depth adjustment `adj` (decorator + `_frames`) -/
def catchOptions (opts : List OptVal) (e : Exc) (adj : Nat) : List OptVal :=
  Gen.catchSlots.flatMap fun
    | .excTriple => [.triple e]
    | .depthAdjusted => [(opts.getD Gen.exitDepthPos (.other 0)).addDepth adj]
    | .constTrue => [.bool true]
    | .rest => opts.drop Gen.exitRestFrom

/-- what `_log` finds under the name `n` in the options it is handed (it unpacks by position, in the
    order `Gen.logOptionNames`) -/
def logSees (handed : List OptVal) (n : List Char) : Option OptVal :=
  (Gen.logOptionNames.zip handed).lookup n

/-- what the logger itself holds under the name `n` (packed in the order `Gen.initOptionNames`) -/
def loggerHolds (opts : List OptVal) (n : List Char) : Option OptVal :=
  (Gen.initOptionNames.zip opts).lookup n

/-- index of the frame (0 = the frame executing `_log`'s caller `__exit__`… as `sys._getframe` counts from
    `_log`'s own caller chain) the record names: `get_frame(depth + K)` -/
def recordFrameIndex (handed : List OptVal) : Option Nat :=
  match logSees handed "depth".toList with
  | some (.num d) => some (d + Gen.logFrameExtra)
  | _ => none

end Catch

namespace Catch

theorem list_of_length_nine {α : Type} (l : List α) (h : l.length = 9) :
    ∃ a b c d e f g h i, l = [a, b, c, d, e, f, g, h, i] := by
  rcases l with _ | ⟨a, _ | ⟨b, _ | ⟨c, _ | ⟨d, _ | ⟨e, _ | ⟨f, _ | ⟨g, _ | ⟨h', _ | ⟨i, _ | ⟨j, t⟩⟩⟩⟩⟩⟩⟩⟩⟩⟩ <;>
    simp at h
  exact ⟨a, b, c, d, e, f, g, h', i, rfl⟩

end Catch
