/-
Helper lemmas for Props/C16: closed forms of `Catcher.__exit__` (`exitN`) and of `_log` under the
guard flag.
-/
import LoguruModel.Catch.Model

namespace Catch
open Py.Gen

/-- the catcher lets `e` pass: guard flag set, or type not configured, or type excluded -/
def Uncaught (cfg : Cfg) (g : G) (e : Exc) : Prop :=
  g.flag = true ∨ cfg.isMatch e = false ∨ cfg.excluded e = true

/-- the catcher handles `e` -/
def Caught (cfg : Cfg) (g : G) (e : Exc) : Prop :=
  g.flag = false ∧ cfg.isMatch e = true ∧ cfg.excluded e = false

theorem caught_or_uncaught (cfg : Cfg) (g : G) (e : Exc) : Caught cfg g e ∨ Uncaught cfg g e := by
  unfold Caught Uncaught
  cases g.flag <;> cases cfg.isMatch e <;> cases cfg.excluded e <;> simp

theorem not_caught_of_uncaught {cfg : Cfg} {g : G} {e : Exc} (h : Uncaught cfg g e) : ¬ Caught cfg g e := by
  unfold Caught; unfold Uncaught at h
  rcases h with h | h | h <;> simp [h]

/-- the code as it is tests `onerror is not None`: every callable that was passed is called, whatever
    its truth value -/
theorem onerrorToCall_generated (cfg : Cfg) : onerrorToCall Gen.onerrorTest cfg = cfg.onerror := by
  unfold onerrorToCall
  cases cfg.onerror <;> rfl

theorem exitCore_none (logF) (cfg : Cfg) (d : Nat) (g : G) :
    exitCore logF cfg d none g = (.propagate, g) := by
  simp [exitCore, Gen.exitTests, fires]

theorem exitCore_uncaught (logF) (cfg : Cfg) (d : Nat) (e : Exc) (g : G) (h : Uncaught cfg g e) :
    exitCore logF cfg d (some e) g = (.propagate, g) := by
  unfold Uncaught at h
  rcases h with h | h | h <;> simp [exitCore, Gen.exitTests, fires, h]

theorem exitCore_caught (logF) (cfg : Cfg) (d : Nat) (e : Exc) (g : G) (h : Caught cfg g e) :
    exitCore logF cfg d (some e) g =
      match logF cfg.level d e { g with flag := true } with
      | (lr, g2) =>
        match lr with
        | some x' => (.raise x', { g2 with flag := false })
        | none =>
          match cfg.onerror with
          | none => (if cfg.reraise then .propagate else .suppress, { g2 with flag := false })
          | some f =>
            match f e (({ g2 with flag := false } : G).push (.onerror e)) with
            | (some x', g5) => (.raise x', g5)
            | (none, g5) => (if cfg.reraise then .propagate else .suppress, g5) := by
  obtain ⟨hf, hm, hx⟩ := h
  have hany : Gen.exitTests.any (fires cfg (some e) g) = false := by
    simp [Gen.exitTests, fires, hf, hm, hx]
  unfold exitCore
  rw [hany, onerrorToCall_generated]
  simp only [Bool.false_eq_true, if_false, Gen.exitReturn]
  generalize logF cfg.level d e { g with flag := true } = r
  obtain ⟨lr, g2⟩ := r
  cases lr with
  | some x' => rfl
  | none =>
    cases cfg.onerror with
    | none => cases cfg.reraise <;> rfl
    | some f =>
      simp only
      generalize f e (({ g2 with flag := false } : G).push (.onerror e)) = r5
      obtain ⟨o5, g5⟩ := r5
      cases o5 with
      | some x' => rfl
      | none => cases cfg.reraise <;> rfl

theorem exitN_none (n : Nat) (env : Env) (cfg : Cfg) (d : Nat) (g : G) :
    exitN n env cfg d none g = (.propagate, g) := by
  cases n <;> simp [exitN, exitCore_none]

theorem exitN_uncaught (n : Nat) (env : Env) (cfg : Cfg) (d : Nat) (e : Exc) (g : G) (h : Uncaught cfg g e) :
    exitN n env cfg d (some e) g = (.propagate, g) := by
  cases n <;> simp [exitN, exitCore_uncaught _ _ _ _ _ h]

/-- a catch-wrapped callable invoked while the guard flag is set behaves as if undecorated -/
theorem callWrapped_guarded (exitF : ExitF) (cfg : Cfg) (out : CallRes) (g : G)
    (hnone : ∀ c d g, exitF c d none g = (.propagate, g))
    (hflag : ∀ c d e g, g.flag = true → exitF c d (some e) g = (.propagate, g))
    (hg : g.flag = true) :
    callWrapped exitF cfg (fun g => (out, g)) g = (out, g) := by
  cases out with
  | ret v => simp [callWrapped, runWith, hnone]
  | raise e => simp [callWrapped, runWith, hflag _ _ _ _ hg]

theorem probes_guarded (exitF : ExitF) (probes : List Probe) (g : G)
    (hnone : ∀ c d g, exitF c d none g = (.propagate, g))
    (hflag : ∀ c d e g, g.flag = true → exitF c d (some e) g = (.propagate, g))
    (hg : g.flag = true) :
    probes.foldl (fun g p => match callWrapped exitF p.cfg (fun g => (p.out, g)) g with
      | (r, g') => g'.push (.probe r)) g
    = { g with trace := g.trace ++ probes.map (fun p => .probe p.out) } := by
  induction probes generalizing g with
  | nil => simp
  | cons p ps ih =>
    simp only [List.foldl_cons, callWrapped_guarded exitF p.cfg p.out g hnone hflag hg]
    rw [ih]
    · simp [G.push]
    · simpa [G.push] using hg

/-- what `_log` adds to the trace: nothing below the handlers' least level (in particular with no handler
    at all), else one record and, for every callable invoked meanwhile, ITS OWN outcome -/
def logEvents (env : Env) (l d : Nat) (e : Exc) : List Event :=
  if l < env.minLevel then [] else [.log l e d] ++ env.probes.map (fun p => .probe p.out)

/-- the error `_log` raises, if any -/
def logErr (env : Env) (l : Nat) (e : Exc) : Option Exc :=
  if l < env.minLevel then none else env.logRaises e

/-- `_log` while the guard flag is set: one record, every probe sees its own outcome, flag untouched -/
theorem logCall_guarded (exitF : ExitF) (env : Env) (l d : Nat) (e : Exc) (g : G)
    (hnone : ∀ c d g, exitF c d none g = (.propagate, g))
    (hflag : ∀ c d e g, g.flag = true → exitF c d (some e) g = (.propagate, g))
    (hg : g.flag = true) :
    logCall exitF env l d e g =
      (logErr env l e, { g with trace := g.trace ++ logEvents env l d e }) := by
  unfold logCall logErr logEvents
  by_cases hl : l < env.minLevel
  · simp [hl]
  · simp only [hl, if_false]
    rw [probes_guarded exitF env.probes _ hnone hflag (by simpa [G.push] using hg)]
    simp [G.push]

/-- the world after a handled exception, up to the `onerror` call -/
def afterLog (env : Env) (cfg : Cfg) (d : Nat) (e : Exc) (g : G) : G :=
  { flag := false, trace := g.trace ++ logEvents env cfg.level d e }

/-- closed form of `__exit__` for a handled exception -/
def caughtResult (env : Env) (cfg : Cfg) (d : Nat) (e : Exc) (g : G) : ExitRes × G :=
  match logErr env cfg.level e with
  | some x => (.raise x, afterLog env cfg d e g)
  | none =>
    match cfg.onerror with
    | none => (if cfg.reraise then .propagate else .suppress, afterLog env cfg d e g)
    | some f =>
      -- onerror receives a world whose guard flag is CLEAR (`afterLog … .flag = false`)
      match f e ((afterLog env cfg d e g).push (.onerror e)) with
      | (some x, g5) => (.raise x, g5)
      | (none, g5) => (if cfg.reraise then .propagate else .suppress, g5)

theorem exitN_caught (n : Nat) (env : Env) (cfg : Cfg) (d : Nat) (e : Exc) (g : G) (h : Caught cfg g e) :
    exitN n env cfg d (some e) g = caughtResult env cfg d e g := by
  have key : ∀ exitF : ExitF,
      (∀ c d g, exitF c d none g = (.propagate, g)) →
      (∀ c d e g, g.flag = true → exitF c d (some e) g = (.propagate, g)) →
      exitCore (logCall exitF env) cfg d (some e) g = caughtResult env cfg d e g := by
    intro exitF hnone hflag
    rw [exitCore_caught _ _ _ _ _ h]
    rw [logCall_guarded exitF env _ _ e _ hnone hflag rfl]
    unfold caughtResult afterLog
    cases logErr env cfg.level e with
    | some x => rfl
    | none =>
      cases cfg.onerror with
      | none => rfl
      | some f => rfl
  cases n with
  | zero => exact key _ (fun _ _ _ => rfl) (fun _ _ _ _ _ => rfl)
  | succ m =>
    exact key _ (fun c d g => exitN_none m env c d g)
      (fun c d e g hg => exitN_uncaught m env c d e g (Or.inl hg))

end Catch
