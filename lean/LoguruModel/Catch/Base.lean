/-
Vocabulary shared by the hand-written Catch model and the file GENERATED from
`loguru/_logger.py` (`Logger.catch`): the tests at the top of `Catcher.__exit__`, the statements
that follow them, and the shape of the four wrapper branches of `Catcher.__call__`.
-/
namespace Catch

/-- the early-return tests of `Catcher.__exit__`, in source order -/
inductive ExitTest where
  | noneType      -- `if type_ is None: return None`
  | guardFlag     -- `if getattr(thread_locals, "already_logging_exception", False): return False`
  | notSubclass   -- `if not issubclass(type_, exception): return False`
  | excluded      -- `if exclude is not None and issubclass(type_, exclude): return False`
  deriving DecidableEq, Repr

/-- the effectful tail of `Catcher.__exit__`, in source order -/
inductive ExitEffect where
  | setFlag | logInTry | resetFlagInFinally | onerrorIfNotNone | returnNotReraise
  deriving DecidableEq, Repr

/-- the test that guards the `onerror(value)` call: `onerror is not None` calls every callable that was
    passed; a bare `if onerror:` would skip callables that are falsy (objects with `__len__() == 0` or
    `__bool__() is False` – error registries, callable containers) -/
inductive OnerrorTest where
  | isNotNone | truthy
  deriving DecidableEq, Repr

/-- what sits inside `with catcher:` in a wrapper branch -/
inductive Inner where
  | awaitCall        -- `return await function(*args, **kwargs)`
  | yieldFromCall    -- `return (yield from function(*args, **kwargs))`
  | plainCall        -- `return function(*args, **kwargs)`
  | asendTry         -- `try: return await self._gen.asend(value) / except StopAsyncIteration: pass / except: raise`
  deriving DecidableEq, Repr

/-- what follows the `with` block -/
inductive After where
  | returnDefault | raiseStopAsyncIteration
  deriving DecidableEq, Repr

structure Shape where
  test : List Char        -- the predicate selecting the branch (`iscoroutinefunction`, …; empty = else)
  isAsync : Bool
  inner : Inner
  after : After
  deriving DecidableEq, Repr

end Catch
