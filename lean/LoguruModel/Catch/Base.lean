/-
Vocabulary shared by the hand-written Catch model and the file GENERATED from
`loguru/_logger.py` (`Logger.catch`): the tests at the top of `Catcher.__exit__`, the statements
that follow them, and the shape of the four wrapper branches of `Catcher.__call__`.
-/
namespace Catch

/-- the early-return tests of `Catcher.__exit__`, in source order -/
inductive ExitTest where
  | noneType      -- `if type_ is None: return None`
  | guardFlag     -- `if getattr(thread_locals, "already_logging_exception", False): return False`
  | notSubclass   -- `if not issubclass(type_, exception): return False`
  | excluded      -- `if exclude is not None and issubclass(type_, exclude): return False`
  deriving DecidableEq, Repr

/-- the effectful tail of `Catcher.__exit__`, in source order -/
inductive ExitEffect where
  | setFlag | logInTry | resetFlagInFinally | onerrorIfNotNone | returnNotReraise
  deriving DecidableEq, Repr

/-- the test that guards the `onerror(value)` call: `onerror is not None` calls every callable that was
    passed; a bare `if onerror:` would skip callables that are falsy (objects with `__len__() == 0` or
    `__bool__() is False` – error registries, callable containers) -/
inductive OnerrorTest where
  | isNotNone | truthy
  deriving DecidableEq, Repr

/-- what sits inside `with catcher:` in a wrapper branch -/
inductive Inner where
  | awaitCall        -- `return await function(*args, **kwargs)`
  | yieldFromCall    -- `return (yield from function(*args, **kwargs))`
  | plainCall        -- `return function(*args, **kwargs)`
  | asendTry         -- `try: return await self._gen.asend(value) / except StopAsyncIteration: pass / except: raise`
  deriving DecidableEq, Repr

/-- what follows the `with` block -/
inductive After where
  | returnDefault | raiseStopAsyncIteration
  deriving DecidableEq, Repr

/-- the kind of a FUNCTION OBJECT as `inspect` classifies it (code flags CO_COROUTINE / CO_GENERATOR /
    CO_ASYNC_GENERATOR; `plain` = none of them).  For a `def`/`async def` statement it is a syntactic
    property: `async` or not, contains a `yield`/`yield from` of its own or not. -/
inductive FnKind where
  | coroutine | generator | asyncgen | plain
  deriving DecidableEq, Repr

/-- one disjunct of a branch test of `Catcher.__call__`: `is<kind>function(function)`, or
    `getattr(function, "<marker>", False)` (the attribute the async-generator branch sets on its wrapper) -/
inductive BranchAtom where
  | isKind (k : FnKind)
  | hasMarker
  deriving DecidableEq, Repr

/-- a branch of `Catcher.__call__`: its test (a disjunction; `[]` = the final `else`), the kind of function
    object the `catch_wrapper` it defines is, and whether it sets the marker attribute on that wrapper -/
structure Branch where
  atoms : List BranchAtom
  wrapperKind : FnKind
  setsMarker : Bool
  deriving DecidableEq, Repr

/-- where the recursion-guard flag `already_logging_exception` lives: an attribute of the
    `threading.local()` object the Core creates (one flag per thread), or an attribute of an object
    all threads share (the Core itself, the Logger, the Catcher) -/
inductive FlagStore where
  | threadLocal | shared
  deriving DecidableEq, Repr

/-- the elements of the list `Catcher.__exit__` hands to `_log` as its options, in source order -/
inductive CatchSlot where
  | excTriple            -- `(type_, value, traceback_)`
  | depthAdjusted        -- the logger's own depth + decorator adjustment + `_frames`
  | constTrue            -- `True`
  | rest                 -- `*options`: the tail of `logger._options` that `__exit__` kept
  deriving DecidableEq, Repr

structure Shape where
  test : List Char        -- the predicate selecting the branch (`iscoroutinefunction`, …; empty = else)
  isAsync : Bool
  inner : Inner
  after : After
  deriving DecidableEq, Repr

end Catch
