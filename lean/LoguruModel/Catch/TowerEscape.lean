/-
`matching_escape_logged_once` THROUGH A STACK of decorators on a generator / coroutine function (round 5):
the body raises `e`; the decorators `below` (inner ones) do not handle it, the decorator `c` above them does.
Then `c` – and only `c` – logs (closed form `caughtResult`), and if it suppresses, every decorator stacked
OUTSIDE sees a normal return: the driver gets `StopIteration(c.default)`, whatever the outer configurations are.
-/
import LoguruModel.Catch.Tower

namespace Catch
open Py.Gen

variable {σ : Type}

/-- the frames of a stack whose undecorated object is suspended in `s` -/
def susN : (cfgs : List Cfg) → σ → TState σ cfgs
  | [], s => s
  | _ :: cs, s => .delegating (.suspended (susN cs s))

theorem embN_suspended (cfgs : List Cfg) (s : σ) : embN cfgs (.suspended s) = .suspended (susN cfgs s) := by
  induction cfgs with
  | nil => rfl
  | cons c cs ih => simp only [embN, ih, emb, susN] <;> rfl

/-- a driver input that is not a `GeneratorExit` thrown in (that one becomes `close()` of the delegate, F16) -/
def plainInput (i : Input) : Prop := ∀ x, i = .throw x → x.isGenExit = false

/-- one wrapper frame, suspended in its `yield from`, resumed with a plain input: the delegate is resumed with it -/
theorem wrapAuto_step_plain (k : Kind) (env : Env) (cfg : Cfg) (T : Auto G σ) (sb : σ) (i : Input) (g : G)
    (hi : plainInput i) :
    (wrapAuto (exit env) cfg (genObj k T)).step (.delegating (.suspended sb)) i g =
      finishWith (exit env) cfg (dconv (settle k (T.step sb i g))) := by
  cases i with
  | send v => simp [wrapAuto, delegate, genObj, genStep]
  | throw x =>
    have hx := hi x rfl
    simp [wrapAuto, delegate, genObj, genStep, hx]

/-- the inner decorators let the exception through: the stack `below`, as an automaton, raises it (PEP 479-converted) -/
theorem tower_auto_raise_quiet (k : Kind) (env : Env) (a : Auto G σ) (below : List Cfg) (s s' : σ) (i : Input)
    (g g' : G) (e : Exc) (hi : plainInput i) (hstep : a.step s i g = (.raise e, s', g'))
    (hb : ∀ c' ∈ below, Uncaught c' g' (pep479 k e)) :
    ∃ eb t', (towerAuto k env a below).step (susN below s) i g = (.raise eb, t', g') ∧ pep479 k eb = pep479 k e := by
  induction below with
  | nil => exact ⟨e, s', hstep, rfl⟩
  | cons c cs ih =>
    obtain ⟨eb, t', hT, hp⟩ := ih (fun c' hc' => hb c' (List.mem_cons_of_mem _ hc'))
    have hu : Uncaught c g' (pep479 k eb) := by rw [hp]; exact hb c (List.mem_cons_self ..)
    refine ⟨pep479 k eb, .delegating .done, ?_, by rw [pep479_idem, hp]⟩
    show (wrapAuto (exit env) c (genObj k (towerAuto k env a cs))).step (.delegating (.suspended (susN cs s))) i g = _
    rw [wrapAuto_step_plain k env c _ _ i g hi, hT, finishWith_quiet k env c (.raise eb, t', g') hu]
    rfl

/-- a normal return passes every decorator unchanged (no hypothesis on the configurations) -/
theorem tower_auto_ret (k : Kind) (env : Env) (a : Auto G σ) (cfgs : List Cfg) (s s' : σ) (i : Input)
    (g g' : G) (v : Val) (hi : plainInput i) (hstep : a.step s i g = (.ret v, s', g')) :
    ∃ t', (towerAuto k env a cfgs).step (susN cfgs s) i g = (.ret v, t', g') := by
  induction cfgs with
  | nil => exact ⟨s', hstep⟩
  | cons c cs ih =>
    obtain ⟨t', hT⟩ := ih
    refine ⟨.delegating .done, ?_⟩
    show (wrapAuto (exit env) c (genObj k (towerAuto k env a cs))).step (.delegating (.suspended (susN cs s))) i g = _
    rw [wrapAuto_step_plain k env c _ _ i g hi, hT, finishWith_quiet k env c (.ret v, t', g') (by simp [raisesOk])]
    rfl

/-- what the frame of the catching decorator does once `__exit__` has decided -/
def escapeOutcome (_k : Kind) (c : Cfg) (e : Exc) : ExitRes × G → Outcome × G
  | (.suppress, g) => (.ret c.default, g)
  | (.propagate, g) => (.raise e, g)
  | (.raise x, g) => (.raise x, g)

/-- the decorator `c` on top of the quiet decorators `below` handles the exception: its frame does what
    `caughtResult` (the closed form of `__exit__`) says -/
theorem tower_auto_catches (k : Kind) (env : Env) (a : Auto G σ) (c : Cfg) (below : List Cfg) (s s' : σ) (i : Input)
    (g g' : G) (e : Exc) (hi : plainInput i) (hstep : a.step s i g = (.raise e, s', g'))
    (hb : ∀ c' ∈ below, Uncaught c' g' (pep479 k e)) (hc : Caught c g' (pep479 k e)) :
    ∃ t', (towerAuto k env a (c :: below)).step (susN (c :: below) s) i g =
      ((escapeOutcome k c (pep479 k e) (caughtResult env c decoratorDepth (pep479 k e) g')).1, t',
       (escapeOutcome k c (pep479 k e) (caughtResult env c decoratorDepth (pep479 k e) g')).2) := by
  obtain ⟨eb, t', hT, hp⟩ := tower_auto_raise_quiet k env a below s s' i g g' e hi hstep hb
  refine ⟨.delegating .done, ?_⟩
  show (wrapAuto (exit env) c (genObj k (towerAuto k env a below))).step (.delegating (.suspended (susN below s))) i g = _
  rw [wrapAuto_step_plain k env c _ _ i g hi, hT]
  simp only [settle, dconv, finishWith, hp, exit_caught env c decoratorDepth _ g' hc]
  generalize caughtResult env c decoratorDepth (pep479 k e) g' = r
  obtain ⟨er, g2⟩ := r
  cases er <;> rfl

/-- … and if it suppresses, ANY decorators stacked outside pass the normal return on -/
theorem tower_auto_suppressed_through_outer (k : Kind) (env : Env) (a : Auto G σ) (outer : List Cfg) (c : Cfg)
    (below : List Cfg) (s s' : σ) (i : Input) (g g' g2 : G) (e : Exc) (hi : plainInput i)
    (hstep : a.step s i g = (.raise e, s', g'))
    (hb : ∀ c' ∈ below, Uncaught c' g' (pep479 k e)) (hc : Caught c g' (pep479 k e))
    (hs : caughtResult env c decoratorDepth (pep479 k e) g' = (.suppress, g2)) :
    ∃ t', (towerAuto k env a (outer ++ c :: below)).step (susN (outer ++ c :: below) s) i g = (.ret c.default, t', g2) := by
  induction outer with
  | nil =>
    obtain ⟨t', h⟩ := tower_auto_catches k env a c below s s' i g g' e hi hstep hb hc
    rw [hs] at h
    exact ⟨t', h⟩
  | cons x xs ih =>
    obtain ⟨t', hT⟩ := ih
    refine ⟨.delegating .done, ?_⟩
    show (wrapAuto (exit env) x (genObj k (towerAuto k env a (xs ++ c :: below)))).step
      (.delegating (.suspended (susN (xs ++ c :: below) s))) i g = _
    rw [wrapAuto_step_plain k env x _ _ i g hi, hT,
      finishWith_quiet k env x (.ret c.default, t', g2) (by simp [raisesOk])]
    rfl

/-- the driver operation that delivers an input -/
def opOf : Input → Op
  | .send v => .send v
  | .throw x => .throw x

theorem towerObj_step_suspended (k : Kind) (env : Env) (a : Auto G σ) (cfgs : List Cfg) (s : σ) (i : Input) (g : G) :
    (towerObj k env a cfgs).step (embN cfgs (.suspended s)) (opOf i) g =
      settle k ((towerAuto k env a cfgs).step (susN cfgs s) i g) := by
  rw [embN_suspended]
  cases i <;> rfl

end Catch
