/-
The generator / coroutine wrapper is a bisimulation of the wrapped object as long as no exception
reaching the catcher is handled by it (helper definitions and the one-step lemma for Props/C16).
-/
import LoguruModel.Catch.Lemmas

namespace Catch
open Py.Gen

variable {σ : Type}

/-- state of the decorated object that corresponds to a state of the undecorated one -/
def emb : GState σ → GState (WState (GState σ))
  | .unstarted s => .unstarted (.fresh (.unstarted s))
  | .suspended s => .suspended (.delegating (.suspended s))
  | .done => .done

def embRes : Res × GState σ × G → Res × GState (WState (GState σ)) × G
  | (r, st, g) => (r, emb st, g)

theorem pep479_idem (k : Kind) (e : Exc) : pep479 k (pep479 k e) = pep479 k e := by
  have hs : (errRaisedStop k).isStopIteration = false := by cases k <;> rfl
  unfold pep479
  by_cases h : e.isStopIteration = true
  · rw [if_pos h, hs]; rfl
  · rw [if_neg h, if_neg h]

theorem pep479_not_genexit (k : Kind) (e : Exc) (h : e.isGenExit = false) : (pep479 k e).isGenExit = false := by
  unfold pep479
  by_cases h' : e.isStopIteration = true
  · simp [h']; cases k <;> simp [errRaisedStop, Exc.isGenExit, clsGeneratorExit, clsRuntimeError]
  · simp [h', h]

/-- if the body raises, the (PEP 479-converted) exception satisfies `P` in the world of that moment -/
def raisesOk (k : Kind) (P : G → Exc → Prop) : Outcome × σ × G → Prop
  | (.raise e, _, g') => P g' (pep479 k e)
  | _ => True

/-- one driver operation on the undecorated object in state `st` is *quiet* for a catcher:
    `P` holds of every exception the body raises (at the world of that moment), the driver does not
    inject a `GeneratorExit` through `throw()` into a suspended object, a suspended object does not
    answer `close()` with a yield, and `Q` holds of the `GeneratorExit` that `close()` makes
    `yield from` re-raise inside the `with` block -/
def quietStep (k : Kind) (a : Auto G σ) (P Q : G → Exc → Prop) : GState σ → Op → G → Prop
  | .unstarted s, .send v, g => v = 0 → raisesOk k P (a.step s (.send 0) g)
  | .suspended s, .send v, g => raisesOk k P (a.step s (.send v) g)
  | .suspended s, .throw x, g => x.isGenExit = false ∧ raisesOk k P (a.step s (.throw x) g)
  | .suspended s, .close, g =>
    match a.step s (.throw genExit) g with
    | (.yield _, _, _) => False
    | (.ret _, _, g') => Q g' genExit
    | (.raise e, _, g') => if e.isGenExit then Q g' genExit else P g' (pep479 k e)
  | _, _, _ => True

def quietRun (k : Kind) (a : Auto G σ) (P Q : G → Exc → Prop) : GState σ → List Op → G → Prop
  | _, [], _ => True
  | st, op :: ops, g =>
    quietStep k a P Q st op g ∧
    quietRun k a P Q ((genObj k a).step st op g).2.1 ops ((genObj k a).step st op g).2.2

theorem quietStep_mono (k : Kind) (a : Auto G σ) {P P' Q Q' : G → Exc → Prop}
    (hP : ∀ g e, P g e → P' g e) (hQ : ∀ g e, Q g e → Q' g e) (st : GState σ) (op : Op) (g : G)
    (h : quietStep k a P Q st op g) : quietStep k a P' Q' st op g := by
  cases st with
  | unstarted s =>
    cases op with
    | send v =>
      simp only [quietStep] at h ⊢
      intro hv
      have := h hv
      revert this
      generalize a.step s (.send 0) g = r
      obtain ⟨o, s', g'⟩ := r
      cases o <;> simp [raisesOk]
      exact hP _ _
    | throw e => trivial
    | close => trivial
  | suspended s =>
    cases op with
    | send v =>
      simp only [quietStep] at h ⊢
      revert h
      generalize a.step s (.send v) g = r
      obtain ⟨o, s', g'⟩ := r
      cases o <;> simp [raisesOk]
      exact hP _ _
    | throw x =>
      simp only [quietStep] at h ⊢
      refine ⟨h.1, ?_⟩
      have h2 := h.2
      revert h2
      generalize a.step s (.throw x) g = r
      obtain ⟨o, s', g'⟩ := r
      cases o <;> simp [raisesOk]
      exact hP _ _
    | close =>
      simp only [quietStep] at h ⊢
      revert h
      generalize a.step s (.throw genExit) g = r
      obtain ⟨o, s', g'⟩ := r
      cases o with
      | yield v => simp
      | ret v => simp; exact hQ _ _
      | raise e =>
        simp only
        by_cases he : e.isGenExit = true
        · simp [he]; exact hQ _ _
        · simp [he]; exact hP _ _
  | done => cases op <;> trivial

theorem quietRun_mono (k : Kind) (a : Auto G σ) {P P' Q Q' : G → Exc → Prop}
    (hP : ∀ g e, P g e → P' g e) (hQ : ∀ g e, Q g e → Q' g e) (ops : List Op) :
    ∀ (st : GState σ) (g : G), quietRun k a P Q st ops g → quietRun k a P' Q' st ops g := by
  induction ops with
  | nil => intro _ _ _; trivial
  | cons op ops ih =>
    intro st g h
    simp only [quietRun] at h ⊢
    refine ⟨quietStep_mono k a hP hQ st op g h.1, ?_⟩
    exact ih _ _ h.2

theorem exit_none (env : Env) (cfg : Cfg) (d : Nat) (g : G) : exit env cfg d none g = (.propagate, g) :=
  exitN_none 1 env cfg d g

theorem exit_uncaught (env : Env) (cfg : Cfg) (d : Nat) (e : Exc) (g : G) (h : Uncaught cfg g e) :
    exit env cfg d (some e) g = (.propagate, g) :=
  exitN_uncaught 1 env cfg d e g h

theorem exit_caught (env : Env) (cfg : Cfg) (d : Nat) (e : Exc) (g : G) (h : Caught cfg g e) :
    exit env cfg d (some e) g = caughtResult env cfg d e g :=
  exitN_caught 1 env cfg d e g h

/-- what the wrapper does with an outcome of the wrapped body whose exception (if any) passes the catcher -/
theorem finish_settle_quiet (k : Kind) (env : Env) (cfg : Cfg) (r : Outcome × σ × G)
    (h : raisesOk k (Uncaught cfg) r) :
    settle k (finishWith (exit env) cfg (dconv (settle k r))) = embRes (settle k r) := by
  obtain ⟨o, s', g'⟩ := r
  cases o with
  | yield v => simp [settle, dconv, finishWith, embRes, emb]
  | ret v => simp [settle, dconv, finishWith, embRes, emb, exit_none]
  | raise e =>
    simp only [raisesOk] at h
    simp [settle, dconv, finishWith, embRes, emb, exit_uncaught env cfg _ _ _ h, pep479_idem]

/-- ONE STEP: on a quiet operation the decorated object does exactly what the undecorated one does
    (same result, corresponding state, same world: no record, no onerror call) -/
theorem wrapped_step_quiet (k : Kind) (env : Env) (cfg : Cfg) (a : Auto G σ) (st : GState σ) (op : Op) (g : G)
    (h : quietStep k a (Uncaught cfg) (Uncaught cfg) st op g) :
    (wrappedGen k (exit env) cfg a).step (emb st) op g = embRes ((genObj k a).step st op g) := by
  cases st with
  | unstarted s =>
    cases op with
    | send v =>
      by_cases hv : v = 0
      · subst hv
        have h' := h rfl
        simp only [wrappedGen, genObj, emb, genStep, wrapAuto, if_true]
        exact finish_settle_quiet k env cfg _ h'
      · simp [wrappedGen, genObj, emb, genStep, hv, embRes]
    | throw e => simp [wrappedGen, genObj, emb, genStep, embRes]
    | close => simp [wrappedGen, genObj, emb, genStep, embRes]
  | suspended s =>
    cases op with
    | send v =>
      simp only [quietStep] at h
      simp only [wrappedGen, genObj, emb, genStep, wrapAuto, delegate]
      exact finish_settle_quiet k env cfg _ h
    | throw x =>
      simp only [quietStep] at h
      simp only [wrappedGen, genObj, emb, genStep, wrapAuto, delegate, h.1, Bool.false_eq_true, if_false]
      exact finish_settle_quiet k env cfg _ h.2
    | close =>
      simp only [quietStep] at h
      have hge : genExit.isGenExit = true := rfl
      simp only [wrappedGen, genObj, emb, genStep, wrapAuto, delegate, hge, if_true]
      revert h
      generalize a.step s (.throw genExit) g = r
      obtain ⟨o, s', g'⟩ := r
      cases o with
      | yield v => simp
      | ret v =>
        intro h
        simp [settleClose, dclose, finishWith, exit_uncaught env cfg _ _ _ h, hge, embRes, emb]
      | raise e =>
        by_cases he : e.isGenExit = true
        · simp only [he, if_true]
          intro h
          simp [settleClose, dclose, finishWith, exit_uncaught env cfg _ _ _ h, hge, he, embRes, emb]
        · simp only [he, Bool.false_eq_true, if_false]
          intro h
          have hne : (pep479 k e).isGenExit = false := pep479_not_genexit k e (by simpa using he)
          simp [settleClose, dclose, finishWith, exit_uncaught env cfg _ _ _ h, he, hne, embRes, emb, pep479_idem]
  | done => cases op <;> simp [wrappedGen, genObj, emb, genStep, embRes]

theorem run_cons {ω τ : Type} (o : Obj ω τ) (t : τ) (op : Op) (ops : List Op) (w : ω) :
    run o t (op :: ops) w =
      ((o.step t op w).1 :: (run o (o.step t op w).2.1 ops (o.step t op w).2.2).1,
       (run o (o.step t op w).2.1 ops (o.step t op w).2.2).2.1,
       (run o (o.step t op w).2.1 ops (o.step t op w).2.2).2.2) := rfl

/-- ALL DRIVER SEQUENCES: bisimulation along a quiet run -/
theorem wrapped_run_quiet (k : Kind) (env : Env) (cfg : Cfg) (a : Auto G σ) (ops : List Op) :
    ∀ (st : GState σ) (g : G), quietRun k a (Uncaught cfg) (Uncaught cfg) st ops g →
      run (wrappedGen k (exit env) cfg a) (emb st) ops g =
        ((run (genObj k a) st ops g).1, emb (run (genObj k a) st ops g).2.1, (run (genObj k a) st ops g).2.2) := by
  induction ops with
  | nil => intro st g _; rfl
  | cons op ops ih =>
    intro st g h
    obtain ⟨h1, h2⟩ := h
    have hs := wrapped_step_quiet k env cfg a st op g h1
    have ih' := ih _ _ h2
    rw [run_cons, run_cons, hs]
    generalize (genObj k a).step st op g = r at ih' ⊢
    obtain ⟨r0, st', g'⟩ := r
    simp only [embRes]
    rw [ih']

end Catch
