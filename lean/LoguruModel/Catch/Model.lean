/-
`Logger.catch` as written in loguru/_logger.py (DESIGN §4 C16): `Catcher.__exit__`, the four
wrappers of `Catcher.__call__`, the context-manager forms.  Mirrors the code as it is.

World `G`: the per-thread guard flag `thread_locals.already_logging_exception` and the trace of what
the outside sees (records reaching a sink, `onerror` calls, results of catch-wrapped callables the
formatter/sink calls back into while a record is being produced = "probes").
-/
import LoguruModel.Py.Generators
import LoguruModel.Generated.Catch

namespace Catch
open Py.Gen

/-- result of a plain call -/
inductive CallRes where
  | ret (v : Val)
  | raise (e : Exc)
  deriving DecidableEq, Repr

inductive Event where
  | log (level : Nat) (e : Exc) (depth : Nat)   -- one record at `level` carrying `e`, frame depth
  | onerror (e : Exc)
  | probe (r : CallRes)                         -- what a callable invoked DURING `_log` observed
  deriving DecidableEq, Repr

structure G where
  flag : Bool
  trace : List Event
  deriving DecidableEq, Repr

def G.push (g : G) (ev : Event) : G := { g with trace := g.trace ++ [ev] }

/-- the arguments of `logger.catch(...)`; subclass tests and `onerror` are oracles -/
structure Cfg where
  isMatch : Exc → Bool              -- `issubclass(type_, exception)`
  excluded : Exc → Bool             -- `exclude is not None and issubclass(type_, exclude)`
  reraise : Bool
  level : Nat
  default : Val
  /-- `None`, or arbitrary user code: it receives the exception and the WORLD (it may call other
      catch()-protected code, log, …) and may itself raise -/
  onerror : Option (Exc → G → Option Exc × G)
  /-- `bool(onerror)` is False although it is a callable (an object whose `__len__()` is 0 or whose
      `__bool__()` is False); irrelevant for the code as it is (`onerror is not None`) -/
  onerrorFalsy : Bool := false

/-- a catch()-decorated plain function (e.g. a `__repr__`) that is called while a record is being
    formatted / emitted; `out` is what its undecorated body does -/
structure Probe where
  cfg : Cfg
  out : CallRes

/-- the logger's environment: callables invoked during `_log`, whether `_log` itself raises
    (sink added with `catch=False`, failing patcher/filter …), and the least level any handler
    accepts (`core.min_level`; no handler at all = above every level): below it `_log` returns at once -/
structure Env where
  probes : List Probe
  logRaises : Exc → Option Exc
  minLevel : Nat

/-- what `__exit__` does: return a true value, return a false value / `None`, or raise -/
inductive ExitRes where
  | suppress
  | propagate
  | raise (e : Exc)
  deriving DecidableEq, Repr

/-- `__exit__` as a function of the configuration, the DEPTH it adds to the logger's depth option
    (see `depthOf`), the exception (if any) and the world -/
abbrev ExitF := Cfg → Nat → Option Exc → G → ExitRes × G

/-- `if from_decorator: depth += 1` followed by `depth += _frames` -/
def depthOf (fromDecorator : Bool) (frames : Nat) : Nat := (if fromDecorator then Gen.depthIncr else 0) + frames

/-- decorator wrappers: `Catcher(True)`, `__exit__` called by the `with` statement of `catch_wrapper` -/
def decoratorDepth : Nat := depthOf Gen.decoratorFromDecorator Gen.syncExitFrames
/-- `with logger.catch():` – `Catcher(False)`, `__exit__` called by the `with` statement -/
def withDepth : Nat := depthOf Gen.contextFromDecorator Gen.syncExitFrames
/-- `async with logger.catch():` – `__aexit__` calls `self.__exit__(…, _frames=1)` -/
def asyncWithDepth : Nat := depthOf Gen.contextFromDecorator Gen.asyncExitFrames

def fires (cfg : Cfg) (e : Option Exc) (g : G) : ExitTest → Bool
  | .noneType => e.isNone
  | .guardFlag => g.flag
  | .notSubclass => match e with
    | some x => !cfg.isMatch x
    | none => false
  | .excluded => match e with
    | some x => cfg.excluded x
    | none => false

/-- `with catcher: <body>` followed by `return dflt` (decorator: `dflt = default`; bare `with`
    statement: execution simply continues, `dflt = None`) -/
def runWith (exitF : ExitF) (cfg : Cfg) (depth : Nat) (dflt : Val) (body : G → CallRes × G) (g : G) :
    CallRes × G :=
  match body g with
  | (.ret v, g1) =>
    match exitF cfg depth none g1 with
    | (.raise x, g2) => (.raise x, g2)
    | (_, g2) => (.ret v, g2)
  | (.raise e, g1) =>
    match exitF cfg depth (some e) g1 with
    | (.suppress, g2) => (.ret dflt, g2)
    | (.propagate, g2) => (.raise e, g2)
    | (.raise x, g2) => (.raise x, g2)

/-- the plain-function wrapper: `with catcher: return function(*args, **kwargs)` / `return default` -/
def callWrapped (exitF : ExitF) (cfg : Cfg) (body : G → CallRes × G) (g : G) : CallRes × G :=
  runWith exitF cfg decoratorDepth cfg.default body g

/-- `with logger.catch(...):` around a block -/
def withBlock (exitF : ExitF) (cfg : Cfg) (body : G → CallRes × G) (g : G) : CallRes × G :=
  runWith exitF cfg withDepth 0 body g

/-- `async with logger.catch(...):` around a block (`__aenter__/__aexit__` delegate to `__enter__/__exit__`) -/
def asyncWithBlock (exitF : ExitF) (cfg : Cfg) (body : G → CallRes × G) (g : G) : CallRes × G :=
  runWith exitF cfg asyncWithDepth 0 body g

/-- `logger._log(level, from_decorator, catch_options, message, (), {})`: the record reaches the
    sink; while it is produced the environment's probes run through THEIR catch wrappers (`exitF`);
    finally `_log` may raise -/
def logCall (exitF : ExitF) (env : Env) (level depth : Nat) (e : Exc) (g : G) : Option Exc × G :=
  if level < env.minLevel then (none, g) else      -- `if not core.handlers: return` / `if level_no < core.min_level: return`
  let g1 := g.push (.log level e depth)
  let g2 := env.probes.foldl
    (fun g p => match callWrapped exitF p.cfg (fun g => (p.out, g)) g with
      | (r, g') => g'.push (.probe r)) g1
  (env.logRaises e, g2)

/-- the callback `__exit__` will call, given the test that guards the call -/
def onerrorToCall (t : OnerrorTest) (cfg : Cfg) : Option (Exc → G → Option Exc × G) :=
  match cfg.onerror with
  | none => none
  | some f =>
    match t with
    | .isNotNone => some f
    | .truthy => if cfg.onerrorFalsy then none else some f

/-- `Catcher.__exit__(type_, value, traceback_)` -/
def exitCore (logF : Nat → Nat → Exc → G → Option Exc × G) (cfg : Cfg) (depth : Nat)
    (e : Option Exc) (g : G) : ExitRes × G :=
  if Gen.exitTests.any (fires cfg e g) then (.propagate, g) else
  match e with
  | none => (.propagate, g)
  | some x =>
    let g1 := { g with flag := true }
    match logF cfg.level depth x g1 with
    | (lr, g2) =>
      let g3 := { g2 with flag := false }        -- `finally:`
      match lr with
      | some x' => (.raise x', g3)
      | none =>
        match onerrorToCall Gen.onerrorTest cfg with
        | none => (if Gen.exitReturn cfg.reraise then .suppress else .propagate, g3)
        | some f =>
          let g4 := g3.push (.onerror x)              -- called with the guard flag already reset
          match f x g4 with
          | (some x', g5) => (.raise x', g5)
          | (none, g5) => (if Gen.exitReturn cfg.reraise then .suppress else .propagate, g5)

/-- `__exit__` with a budget for how deeply catch-wrapped callables invoked during `_log` may
    themselves reach `_log`; budget 0 treats them as always propagating.  `Props/C16` proves the
    budget irrelevant (`no_recursive_catch`): the guard flag makes the real code behave as budget 0. -/
def exitN : Nat → Env → ExitF
  | 0, env => exitCore (logCall (fun _ _ _ g => (.propagate, g)) env)
  | n + 1, env => exitCore (logCall (exitN n env) env)

/-- the model of `Catcher.__exit__` used everywhere below -/
def exit (env : Env) : ExitF := exitN 1 env

/-! ### generator and coroutine wrappers:
    `with catcher: return (yield from function(*a, **kw))` / `return await function(*a, **kw)`;
    `return default` -/

/-- the wrapper's own frame: not started yet (holding the not-yet-started inner object), or
    suspended inside the `yield from` / `await` -/
inductive WState (τ : Type) where
  | fresh (t : τ)
  | delegating (t : τ)
  deriving Repr

def finishWith {τ : Type} (exitF : ExitF) (cfg : Cfg) : DRes × τ × G → Outcome × WState τ × G
  | (.yield v, t, g) => (.yield v, .delegating t, g)
  | (.value v, t, g) =>
    match exitF cfg decoratorDepth none g with
    | (.raise x, g') => (.raise x, .delegating t, g')
    | (_, g') => (.ret v, .delegating t, g')
  | (.raise e, t, g) =>
    match exitF cfg decoratorDepth (some e) g with
    | (.suppress, g') => (.ret cfg.default, .delegating t, g')
    | (.propagate, g') => (.raise e, .delegating t, g')
    | (.raise x, g') => (.raise x, .delegating t, g')

/-- the body of `catch_wrapper` (generator or coroutine flavour) as an automaton over the inner
    generator/coroutine OBJECT -/
def wrapAuto {τ : Type} (exitF : ExitF) (cfg : Cfg) (inner : Obj G τ) : Auto G (WState τ) where
  step
    | .fresh t, .send _, g => finishWith exitF cfg (dconv (inner.step t (.send 0) g))
    | .fresh t, .throw e, g => (.raise e, .fresh t, g)      -- unreachable: an unstarted object never runs
    | .delegating t, i, g => finishWith exitF cfg (delegate inner t i g)

/-- the object `catch(cfg)(genfunc)(*args)` returns, `s0` = the body's initial state -/
def wrappedGen {σ : Type} (k : Kind) (exitF : ExitF) (cfg : Cfg) (a : Auto G σ) :
    Obj G (GState (WState (GState σ))) :=
  genObj k (wrapAuto exitF cfg (genObj k a))

def wrappedInit {σ : Type} (s0 : σ) : GState (WState (GState σ)) := .unstarted (.fresh (.unstarted s0))

/-! ### `AsyncGenCatchWrapper(AsyncGenerator)` -/

/-- `asend`: `with catcher: try: return await self._gen.asend(value) except StopAsyncIteration: pass
    except: raise` / `raise StopAsyncIteration` -/
def agAsend {τ : Type} (exitF : ExitF) (cfg : Cfg) : ARes × τ × G → ARes × τ × G
  | (.yield y, t, g) =>
    match exitF cfg decoratorDepth none g with
    | (.raise x, g') => (.raise x, t, g')
    | (_, g') => (.yield y, t, g')
  | (.stopAsync, t, g) =>
    match exitF cfg decoratorDepth none g with
    | (.raise x, g') => (.raise x, t, g')
    | (_, g') => (.stopAsync, t, g')
  | (.raise e, t, g) =>
    match exitF cfg decoratorDepth (some e) g with
    | (.suppress, g') => (.stopAsync, t, g')
    | (.propagate, g') => (.raise e, t, g')
    | (.raise x, g') => (.raise x, t, g')
  | (.closed, t, g) => (.closed, t, g)

/-- the wrapper object: `asend` through the catcher; `athrow` and `aclose` passed straight to the
    wrapped generator (`return await self._gen.athrow(*a, **kw)` / `return await self._gen.aclose()`);
    `__anext__` = `asend(None)` inherited from `collections.abc.AsyncGenerator` -/
def agWrapStep {τ : Type} (exitF : ExitF) (cfg : Cfg) (inner : τ → AOp → G → ARes × τ × G) :
    τ → AOp → G → ARes × τ × G
  | t, .asend v, g => agAsend exitF cfg (inner t (.asend v) g)
  | t, .athrow e, g => inner t (.athrow e) g
  | t, .aclose, g => inner t .aclose g

end Catch
