/-
The recursion guard across THREADS (round 5): `Catcher.__exit__` as a sequence of atomic steps, several
threads each running one activation of it under an arbitrary schedule.

The flag `already_logging_exception` is read and written through an expression the extractor reads
from the source (`Gen.flagStore`): an attribute of `logger._core.thread_locals` – a `threading.local()`,
one flag per thread – as the code has it, or an attribute of an object all threads share.  The model
is parametric in that storage; the theorems say what the thread-local storage buys (an activation is
unaffected by whatever other threads do, under EVERY schedule) and a kernel-checked schedule shows what
a shared flag loses (another thread's handled exception escapes unlogged while this thread is inside `_log`).

Steps (source order of `__exit__`, see `Gen.exitEffects`): the tests (they READ the flag) – flag := True –
`_log` – `finally:` flag := False – onerror – return.  Thread switches may happen between any two of them.
-/
import LoguruModel.Catch.Model

namespace Catch
open Py.Gen

abbrev Tid := Nat

/-- the part of a `catch()` configuration that matters here; `onerror`: `none` = no callback,
    `some none` = a callback that returns, `some (some x)` = a callback that raises `x` -/
structure TCfg where
  isMatch : Exc → Bool
  excluded : Exc → Bool
  reraise : Bool
  level : Nat
  onerror : Option (Option Exc)

/-- program counter of one activation of `__exit__(type(e), e, tb)` -/
inductive Pc where
  | tests
  | setFlag
  | log
  | resetFlag (pending : Option Exc)     -- `finally:` (an error of `_log` is pending)
  | onerror
  | done (r : ExitRes)
  deriving DecidableEq, Repr

/-- which flag a thread sees -/
def slot : FlagStore → Tid → Nat
  | .threadLocal, t => t + 1
  | .shared, _ => 0

structure Activation where
  cfg : TCfg
  exc : Exc
  depth : Nat
  pc : Pc

structure TWorld where
  flags : Nat → Bool
  acts : Tid → Option Activation
  trace : List (Tid × Event)

def setAt {α : Type} (f : Nat → α) (i : Nat) (v : α) : Nat → α := fun j => if j = i then v else f j

/-- what one thread can see and touch: its activation, its flag, its events -/
structure Local where
  act : Option Activation
  flag : Bool
  events : List Event

/-- ONE atomic step of an activation, on the thread's own view (`minLevel`, `logRaises`: the logger's
    environment as in `Env`) -/
def seqStep (minLevel : Nat) (logRaises : Exc → Option Exc) (l : Local) : Local :=
  match l.act with
  | none => l
  | some a =>
    match a.pc with
    | .tests =>
      if l.flag || !a.cfg.isMatch a.exc || a.cfg.excluded a.exc
      then { l with act := some { a with pc := .done .propagate } }
      else { l with act := some { a with pc := .setFlag } }
    | .setFlag => { l with act := some { a with pc := .log }, flag := true }
    | .log =>
      if a.cfg.level < minLevel then { l with act := some { a with pc := .resetFlag none } }
      else { l with act := some { a with pc := .resetFlag (logRaises a.exc) },
                    events := l.events ++ [.log a.cfg.level a.exc a.depth] }
    | .resetFlag pending =>
      match pending with
      | some x => { l with act := some { a with pc := .done (.raise x) }, flag := false }
      | none => { l with act := some { a with pc := .onerror }, flag := false }
    | .onerror =>
      match a.cfg.onerror with
      | none => { l with act := some { a with pc := .done (if a.cfg.reraise then .propagate else .suppress) } }
      | some none =>
        { l with act := some { a with pc := .done (if a.cfg.reraise then .propagate else .suppress) },
                 events := l.events ++ [.onerror a.exc] }
      | some (some x) =>
        { l with act := some { a with pc := .done (.raise x) }, events := l.events ++ [.onerror a.exc] }
    | .done _ => l

def seqRun (minLevel : Nat) (logRaises : Exc → Option Exc) : Nat → Local → Local
  | 0, l => l
  | n + 1, l => seqRun minLevel logRaises n (seqStep minLevel logRaises l)

/-- thread `t`'s view of the world -/
def view (store : FlagStore) (w : TWorld) (t : Tid) : Local :=
  { act := w.acts t, flag := w.flags (slot store t),
    events := (w.trace.filter (fun p => p.1 == t)).map (·.2) }

/-- thread `t` takes one step in the shared world: it reads and writes THE flag its storage gives it -/
def gstep (store : FlagStore) (minLevel : Nat) (logRaises : Exc → Option Exc) (w : TWorld) (t : Tid) : TWorld :=
  let l : Local := { act := w.acts t, flag := w.flags (slot store t), events := [] }
  let l' := seqStep minLevel logRaises l
  { flags := setAt w.flags (slot store t) l'.flag,
    acts := setAt w.acts t l'.act,
    trace := w.trace ++ l'.events.map (fun ev => (t, ev)) }

/-- run a schedule (a list of thread choices; choosing a finished or absent thread is a no-op) -/
def grun (store : FlagStore) (minLevel : Nat) (logRaises : Exc → Option Exc) : List Tid → TWorld → TWorld
  | [], w => w
  | t :: sched, w => grun store minLevel logRaises sched (gstep store minLevel logRaises w t)

/-! ### lemmas -/

/-- `seqStep` only ever APPENDS events, and what it appends does not depend on the events so far -/
theorem seqStep_events (m : Nat) (lr : Exc → Option Exc) (l : Local) :
    seqStep m lr l =
      { act := (seqStep m lr { l with events := [] }).act,
        flag := (seqStep m lr { l with events := [] }).flag,
        events := l.events ++ (seqStep m lr { l with events := [] }).events } := by
  obtain ⟨act, flag, events⟩ := l
  cases act with
  | none => simp [seqStep]
  | some a =>
    obtain ⟨cfg, exc, depth, pc⟩ := a
    cases pc with
    | tests => simp only [seqStep]; split <;> simp
    | setFlag => simp [seqStep]
    | log => simp only [seqStep]; split <;> simp
    | resetFlag p => cases p <;> simp [seqStep]
    | onerror =>
      simp only [seqStep]
      cases cfg.onerror with
      | none => simp
      | some o => cases o <;> simp
    | done r => simp [seqStep]

theorem slot_threadLocal_inj {t u : Tid} (h : slot .threadLocal u = slot .threadLocal t) : u = t := by
  simpa [slot] using h

/-- the thread that steps sees exactly a `seqStep` of its view -/
theorem view_gstep_self (store : FlagStore) (m : Nat) (lr : Exc → Option Exc) (w : TWorld) (t : Tid) :
    view store (gstep store m lr w t) t = seqStep m lr (view store w t) := by
  rw [seqStep_events m lr (view store w t)]
  simp [view, gstep, setAt, List.filter_append, List.filter_map, Function.comp_def]

/-- THREAD-LOCAL storage: a step of ANOTHER thread changes nothing a thread can see -/
theorem view_gstep_other (m : Nat) (lr : Exc → Option Exc) (w : TWorld) (t u : Tid) (h : u ≠ t) :
    view .threadLocal (gstep .threadLocal m lr w u) t = view .threadLocal w t := by
  have hs : slot .threadLocal t ≠ slot .threadLocal u := fun e => h (slot_threadLocal_inj e.symm)
  have ht : t ≠ u := fun e => h e.symm
  have hf : ∀ (l : List Event), List.filter (fun p : Tid × Event => p.1 == t) (l.map (fun ev => (u, ev))) = [] := by
    intro l
    induction l with
    | nil => rfl
    | cons x xs ih => simp [h]
  simp [view, gstep, setAt, hs, ht, List.filter_append, hf]

theorem seqRun_add (m : Nat) (lr : Exc → Option Exc) (a b : Nat) (l : Local) :
    seqRun m lr (a + b) l = seqRun m lr b (seqRun m lr a l) := by
  induction a generalizing l with
  | zero => simp [seqRun]
  | succ n ih => rw [Nat.succ_add]; simp only [seqRun]; exact ih _

/-- a finished activation stays as it is -/
theorem seqRun_done (m : Nat) (lr : Exc → Option Exc) (n : Nat) (l : Local) (a : Activation) (r : ExitRes)
    (h : l.act = some a) (hp : a.pc = .done r) : seqRun m lr n l = l := by
  induction n with
  | zero => rfl
  | succ n ih =>
    have : seqStep m lr l = l := by
      obtain ⟨act, flag, events⟩ := l
      simp only at h
      subst h
      obtain ⟨cfg, exc, depth, pc⟩ := a
      simp only at hp
      subst hp
      simp [seqStep]
    simp only [seqRun, this]
    exact ih

/-- NON-INTERFERENCE (thread-local storage): under EVERY schedule, what thread `t` sees at the end is
    what it would see had it run alone, as many steps as the schedule gives it -/
theorem view_grun_threadLocal (m : Nat) (lr : Exc → Option Exc) (t : Tid) (sched : List Tid) :
    ∀ w : TWorld, view .threadLocal (grun .threadLocal m lr sched w) t =
      seqRun m lr (sched.count t) (view .threadLocal w t) := by
  induction sched with
  | nil => intro w; rfl
  | cons u sched ih =>
    intro w
    simp only [grun]
    rw [ih]
    by_cases h : u = t
    · subst h
      rw [view_gstep_self]
      simp [seqRun]
    · rw [view_gstep_other m lr w t u h]
      have : (u :: sched).count t = sched.count t := by
        simp [h]
      rw [this]

/-- the five steps of a HANDLED exception, alone: one record (if a handler accepts the level), flag
    clear again, one onerror call (if `_log` did not raise), the configured result -/
def handledEvents (minLevel : Nat) (lr : Exc → Option Exc) (a : Activation) : List Event :=
  let logged := !(decide (a.cfg.level < minLevel))
  let pending := if logged then lr a.exc else none
  (if logged then [.log a.cfg.level a.exc a.depth] else []) ++
  (match pending, a.cfg.onerror with
   | none, some _ => [.onerror a.exc]
   | _, _ => [])

def handledResult (minLevel : Nat) (lr : Exc → Option Exc) (a : Activation) : ExitRes :=
  let pending := if a.cfg.level < minLevel then none else lr a.exc
  match pending with
  | some x => .raise x
  | none =>
    match a.cfg.onerror with
    | some (some x) => .raise x
    | _ => if a.cfg.reraise then .propagate else .suppress

theorem seqRun_handled (m : Nat) (lr : Exc → Option Exc) (a : Activation) (evs : List Event)
    (hpc : a.pc = .tests) (hm : a.cfg.isMatch a.exc = true) (hx : a.cfg.excluded a.exc = false) :
    seqRun m lr 5 { act := some a, flag := false, events := evs } =
      { act := some { a with pc := .done (handledResult m lr a) }, flag := false,
        events := evs ++ handledEvents m lr a } := by
  obtain ⟨cfg, exc, depth, pc⟩ := a
  simp only at hpc hm hx
  subst hpc
  by_cases hl : cfg.level < m
  · cases ho : cfg.onerror with
    | none => simp [seqRun, seqStep, hm, hx, hl, ho, handledEvents, handledResult]
    | some o => cases o <;> simp [seqRun, seqStep, hm, hx, hl, ho, handledEvents, handledResult]
  · cases hr : lr exc with
    | some y => simp [seqRun, seqStep, hm, hx, hl, hr, handledEvents, handledResult]
    | none =>
      cases ho : cfg.onerror with
      | none => simp [seqRun, seqStep, hm, hx, hl, hr, ho, handledEvents, handledResult]
      | some o => cases o <;> simp [seqRun, seqStep, hm, hx, hl, hr, ho, handledEvents, handledResult]

/-- an exception the catcher does not handle (other type, excluded type, or the thread's OWN flag set):
    one step, nothing logged, propagates -/
theorem seqRun_unhandled (m : Nat) (lr : Exc → Option Exc) (a : Activation) (fl : Bool) (evs : List Event)
    (hpc : a.pc = .tests) (h : fl = true ∨ a.cfg.isMatch a.exc = false ∨ a.cfg.excluded a.exc = true) :
    seqRun m lr 1 { act := some a, flag := fl, events := evs } =
      { act := some { a with pc := .done .propagate }, flag := fl, events := evs } := by
  obtain ⟨cfg, exc, depth, pc⟩ := a
  simp only at hpc h
  subst hpc
  rcases h with h | h | h <;> simp [seqRun, seqStep, h]

end Catch
