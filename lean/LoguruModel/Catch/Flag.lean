/-
The recursion guard across TASKS of one thread (round 5): the flag is set only while `_log` runs, and
`_log` is synchronous – so whenever a decorated generator / coroutine (or a whole stack of decorators)
hands control back to its driver (the event loop, which may then run ANY other task of the same thread),
the thread's flag has the value it had before: no task ever observes another task's guard.
Proved for every body automaton that leaves the flag alone, every driver sequence, every wrapper state.
-/
import LoguruModel.Catch.Tower

namespace Catch
open Py.Gen

variable {σ τ : Type}

/-- `__exit__` leaves the flag as it found it on every path (no exception, not handled, handled,
    `_log` raising, onerror raising) – provided the user's onerror code, which is handed a clear flag,
    leaves it alone -/
theorem exit_flag (env : Env) (cfg : Cfg) (d : Nat) (e : Option Exc) (g : G)
    (honerr : ∀ f, cfg.onerror = some f → ∀ x g', (f x g').2.flag = g'.flag) :
    (exit env cfg d e g).2.flag = g.flag := by
  cases e with
  | none => rw [exit_none]
  | some x =>
    rcases caught_or_uncaught cfg g x with h | h
    · rw [exit_caught env cfg d x g h, h.1]
      unfold caughtResult
      split
      · rfl
      · split
        · rfl
        · rename_i f hfo
          have hk := honerr f hfo x ((afterLog env cfg d x g).push (.onerror x))
          split <;> rename_i heq <;> rw [heq] at hk <;> exact hk
    · rw [exit_uncaught env cfg d x g h]

/-- an automaton / object that never changes the flag -/
def AutoKeepsFlag (a : Auto G σ) : Prop := ∀ s i g, (a.step s i g).2.2.flag = g.flag
def ObjKeepsFlag (o : Obj G τ) : Prop := ∀ t op g, (o.step t op g).2.2.flag = g.flag
def OnerrorKeepsFlag (cfg : Cfg) : Prop := ∀ f, cfg.onerror = some f → ∀ x g', (f x g').2.flag = g'.flag

theorem genObj_keeps_flag (k : Kind) (a : Auto G σ) (h : AutoKeepsFlag a) : ObjKeepsFlag (genObj k a) := by
  intro st op g
  cases st with
  | unstarted s =>
    cases op with
    | send v =>
      simp only [genObj, genStep]
      split
      · have := h s (.send 0) g
        revert this
        generalize a.step s (.send 0) g = r
        obtain ⟨o, s', g'⟩ := r
        cases o <;> simp [settle]
      · rfl
    | throw e => rfl
    | close => rfl
  | suspended s =>
    cases op with
    | send v =>
      have := h s (.send v) g
      revert this
      simp only [genObj, genStep]
      generalize a.step s (.send v) g = r
      obtain ⟨o, s', g'⟩ := r
      cases o <;> simp [settle]
    | throw e =>
      have := h s (.throw e) g
      revert this
      simp only [genObj, genStep]
      generalize a.step s (.throw e) g = r
      obtain ⟨o, s', g'⟩ := r
      cases o <;> simp [settle]
    | close =>
      have := h s (.throw genExit) g
      revert this
      simp only [genObj, genStep]
      generalize a.step s (.throw genExit) g = r
      obtain ⟨o, s', g'⟩ := r
      cases o with
      | yield v => simp [settleClose]
      | ret v => simp [settleClose]
      | raise e => simp only [settleClose]; split <;> simp
  | done => cases op <;> rfl

theorem finishWith_flag (env : Env) (cfg : Cfg) (ho : OnerrorKeepsFlag cfg) (r : DRes × τ × G) :
    (finishWith (exit env) cfg r).2.2.flag = r.2.2.flag := by
  obtain ⟨o, t, g⟩ := r
  cases o with
  | yield v => rfl
  | value v =>
    have := exit_flag env cfg decoratorDepth none g ho
    revert this
    simp only [finishWith]
    generalize exit env cfg decoratorDepth none g = x
    obtain ⟨er, g'⟩ := x
    cases er <;> simp
  | raise e =>
    have := exit_flag env cfg decoratorDepth (some e) g ho
    revert this
    simp only [finishWith]
    generalize exit env cfg decoratorDepth (some e) g = x
    obtain ⟨er, g'⟩ := x
    cases er <;> simp

theorem dconv_world (r : Res × τ × G) : (dconv r).2.2 = r.2.2 := by
  obtain ⟨o, t, g⟩ := r
  cases o <;> rfl

theorem dclose_world (e : Exc) (r : Res × τ × G) : (dclose e r).2.2 = r.2.2 := by
  obtain ⟨o, t, g⟩ := r
  cases o <;> rfl

theorem delegate_flag (inner : Obj G τ) (h : ObjKeepsFlag inner) (t : τ) (i : Input) (g : G) :
    (delegate inner t i g).2.2.flag = g.flag := by
  cases i with
  | send v => simp only [delegate]; rw [dconv_world]; exact h _ _ _
  | throw e =>
    simp only [delegate]
    split
    · rw [dclose_world]; exact h _ _ _
    · rw [dconv_world]; exact h _ _ _

/-- the wrapper's frame keeps the flag if the wrapped object does -/
theorem wrapAuto_keeps_flag (env : Env) (cfg : Cfg) (ho : OnerrorKeepsFlag cfg) (inner : Obj G τ)
    (h : ObjKeepsFlag inner) : AutoKeepsFlag (wrapAuto (exit env) cfg inner) := by
  intro s i g
  cases s with
  | fresh t =>
    cases i with
    | send v =>
      simp only [wrapAuto]
      rw [finishWith_flag env cfg ho, dconv_world]
      exact h _ _ _
    | throw e => rfl
  | delegating t =>
    simp only [wrapAuto]
    rw [finishWith_flag env cfg ho]
    exact delegate_flag inner h t i g

theorem run_keeps_flag (o : Obj G τ) (h : ObjKeepsFlag o) (ops : List Op) :
    ∀ (t : τ) (g : G), (run o t ops g).2.2.flag = g.flag := by
  induction ops with
  | nil => intro _ _; rfl
  | cons op ops ih =>
    intro t g
    rw [run_cons]
    simp only
    rw [ih]
    exact h t op g

/-- a whole stack of decorators keeps the flag -/
theorem tower_keeps_flag (k : Kind) (env : Env) (a : Auto G σ) (h : AutoKeepsFlag a) (cfgs : List Cfg)
    (ho : ∀ c ∈ cfgs, OnerrorKeepsFlag c) : AutoKeepsFlag (towerAuto k env a cfgs) := by
  induction cfgs with
  | nil => exact h
  | cons c cs ih =>
    have ih' := ih (fun c' hc' => ho c' (List.mem_cons_of_mem _ hc'))
    exact wrapAuto_keeps_flag env c (ho c (List.mem_cons_self ..)) _ (genObj_keeps_flag k _ ih')

end Catch
