import LoguruModel.Rotation.Lemmas
import LoguruModel.Rotation.CalendarFact
import LoguruModel.Rotation.GroupLemmas
import LoguruModel.Rotation.CatchUp
import LoguruModel.Rotation.Platform
import LoguruModel.Rotation.TimeLemmas
import LoguruModel.Rotation.FloatParsers
/-
C07 – property theorems: time-based rotation starts a new file exactly at the boundaries the
specification denotes.  Everything is stated about the model of `Rotation.RotationTime` whose
arithmetic kernels and comparisons are regenerated from /repo (`Rotation.Gen.*`).
-/
namespace C07
open Py Rotation Rotation.Gen

/-- every meaning except monthly/yearly satisfies the two step obligations outright -/
theorem step_obligations (F : Form) (hv : F.Valid) (hp : F.Plain) : StepOK F := stepOK_plain F hv hp

/-- monthly / yearly satisfy the two step obligations outright as well.  The calendar fact they rest on – the civil
date `civilOfDays z` names the month that contains day `z` – is PROVED for every day number in `Py/CalendarFacts.lean`
(era decomposition and month arithmetic by `omega`, the 146 097 days of one 400-year era by kernel evaluation);
it used to be an explicit hypothesis of this theorem. -/
theorem step_obligations_calendar : StepOK Form.monthly ∧ StepOK Form.yearly :=
  stepOK_calendar calendarMonthFact

/-- every meaning a time-based `rotation=` can have satisfies the step obligations -/
theorem step_obligations_all (F : Form) (hv : F.Valid) : StepOK F := by
  by_cases hp : F.Plain
  · exact stepOK_plain F hv hp
  · cases F <;> simp [Form.Plain] at hp
    · exact step_obligations_calendar.1
    · exact step_obligations_calendar.2

/-- month starts are strictly increasing, for all month numbers (no calendar assumption) -/
theorem month_starts_increase (i : Int) : monthStart i < monthStart (i + 1) := monthStart_lt_succ i

/-- the latest instant seen so far, in the governing frame -/
def latest (g : Int) : Int → List CallIn → Int
  | τ, [] => τ
  | τ, x :: xs => latest g (max τ (x.stamp.utc + g)) xs

theorem limit_from_any_state (F : Form) (ok : StepOK F) (c off : Int) :
    ∀ (xs : List CallIn) (τ : Int) (st : Option Int),
      (∀ x ∈ xs, x.ctime = c ∧ x.stamp.off = off) → Inv F (c + F.frame off) τ st →
      Inv F (c + F.frame off) (latest (F.frame off) τ xs) (timeRun F.cfg st xs).2 := by
  intro xs
  induction xs with
  | nil => intro τ st _ h; simpa [timeRun, latest] using h
  | cons x xs ih =>
    intro τ st hx hinv
    have hxc := hx x (by simp)
    obtain ⟨⟨l, hl, hn⟩, _⟩ := timeCall_step F ok c off τ st x hxc.1 hxc.2 hinv
    simp only [timeRun, latest]
    have := ih (max τ (x.stamp.utc + F.frame off)) (timeCall F.cfg st x).2
      (fun y hy => hx y (by simp [hy])) (by rw [hl]; exact hn)
    exact this

theorem timeCall_some (cfg : RotTime) (st : Option Int) (x : CallIn) : ∃ s, (timeCall cfg st x).2 = some s := by
  unfold timeCall
  simp only
  split <;> (split <;> exact ⟨_, rfl⟩)

theorem timeRun_some (cfg : RotTime) : ∀ (ys : List CallIn) (s : Int), ∃ s', (timeRun cfg (some s) ys).2 = some s' := by
  intro ys
  induction ys with
  | nil => intro s; exact ⟨s, rfl⟩
  | cons y ys ih =>
    intro s
    obtain ⟨s1, h1⟩ := timeCall_some cfg (some s) y
    simp only [timeRun, h1]
    exact ih s1

/-- MAIN INVARIANT.  For every meaning σ, creation instant `c`, fixed record offset and every
sequence of calls (any length, any gaps): after the calls `_limit` is the least boundary of
B(σ, c) strictly after the latest instant seen (creation included). -/
theorem limit_is_next_boundary (F : Form) (ok : StepOK F) (c off : Int) (x : CallIn) (xs : List CallIn)
    (hx : ∀ y ∈ x :: xs, y.ctime = c ∧ y.stamp.off = off) :
    ∃ l, (timeRun F.cfg none (x :: xs)).2 = some l ∧
      IsNext (F.B (c + F.frame off)) (latest (F.frame off) (c + F.frame off) (x :: xs)) l := by
  have h := limit_from_any_state F ok c off (x :: xs) (c + F.frame off) none hx rfl
  obtain ⟨s1, h1⟩ := timeCall_some F.cfg none x
  obtain ⟨l, hl⟩ := timeRun_some F.cfg xs s1
  have hfin : (timeRun F.cfg none (x :: xs)).2 = some l := by simp only [timeRun, h1, hl]
  rw [hfin] at h
  exact ⟨l, hfin, h⟩

/-- a boundary of `B` lies in the half-open window `(τ, key]` -/
def Crossed (B : Int → Prop) (τ key : Int) : Prop := ∃ b, B b ∧ τ < b ∧ b ≤ key

/-- the Booleans agree with the specification along a whole history: message `i` rotates iff a
boundary lies in `(latest instant before it, its own instant]` -/
inductive Agrees (B : Int → Prop) (g : Int) : Int → List CallIn → List Bool → Prop
  | nil (τ : Int) : Agrees B g τ [] []
  | cons (τ : Int) (x : CallIn) (xs : List CallIn) (b : Bool) (bs : List Bool) :
      (b = true ↔ Crossed B τ (x.stamp.utc + g)) → Agrees B g (max τ (x.stamp.utc + g)) xs bs →
      Agrees B g τ (x :: xs) (b :: bs)

theorem agrees_from_any_state (F : Form) (ok : StepOK F) (c off : Int) :
    ∀ (xs : List CallIn) (τ : Int) (st : Option Int),
      (∀ x ∈ xs, x.ctime = c ∧ x.stamp.off = off) → Inv F (c + F.frame off) τ st →
      Agrees (F.B (c + F.frame off)) (F.frame off) τ xs (timeRun F.cfg st xs).1 := by
  intro xs
  induction xs with
  | nil => intro τ st _ _; exact .nil τ
  | cons x xs ih =>
    intro τ st hx hinv
    have hxc := hx x (by simp)
    obtain ⟨⟨l, hl, hn⟩, hiff⟩ := timeCall_step F ok c off τ st x hxc.1 hxc.2 hinv
    simp only [timeRun]
    refine .cons τ x xs _ _ hiff ?_
    exact ih _ _ (fun y hy => hx y (by simp [hy])) (by rw [hl]; exact hn)

/-- `rotates_iff_boundary_crossed` (hence no rotation early, none late): over every history, a call
returns True exactly when a boundary of B(σ, c) lies after everything seen before (creation
included) and at or before the record's own instant. -/
theorem rotates_iff_boundary_crossed (F : Form) (ok : StepOK F) (c off : Int) (xs : List CallIn)
    (hx : ∀ y ∈ xs, y.ctime = c ∧ y.stamp.off = off) :
    Agrees (F.B (c + F.frame off)) (F.frame off) (c + F.frame off) xs (timeRun F.cfg none xs).1 :=
  agrees_from_any_state F ok c off xs _ none hx rfl

/-- `no_file_mixes_periods`, one step: if two consecutive records (in time order) are written to
the same file, no boundary separates them -/
theorem no_file_mixes_periods (F : Form) (ok : StepOK F) (c off τ : Int) (st : Option Int) (x : CallIn)
    (hc : x.ctime = c) (ho : x.stamp.off = off) (hinv : Inv F (c + F.frame off) τ st)
    (hsame : (timeCall F.cfg st x).1 = false) :
    ¬ ∃ b, F.B (c + F.frame off) b ∧ τ < b ∧ b ≤ x.stamp.utc + F.frame off := by
  intro h
  have := (timeCall_step F ok c off τ st x hc ho hinv).2.2 h
  rw [hsame] at this
  exact Bool.false_ne_true this

/-! ### termination of the catch-up loop -/

theorem catchUp_more_fuel (f : Int → Int) (r : Int) :
    ∀ (n : Nat) (l : Int), r < catchUp f n l r → catchUp f (n + 1) l r = catchUp f n l r := by
  intro n
  induction n with
  | zero =>
    intro l h
    simp only [catchUp] at h
    exact catchUp_stop f 1 l r (by omega)
  | succ n ih =>
    intro l h
    by_cases hle : l ≤ r
    · have hc : catchUpCond l r = true := (catchUpCond_iff l r).mpr hle
      by_cases hst : f l ≤ l
      · simp [catchUp, hc, hst]
      · have hadv : l < f l := by omega
        rw [catchUp_step f (n + 1) l r hle hadv, catchUp_step f n l r hle hadv]
        rw [catchUp_step f n l r hle hadv] at h
        exact ih (f l) h
    · rw [catchUp_stop f _ l r hle, catchUp_stop f _ l r hle]

/-- `catch_up_terminates`: from a boundary `l`, the `while self._limit <= record_time` loop leaves
through its condition after at most `record_time - l + 1` iterations – for every meaning (intervals
are positive because `add()` rejects the others, `nonpositive_interval_rejected`) – and more fuel
changes nothing. -/
theorem catch_up_terminates (F : Form) (ok : StepOK F) (c l r : Int) (hl : F.B c l) (extra : Nat) :
    r < catchUp F.cfg.step.apply (catchUpFuel l r) l r ∧
    catchUp F.cfg.step.apply (catchUpFuel l r + extra) l r = catchUp F.cfg.step.apply (catchUpFuel l r) l r := by
  have hexit : r < catchUp F.cfg.step.apply (catchUpFuel l r) l r := by
    by_cases hle : l ≤ r
    · have hn : IsNext (F.B c) (l - 1) l := ⟨hl, by omega, fun b _ h => by omega⟩
      exact (catchUp_next (F.B c) F.cfg.step.apply (ok.step c) _ l (l - 1) r hn hle (Nat.le_refl _)).2.1
    · rw [catchUp_stop _ _ l r hle]; omega
  refine ⟨hexit, ?_⟩
  induction extra with
  | zero => rfl
  | succ k ih =>
    have : catchUpFuel l r + (k + 1) = (catchUpFuel l r + k) + 1 := by omega
    rw [this, catchUp_more_fuel _ r _ l (by rw [ih]; exact hexit), ih]

/-! ### rejection when the sink is added, spellings -/

/-- a `timedelta` that is not strictly positive is rejected with ValueError (former finding F8) -/
theorem nonpositive_interval_rejected (us : Int) (h : us ≤ 0) : makeLeaf (.td us) = .error .valueError := by
  simp [makeLeaf, makeFromTd, intervalRejected, h]

/-- … and an accepted one yields a valid interval meaning -/
theorem accepted_interval_is_valid (us : Int) (l : Leaf) (h : makeLeaf (.td us) = .ok l) :
    0 < us ∧ l = .time (Form.interval us).cfg := by
  by_cases hn : us ≤ 0
  · simp [makeLeaf, makeFromTd, intervalRejected, hn] at h
  · simp only [makeLeaf, makeFromTd, intervalRejected, hn, decide_false] at h
    injection h with h
    exact ⟨by omega, h.symm⟩

/-- `unparsable_rejected_at_add`: a string that none of the four parsers recognises makes
`_make_rotation_function` raise ValueError -/
theorem unparsable_rejected_at_add (s : Str) (h1 : parseSize s = .ok none) (h2 : parseDuration s = .ok none)
    (h3 : parseFrequency s = none) (h4 : parseDaytime s = .ok none) :
    makeFromStr s = .error .valueError := by
  simp [makeFromStr, h1, h2, h3, h4, bind, Except.bind]

/-- an error inside a parser is an error of `_make_rotation_function` (never a half-built rotation) -/
theorem parser_error_rejected_at_add (s : Str) (e : Err) :
    (parseSize s = .error e → makeFromStr s = .error e) ∧
    (parseSize s = .ok none → parseDuration s = .error e → makeFromStr s = .error e) ∧
    (parseSize s = .ok none → parseDuration s = .ok none → parseFrequency s = none →
      parseDaytime s = .error e → makeFromStr s = .error e) := by
  refine ⟨?_, ?_, ?_⟩
  · intro h; simp [makeFromStr, h, bind, Except.bind]
  · intro h1 h2; simp [makeFromStr, h1, h2, bind, Except.bind]
  · intro h1 h2 h3 h4; simp [makeFromStr, h1, h2, h3, h4, bind, Except.bind]

/-- `spelling_eq_object`: a duration spelling builds exactly the rotation its `timedelta` builds; a
time spelling exactly what its `datetime.time` builds; a frequency word the generated kernel -/
theorem spelling_eq_object (s : Str) :
    (∀ us, parseSize s = .ok none → parseDuration s = .ok (some us) → makeFromStr s = makeLeaf (.td us)) ∧
    (∀ t, parseSize s = .ok none → parseDuration s = .ok none → parseFrequency s = none →
      parseDaytime s = .ok (some (none, some t)) → makeFromStr s = makeLeaf (.time t)) ∧
    (∀ d t, parseSize s = .ok none → parseDuration s = .ok none → parseFrequency s = none →
      parseDaytime s = .ok (some (some d, some t)) → makeFromStr s = .ok (.time (Form.weekdayAt d t).cfg)) ∧
    (∀ d, parseSize s = .ok none → parseDuration s = .ok none → parseFrequency s = none →
      parseDaytime s = .ok (some (some d, none)) → makeFromStr s = .ok (.time (Form.weekdayAt d midnight).cfg)) := by
  refine ⟨?_, ?_, ?_, ?_⟩
  · intro us h1 h2; simp [makeFromStr, makeLeaf, h1, h2, bind, Except.bind]
  · intro t h1 h2 h3 h4; simp [makeFromStr, makeLeaf, h1, h2, h3, h4, bind, Except.bind]
  · intro d t h1 h2 h3 h4; simp [makeFromStr, Form.cfg, h1, h2, h3, h4, bind, Except.bind]
  · intro d h1 h2 h3 h4; simp [makeFromStr, Form.cfg, h1, h2, h3, h4, bind, Except.bind]

/-- the table of `parse_frequency` maps the five documented words to the five kernels the
theorems above are about -/
theorem frequency_table :
    freqTable.map Prod.fst = ["hourly".toList, "daily".toList, "weekly".toList, "monthly".toList, "yearly".toList] ∧
    parseFrequency " Hourly".toList = some hourly ∧ parseFrequency "DAILY ".toList = some daily ∧
    parseFrequency "weekly".toList = some weekly ∧ parseFrequency "monthly".toList = some monthly ∧
    parseFrequency "yearly".toList = some yearly ∧ parseFrequency "fortnightly".toList = none := by
  refine ⟨by decide, rfl, rfl, rfl, rfl, rfl, rfl⟩

/-- documented spellings denote the documented objects (evaluated by the kernel on the model) -/
theorem documented_spellings :
    parseDuration "1h 30 minutes".toList = .ok (some 5400000000) ∧
    parseDuration "1 week, 2 d".toList = .ok (some 777600000000) ∧
    parseDuration "1.5 h".toList = .ok (some 5400000000) ∧
    parseDaytime "13:00".toList = .ok (some (none, some ⟨13, 0, 0, 0, none⟩)) ∧
    parseDaytime "w0 at 11".toList = .ok (some (some 0, some ⟨11, 0, 0, 0, none⟩)) ∧
    parseDaytime "Monday at 13:00".toList = .ok (some (some 0, some ⟨13, 0, 0, 0, none⟩)) ∧
    parseDaytime "sunday".toList = .ok (some (some 6, none)) ∧
    parseDaytime "w7".toList = .error .valueError ∧
    parseDaytime "someday".toList = .ok none := by
  refine ⟨rfl, rfl, rfl, rfl, rfl, rfl, rfl, rfl, rfl⟩

/-! ### former findings, now regression theorems -/

/-- F3 (fixed): a file created Wednesday 2020-01-01 10:00 with "monday at 13:00" gets its first
limit on Monday 2020-01-06 13:00, not on the creation day -/
theorem weekday_first_limit_regression :
    firstLimit (Form.weekdayAt 0 ⟨13, 0, 0, 0, none⟩).cfg 1577872800000000 0 = 1578315600000000 := by
  decide +kernel

/-- non-vacuity: a valid weekday meaning, a concrete history crossing two boundaries -/
example :
    (timeRun (Form.weekdayAt 0 ⟨13, 0, 0, 0, none⟩).cfg none
      [⟨1577872800000000, ⟨1577876400000000, 0⟩, 1, 1, 0⟩, ⟨1577872800000000, ⟨1578315600000000, 0⟩, 1, 1, 0⟩,
       ⟨1577872800000000, ⟨1578315600000001, 0⟩, 1, 1, 0⟩, ⟨1577872800000000, ⟨1579000000000000, 0⟩, 1, 1, 0⟩]).1
      = [false, true, false, true] := by decide +kernel

example : (Form.weekdayAt 0 ⟨13, 0, 0, 0, none⟩).Valid ∧ (Form.weekdayAt 0 ⟨13, 0, 0, 0, none⟩).Plain := by
  simp [Form.Valid, Form.Plain, TimeInit.InRange]

/-! ### the creation time the boundaries are counted from (`_ctime_functions.py`) -/

/-- `creation_time_source`: on Linux the creation time of an existing file is the persisted
`user.loguru_crtime` value when there is one and the modification time otherwise – with or without
xattr support; in particular never `st_ctime`/`st_atime` (regenerated field names) -/
theorem creation_time_source (m : FileMeta) :
    getCtime .linuxXattr m = specCreation m ∧ (m.crtime = none → getCtime .noXattr m = specCreation m) := by
  constructor
  · unfold getCtime specCreation ctimeLinuxFallback; cases m.crtime <;> rfl
  · intro h; unfold getCtime specCreation ctimeNoXattr; rw [h]

/-- metadata changes (chmod, mv, hard link, utime's side effect on the inode-change time, reads)
do not move the boundaries -/
theorem creation_time_ignores_inode_change (m : FileMeta) (c a : Int) :
    getCtime .linuxXattr { m with st := { m.st with st_ctime := c, st_atime := a } } = getCtime .linuxXattr m ∧
    getCtime .noXattr { m with st := { m.st with st_ctime := c, st_atime := a } } = getCtime .noXattr m := by
  constructor
  · unfold getCtime ctimeLinuxFallback; cases m.crtime <;> rfl
  · unfold getCtime ctimeNoXattr; rfl

/-- `set_ctime` then `get_ctime` returns what was stored (same attribute name on both sides), and
storing what `get_ctime` returned – what `RotationTime.__call__` does on first use – changes nothing
that `get_ctime` sees; without attribute support `set_ctime` is a no-op -/
theorem set_then_get (m : FileMeta) (ts : Int) :
    ctimeSetAttr = ctimeGetAttr ∧
    getCtime .linuxXattr (setCtime .linuxXattr true m ts) = ts ∧
    getCtime .linuxXattr (setCtime .linuxXattr true m (getCtime .linuxXattr m)) = getCtime .linuxXattr m ∧
    setCtime .linuxXattr false m ts = m ∧ setCtime .noXattr true m ts = m := by
  have h : ctimeSetAttr = ctimeGetAttr := by decide
  refine ⟨h, ?_, ?_, ?_, ?_⟩
  · simp [setCtime, getCtime, h]
  · simp [setCtime, getCtime, h]
  · simp [setCtime]
  · simp [setCtime]

/-- `restart_counts_from_file_creation`: a sink that starts on an existing file (any stat times, with
or without the persisted attribute) keeps, over every call history, `_limit` = least boundary of
B(σ, creation of that file) after the latest instant seen – the main invariant with the creation
instant resolved through `get_ctime` -/
theorem restart_counts_from_file_creation (F : Form) (ok : StepOK F) (m : FileMeta) (off : Int)
    (x : CallIn) (xs : List CallIn)
    (hx : ∀ y ∈ x :: xs, y.ctime = getCtime .linuxXattr m ∧ y.stamp.off = off) :
    ∃ l, (timeRun F.cfg none (x :: xs)).2 = some l ∧
      IsNext (F.B (specCreation m + F.frame off))
        (latest (F.frame off) (specCreation m + F.frame off) (x :: xs)) l := by
  rw [← (creation_time_source m).1]
  exact limit_is_next_boundary F ok (getCtime .linuxXattr m) off x xs hx

/-- refuting witness for the shape "fall back on st_ctime": a file last written at instant 0 whose
inode changed at 7 (chmod) would be dated 7 -/
theorem inode_change_time_is_not_creation :
    let m : FileMeta := { st := { st_mtime := 0, st_ctime := 7, st_atime := 9, st_birthtime := 0 }, crtime := none }
    m.st.st_ctime ≠ specCreation m ∧ getCtime .linuxXattr m = 0 ∧ getCtime .noXattr m = 0 := by decide

/-! ### aware times given with a zone object -/

/-- `aware_time_keeps_its_zone`: whether `time_init` is read in the records' zone, and whether the first
limit is made naive, depends on `time_init.tzinfo is None` alone – a zone object whose
`utcoffset(None)` is `None` (zoneinfo / pytz / dateutil style) is as aware as a fixed offset.  This is what
lets the model branch on `TimeInit.tz` only. -/
theorem aware_time_keeps_its_zone (tzinfoIsNone utcoffsetIsNone : Bool) :
    timeInitUsesRecordZone tzinfoIsNone utcoffsetIsNone = tzinfoIsNone ∧
    timeInitLimitNaive tzinfoIsNone utcoffsetIsNone = tzinfoIsNone := by
  cases tzinfoIsNone <;> cases utcoffsetIsNone <;> decide

/-- refuting witness for the shape "naive iff `utcoffset()` is None": 12:00 in a zone at +9 h, records at
UTC, file created 1970-01-01 00:00 UTC – the first boundary is 03:00 UTC (12:00 in the zone); reading
the time in the records' zone would give 12:00 UTC -/
theorem zone_object_first_limit :
    let F := Form.dailyAt ⟨12, 0, 0, 0, some 32400000000⟩
    firstLimit F.cfg 0 0 - F.frame 0 = 10800000000 ∧
    firstLimit (Form.dailyAt ⟨12, 0, 0, 0, none⟩).cfg 0 0 = 43200000000 := by decide +kernel

/-! ### the creation tag of files made by a rotation, across restarts -/

/-- `rotation_tags_new_file`: the file a rotation creates is tagged with the instant of the rotation
(regenerated: `set_ctime(new_path, now)` is unconditional in `_terminate_file`) -/
theorem rotation_tags_new_file (ls : List Leaf) (s : Sink) (m : Msg)
    (hrot : (groupCall ls s.states
      { ctime := s.creation, stamp := m.stamp, bytes := m.bytes, chars := m.chars, tell := s.cur.size }).1 = true) :
    (Sink.write ls s m).tag = some m.stamp.utc ∧ (Sink.write ls s m).creation = m.stamp.utc := by
  have h : newFileTaggedWithNow = true := by decide
  unfold Sink.write
  simp only [hrot, if_true, h]
  simp [Sink.creation]

/-- a tagged file keeps its creation instant through a write that does not rotate … -/
theorem write_keeps_tag (ls : List Leaf) (s : Sink) (m : Msg) (v : Int) (ht : s.tag = some v)
    (hno : (groupCall ls s.states
      { ctime := s.creation, stamp := m.stamp, bytes := m.bytes, chars := m.chars, tell := s.cur.size }).1 = false) :
    (Sink.write ls s m).tag = some v := by
  have hc : s.creation = v := by simp [Sink.creation, ht]
  unfold Sink.write
  simp only [hno]
  simp only [Bool.false_eq_true, if_false]
  split
  · rw [hc]
  · exact ht

/-- … and through a restart of the sink -/
theorem restart_keeps_tag (ls : List Leaf) (s : Sink) : (Sink.restart ls s).tag = s.tag ∧
    (Sink.restart ls s).mtime = s.mtime ∧ (Sink.restart ls s).cur = s.cur ∧ (Sink.restart ls s).closed = s.closed := by
  simp [Sink.restart]

/-- a history of restarts, appends by other writers, and of messages none of which rotates -/
def Quiet (ls : List Leaf) : Sink → List SinkOp → Prop
  | _, [] => True
  | s, .restart :: ops => Quiet ls (Sink.restart ls s) ops
  | s, .foreign n :: ops => Quiet ls (Sink.foreign s n) ops
  | s, .msg m :: ops =>
    (groupCall ls s.states
      { ctime := s.creation, stamp := m.stamp, bytes := m.bytes, chars := m.chars, tell := s.cur.size }).1 = false ∧
    Quiet ls (Sink.write ls s m) ops

/-- `restart_counts_from_rotation_instant`: after a rotation at message `m`, any number of further
writes into the new file and restarts of the sink later, the creation time the next `RotationTime`
reads is still the instant of that rotation – not the last write (four-step history: rotation, write,
restart, message) -/
theorem restart_counts_from_rotation_instant (ls : List Leaf) (s : Sink) (m : Msg) (ops : List SinkOp)
    (hrot : (groupCall ls s.states
      { ctime := s.creation, stamp := m.stamp, bytes := m.bytes, chars := m.chars, tell := s.cur.size }).1 = true)
    (hq : Quiet ls (Sink.write ls s m) ops) :
    (Sink.runOps ls (Sink.write ls s m) ops).creation = m.stamp.utc := by
  have key : ∀ (ops : List SinkOp) (t : Sink) (v : Int), t.tag = some v → Quiet ls t ops →
      (Sink.runOps ls t ops).tag = some v := by
    intro ops
    induction ops with
    | nil => intro t v ht _; simpa [Sink.runOps] using ht
    | cons op ops ih =>
      intro t v ht hq
      cases op with
      | restart =>
        simp only [Sink.runOps, List.foldl_cons, Sink.step]
        exact ih _ v (by rw [(restart_keeps_tag ls t).1]; exact ht) hq
      | foreign n =>
        simp only [Sink.runOps, List.foldl_cons, Sink.step]
        exact ih _ v (by simpa [Sink.foreign] using ht) hq
      | msg m' =>
        simp only [Sink.runOps, List.foldl_cons, Sink.step]
        exact ih _ v (write_keeps_tag ls t m' v ht hq.1) hq.2
  have := key ops _ _ (rotation_tags_new_file ls s m hrot).1 hq
  simp [Sink.creation, this]

/-! ### round 5: the catch-up loop as written, its cost -/

/-- `catch_up_loop_as_written`: the loop of the source – `while self._limit <= record_time:
self._limit = self._step_forward(self._limit)`, with NO guard against a step that stands still –
started on a boundary `l ≤ r` of any accepted rotation: it leaves through its condition, its body
runs at least once and at most `r − l + 1` times (the measure `r − _limit` drops by at least one
microsecond per iteration), and the guarded loop of the model computes the same `_limit` (the stall
branch of `Rotation.catchUp` is dead code). -/
theorem catch_up_loop_as_written (F : Form) (ok : StepOK F) (c l r : Int) (hl : F.B c l) (hle : l ≤ r) :
    r < catchUpRaw F.cfg.step.apply (catchUpFuel l r) l r ∧
    F.B c (catchUpRaw F.cfg.step.apply (catchUpFuel l r) l r) ∧
    1 ≤ catchUpIters F.cfg.step.apply (catchUpFuel l r) l r ∧
    (catchUpIters F.cfg.step.apply (catchUpFuel l r) l r : Int) ≤ r - l + 1 ∧
    catchUp F.cfg.step.apply (catchUpFuel l r) l r = catchUpRaw F.cfg.step.apply (catchUpFuel l r) l r := by
  have hP : ∀ l, F.B c l → F.B c (F.cfg.step.apply l) ∧ l + 1 ≤ F.cfg.step.apply l := by
    intro l hl
    have := ok.step c l hl
    exact ⟨this.1, by have := this.2.1; omega⟩
  have h := catchUp_measure F.cfg.step.apply (F.B c) 1 (by omega) hP r (r - l).toNat l (catchUpFuel l r) hl hle
    (by rw [Int.ediv_one]; omega) (by unfold catchUpFuel; omega)
  obtain ⟨a, b, c', d, e⟩ := h
  exact ⟨a, b, d, by omega, e⟩

/-- `catch_up_interval_cost`: for an interval rotation (`timedelta`, duration spelling) of `d > 0`
microseconds the loop runs EXACTLY `⌊(r − l)/d⌋ + 1` times and leaves `_limit = l + (⌊(r − l)/d⌋ + 1)·d`:
the cost of one logging call is linear in the idle gap measured in intervals, without bound
(observation recorded in design_notes/C07.md: `"1 us"` after an idle hour). -/
theorem catch_up_interval_cost (d : Int) (hd : 0 < d) (l r : Int) (hle : l ≤ r) :
    catchUpRaw (Form.interval d).cfg.step.apply (catchUpFuel l r) l r = l + ((r - l) / d + 1) * d ∧
    (catchUpIters (Form.interval d).cfg.step.apply (catchUpFuel l r) l r : Int) = (r - l) / d + 1 := by
  have hq0 : 0 ≤ (r - l) / d := Int.ediv_nonneg (by omega) (by omega)
  have hqle : (r - l) / d ≤ r - l := Int.ediv_le_self _ (by omega)
  have h := catchUp_interval_closed_form d hd r ((r - l) / d).toNat l (catchUpFuel l r) hle (by omega)
    (by unfold catchUpFuel; omega)
  have hf : (Form.interval d).cfg.step.apply = fun t => forwardInterval t d := rfl
  rw [hf, h.1, h.2]
  constructor
  · have : (((r - l) / d).toNat : Int) = (r - l) / d := by omega
    rw [this]
  · push_cast; omega

/-- the observation as a number: `"1 us"`, next record an hour later – 3 600 000 001 iterations -/
example : (catchUpIters (Form.interval 1).cfg.step.apply (catchUpFuel 0 3600000000) 0 3600000000 : Int) = 3600000001 := by
  rw [(catch_up_interval_cost 1 (by omega) 0 3600000000 (by omega)).2]; decide

/-! ### round 5: a time condition anywhere in a list of conditions -/

/-- `group_never_misses_boundary`: a time condition at ANY position of a `RotationGroup` (members
`pre` before it, `post` after it, of any kind and in any state), over every history: the members are
combined by `any` in list order (regenerated `Gen.groupCombinator`); on each call either an earlier
member fires – the group rotates and the time member, not being asked, keeps its `_limit` – or the
member is asked, and then a boundary of its own between the latest instant it has seen and the
record's instant makes the group rotate.  So no boundary is ever lost to the short-circuit. -/
theorem group_never_misses_boundary (F : Form) (ok : StepOK F) (pre post : List Leaf) (c off : Int)
    (xs : List CallIn) (hx : ∀ x ∈ xs, x.ctime = c ∧ x.stamp.off = off) :
    groupCombinator = .anyInOrder ∧
    initStates (pre ++ .time F.cfg :: post) = initStates pre ++ none :: initStates post ∧
    GroupAgrees (F.B (c + F.frame off)) (F.frame off) pre post F.cfg (c + F.frame off)
      (initStates pre) none (initStates post) xs := by
  refine ⟨by decide, by simp [initStates], ?_⟩
  exact groupAgrees_from_any_state F ok pre post c off xs _ _ none _ (by simp [initStates]) hx rfl

/-- `group_no_file_mixes_periods`: if a list of conditions lets a record into the current file, then
its time member (any position) was asked and no boundary of it lies between the latest instant it
has seen and the record -/
theorem group_no_file_mixes_periods (F : Form) (ok : StepOK F) (pre post : List Leaf) (c off τ : Int)
    (sp sq : List (Option Int)) (st : Option Int) (x : CallIn) (hlen : sp.length = pre.length)
    (hc : x.ctime = c) (ho : x.stamp.off = off) (hinv : Inv F (c + F.frame off) τ st)
    (hsame : (groupCall (pre ++ .time F.cfg :: post) (sp ++ st :: sq) x).1 = false) :
    (groupCall pre sp x).1 = false ∧ ¬ ∃ b, F.B (c + F.frame off) b ∧ τ < b ∧ b ≤ x.stamp.utc + F.frame off := by
  have hat := groupCall_at pre post F.cfg sp sq st x hlen
  rw [hat] at hsame
  by_cases hp : (groupCall pre sp x).1 = true
  · simp [hp] at hsame
  · simp only [hp, Bool.false_eq_true, if_false] at hsame
    refine ⟨by simpa using hp, ?_⟩
    intro hb
    have ht := (timeCall_step F ok c off τ st x hc ho hinv).2.mpr hb
    simp [ht] at hsame

/-- non-vacuity: `[size 100, "daily"]` – the size member fires on the record that also crosses
midnight, the time member is skipped and fires on the next record -/
example :
    runCalls [.size 100, .time Form.daily.cfg] (initStates [.size 100, .time Form.daily.cfg])
      [⟨0, ⟨1, 0⟩, 60, 60, 0⟩, ⟨0, ⟨86400000001, 0⟩, 60, 60, 60⟩, ⟨0, ⟨86400000002, 0⟩, 10, 10, 60⟩,
       ⟨0, ⟨86400000003, 0⟩, 10, 10, 10⟩] = [false, true, true, false] := by decide +kernel

/-! ### round 5: an aware time does not depend on the zone of the records -/

theorem timeCall_aware_off (ti : TimeInit) (z : Int) (hz : ti.tz = some z) (st : Option Int) (x : CallIn) (off' : Int) :
    timeCall (Form.dailyAt ti).cfg st x =
      timeCall (Form.dailyAt ti).cfg st { x with stamp := { x.stamp with off := off' } } := by
  obtain ⟨h, m, s, us, tz⟩ := ti
  simp only at hz
  subst hz
  cases st <;> rfl

theorem timeRun_aware_off (ti : TimeInit) (z : Int) (hz : ti.tz = some z) (off' : Int) :
    ∀ (xs : List CallIn) (st : Option Int),
      timeRun (Form.dailyAt ti).cfg st xs =
        timeRun (Form.dailyAt ti).cfg st (xs.map fun x => { x with stamp := { x.stamp with off := off' } }) := by
  intro xs
  induction xs with
  | nil => intro st; rfl
  | cons x xs ih =>
    intro st
    simp only [timeRun, List.map_cons]
    rw [← timeCall_aware_off ti z hz st x off', ih]

theorem latest_map_off (g off' : Int) : ∀ (xs : List CallIn) (τ : Int),
    latest g τ (xs.map fun x => { x with stamp := { x.stamp with off := off' } }) = latest g τ xs := by
  intro xs
  induction xs with
  | nil => intro τ; rfl
  | cons x xs ih => intro τ; simp only [List.map_cons, latest]; exact ih _

/-- `aware_time_any_record_zones`: for an AWARE `datetime.time` the main invariant needs no
hypothesis on the records' zones at all – they may change from record to record (a zone with
daylight-saving changes, loggers in different zones): `_limit` is the least instant after the
latest one seen whose time of day IN THE ZONE OF THE TIME is the one asked for. -/
theorem aware_time_any_record_zones (ti : TimeInit) (z : Int) (hz : ti.tz = some z) (hv : ti.InRange)
    (c : Int) (x : CallIn) (xs : List CallIn) (hx : ∀ y ∈ x :: xs, y.ctime = c) :
    ∃ l, (timeRun (Form.dailyAt ti).cfg none (x :: xs)).2 = some l ∧
      IsNext ((Form.dailyAt ti).B (c + z)) (latest z (c + z) (x :: xs)) l := by
  have ok : StepOK (Form.dailyAt ti) := step_obligations (Form.dailyAt ti) hv (by simp [Form.Plain])
  have hfr : ∀ off, (Form.dailyAt ti).frame off = z := by intro off; simp [Form.frame, hz]
  have h := limit_is_next_boundary (Form.dailyAt ti) ok c 0
    { x with stamp := { x.stamp with off := 0 } } (xs.map fun y => { y with stamp := { y.stamp with off := 0 } })
    (by
      intro y hy
      rcases List.mem_cons.mp hy with h | h
      · subst h; exact ⟨hx x (by simp), rfl⟩
      · obtain ⟨y0, hy0, rfl⟩ := List.mem_map.mp h
        exact ⟨hx y0 (by simp [hy0]), rfl⟩)
  rw [hfr 0] at h
  have hrun := timeRun_aware_off ti z hz 0 (x :: xs) none
  have hlat := latest_map_off z 0 (x :: xs) (c + z)
  simp only [List.map_cons] at hrun hlat
  rw [← hrun, hlat] at h
  exact h

/-- non-vacuity: 12:00 at +9 h, records arriving in three different zones -/
example :
    (timeRun (Form.dailyAt ⟨12, 0, 0, 0, some 32400000000⟩).cfg none
      [⟨0, ⟨1, 3600000000⟩, 1, 1, 0⟩, ⟨0, ⟨10800000000, -18000000000⟩, 1, 1, 0⟩, ⟨0, ⟨10800000001, 0⟩, 1, 1, 0⟩]).1
      = [false, true, false] := by decide +kernel

/-! ### round 5: which creation-time functions are installed; file systems that cannot keep the tag -/

/-- `platform_dispatch`: `load_ctime_functions` (dispatch regenerated, `Gen.ctimeDispatch`) installs the
Windows pair on `os.name == "nt"`, else the birth-time pair where `os.stat_result` has `st_birthtime`,
else the extended-attribute pair where `os.getxattr`/`os.setxattr` exist, else the `st_mtime` fallback –
so on Linux the functions the theorems `creation_time_source` … are about are the ones in use -/
theorem platform_dispatch (b x : Bool) :
    platformOf true b x = .windows ∧ platformOf false true x = .macos ∧
    platformOf false false true = .linuxXattr ∧ platformOf false false false = .noXattr := by
  cases b <;> cases x <;> decide

/-- `untagged_restart_counts_from_last_write`: where the creation tag cannot be persisted (`set_ctime` a
no-op: the fallback pair, or `setxattr` refused by the file system) a sink that is restarted at any point
of any history reads as "creation time" the instant of the LAST RECORD written before (the modification
time) – and where it can be persisted the history is the one `restart_counts_from_rotation_instant` is
about. -/
theorem untagged_restart_counts_from_last_write (ls : List Leaf) (ctime size : Int) (ops : List SinkOp) :
    (Sink.runOpsOn false ls (Sink.init ls ctime size) ops).creation = lastStamp ctime ops ∧
    Sink.runOpsOn true ls (Sink.init ls ctime size) ops = Sink.runOps ls (Sink.init ls ctime size) ops :=
  ⟨(Sink.untagged_creation ls ops (Sink.init ls ctime size) rfl).2, Sink.runOpsOn_true ls ops _⟩

/-- what that means for the property (observation, design_notes/C07.md): rotation every 100 µs, file created at 0,
records at 150 (rotates: the new file is created at 150), 190, then the sink is restarted, record at 260.  With
the tag the boundary 250 = 150 + 100 is honoured (a third file); without it the sink counts from the last write,
190, and the record at 260 stays in the second file. -/
theorem untagged_interval_restart_is_late :
    let ls := [Leaf.time (Form.interval 100).cfg]
    let ops := [SinkOp.msg ⟨⟨150, 0⟩, 1, 1, 1⟩, .msg ⟨⟨190, 0⟩, 1, 1, 1⟩, .restart, .msg ⟨⟨260, 0⟩, 1, 1, 1⟩]
    ((Sink.runOpsOn true ls (Sink.init ls 0 0) ops).files.map fun f => f.msgs.map Prod.fst) = [[], [0, 1], [2]] ∧
    ((Sink.runOpsOn false ls (Sink.init ls 0 0) ops).files.map fun f => f.msgs.map Prod.fst) = [[], [0, 1, 2]] := by
  decide +kernel

/-! ### round 5: every accepted time / weekday spelling denotes a VALID meaning -/

/-- `spelling_builds_valid_form`: whatever `parse_daytime` accepts is in range – the weekday is 0..6 (names table and
`w<N>` range test regenerated), the time of day has hour 0..23, minute and second 0..59, microsecond 0..999999 and is
naive (`datetime.strptime` modelled for the regenerated format list, `%I`/`%p` arithmetic included) – so the meaning it
builds is a valid `Form`.  This discharges the side condition `F.Valid` of the invariant for spellings (it used to be
covered by the correspondence run only). -/
theorem spelling_builds_valid_form (s : Str) :
    (∀ t, parseDaytime s = .ok (some (none, some t)) → (Form.dailyAt t).Valid) ∧
    (∀ d t, parseDaytime s = .ok (some (some d, some t)) → (Form.weekdayAt d t).Valid) ∧
    (∀ d, parseDaytime s = .ok (some (some d, none)) → (Form.weekdayAt d midnight).Valid) := by
  refine ⟨?_, ?_, ?_⟩
  · intro t h
    exact ((parseDaytime_inRange s _ _ h).2 t rfl).1
  · intro d t h
    have hr := parseDaytime_inRange s _ _ h
    have hd := hr.1 d rfl
    have ht := hr.2 t rfl
    exact ⟨hd.1, hd.2, ht.1, ht.2⟩
  · intro d h
    have hd := (parseDaytime_inRange s _ _ h).1 d rfl
    exact ⟨hd.1, hd.2, by simp [TimeInit.InRange, midnight], rfl⟩

/-- hence the main invariant holds for every rotation built from a weekday[-at-time] or time spelling, with no
hypothesis left about the spelling beyond "the parser accepted it" -/
theorem accepted_daytime_spelling_is_exact (s : Str) (d : Int) (t : TimeInit)
    (h : parseDaytime s = .ok (some (some d, some t))) (c off : Int) (x : CallIn) (xs : List CallIn)
    (hx : ∀ y ∈ x :: xs, y.ctime = c ∧ y.stamp.off = off) :
    ∃ l, (timeRun (Form.weekdayAt d t).cfg none (x :: xs)).2 = some l ∧
      IsNext ((Form.weekdayAt d t).B (c + (Form.weekdayAt d t).frame off))
        (latest ((Form.weekdayAt d t).frame off) (c + (Form.weekdayAt d t).frame off) (x :: xs)) l :=
  limit_is_next_boundary _ (step_obligations_all _ ((spelling_builds_valid_form s).2.1 d t h)) c off x xs hx

/-- non-vacuity: "w0 at 11:30 PM"-like spellings are rejected, "Monday at 13:00" is accepted and valid -/
example : (Form.weekdayAt 0 ⟨13, 0, 0, 0, none⟩).Valid :=
  (spelling_builds_valid_form "Monday at 13:00".toList).2.1 0 ⟨13, 0, 0, 0, none⟩ rfl

/-! ### round 5: `parse_duration` with the arithmetic Python performs -/

/-- `duration_float_table`: `parseDurationF` – `float(value) * unit` summed in IEEE-754 binary64 (units regenerated as
the source holds them: ints, and the float literals 0.001 / 0.000001), then `datetime.timedelta(seconds=<float>)` as
`_datetimemodule.c` computes it – evaluated by the kernel.  The documented spellings denote exactly what the exact-decimal
reading `parseDuration` says; where a value falls between two microseconds the two readings can part: `"1.0000005 s"`
is 1 000 001 µs for Python (the double lies above the half) and 1 000 000 µs read as a decimal (half to even).  The
harness therefore keeps such ties out of the function-level stream and checks the binary64 reading bit for bit instead. -/
theorem duration_float_table :
    ((parseDurationF "1h 30 minutes".toList).toOption = some (some 5400000000) ∧
     (parseDurationF "1 week, 2 d".toList).toOption = some (some 777600000000) ∧
     (parseDurationF "1.5 h".toList).toOption = some (some 5400000000) ∧
     (parseDurationF "100 ms".toList).toOption = some (some 100000) ∧
     (parseDurationF "1.1 s".toList).toOption = some (some 1100000) ∧
     (parseDurationF "1.5 us".toList).toOption = some (some 2) ∧
     (parseDurationF "2.5 us".toList).toOption = some (some 2) ∧
     (parseDurationF "1.0000005 s".toList).toOption = some (some 1000001) ∧
     (parseDuration "1.0000005 s".toList).toOption = some (some 1000000) ∧
     (parseDurationF "12:00".toList).toOption = some none ∧
     (parseDurationF "1 parsec".toList).toOption = none ∧ (parseDurationF "1000000000 d".toList).toOption = none) := by
  decide +kernel

/-- `duration_float_exact`: for a duration spelling `<n> <unit>` with an integer `n` and a unit of `U` whole seconds
(`s`, `min`, `h`, `d`, `w`, `month`, `y`: ints in the source) Python's own arithmetic – `0 + float(n) * U` in binary64,
then `datetime.timedelta(seconds=…)` – yields EXACTLY `n·U` seconds, for all `n·U < 2^53`: no rounding anywhere, so
the exact-decimal reading the theorems use is what the running code computes (rests on `F64.roundPos_exact`). -/
theorem duration_float_exact (n U : Nat) (hn : 0 < n) (hU : 0 < U) (h : n * U < 2 ^ 53) :
    F64.tdSeconds (F64.add (.fin false 0 0) (F64.mul (Dec.toF64 ⟨(n : Int), 0⟩) (F64.ofInt (U : Int)))) =
      .us (((n * U : Nat) : Int) * 1000000) := by
  have hnlt : n < 2 ^ 53 := Nat.lt_of_le_of_lt (Nat.le_mul_of_pos_right n hU) h
  have hUlt : U < 2 ^ 53 := Nat.lt_of_le_of_lt (Nat.le_mul_of_pos_left U hn) h
  have hs : F64.IsDy (Dec.toF64 ⟨(n : Int), 0⟩) false n 0 0 := by
    have h1 : decide ((n : Int) < 0) = false := by simp
    have h2 : (n : Int).natAbs = n := by simp
    simp only [Dec.toF64, h1, h2]
    exact F64.ofDec_nat_dy n hn hnlt
  have hu := F64.ofNat_dy U hU hUlt
  have hm := F64.mul_dy _ _ false false n 0 0 U 0 0 hs hu hn hU h (by omega) (by omega)
  have hb : (false != false) = false := by decide
  rw [hb] at hm
  exact F64.tdSeconds_whole _ _ (F64.add_zero_dy _ _ hm (Nat.mul_pos hn hU) h)

/-- non-vacuity: "90 minutes" – `float("90") * 60` -/
example : F64.tdSeconds (F64.add (.fin false 0 0) (F64.mul (Dec.toF64 ⟨90, 0⟩) (F64.ofInt 60))) = .us 5400000000 :=
  duration_float_exact 90 60 (by decide) (by decide) (by decide)

/-- the shortest distance between two boundaries of the periodic meanings (microseconds) -/
def periodOf : Form → Int
  | .hourly => 3600000000
  | .daily => 86400000000
  | .dailyAt _ => 86400000000
  | .weekly => 604800000000
  | .weekdayAt _ _ => 604800000000
  | _ => 1

/-- `catch_up_cost_periodic`: for hourly / daily / daily-at-a-time / weekly / weekday[-at-time] rotations the loop as
written runs at most `(r − l)/period + 1` times from a boundary `l ≤ r` (period = 1 h, 1 d, 7 d): the measure
`record_time − _limit` drops by a whole period per iteration (for the remaining meanings `periodOf` is 1 µs and the
statement is `catch_up_loop_as_written`; intervals have the exact count `catch_up_interval_cost`) -/
theorem catch_up_cost_periodic (F : Form) (ok : StepOK F) (c l r : Int) (hl : F.B c l) (hle : l ≤ r) :
    (catchUpIters F.cfg.step.apply (catchUpFuel l r) l r : Int) ≤ (r - l) / periodOf F + 1 := by
  have hδ : 0 < periodOf F := by cases F <;> simp [periodOf]
  have hP : ∀ l, F.B c l → F.B c (F.cfg.step.apply l) ∧ l + periodOf F ≤ F.cfg.step.apply l := by
    intro l hl
    have hn := ok.step c l hl
    refine ⟨hn.1, ?_⟩
    have hlt := hn.2.1
    have hb := hn.1
    generalize F.cfg.step.apply l = l' at hn hlt hb
    cases F with
    | hourly => simp only [Form.B, periodOf] at *; omega
    | daily => simp only [Form.B, periodOf] at *; omega
    | dailyAt ti => simp only [Form.B, periodOf] at *; omega
    | weekly => simp only [Form.B, periodOf, weekdayOf] at *; omega
    | weekdayAt w ti => simp only [Form.B, periodOf, weekdayOf] at *; omega
    | interval d => simp only [periodOf]; omega
    | monthly => simp only [periodOf]; omega
    | yearly => simp only [periodOf]; omega
  have hq0 : 0 ≤ (r - l) / periodOf F := Int.ediv_nonneg (by omega) (by omega)
  have hqle : (r - l) / periodOf F ≤ r - l := Int.ediv_le_self _ (by omega)
  have h := catchUp_measure F.cfg.step.apply (F.B c) (periodOf F) hδ hP r ((r - l) / periodOf F).toNat l
    (catchUpFuel l r) hl hle (by omega) (by unfold catchUpFuel; omega)
  have := h.2.2.1
  omega

end C07
