import LoguruModel.Rotation.Spec
import LoguruModel.Rotation.Stream
import LoguruModel.Rotation.FloatParsers
import LoguruModel.Rotation.SizeGrammar
/-
C19 – property theorems: size-based rotation keeps every file within the configured number of
bytes.  `rotationSize` is the kernel regenerated from `Rotation.rotation_size` in /repo.
-/
namespace C19
open Py Rotation Rotation.Gen

/-- the regenerated kernel means: the file's size plus the ENCODED length exceeds the limit (this
is where a changed operator or a changed operand in `rotation_size` breaks the proofs) -/
theorem rotationSize_iff (tell b c S : Int) : rotationSize tell b c S = true ↔ tell + b > S := by
  unfold rotationSize
  first | (simp; done) | (simp; omega) | (constructor <;> intro h <;> simp at * <;> omega)

/-- `rotation_only_when_needed` (kernel level): the size condition fires exactly when appending the
encoded message to the current file would exceed the limit -/
theorem rotation_only_when_needed (S : Int) (st : Option Int) (x : CallIn) :
    ((leafCall (.size S) st x).1 = true ↔ x.tell + x.bytes > S) ∧ (leafCall (.size S) st x).2 = st := by
  simp [leafCall, rotationSize_iff]

/-- the limit may be fractional (`parse_size` of bits, floats): comparing an integer number of
bytes with `num/den` is comparing it with the floor, which is what the model stores -/
theorem floor_comparison (q : Rat') (hd : 0 < q.den) (n : Int) : n * (q.den : Int) > q.num ↔ n > q.floor := by
  unfold Rat'.floor
  have hd' : (0 : Int) < (q.den : Int) := by exact_mod_cast hd
  constructor
  · intro h
    exact Int.ediv_lt_of_lt_mul hd' (by omega)
  · intro h
    have := Int.lt_mul_of_ediv_lt hd' h
    omega

/-- the states list keeps its length (each member keeps its own `_limit`) -/
theorem groupCall_length : ∀ (ls : List Leaf) (ss : List (Option Int)) (x : CallIn),
    (groupCall ls ss x).2.length = ss.length := by
  intro ls
  induction ls with
  | nil => intro ss x; simp [groupCall]
  | cons l ls ih =>
    intro ss x
    cases ss with
    | nil => simp [groupCall]
    | cons s ss =>
      simp only [groupCall]
      split
      · simp
      · simp [ih ss x]

/-- `group_rotates_iff_any`: a list of conditions rotates iff some member, asked in list order with
its own state, says so -/
theorem group_rotates_iff_any : ∀ (ls : List Leaf) (ss : List (Option Int)) (x : CallIn),
    ss.length = ls.length →
    (groupCall ls ss x).1 = (List.zip ls ss).any (fun p => (leafCall p.1 p.2 x).1) := by
  intro ls
  induction ls with
  | nil => intro ss x _; simp [groupCall]
  | cons l ls ih =>
    intro ss x hlen
    cases ss with
    | nil => simp at hlen
    | cons s ss =>
      simp only [groupCall, List.zip_cons_cons, List.any_cons]
      split
      · rename_i h; simp [h]
      · rename_i h
        simp only [Bool.not_eq_true] at h
        simp [h, ih ss x (by simpa using hlen)]

/-- `any` short-circuits: members after the first one that fires are not asked and keep their state
(so a time condition skipped on this call still holds its boundary for the next call) -/
theorem group_short_circuit_keeps_state (l : Leaf) (ls : List Leaf) (s : Option Int) (ss : List (Option Int))
    (x : CallIn) (h : (leafCall l s x).1 = true) :
    groupCall (l :: ls) (s :: ss) x = (true, (leafCall l s x).2 :: ss) := by
  simp [groupCall, h]

/-- a group that contains the size condition does not fire ⇒ the message fits -/
theorem group_false_fits : ∀ (ls : List Leaf) (ss : List (Option Int)) (x : CallIn) (S : Int),
    ss.length = ls.length → Leaf.size S ∈ ls → (groupCall ls ss x).1 = false → x.tell + x.bytes ≤ S := by
  intro ls
  induction ls with
  | nil => intro ss x S _ hm; simp at hm
  | cons l ls ih =>
    intro ss x S hlen hm hf
    cases ss with
    | nil => simp at hlen
    | cons s ss =>
      simp only [groupCall] at hf
      split at hf
      · simp at hf
      · rename_i hb
        simp only [Bool.not_eq_true] at hb
        rcases List.mem_cons.mp hm with h | h
        · subst h
          simp only [leafCall] at hb
          have hn : ¬ (x.tell + x.bytes > S) := fun hgt => by
            have := (rotationSize_iff x.tell x.bytes x.chars S).mpr hgt
            rw [hb] at this; exact Bool.false_ne_true this
          omega
        · exact ih ss x S (by simpa using hlen) h (by simpa using hf)

/-- the bound of the property: at most `max S (size when first opened)` bytes, unless the file
consists of a single message written into a fresh file -/
def Bounded (S : Int) (f : FileRec) : Prop :=
  f.size ≤ max S f.initial ∨ (f.initial = 0 ∧ f.msgs.length = 1)

def SinkInv (ls : List Leaf) (S : Int) (s : Sink) : Prop :=
  s.states.length = ls.length ∧ (∀ f ∈ s.closed, Bounded S f) ∧ Bounded S s.cur

theorem sumBytes_append (a : List (Nat × Int)) (i : Nat) (n : Int) : sumBytes (a ++ [(i, n)]) = sumBytes a + n := by
  induction a with
  | nil => simp [sumBytes]
  | cons p r ih => obtain ⟨j, k⟩ := p; simp [sumBytes, ih]; omega

theorem write_preserves (ls : List Leaf) (S : Int) (hS : Leaf.size S ∈ ls) (s : Sink) (m : Msg)
    (hm : m.disk ≤ m.bytes) (hinv : SinkInv ls S s) : SinkInv ls S (Sink.write ls s m) := by
  obtain ⟨hlen, hclosed, hcur⟩ := hinv
  unfold Sink.write
  simp only
  split
  · refine ⟨by simp [groupCall_length, hlen], ?_, ?_⟩
    · intro f hf
      rcases List.mem_append.mp hf with h | h
      · exact hclosed f h
      · simp at h; subst h; exact hcur
    · right; simp
  · rename_i hb
    simp only [Bool.not_eq_true] at hb
    have hfit := group_false_fits ls s.states _ S hlen hS hb
    simp only at hfit
    refine ⟨by simp [groupCall_length, hlen], hclosed, ?_⟩
    left
    simp only [FileRec.size, sumBytes_append] at hfit ⊢
    omega

/-- `file_size_bounded` – FULL statement (kept visible; it is FALSE of the current code, see
`file_size_bounded_statement_false`): any message sizes – the encoding AND the text layer are
arbitrary oracles: `bytes` is whatever `len(message.encode(...))` returns, `disk` whatever the
stream appends –, any limit, any pre-existing size, any companion conditions in the list, any
history: every file the sink has touched satisfies the bound. -/
def file_size_bounded_statement : Prop :=
  ∀ (ls : List Leaf) (S : Int), Leaf.size S ∈ ls → ∀ (ctime P : Int) (ms : List Msg),
    ∀ f ∈ (Sink.run ls (Sink.init ls ctime P) ms).files, Bounded S f

/-- proved part: as long as the text layer appends no more bytes than `message.encode()` has
(no newline expansion: open()'s `newline` is None on POSIX, "", "\n" or "\r"), the bound holds for
any encoding oracle, any limit, any list containing the size condition, any pre-existing size and
any history (former finding F4 stays fixed). -/
theorem file_size_bounded_partial (ls : List Leaf) (S : Int) (hS : Leaf.size S ∈ ls) (ctime P : Int) (ms : List Msg)
    (hms : ∀ m ∈ ms, m.disk ≤ m.bytes) :
    ∀ f ∈ (Sink.run ls (Sink.init ls ctime P) ms).files, Bounded S f := by
  have hinit : SinkInv ls S (Sink.init ls ctime P) := by
    refine ⟨by simp [Sink.init, initStates], by simp [Sink.init], ?_⟩
    left; simp [Sink.init, FileRec.size, sumBytes]; omega
  have hrun : ∀ (ms : List Msg) (s : Sink), (∀ m ∈ ms, m.disk ≤ m.bytes) → SinkInv ls S s →
      SinkInv ls S (Sink.run ls s ms) := by
    intro ms
    induction ms with
    | nil => intro s _ h; simpa [Sink.run] using h
    | cons m ms ih =>
      intro s hm h
      simpa [Sink.run] using ih _ (fun y hy => hm y (by simp [hy]))
        (write_preserves ls S hS s m (hm m (by simp)) h)
  obtain ⟨_, hc, hcur⟩ := hrun ms _ hms hinit
  intro f hf
  rcases List.mem_append.mp hf with h | h
  · exact hc f h
  · simp at h; subst h; exact hcur

/-- WITNESS (finding `C19-newline-translation-undercounted`, replayed on the implementation by
harness/c19.py): limit 17, newline="\r\n", two messages of 8 encoded bytes that take 9 bytes on
disk: the second one passes the test (9 + 8 ≤ 17) and the file ends up with 18 bytes. -/
theorem newline_translation_witness :
    ((Sink.run [.size 17] (Sink.init [.size 17] 0 0) [⟨⟨0, 0⟩, 8, 8, 9⟩, ⟨⟨1, 0⟩, 8, 8, 9⟩]).files.map
      (fun f => (f.size, f.msgs.length))) = [(18, 2)] := by decide +kernel

theorem file_size_bounded_statement_false : ¬ file_size_bounded_statement := by
  intro h
  have hb := h [.size 17] 17 (by simp) 0 0 [⟨⟨0, 0⟩, 8, 8, 9⟩, ⟨⟨1, 0⟩, 8, 8, 9⟩]
    { initial := 0, msgs := [(0, 9), (1, 9)] } (by decide +kernel)
  rcases hb with hb | hb
  · revert hb; decide +kernel
  · exact absurd hb.2 (by decide)

/-- `minimal`: with the size condition alone, a new file is started only when the message does not fit -/
theorem new_file_only_when_needed (S : Int) (s : Sink) (m : Msg) (hlen : s.states.length = 1) :
    ((Sink.write [.size S] s m).closed.length = s.closed.length + 1 ↔ s.cur.size + m.bytes > S) := by
  cases hs : s.states with
  | nil => simp [hs] at hlen
  | cons st rest =>
    have hr : rest = [] := by cases rest with | nil => rfl | cons _ _ => simp [hs] at hlen
    subst hr
    unfold Sink.write
    simp only [hs, groupCall, leafCall]
    by_cases h : s.cur.size + m.bytes > S
    · have hk := (rotationSize_iff s.cur.size m.bytes m.chars S).mpr h
      simp [hk, h]
    · have hk : rotationSize s.cur.size m.bytes m.chars S = false := by
        cases hb : rotationSize s.cur.size m.bytes m.chars S with
        | false => rfl
        | true => exact absurd ((rotationSize_iff _ _ _ _).mp hb) h
      simp [hk, h]

/-- `rotation_starts_fresh_file`: a rotation closes the current file for good (it joins `closed`
unchanged) and the message goes alone into a new, empty file – the sink never reopens the full file
(regenerated shape: `_create_file` remembers the path as `_create_path()` produced it, which is what
`_terminate_file` compares to decide the rename, whatever symbolic links the path goes through) -/
theorem rotation_starts_fresh_file (ls : List Leaf) (s : Sink) (m : Msg)
    (hrot : (groupCall ls s.states
      { ctime := s.creation, stamp := m.stamp, bytes := m.bytes, chars := m.chars, tell := s.cur.size }).1 = true) :
    filePathIsCreatedPath = true ∧
    (Sink.write ls s m).closed = s.closed ++ [s.cur] ∧
    (Sink.write ls s m).cur = { initial := 0, msgs := [(s.next, m.disk)] } := by
  refine ⟨by decide, ?_, ?_⟩ <;> simp [Sink.write, hrot]

/-- `append_fits_despite_foreign_writers`: whatever another writer appended to the current file since
the sink's last write, a message is appended (no rotation) only if it fits behind the REAL end of the
file – the size test reads the end-of-file position (`file.seek(0, 2)` before `tell()`, pinned shape),
not the sink's own offset -/
theorem append_fits_despite_foreign_writers (ls : List Leaf) (S : Int) (hS : Leaf.size S ∈ ls) (s : Sink)
    (hlen : s.states.length = ls.length) (n : Int) (m : Msg)
    (hno : (groupCall ls (Sink.foreign s n).states
      { ctime := (Sink.foreign s n).creation, stamp := m.stamp, bytes := m.bytes, chars := m.chars,
        tell := (Sink.foreign s n).cur.size }).1 = false) :
    s.cur.size + n + m.bytes ≤ S ∧ (Sink.write ls (Sink.foreign s n) m).closed = s.closed := by
  have hfit := group_false_fits ls (Sink.foreign s n).states _ S (by simpa [Sink.foreign] using hlen) hS hno
  constructor
  · simp only [Sink.foreign, FileRec.size] at hfit
    simp only [FileRec.size]
    omega
  · unfold Sink.write
    simp only [hno]
    simp [Sink.foreign]

/-- the shape it refutes: a sink that trusted its own offset (12 bytes written) would append 5 more
bytes under a limit of 20 although another writer has meanwhile brought the file to 22 bytes -/
theorem own_offset_is_not_file_size :
    rotationSize 12 5 5 20 = false ∧ rotationSize 22 5 5 20 = true := by decide

/-- former finding F4, now a regression theorem: limit 16, messages of 5 characters / 9 bytes –
every file stays within 16 bytes (one message per file), evaluated on the generated kernel -/
theorem size_bound_regression :
    ((Sink.run [.size 16] (Sink.init [.size 16] 0 0)
        [⟨⟨0, 0⟩, 9, 5, 9⟩, ⟨⟨1, 0⟩, 9, 5, 9⟩, ⟨⟨2, 0⟩, 9, 5, 9⟩, ⟨⟨3, 0⟩, 9, 5, 9⟩]).files.map FileRec.size) = [9, 9, 9, 9] := by
  decide +kernel

/-- `parse_size_denotes`: the documented spellings denote the documented quantities -/
theorem parse_size_denotes :
    (parseSize "10 KB".toList).map (·.map Rat'.floor) = .ok (some 10000) ∧
    (parseSize "1.5 MiB".toList).map (·.map Rat'.floor) = .ok (some 1572864) ∧
    (parseSize "8 kb".toList).map (·.map Rat'.floor) = .ok (some 1000) ∧
    (parseSize "100 MB".toList).map (·.map Rat'.floor) = .ok (some 100000000) ∧
    (parseSize "0.5 GB".toList).map (·.map Rat'.floor) = .ok (some 500000000) ∧
    (parseSize "1 d".toList) = .ok none ∧ (parseSize "12:00".toList) = .ok none ∧
    (parseSize "1.2.3 MB".toList) = .error .valueError := by
  refine ⟨rfl, rfl, rfl, rfl, rfl, rfl, rfl, rfl⟩

/-- the unit arithmetic of `parse_size` as the code has it now -/
theorem size_unit_table :
    sizeUnitLetters = "kmgtpezy".toList ∧ sizeUnitOffset = 1 ∧ sizeBinaryBase = 1024 ∧ sizeDecimalBase = 1000 ∧
    sizeBitDivisor = [('b', 8), ('B', 1)] := by decide

/-- a size spelling builds the same rotation as the number it denotes -/
theorem size_spelling_eq_number (s : Str) (q : Rat') (h : parseSize s = .ok (some q)) :
    makeFromStr s = makeLeaf (.num q.floor) := by
  simp [makeFromStr, makeLeaf, h, bind, Except.bind]

/-- non-vacuity: a list with a size and a time condition, pre-existing content, a message larger
than the limit -/
example :
    ((Sink.run [.size 16, .time (Form.daily).cfg] (Sink.init [.size 16, .time (Form.daily).cfg] 0 10)
        [⟨⟨1, 0⟩, 6, 6, 6⟩, ⟨⟨2, 0⟩, 1, 1, 1⟩, ⟨⟨3, 0⟩, 40, 40, 40⟩, ⟨⟨86400000000, 0⟩, 1, 1, 1⟩]).files.map FileRec.size)
      = [16, 1, 40, 1] := by decide +kernel

/-! ### round 5: the stream behind the sink (buffering), the order of `FileSink.write`, `any` -/

/-- `buffered_tell_is_file_size`: the number `rotation_size` adds the encoded length to IS the real
size of the current file – the sink's own bytes whether flushed or still pending in the stream's
buffers, plus whatever other writers appended – because the source reads it with `file.seek(0, 2)`
followed by `file.tell()` (regenerated `Gen.sizeSource`).  Hence a sink over a real stream behaves
like the abstract sink the bound is proved for: ANY buffering policy, ANY line ends, whether or not
the size member was reached on a call. -/
theorem buffered_tell_is_file_size (pol : Stream → Int → Int) (asked : Bool) (ls : List Leaf) (b : BSink) (m : Msg)
    (hm : 0 ≤ m.disk) (hc : Coh b.stream b.sink.cur) :
    sizeSource = .seekEndTell ∧
    (b.stream.measure sizeSource).1 = b.sink.cur.size ∧
    (b.write pol asked ls m).sink = Sink.write ls b.sink m ∧
    Coh (b.write pol asked ls m).stream (b.write pol asked ls m).sink.cur := by
  have hsrc : sizeSource = .seekEndTell := by decide
  refine ⟨hsrc, ?_, BSink.write_refines pol asked ls b m hm hc⟩
  rw [hsrc, (Stream.measure_seekEndTell b.stream).1]; exact hc.1

/-- the two shapes it refutes.  Reading the size from the OS (`os.fstat(fd).st_size`) misses what is
still buffered: 90 bytes on disk, 30 pending, limit 100 – a 5-byte record is let in although the file
really holds 120.  Reading `tell()` without the seek misses other writers: own offset 12, file really
22 bytes long, limit 20. -/
theorem size_read_elsewhere_is_not_file_size :
    let s : Stream := { disk := 90, pending := 30, fdpos := 90 }
    let t : Stream := { disk := 22, pending := 0, fdpos := 12 }
    rotationSize (s.measure .statSize).1 5 5 100 = false ∧ rotationSize (s.measure .seekEndTell).1 5 5 100 = true ∧
    rotationSize (t.measure .tellOnly).1 5 5 20 = false ∧ rotationSize (t.measure .seekEndTell).1 5 5 20 = true := by
  decide

theorem runOps_msgs (ls : List Leaf) : ∀ (ms : List (Msg × Bool)) (s : Sink),
    Sink.runOps ls s ((ms.map fun p => BOp.msg p.1 p.2).map BOp.abs) = Sink.run ls s (ms.map Prod.fst) := by
  intro ms
  induction ms with
  | nil => intro s; rfl
  | cons p ms ih =>
    intro s
    simp only [List.map_cons, Sink.runOps, Sink.run, List.foldl_cons, BOp.abs, Sink.step]
    exact ih _

/-- `disk_size_bounded_any_buffering`: the bound of the property on what `os.stat` shows, for a sink
writing through a buffered stream: any limit, any list containing the size condition, any
pre-existing size, any history of records (each with the flag whether `any` reached the size member),
ANY buffering policy – every file the sink touched satisfies the bound on its real size, and the
bytes of the current file that have reached the OS never exceed its real size. -/
theorem disk_size_bounded_any_buffering (pol : Stream → Int → Int) (ls : List Leaf) (S : Int) (hS : Leaf.size S ∈ ls)
    (ctime P : Int) (ms : List (Msg × Bool)) (hms : ∀ p ∈ ms, 0 ≤ p.1.disk ∧ p.1.disk ≤ p.1.bytes) :
    let b := BSink.run pol ls ⟨Sink.init ls ctime P, Stream.opened P⟩ (ms.map fun p => BOp.msg p.1 p.2)
    (∀ f ∈ b.sink.files, Bounded S f) ∧ b.stream.disk ≤ b.sink.cur.size ∧ b.stream.logical = b.sink.cur.size := by
  intro b
  have h0 : Coh (Stream.opened P) (Sink.init ls ctime P).cur := by
    simp [Coh, Stream.opened, Stream.logical, Sink.init, FileRec.size, sumBytes]
  have hr := BSink.run_refines pol ls (ms.map fun p => BOp.msg p.1 p.2) ⟨Sink.init ls ctime P, Stream.opened P⟩
    (by
      intro o ho
      obtain ⟨p, hp, rfl⟩ := List.mem_map.mp ho
      exact (hms p hp).1) h0
  have hs : b.sink = Sink.run ls (Sink.init ls ctime P) (ms.map Prod.fst) := by
    show (BSink.run pol ls _ _).sink = _
    rw [hr.1, runOps_msgs]
  refine ⟨?_, Coh.disk_le _ _ hr.2, hr.2.1⟩
  rw [hs]
  exact file_size_bounded_partial ls S hS ctime P (ms.map Prod.fst) (by
    intro m hm
    obtain ⟨p, hp, rfl⟩ := List.mem_map.mp hm
    exact (hms p hp).2)

/-- non-vacuity: limit 100, a policy that never flushes by itself (a large `buffering`), five records of 30
bytes: the size test still sees 90 + 30 > 100 and rotates before the fourth -/
example :
    ((BSink.run (fun _ _ => 0) [.size 100] ⟨Sink.init [.size 100] 0 0, Stream.opened 0⟩
        (([0, 1, 2, 3, 4] : List Int).map fun i => BOp.msg ⟨⟨i, 0⟩, 30, 30, 30⟩ true)).sink.files.map FileRec.size) = [90, 60] := by
  decide +kernel

/-- `rotation_check_precedes_write`: `FileSink.write` opens the file if needed, THEN asks the rotation
function, THEN writes (regenerated `Gen.writeOrder`), which is the order `Sink.write` models: the record
that does not fit is the first record of the new file.  Refuted shape (write, then check): the file
already holds the record that did not fit – 12 + 9 = 21 bytes under a limit of 16. -/
theorem rotation_check_precedes_write (ls : List Leaf) (s : Sink) (m : Msg)
    (hrot : (groupCall ls s.states
      { ctime := s.creation, stamp := m.stamp, bytes := m.bytes, chars := m.chars, tell := s.cur.size }).1 = true) :
    writeOrder = [.ensureOpen, .rotationCheck, .fileWrite] ∧
    (Sink.write ls s m).cur.msgs = [(s.next, m.disk)] ∧ (Sink.write ls s m).closed = s.closed ++ [s.cur] ∧
    (rotationSize 12 9 9 16 = true ∧ (12 : Int) + 9 > 16) := by
  refine ⟨by decide, ?_, ?_, by decide⟩ <;> simp [Sink.write, hrot]

/-- the members of a list of conditions are combined with `any`, in list order (regenerated
`Gen.groupCombinator`); this is the combinator `groupCall` – and with it `group_rotates_iff_any`,
`group_false_fits`, the bound – is about -/
theorem group_is_any_in_list_order : groupCombinator = .anyInOrder := by decide

/-! ### round 5: `parse_size` in binary64 -/

/-- `size_float_exact`: what Python really computes for a size spelling `<n> <prefix>[i]B` or `…b` with an integer
`n` – `float(n)`, then the regenerated formula `Gen.sizeFormula` (`s * i**u / b` as the source has it) with every
operation rounded to binary64 – IS the documented quantity `n · base^u` (bytes) resp. `n · base^u / 8` (bits),
without any rounding, whenever `n · base^u < 2^53` (every size below 8 PiB).  For these spellings the exact-decimal
reading `parseSize` the bound is proved about and the double the running code compares with coincide. -/
theorem size_float_exact (n exp B : Nat) (hn : 0 < n) (hB : 0 < B) (hlt : n * B ^ exp < 2 ^ 53) :
    F64.IsDy (sizeFormula F64.mul F64.div F64.ofInt (Dec.toF64 ⟨(n : Int), 0⟩) (B : Int) (exp : Int) 1)
      false (n * B ^ exp) 0 0 ∧
    F64.IsDy (sizeFormula F64.mul F64.div F64.ofInt (Dec.toF64 ⟨(n : Int), 0⟩) (B : Int) (exp : Int) 8)
      false (n * B ^ exp) 0 3 := by
  have hP : 0 < B ^ exp := Nat.pow_pos hB
  have hnlt : n < 2 ^ 53 := Nat.lt_of_le_of_lt (Nat.le_mul_of_pos_right n hP) hlt
  have hPlt : B ^ exp < 2 ^ 53 := Nat.lt_of_le_of_lt (Nat.le_mul_of_pos_left (B ^ exp) hn) hlt
  have hs : F64.IsDy (Dec.toF64 ⟨(n : Int), 0⟩) false n 0 0 := by
    have h1 : decide ((n : Int) < 0) = false := by simp
    have h2 : (n : Int).natAbs = n := by simp
    simp only [Dec.toF64, h1, h2]
    exact F64.ofDec_nat_dy n hn hnlt
  have hpw : ((B : Int) ^ ((exp : Int).toNat)) = ((B ^ exp : Nat) : Int) := by simp
  have hi : F64.IsDy (F64.ofInt ((B : Int) ^ ((exp : Int).toNat))) false (B ^ exp) 0 0 := by
    rw [hpw]; exact F64.ofNat_dy _ hP hPlt
  have hm := F64.mul_dy _ _ false false n 0 0 (B ^ exp) 0 0 hs hi hn hP hlt (by omega) (by omega)
  have hb : (false != false) = false := by decide
  rw [hb] at hm
  constructor
  · have := F64.div_pow2_dy _ _ false false (n * B ^ exp) (0 + 0) (0 + 0) 0 0 hm F64.ofInt_one_dy
      (Nat.mul_pos hn hP) hlt (by omega) (by omega)
    rw [hb] at this
    simpa [sizeFormula] using this
  · have := F64.div_pow2_dy _ _ false false (n * B ^ exp) (0 + 0) (0 + 0) 3 0 hm F64.ofInt_eight_dy
      (Nat.mul_pos hn hP) hlt (by omega) (by omega)
    rw [hb] at this
    simpa [sizeFormula] using this

/-- which spellings round, by kernel evaluation of the same definitions: the documented ones and other integers are
exact (`10 KB`, `1.5 MiB`, `8 kb`, `0.5 GB`); `0.1 B` is the double nearest to one tenth, not one tenth; `1 YB` is not
10^24 (that power of ten is no double); yet the FLOOR – what an integer number of bytes is compared with – agrees with
the exact quantity in all of them except the last -/
theorem size_float_table :
    ((parseSizeF "10 KB".toList).toOption.map (·.bind F64.floor?) = some (some 10000) ∧
     (parseSizeF "1.5 MiB".toList).toOption.map (·.bind F64.floor?) = some (some 1572864) ∧
     (parseSizeF "8 kb".toList).toOption.map (·.bind F64.floor?) = some (some 1000) ∧
     (parseSizeF "0.5 GB".toList).toOption.map (·.bind F64.floor?) = some (some 500000000) ∧
     (parseSizeF "0.1 B".toList).toOption.map (·.bind F64.toRat) = some (some (7205759403792794, 72057594037927936)) ∧
     (parseSizeF "4.35 KB".toList).toOption.map (·.bind F64.floor?) = some (some 4350) ∧
     (parseSizeF "1 YB".toList).toOption.map (·.bind F64.floor?) = some (some 999999999999999983222784) ∧
     (parseSizeF "1e400 B".toList).toOption = some (some (.inf false)) ∧
     (parseSizeF "1 d".toList).toOption = some none) ∧
    (parseSizeF "1.2.3 MB".toList) = .error .valueError := by
  refine ⟨by decide +kernel, rfl⟩

/-- non-vacuity of `size_float_exact`: "512 MiB" -/
example : F64.IsDy (sizeFormula F64.mul F64.div F64.ofInt (Dec.toF64 ⟨512, 0⟩) 1024 2 1) false (512 * 1024 ^ 2) 0 0 :=
  (size_float_exact 512 2 1024 (by decide) (by decide) (by decide)).1

/-- `float_limit_compares_like_its_floor`: the test `file.tell() + len(…) > size_limit` with a FLOAT limit (Python
compares an `int` with a `float` exactly, without converting the int) is the test against the floor of the double's
exact value – which is what the size condition of the model stores, for every finite double; an infinite limit never
fires (`+inf`) or always fires (`−inf`). -/
theorem float_limit_compares_like_its_floor (n : Int) (neg : Bool) (m : Nat) (e : Int) :
    ∃ fl, F64.floor? (.fin neg m e) = some fl ∧ (F64.intGt n (.fin neg m e) = true ↔ n > fl) := by
  simp only [F64.floor?, F64.toRat, F64.intGt]
  by_cases hs : 0 ≤ e
  · simp only [hs, if_true, Option.map_some]
    exact ⟨_, rfl, by simp⟩
  · simp only [hs, if_false, Option.map_some]
    refine ⟨_, rfl, ?_⟩
    have hd : (0 : Int) < ((2 ^ (-e).toNat : Nat) : Int) := by exact_mod_cast F64.two_pow_pos _
    simp only [decide_eq_true_eq]
    constructor
    · intro h
      exact Int.ediv_lt_of_lt_mul hd (by omega)
    · intro h
      have := Int.lt_mul_of_ediv_lt hd h
      omega

/-- restarts in the middle of a history: the bound holds for every history of records and restarts of the sink (the
rotation functions are rebuilt, the files stay) – `file_size_bounded_partial` with `logger.remove()` / `logger.add()`
at arbitrary points -/
theorem file_size_bounded_with_restarts (ls : List Leaf) (S : Int) (hS : Leaf.size S ∈ ls) (ctime P : Int)
    (ops : List SinkOp) (hops : ∀ o ∈ ops, match o with | .msg m => m.disk ≤ m.bytes | .restart => True | .foreign _ => False) :
    ∀ f ∈ (Sink.runOps ls (Sink.init ls ctime P) ops).files, Bounded S f := by
  have hinit : SinkInv ls S (Sink.init ls ctime P) := by
    refine ⟨by simp [Sink.init, initStates], by simp [Sink.init], ?_⟩
    left; simp [Sink.init, FileRec.size, sumBytes]; omega
  have hrun : ∀ (ops : List SinkOp) (s : Sink),
      (∀ o ∈ ops, match o with | .msg m => m.disk ≤ m.bytes | .restart => True | .foreign _ => False) →
      SinkInv ls S s → SinkInv ls S (Sink.runOps ls s ops) := by
    intro ops
    induction ops with
    | nil => intro s _ h; simpa [Sink.runOps] using h
    | cons o ops ih =>
      intro s ho h
      have hstep : SinkInv ls S (Sink.step ls s o) := by
        have h1 := ho o (by simp)
        cases o with
        | msg m => exact write_preserves ls S hS s m h1 h
        | restart => exact ⟨by simp [Sink.step, Sink.restart, initStates], h.2.1, h.2.2⟩
        | foreign n => exact absurd h1 (by simp)
      simpa [Sink.runOps] using ih _ (fun y hy => ho y (by simp [hy])) hstep
  obtain ⟨_, hc, hcur⟩ := hrun ops _ hops hinit
  intro f hf
  rcases List.mem_append.mp hf with h | h
  · exact hc f h
  · simp at h; subst h; exact hcur

/-! ### round 5: `parse_size` over the whole grammar -/

/-- `parse_size_grammar`: for EVERY spelling `<digits> <prefix>?<i>?<b|B>` – any decimal integer `n`, `u` = 0 (no
prefix) or 1..8 (k m g t p e z y), with or without the binary marker, bytes or bits – `parse_size` denotes the
documented quantity: `n · 1000^u` resp. `n · 1024^u` bytes, divided by 8 for bits (exact-decimal reading); and the
double Python computes (`parseSizeF`: `float(n)`, regenerated formula in binary64) is exactly that quantity whenever
`n · base^u < 2^53`.  (`parse_size_denotes` was a table of samples; scanner lemmas in `Rotation/SizeGrammar.lean`.) -/
theorem parse_size_grammar (ds : Str) (hne : ds ≠ []) (hd : ds.all isDigit = true) (u : Nat) (hu : u ≤ 8)
    (bin bits : Bool) :
    let B : Nat := if bin then 1024 else 1000
    parseSize (ds ++ ' ' :: unitTail u bin bits) =
      .ok (some ⟨(digitsVal ds : Int) * ((B : Int) ^ u), if bits then 8 else 1⟩) ∧
    (0 < digitsVal ds → digitsVal ds * B ^ u < 2 ^ 53 →
      ∃ v, parseSizeF (ds ++ ' ' :: unitTail u bin bits) = .ok (some v) ∧
        F64.IsDy v false (digitsVal ds * B ^ u) 0 (if bits then 3 else 0)) := by
  intro B
  have hscan := scanSize_grammar ds hne hd u hu bin bits
  have hbase : (if bin then sizeBinaryBase else sizeDecimalBase) = (B : Int) := by
    cases bin <;> simp [B] <;> decide
  constructor
  · unfold parseSize
    rw [hscan]
    simp only [Dec.scale, hbase]
    cases bits <;> simp
  · intro h0 hlt
    unfold parseSizeF
    rw [hscan]
    simp only [hbase]
    have hex := size_float_exact (digitsVal ds) u B h0 (by cases bin <;> simp [B]) hlt
    cases bits
    · exact ⟨_, rfl, hex.1⟩
    · exact ⟨_, rfl, hex.2⟩

/-- non-vacuity: "512 MiB" -/
example : parseSize ("512".toList ++ ' ' :: unitTail 2 true false) = .ok (some ⟨512 * 1024 ^ 2, 1⟩) :=
  (parse_size_grammar "512".toList (by decide) (by decide) 2 (by decide) true false).1

end C19
