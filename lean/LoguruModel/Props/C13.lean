import LoguruModel.Exc.Lemmas
/-
C13 – property theorems (DESIGN §4 C13).  Statements are about `Exc.fmt`/`Exc.formatException`
defined over the constants REGENERATED from `/repo/loguru/_better_exceptions.py` (`Exc.Gen`).
-/
namespace C13
open Py Exc

/-- `_format_value`: a displayed value never exceeds `max_length` (for `max_length ≥ 3`, which the
generated default satisfies); a raising `repr` gives the placeholder, truncated the same way -/
theorem formatValue_bounded (maxLen : Nat) (v : Val) (h : Gen.cut ≤ maxLen) :
    (formatValue maxLen v).length ≤ maxLen := by
  unfold formatValue truncate
  generalize reprOr v = s
  simp only [Gen.tooLong, Gen.cut, Gen.ellipsis] at *
  by_cases hlt : s.length > maxLen
  · simp [hlt, List.length_append, List.length_take]; omega
  · simp [hlt]; omega

/-- a raising `repr` yields the placeholder (truncated like any other value) -/
theorem raising_repr_gives_placeholder (maxLen : Nat) (ty : Str) (e : Err) :
    formatValue maxLen { repr := .error e, typeName := ty } =
      truncate maxLen ("<unprintable ".toList ++ ty ++ " object>".toList) := rfl

theorem default_max_length_ok : Gen.cut ≤ Gen.maxLength ∧ Gen.maxLength = 128 := by decide

theorem mem_length_le_sum (ls : List Str) (l : Str) (h : l ∈ ls) : l.length ≤ (ls.map List.length).sum := by
  induction ls with
  | nil => simp at h
  | cons a rest ih =>
    simp only [List.mem_cons] at h
    simp only [List.map_cons, List.sum_cons]
    rcases h with rfl | h
    · omega
    · have := ih h; omega

/-- **value_display_bounded**: "each value bounded in length" for values whose repr contains newlines:
the lines one value occupies in the report (`value.split("\n")`) hold, separators included, at most
`max_length` characters in total – so both the length of every line and the NUMBER of lines are
bounded, whatever the repr (matrix / table objects with thousands of lines included) -/
theorem value_display_bounded (maxLen : Nat) (v : Val) (h : Gen.cut ≤ maxLen) :
    ((displayLines maxLen v).map List.length).sum + (displayLines maxLen v).length ≤ maxLen + 1 ∧
    (displayLines maxLen v).length ≤ maxLen + 1 ∧
    ∀ l ∈ displayLines maxLen v, l.length ≤ maxLen := by
  have hsz := splitOnChar_size Gen.valueLineSep (formatValue maxLen v)
  have hb := formatValue_bounded maxLen v h
  have hne := splitOnChar_ne_nil Gen.valueLineSep (formatValue maxLen v)
  have hpos : 1 ≤ (displayLines maxLen v).length := by
    unfold displayLines; exact List.length_pos_iff.mpr hne
  unfold displayLines at *
  refine ⟨by omega, by omega, ?_⟩
  intro l hl
  have := mem_length_le_sum _ l hl
  omega

theorem truncatePerLine_newlines (maxLen n : Nat) :
    (truncatePerLine maxLen (List.replicate n Gen.valueLineSep)).length = n := by
  have ht : truncate maxLen [] = [] := by simp [truncate, Gen.tooLong]
  have hmap : (List.replicate (n + 1) ([] : Str)).map (truncate maxLen) = List.replicate (n + 1) [] := by
    simp [ht]
  have := intercalate_length Gen.valueLineSep (List.replicate (n + 1) ([] : Str)) (by simp [List.replicate_succ])
  unfold truncatePerLine
  rw [splitOnChar_replicate_sep, hmap]
  simp at this
  omega

/-- the refuted shape (seeded change C13-d: the limit applied to every line of the repr on its own) is
unbounded for EVERY limit: for each size `n` there is a repr all of whose lines respect the limit
and whose per-line truncation still has `n` characters (on `n + 1` lines) -/
theorem per_line_truncation_unbounded (maxLen n : Nat) :
    ∃ s : Str, (∀ l ∈ splitOnChar Gen.valueLineSep s, l.length ≤ maxLen) ∧
      (truncatePerLine maxLen s).length = n := by
  refine ⟨List.replicate n Gen.valueLineSep, ?_, truncatePerLine_newlines maxLen n⟩
  intro l hl
  rw [splitOnChar_replicate_sep] at hl
  simp at hl; simp [hl]

/-- concrete instance replayed on the implementation by the value grid of `harness/c13.py`: 200 newlines
survive per-line truncation at 128 untouched, whole-value truncation cuts them to 128 -/
theorem per_line_truncation_witness :
    (truncatePerLine 128 (List.replicate 200 Gen.valueLineSep)).length = 200 ∧
    (truncate 128 (List.replicate 200 Gen.valueLineSep)).length = 128 := by
  refine ⟨truncatePerLine_newlines 128 200, ?_⟩
  have key : ∀ s : Str, s.length = 200 → (truncate 128 s).length = 128 := by
    intro s hs
    simp [truncate, Gen.tooLong, Gen.cut, Gen.ellipsis, List.length_take, hs]
  exact key _ List.length_replicate

/-- **values_bounded**: in every report – any heap, any graph, any mode, any entry point, any
budget – every value piece is at most `max_length` long -/
theorem values_bounded (h : Heap) (o : Opts) (budget : Nat) (root : ExcId) (fromDec : Bool)
    (hml : Gen.cut ≤ o.maxLen) (out : List Piece)
    (hout : formatException h o budget root fromDec = .ok out) :
    ∀ p ∈ out, ∀ t d, p = Piece.value t d → t.length ≤ o.maxLen := by
  intro p hp t d hpt
  have key : ∀ p ∈ out, p.valueLen ≤ o.maxLen := by
    unfold formatException at hout
    split at hout
    · rename_i ps s hf
      simp at hout; subst hout
      refine fmt_all (fun p => p.valueLen ≤ o.maxLen) h o ?_ ?_ ?_ ?_ ?_ ?_ ?_ budget [] root true fromDec 0 ps s hf
      · apply renderOwn_all
        · intro d s p hp
          simp only [framePieces, List.mem_cons] at hp
          rcases hp with rfl | hp
          · simp [Piece.valueLen]
          · split at hp
            · simp only [List.mem_map] at hp
              obtain ⟨v, _, rfl⟩ := hp
              exact formatValue_bounded _ _ hml
            · simp at hp
        all_goals intros; simp [Piece.valueLen]
      all_goals intros; simp [Piece.valueLen]
    · simp at hout
  have := key p hp
  subst hpt
  simpa [Piece.valueLen] using this

/-- **diagnose_false_noninterference**: two heaps that differ only in the values of frame variables
(locals/globals: `repr` outcomes, type names, how many there are) produce the same report when
`diagnose = false` – for every graph, budget, entry point and the four backtrace × colorize modes;
errors (exhausted budget) coincide as well -/
theorem diagnose_false_noninterference (h h' : Heap) (o : Opts) (budget : Nat) (root : ExcId) (fromDec : Bool)
    (hd : o.diagnose = false) (hsame : eraseVals h = eraseVals h') :
    formatException h o budget root fromDec = formatException h' o budget root fromDec := by
  unfold formatException
  rw [← fmt_erase h o hd, ← fmt_erase h' o hd, hsame]

/-- non-vacuity: two heaps with different secrets in a frame are related by `eraseVals` -/
example :
    let fr (v : Str) : Frame := { info := ⟨"f.py".toList, 3, "g".toList, "g(x)".toList⟩, hidden := false,
                                   vals := [{ repr := .ok v, typeName := "str".toList }] }
    let hp (v : Str) : Heap := [{ truthy := true, cause := none, context := none, suppress := false, group := none,
                                  tb := [fr v], parents := [] }]
    eraseVals (hp "'secret-1'".toList) = eraseVals (hp "'other'".toList) := rfl

/-- **chain_order_eq_standard** (and `plain_mode_is_standard_traceback`, which is its instance
`backtrace = diagnose = colorize = false`): for every heap without exception groups – arbitrary
cause/context graphs, cycles and self-references included, falsy exceptions, suppressed contexts,
missing tracebacks – and every mode, the report is exactly CPython's chain ordering
(`Py/Traceback.lean`: iterative walk with its `_seen` set, cause before context, first-seen wins,
chained exception first, then the message, then the exception), provided the budget exceeds the
number of exceptions. -/
theorem chain_order_eq_standard (h : Heap) (o : Opts) (hgf : groupFree h) (root : ExcId) (fromDec : Bool)
    (budget : Nat) (hb : h.length < budget) :
    formatException h o budget root fromDec = .ok (stdFormat h o root fromDec) := by
  have hle := unseenCount_le_length h (addSeen [] root)
  obtain ⟨s', hs'⟩ := fmt_eq_walk h o hgf fromDec budget (h.length + 1) [] root true (by omega) (by omega)
  have hroot : addSeen [] root = [root] := by simp [addSeen]
  simp only [Bool.true_and, hroot] at hs'
  simp [formatException, hs', stdFormat]

/-- non-vacuity: a two-exception cycle (`a.__cause__ = b; b.__context__ = a`) is a group-free heap -/
example : groupFree
    [{ truthy := true, cause := some 1, context := none, suppress := true, group := none, tb := [], parents := [] },
     { truthy := true, cause := none, context := some 0, suppress := false, group := none, tb := [], parents := [] }] := by
  intro x hx; simp at hx; rcases hx with rfl | rfl <;> rfl

/-! ### totality -/

/-- FULL statement (not provable – false of the current code, finding F12): with whatever positive
stack budget the interpreter has left, formatting succeeds for every heap. -/
def format_total_statement : Prop :=
  ∀ (budget : Nat), 0 < budget → ∀ (h : Heap) (o : Opts) (root : ExcId) (fromDec : Bool),
    ∃ out, formatException h o budget root fromDec = .ok out

/-- **format_total_partial**: formatting terminates and succeeds – for every heap (arbitrary, cyclic
cause/context graphs; nested groups; raising `repr`s; falsy exceptions; missing tracebacks; dangling
ids), every mode and entry point – as soon as the stack budget exceeds `depthBound`, the
lexicographic measure (exceptions not yet in `seen`, group rank, still-at-nesting-0).  The only
hypotheses are that budget (F12: the chain walk is recursive) and the well-foundedness of group
membership (`exceptions` tuples are immutable). -/
theorem format_total_partial (h : Heap) (o : Opts) (rank : ExcId → Nat) (R : Nat) (hr : Ranked h rank R)
    (budget : Nat) (root : ExcId) (fromDec : Bool) (hb : depthBound h rank R [] root 0 < budget) :
    ∃ out, formatException h o budget root fromDec = .ok out := by
  obtain ⟨⟨ps, s⟩, hps⟩ := fmt_total h o rank R hr budget [] root true fromDec 0 hb
  exact ⟨ps, by simp [formatException, hps]⟩

/-- without groups the hypothesis is `chainLength ≤ |heap| < budget` -/
theorem format_total_group_free (h : Heap) (o : Opts) (hgf : groupFree h) (budget : Nat) (root : ExcId)
    (fromDec : Bool) (hb : h.length < budget) : ∃ out, formatException h o budget root fromDec = .ok out :=
  ⟨_, chain_order_eq_standard h o hgf root fromDec budget hb⟩

/-- a `__cause__` chain of `n` exceptions: 0 ← 1 ← … -/
def causeChain (n : Nat) : Heap :=
  (List.range n).map fun i =>
    { truthy := true, cause := if i + 1 < n then some (i + 1) else none, context := none, suppress := true,
      group := none, tb := [], parents := [] }

def plainOpts : Opts := { backtrace := false, diagnose := false, colorize := false, limit := none, maxLen := Gen.maxLength }

/-- model-level witness of F12: a chain longer than the budget is a `RecursionError`, one that fits is
rendered (replayed on the implementation by `harness/c13.py`: 1200 exceptions, budget ≈ 1000) -/
theorem format_deep_chain_witness :
    formatException (causeChain 4) plainOpts 3 0 false = .error .runtimeError ∧
    (formatException (causeChain 4) plainOpts 5 0 false).toOption.isSome = true := by
  constructor <;> rfl

theorem format_total_statement_false : ¬ format_total_statement := by
  intro hs
  obtain ⟨out, ho⟩ := hs 3 (by omega) (causeChain 4) plainOpts 0 false
  rw [format_deep_chain_witness.1] at ho
  cases ho

/-- non-vacuity of `format_total_partial`: a group whose member's cause is the group itself -/
example : Ranked
    [{ truthy := true, cause := none, context := none, suppress := false, group := some [1], tb := [], parents := [] },
     { truthy := true, cause := some 0, context := none, suppress := true, group := none, tb := [], parents := [] }]
    (fun i => if i = 0 then 1 else 0) 1 := by
  constructor
  · intro i; split <;> omega
  · intro g x ms m hg hgrp hm
    match g, hg with
    | 0, hg => simp at hg; subst hg; simp at hgrp; subst hgrp; simp at hm; subst hm; simp
    | 1, hg => simp at hg; subst hg; simp at hgrp
    | n + 2, hg => simp at hg

/-! ### frames -/

/-- **frames_are_traceback_frames_in_order**: what `_extract_frames` returns for one exception is
exactly – in order – the caller frames the mode asks for (none; all non-hidden callers, outermost
first, with `backtrace` on the logged exception; the one calling frame for the decorator without
`backtrace`) followed by the non-hidden traceback frames, cut to the last `tracebacklimit` entries;
nothing when there is no traceback or the limit is ≤ 0. -/
theorem frames_are_traceback_frames_in_order (o : Opts) (isFirst fromDec : Bool) (tb parents : List Frame) :
    (extractFrames o isFirst fromDec tb parents).map (·.fr) =
      if tb.isEmpty || limitBlocks o.limit then []
      else applyLimit o.limit (callerFrames o isFirst fromDec parents ++ visible tb) := by
  cases tb with
  | nil => rfl
  | cons t0 rest =>
    simp only [extractFrames, List.isEmpty_cons, Bool.false_or]
    split
    · rfl
    · rw [← applyLimit_map]
      congr 1
      have hv : visible (t0 :: rest) = visible [t0] ++ visible rest := by
        simp [visible, List.filter_cons]; split <;> simp
      rw [hv, List.map_append, unmarked_fr, callerFrames]
      split
      · simp [unmarked_fr, parentOnlyFrames_eq]
      · split
        · simp [markLast_fr]
        · simp [unmarked_fr]

/-- the catch-point mark appears only with `backtrace` on the logged exception, and then exactly on
the last of (callers + first traceback frame), i.e. on the frame where the exception was caught -/
theorem catch_mark_only_with_backtrace (o : Opts) (isFirst fromDec : Bool) (tb parents : List Frame)
    (h : o.backtrace = false ∨ isFirst = false) :
    ∀ s ∈ extractFrames o isFirst fromDec tb parents, s.mark = false := by
  intro s hs
  cases tb with
  | nil => simp [extractFrames] at hs
  | cons t0 rest =>
    simp only [extractFrames] at hs
    split at hs
    · simp at hs
    · have hs' := mem_applyLimit _ _ _ hs
      simp only [List.mem_append] at hs'
      rcases hs' with hs' | hs'
      · split at hs'
        · exact unmarked_mark _ s hs'
        · split at hs'
          · rename_i hbt; rcases h with h | h <;> simp [h] at hbt
          · exact unmarked_mark _ s hs'
      · exact unmarked_mark _ s hs'

/-- folding repeated frames only drops frames: the frame pieces (with their marks) are a
subsequence, in order, of the extracted frames -/
theorem folded_frames_in_order (o : Opts) (d : Nat) (fs : List Shown) :
    ((foldFrames o d none 0 fs).filterMap Piece.frameInfo?).Sublist (fs.map (fun s => (s.fr.info, s.mark))) :=
  foldFrames_sublist o d fs none 0

/-! ### one catch object used many times -/

/-- **each_use_reports_its_own_kind**: for every sequence of decorator / context-manager uses of one
`logger.catch(...)` object, the flag the formatter receives at each use is "this use is a decorator
use" – nothing survives from earlier uses -/
theorem each_use_reports_its_own_kind (uses : List Use) :
    runUses ⟨Gen.catchContextFlag⟩ uses = uses.map (fun u => decide (u = Use.decorator)) := by
  induction uses with
  | nil => rfl
  | cons u us ih =>
    cases u <;> simp [runUses, useStep, Gen.catchWrapperFlag, Gen.catchContextFlag] <;> exact ih

/-- consequence for the report: whatever was done with the object before, a context-manager use on a
`backtrace = false` handler shows exactly the traceback's non-hidden frames (suffix-limited) – no
calling frame is added; a decorator use adds exactly the one calling frame -/
theorem use_kind_decides_caller_frame (before : List Use) (u : Use) (o : Opts) (hb : o.backtrace = false)
    (tb parents : List Frame) (hne : tb ≠ []) (hl : limitBlocks o.limit = false) :
    let flag := (runUses ⟨Gen.catchContextFlag⟩ (before ++ [u])).getLast?.getD false
    (extractFrames o true flag tb parents).map (·.fr) =
      applyLimit o.limit ((if u = Use.decorator then (visible parents).take 1 else []) ++ visible tb) := by
  have hflag : (runUses ⟨Gen.catchContextFlag⟩ (before ++ [u])).getLast?.getD false = decide (u = Use.decorator) := by
    rw [each_use_reports_its_own_kind]; simp
  simp only [hflag]
  rw [frames_are_traceback_frames_in_order]
  have : tb.isEmpty = false := by cases tb <;> simp_all
  simp only [this, hl, Bool.or_self, Bool.false_eq_true, if_false, callerFrames, hb]
  cases u <;> simp

/-- the refuted shape: if the decorator use stored its flag in the shared object, a context-manager
use after a decorator use would be reported as a decorator use (`harness/c13.py` replays this
sequence – and longer ones – on the implementation) -/
theorem shared_flag_leaks :
    runUsesShared ⟨Gen.catchContextFlag⟩ [Use.decorator, Use.context] = [true, true] ∧
    runUses ⟨Gen.catchContextFlag⟩ [Use.decorator, Use.context] = [true, false] := by
  constructor <;> rfl

theorem shared_flag_never_recovers (uses : List Use) :
    runUsesShared ⟨Gen.catchContextFlag⟩ (Use.decorator :: uses) = List.replicate (uses.length + 1) true := by
  have key : ∀ us : List Use, runUsesShared ⟨true⟩ us = List.replicate us.length true := by
    intro us
    induction us with
    | nil => rfl
    | cons u us ih => cases u <;> simp [runUsesShared, useStepShared, Gen.catchWrapperFlag, List.replicate_succ] <;> exact ih
  simp [runUsesShared, useStepShared, Gen.catchWrapperFlag, List.replicate_succ, key]

/-! ### the one calling frame of a decorator use, when loguru's own frames sit above the wrapper -/

theorem visible_hidden_prefix (pre : List Frame) (hpre : ∀ f ∈ pre, f.hidden = true) (rest : List Frame) :
    visible (pre ++ rest) = visible rest := by
  induction pre with
  | nil => rfl
  | cons f fs ih =>
    have hf : f.hidden = true := hpre f (List.mem_cons_self ..)
    have := ih (fun g hg => hpre g (List.mem_cons_of_mem _ hg))
    simp [visible, hf] at this ⊢
    exact this

/-- **decorator_caller_is_first_foreign_frame**: with `catch()` as a decorator and `backtrace = false`
the one calling frame is the first caller that is not loguru's own – however many loguru frames
(outer catch wrappers, `_log` evaluating a lazy argument or a patcher, `Catcher.__exit__` calling
`onerror`) lie between it and the catching wrapper -/
theorem decorator_caller_is_first_foreign_frame (o : Opts) (isFirst : Bool) (hb : o.backtrace = false)
    (own : List Frame) (hown : ∀ f ∈ own, f.hidden = true) (p : Frame) (hp : p.hidden = false)
    (above : List Frame) :
    callerFrames o isFirst true (own ++ p :: above) = [p] := by
  simp only [callerFrames, hb, Bool.not_false, Bool.and_self, if_true]
  rw [visible_hidden_prefix own hown]
  simp [visible, hp]

/-- the refuted shape (seeded change C13-i: the `break` outside the visibility test looks at the
immediate caller only): one loguru frame above the wrapper and the calling frame is lost -/
theorem immediate_caller_only_loses_frame (own p : Frame) (ho : own.hidden = true) (hp : p.hidden = false)
    (above : List Frame) :
    visible ((own :: p :: above).take 1) = [] ∧ (visible (own :: p :: above)).take 1 = [p] := by
  simp [visible, ho, hp]

theorem parent_walk_skips_hidden : Gen.parentWalkSkipsHidden = true := by decide

end C13
