import LoguruModel.Exc.Lemmas
/-
C13 – property theorems (DESIGN §4 C13).  Statements are about `Exc.fmt`/`Exc.formatException`
defined over the constants REGENERATED from `/repo/loguru/_better_exceptions.py` (`Exc.Gen`).
-/
namespace C13
open Py Exc

/-- `_format_value`: a displayed value never exceeds `max_length` (for `max_length ≥ 3`, which the
generated default satisfies); a raising `repr` gives the placeholder, truncated the same way -/
theorem formatValue_bounded (maxLen : Nat) (v : Val) (h : Gen.cut ≤ maxLen) :
    (formatValue maxLen v).length ≤ maxLen := by
  unfold formatValue truncate
  generalize reprOr v = s
  simp only [Gen.tooLong, Gen.cut, Gen.ellipsis] at *
  by_cases hlt : s.length > maxLen
  · simp [hlt, List.length_append, List.length_take]; omega
  · simp [hlt]; omega

/-- a raising `repr` yields the placeholder (truncated like any other value) -/
theorem raising_repr_gives_placeholder (maxLen : Nat) (ty : Str) (e : Err) :
    formatValue maxLen { repr := .error e, typeName := ty } =
      truncate maxLen ("<unprintable ".toList ++ ty ++ " object>".toList) := rfl

theorem default_max_length_ok : Gen.cut ≤ Gen.maxLength ∧ Gen.maxLength = 128 := by decide

/-- **values_bounded**: in every report – any heap, any graph, any mode, any entry point, any
budget – every value piece is at most `max_length` long -/
theorem values_bounded (h : Heap) (o : Opts) (budget : Nat) (root : ExcId) (fromDec : Bool)
    (hml : Gen.cut ≤ o.maxLen) (out : List Piece)
    (hout : formatException h o budget root fromDec = .ok out) :
    ∀ p ∈ out, ∀ t d, p = Piece.value t d → t.length ≤ o.maxLen := by
  intro p hp t d hpt
  have key : ∀ p ∈ out, p.valueLen ≤ o.maxLen := by
    unfold formatException at hout
    split at hout
    · rename_i ps s hf
      simp at hout; subst hout
      refine fmt_all (fun p => p.valueLen ≤ o.maxLen) h o ?_ ?_ ?_ ?_ ?_ ?_ ?_ budget [] root true fromDec 0 ps s hf
      · apply renderOwn_all
        · intro d s p hp
          simp only [framePieces, List.mem_cons] at hp
          rcases hp with rfl | hp
          · simp [Piece.valueLen]
          · split at hp
            · simp only [List.mem_map] at hp
              obtain ⟨v, _, rfl⟩ := hp
              exact formatValue_bounded _ _ hml
            · simp at hp
        all_goals intros; simp [Piece.valueLen]
      all_goals intros; simp [Piece.valueLen]
    · simp at hout
  have := key p hp
  subst hpt
  simpa [Piece.valueLen] using this

/-- **diagnose_false_noninterference**: two heaps that differ only in the values of frame variables
(locals/globals: `repr` outcomes, type names, how many there are) produce the same report when
`diagnose = false` – for every graph, budget, entry point and the four backtrace × colorize modes;
errors (exhausted budget) coincide as well -/
theorem diagnose_false_noninterference (h h' : Heap) (o : Opts) (budget : Nat) (root : ExcId) (fromDec : Bool)
    (hd : o.diagnose = false) (hsame : eraseVals h = eraseVals h') :
    formatException h o budget root fromDec = formatException h' o budget root fromDec := by
  unfold formatException
  rw [← fmt_erase h o hd, ← fmt_erase h' o hd, hsame]

/-- non-vacuity: two heaps with different secrets in a frame are related by `eraseVals` -/
example :
    let fr (v : Str) : Frame := { info := ⟨"f.py".toList, 3, "g".toList, "g(x)".toList⟩, hidden := false,
                                   vals := [{ repr := .ok v, typeName := "str".toList }] }
    let hp (v : Str) : Heap := [{ truthy := true, cause := none, context := none, suppress := false, group := none,
                                  tb := [fr v], parents := [] }]
    eraseVals (hp "'secret-1'".toList) = eraseVals (hp "'other'".toList) := rfl

/-- **chain_order_eq_standard** (and `plain_mode_is_standard_traceback`, which is its instance
`backtrace = diagnose = colorize = false`): for every heap without exception groups – arbitrary
cause/context graphs, cycles and self-references included, falsy exceptions, suppressed contexts,
missing tracebacks – and every mode, the report is exactly CPython's chain ordering
(`Py/Traceback.lean`: iterative walk with its `_seen` set, cause before context, first-seen wins,
chained exception first, then the message, then the exception), provided the budget exceeds the
number of exceptions. -/
theorem chain_order_eq_standard (h : Heap) (o : Opts) (hgf : groupFree h) (root : ExcId) (fromDec : Bool)
    (budget : Nat) (hb : h.length < budget) :
    formatException h o budget root fromDec = .ok (stdFormat h o root fromDec) := by
  have hle := unseenCount_le_length h (addSeen [] root)
  obtain ⟨s', hs'⟩ := fmt_eq_walk h o hgf fromDec budget (h.length + 1) [] root true (by omega) (by omega)
  have hroot : addSeen [] root = [root] := by simp [addSeen]
  simp only [Bool.true_and, hroot] at hs'
  simp [formatException, hs', stdFormat]

/-- non-vacuity: a two-exception cycle (`a.__cause__ = b; b.__context__ = a`) is a group-free heap -/
example : groupFree
    [{ truthy := true, cause := some 1, context := none, suppress := true, group := none, tb := [], parents := [] },
     { truthy := true, cause := none, context := some 0, suppress := false, group := none, tb := [], parents := [] }] := by
  intro x hx; simp at hx; rcases hx with rfl | rfl <;> rfl

end C13
