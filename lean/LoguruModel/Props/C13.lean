import LoguruModel.Exc.Lemmas
import LoguruModel.Exc.FramesLemmas
import LoguruModel.Exc.Closing
import LoguruModel.Exc.SeenLemmas
import LoguruModel.Exc.GroupLemmas
import LoguruModel.Exc.FormatList
import LoguruModel.Exc.Copy
/-
C13 – property theorems (DESIGN §4 C13).  Statements are about `Exc.fmt`/`Exc.formatException`
defined over the constants REGENERATED from `/repo/loguru/_better_exceptions.py` (`Exc.Gen`).
-/
namespace C13
open Py Exc

/-- `_format_value`: a displayed value never exceeds `max_length` (for `max_length ≥ 3`, which the
generated default satisfies); a raising `repr` gives the placeholder, truncated the same way -/
theorem formatValue_bounded (maxLen : Nat) (v : Val) (h : Gen.cut ≤ maxLen) :
    (formatValue maxLen v).length ≤ maxLen := by
  unfold formatValue truncate
  generalize reprOr v = s
  simp only [Gen.tooLong, Gen.cut, Gen.ellipsis] at *
  by_cases hlt : s.length > maxLen
  · simp [hlt, List.length_append, List.length_take]; omega
  · simp [hlt]; omega

/-- a raising `repr` yields the placeholder (truncated like any other value) -/
theorem raising_repr_gives_placeholder (maxLen : Nat) (ty : Str) (e : Err) :
    formatValue maxLen { repr := .error e, typeName := ty } =
      truncate maxLen ("<unprintable ".toList ++ ty ++ " object>".toList) := rfl

theorem default_max_length_ok : Gen.cut ≤ Gen.maxLength ∧ Gen.maxLength = 128 := by decide

theorem mem_length_le_sum (ls : List Str) (l : Str) (h : l ∈ ls) : l.length ≤ (ls.map List.length).sum := by
  induction ls with
  | nil => simp at h
  | cons a rest ih =>
    simp only [List.mem_cons] at h
    simp only [List.map_cons, List.sum_cons]
    rcases h with rfl | h
    · omega
    · have := ih h; omega

/-- **value_display_bounded**: "each value bounded in length" for values whose repr contains newlines:
the lines one value occupies in the report (`value.split("\n")`) hold, separators included, at most
`max_length` characters in total – so both the length of every line and the NUMBER of lines are
bounded, whatever the repr (matrix / table objects with thousands of lines included) -/
theorem value_display_bounded (maxLen : Nat) (v : Val) (h : Gen.cut ≤ maxLen) :
    ((displayLines maxLen v).map List.length).sum + (displayLines maxLen v).length ≤ maxLen + 1 ∧
    (displayLines maxLen v).length ≤ maxLen + 1 ∧
    ∀ l ∈ displayLines maxLen v, l.length ≤ maxLen := by
  have hsz := splitOnChar_size Gen.valueLineSep (formatValue maxLen v)
  have hb := formatValue_bounded maxLen v h
  have hne := splitOnChar_ne_nil Gen.valueLineSep (formatValue maxLen v)
  have hpos : 1 ≤ (displayLines maxLen v).length := by
    unfold displayLines; exact List.length_pos_iff.mpr hne
  unfold displayLines at *
  refine ⟨by omega, by omega, ?_⟩
  intro l hl
  have := mem_length_le_sum _ l hl
  omega

theorem truncatePerLine_newlines (maxLen n : Nat) :
    (truncatePerLine maxLen (List.replicate n Gen.valueLineSep)).length = n := by
  have ht : truncate maxLen [] = [] := by simp [truncate, Gen.tooLong]
  have hmap : (List.replicate (n + 1) ([] : Str)).map (truncate maxLen) = List.replicate (n + 1) [] := by
    simp [ht]
  have := intercalate_length Gen.valueLineSep (List.replicate (n + 1) ([] : Str)) (by simp [List.replicate_succ])
  unfold truncatePerLine
  rw [splitOnChar_replicate_sep, hmap]
  simp at this
  omega

/-- the refuted shape (seeded change C13-d: the limit applied to every line of the repr on its own) is
unbounded for EVERY limit: for each size `n` there is a repr all of whose lines respect the limit
and whose per-line truncation still has `n` characters (on `n + 1` lines) -/
theorem per_line_truncation_unbounded (maxLen n : Nat) :
    ∃ s : Str, (∀ l ∈ splitOnChar Gen.valueLineSep s, l.length ≤ maxLen) ∧
      (truncatePerLine maxLen s).length = n := by
  refine ⟨List.replicate n Gen.valueLineSep, ?_, truncatePerLine_newlines maxLen n⟩
  intro l hl
  rw [splitOnChar_replicate_sep] at hl
  simp at hl; simp [hl]

/-- concrete instance replayed on the implementation by the value grid of `harness/c13.py`: 200 newlines
survive per-line truncation at 128 untouched, whole-value truncation cuts them to 128 -/
theorem per_line_truncation_witness :
    (truncatePerLine 128 (List.replicate 200 Gen.valueLineSep)).length = 200 ∧
    (truncate 128 (List.replicate 200 Gen.valueLineSep)).length = 128 := by
  refine ⟨truncatePerLine_newlines 128 200, ?_⟩
  have key : ∀ s : Str, s.length = 200 → (truncate 128 s).length = 128 := by
    intro s hs
    simp [truncate, Gen.tooLong, Gen.cut, Gen.ellipsis, List.length_take, hs]
  exact key _ List.length_replicate

/-- **values_bounded**: in every report – any heap, any graph, any mode, any entry point, any
budget – every value piece is at most `max_length` long -/
theorem values_bounded (h : Heap) (o : Opts) (budget : Nat) (root : ExcId) (fromDec : Bool)
    (hml : Gen.cut ≤ o.maxLen) (out : List Piece)
    (hout : formatException h o budget root fromDec = .ok out) :
    ∀ p ∈ out, ∀ t d, p = Piece.value t d → t.length ≤ o.maxLen := by
  intro p hp t d hpt
  have key : ∀ p ∈ out, p.valueLen ≤ o.maxLen := by
    unfold formatException at hout
    split at hout
    · rename_i ps s hf
      simp at hout; subst hout
      refine fmt_all (fun p => p.valueLen ≤ o.maxLen) h o ?_ ?_ ?_ ?_ ?_ ?_ ?_ budget [] root true fromDec 0 ps s hf
      · apply renderOwn_all
        · intro d s p hp
          simp only [framePieces, List.mem_cons] at hp
          rcases hp with rfl | hp
          · simp [Piece.valueLen]
          · split at hp
            · simp only [List.mem_map] at hp
              obtain ⟨v, _, rfl⟩ := hp
              exact formatValue_bounded _ _ hml
            · simp at hp
        all_goals intros; simp [Piece.valueLen]
      all_goals intros; simp [Piece.valueLen]
    · simp at hout
  have := key p hp
  subst hpt
  simpa [Piece.valueLen] using this

/-- **diagnose_false_noninterference**: two heaps that differ only in the values of frame variables
(locals/globals: `repr` outcomes, type names, how many there are) produce the same report when
`diagnose = false` – for every graph, budget, entry point and the four backtrace × colorize modes;
errors (exhausted budget) coincide as well -/
theorem diagnose_false_noninterference (h h' : Heap) (o : Opts) (budget : Nat) (root : ExcId) (fromDec : Bool)
    (hd : o.diagnose = false) (hsame : eraseVals h = eraseVals h') :
    formatException h o budget root fromDec = formatException h' o budget root fromDec := by
  unfold formatException
  rw [← fmt_erase h o hd, ← fmt_erase h' o hd, hsame]

/-- non-vacuity: two heaps with different secrets in a frame are related by `eraseVals` -/
example :
    let fr (v : Str) : Frame := { info := ⟨"f.py".toList, 3, "g".toList, "g(x)".toList⟩, hidden := false,
                                   vals := [{ repr := .ok v, typeName := "str".toList }] }
    let hp (v : Str) : Heap := [{ truthy := true, cause := none, context := none, suppress := false, group := none,
                                  tb := [fr v], parents := [] }]
    eraseVals (hp "'secret-1'".toList) = eraseVals (hp "'other'".toList) := rfl

/-- **chain_order_eq_standard** (and `plain_mode_is_standard_traceback`, which is its instance
`backtrace = diagnose = colorize = false`): for every heap without exception groups – arbitrary
cause/context graphs, cycles and self-references included, falsy exceptions, suppressed contexts,
missing tracebacks – and every mode, the report is exactly CPython's chain ordering
(`Py/Traceback.lean`: iterative walk with its `_seen` set, cause before context, first-seen wins,
chained exception first, then the message, then the exception), provided the budget exceeds the
number of exceptions. -/
theorem chain_order_eq_standard (h : Heap) (o : Opts) (hgf : groupFree h) (root : ExcId) (fromDec : Bool)
    (budget : Nat) (hb : h.length < budget) :
    formatException h o budget root fromDec = .ok (stdFormat h o root fromDec) := by
  have hle := unseenCount_le_length h (addSeen [] root)
  obtain ⟨s', hs'⟩ := fmt_eq_walk h o hgf fromDec budget (h.length + 1) [] root true (by omega) (by omega)
  have hroot : addSeen [] root = [root] := by simp [addSeen]
  simp only [Bool.true_and, hroot] at hs'
  simp [formatException, hs', stdFormat]

/-- non-vacuity: a two-exception cycle (`a.__cause__ = b; b.__context__ = a`) is a group-free heap -/
example : groupFree
    [{ truthy := true, cause := some 1, context := none, suppress := true, group := none, tb := [], parents := [] },
     { truthy := true, cause := none, context := some 0, suppress := false, group := none, tb := [], parents := [] }] := by
  intro x hx; simp at hx; rcases hx with rfl | rfl <;> rfl

/-! ### totality -/

/-- FULL statement (not provable – false of the current code, finding F12): with whatever positive
stack budget the interpreter has left, formatting succeeds for every heap. -/
def format_total_statement : Prop :=
  ∀ (budget : Nat), 0 < budget → ∀ (h : Heap) (o : Opts) (root : ExcId) (fromDec : Bool),
    ∃ out, formatException h o budget root fromDec = .ok out

/-- **format_total_partial**: formatting terminates and succeeds – for every heap (arbitrary, cyclic
cause/context graphs; nested groups; raising `repr`s; falsy exceptions; missing tracebacks; dangling
ids), every mode and entry point – as soon as the stack budget exceeds `depthBound`, the
lexicographic measure (exceptions not yet in `seen`, group rank, still-at-nesting-0).  The only
hypotheses are that budget (F12: the chain walk is recursive) and the well-foundedness of group
membership (`exceptions` tuples are immutable). -/
theorem format_total_partial (h : Heap) (o : Opts) (rank : ExcId → Nat) (R : Nat) (hr : Ranked h rank R)
    (budget : Nat) (root : ExcId) (fromDec : Bool) (hb : depthBound h rank R [] root 0 < budget) :
    ∃ out, formatException h o budget root fromDec = .ok out := by
  obtain ⟨⟨ps, s⟩, hps⟩ := fmt_total h o rank R hr budget [] root true fromDec 0 hb
  exact ⟨ps, by simp [formatException, hps]⟩

/-- without groups the hypothesis is `chainLength ≤ |heap| < budget` -/
theorem format_total_group_free (h : Heap) (o : Opts) (hgf : groupFree h) (budget : Nat) (root : ExcId)
    (fromDec : Bool) (hb : h.length < budget) : ∃ out, formatException h o budget root fromDec = .ok out :=
  ⟨_, chain_order_eq_standard h o hgf root fromDec budget hb⟩

/-- a `__cause__` chain of `n` exceptions: 0 ← 1 ← … -/
def causeChain (n : Nat) : Heap :=
  (List.range n).map fun i =>
    { truthy := true, cause := if i + 1 < n then some (i + 1) else none, context := none, suppress := true,
      group := none, tb := [], parents := [] }

def plainOpts : Opts := { backtrace := false, diagnose := false, colorize := false, limit := none, maxLen := Gen.maxLength }

/-- model-level witness of F12: a chain longer than the budget is a `RecursionError`, one that fits is
rendered (replayed on the implementation by `harness/c13.py`: 1200 exceptions, budget ≈ 1000) -/
theorem format_deep_chain_witness :
    formatException (causeChain 4) plainOpts 3 0 false = .error .runtimeError ∧
    (formatException (causeChain 4) plainOpts 5 0 false).toOption.isSome = true := by
  constructor <;> rfl

theorem format_total_statement_false : ¬ format_total_statement := by
  intro hs
  obtain ⟨out, ho⟩ := hs 3 (by omega) (causeChain 4) plainOpts 0 false
  rw [format_deep_chain_witness.1] at ho
  cases ho

/-- non-vacuity of `format_total_partial`: a group whose member's cause is the group itself -/
example : Ranked
    [{ truthy := true, cause := none, context := none, suppress := false, group := some [1], tb := [], parents := [] },
     { truthy := true, cause := some 0, context := none, suppress := true, group := none, tb := [], parents := [] }]
    (fun i => if i = 0 then 1 else 0) 1 := by
  constructor
  · intro i; split <;> omega
  · intro g x ms m hg hgrp hm
    match g, hg with
    | 0, hg => simp at hg; subst hg; simp at hgrp; subst hgrp; simp at hm; subst hm; simp
    | 1, hg => simp at hg; subst hg; simp at hgrp
    | n + 2, hg => simp at hg

/-! ### frames -/

/-- **frames_are_traceback_frames_in_order**: what `_extract_frames` returns for one exception is
exactly – in order – the caller frames the mode asks for (none; all non-hidden callers, outermost
first, with `backtrace` on the logged exception; the one calling frame for the decorator without
`backtrace`) followed by the non-hidden traceback frames, cut to the last `tracebacklimit` entries;
nothing when there is no traceback or the limit is ≤ 0. -/
theorem frames_are_traceback_frames_in_order (o : Opts) (isFirst fromDec : Bool) (tb parents : List Frame) :
    (extractFrames o isFirst fromDec tb parents).map (·.fr) =
      if tb.isEmpty || limitBlocks o.limit then []
      else applyLimit o.limit (callerFrames o isFirst fromDec parents ++ visible tb) := by
  cases tb with
  | nil => rfl
  | cons t0 rest =>
    simp only [extractFrames, List.isEmpty_cons, Bool.false_or]
    split
    · rfl
    · rw [← applyLimit_map]
      congr 1
      have hv : visible (t0 :: rest) = visible [t0] ++ visible rest := by
        simp [visible, List.filter_cons]; split <;> simp
      rw [hv, List.map_append, unmarked_fr, callerFrames]
      split
      · simp [unmarked_fr, parentOnlyFrames_eq]
      · split
        · simp [markLast_fr]
        · simp [unmarked_fr]

/-- the catch-point mark appears only with `backtrace` on the logged exception, and then exactly on
the last of (callers + first traceback frame), i.e. on the frame where the exception was caught -/
theorem catch_mark_only_with_backtrace (o : Opts) (isFirst fromDec : Bool) (tb parents : List Frame)
    (h : o.backtrace = false ∨ isFirst = false) :
    ∀ s ∈ extractFrames o isFirst fromDec tb parents, s.mark = false := by
  intro s hs
  cases tb with
  | nil => simp [extractFrames] at hs
  | cons t0 rest =>
    simp only [extractFrames] at hs
    split at hs
    · simp at hs
    · have hs' := mem_applyLimit _ _ _ hs
      simp only [List.mem_append] at hs'
      rcases hs' with hs' | hs'
      · split at hs'
        · exact unmarked_mark _ s hs'
        · split at hs'
          · rename_i hbt; rcases h with h | h <;> simp [h] at hbt
          · exact unmarked_mark _ s hs'
      · exact unmarked_mark _ s hs'

/-- folding repeated frames only drops frames: the frame pieces (with their marks) are a
subsequence, in order, of the extracted frames -/
theorem folded_frames_in_order (o : Opts) (d : Nat) (fs : List Shown) :
    ((foldFrames o d none 0 fs).filterMap Piece.frameInfo?).Sublist (fs.map (fun s => (s.fr.info, s.mark))) :=
  foldFrames_sublist o d fs none 0

/-! ### one catch object used many times -/

/-- **each_use_reports_its_own_kind**: for every sequence of decorator / context-manager uses of one
`logger.catch(...)` object, the flag the formatter receives at each use is "this use is a decorator
use" – nothing survives from earlier uses -/
theorem each_use_reports_its_own_kind (uses : List Use) :
    runUses ⟨Gen.catchContextFlag⟩ uses = uses.map (fun u => decide (u = Use.decorator)) := by
  induction uses with
  | nil => rfl
  | cons u us ih =>
    cases u <;> simp [runUses, useStep, Gen.catchWrapperFlag, Gen.catchContextFlag] <;> exact ih

/-- consequence for the report: whatever was done with the object before, a context-manager use on a
`backtrace = false` handler shows exactly the traceback's non-hidden frames (suffix-limited) – no
calling frame is added; a decorator use adds exactly the one calling frame -/
theorem use_kind_decides_caller_frame (before : List Use) (u : Use) (o : Opts) (hb : o.backtrace = false)
    (tb parents : List Frame) (hne : tb ≠ []) (hl : limitBlocks o.limit = false) :
    let flag := (runUses ⟨Gen.catchContextFlag⟩ (before ++ [u])).getLast?.getD false
    (extractFrames o true flag tb parents).map (·.fr) =
      applyLimit o.limit ((if u = Use.decorator then (visible parents).take 1 else []) ++ visible tb) := by
  have hflag : (runUses ⟨Gen.catchContextFlag⟩ (before ++ [u])).getLast?.getD false = decide (u = Use.decorator) := by
    rw [each_use_reports_its_own_kind]; simp
  simp only [hflag]
  rw [frames_are_traceback_frames_in_order]
  have : tb.isEmpty = false := by cases tb <;> simp_all
  simp only [this, hl, Bool.or_self, Bool.false_eq_true, if_false, callerFrames, hb]
  cases u <;> simp

/-- the refuted shape: if the decorator use stored its flag in the shared object, a context-manager
use after a decorator use would be reported as a decorator use (`harness/c13.py` replays this
sequence – and longer ones – on the implementation) -/
theorem shared_flag_leaks :
    runUsesShared ⟨Gen.catchContextFlag⟩ [Use.decorator, Use.context] = [true, true] ∧
    runUses ⟨Gen.catchContextFlag⟩ [Use.decorator, Use.context] = [true, false] := by
  constructor <;> rfl

theorem shared_flag_never_recovers (uses : List Use) :
    runUsesShared ⟨Gen.catchContextFlag⟩ (Use.decorator :: uses) = List.replicate (uses.length + 1) true := by
  have key : ∀ us : List Use, runUsesShared ⟨true⟩ us = List.replicate us.length true := by
    intro us
    induction us with
    | nil => rfl
    | cons u us ih => cases u <;> simp [runUsesShared, useStepShared, Gen.catchWrapperFlag, List.replicate_succ] <;> exact ih
  simp [runUsesShared, useStepShared, Gen.catchWrapperFlag, List.replicate_succ, key]

/-! ### the one calling frame of a decorator use, when loguru's own frames sit above the wrapper -/

theorem visible_hidden_prefix (pre : List Frame) (hpre : ∀ f ∈ pre, f.hidden = true) (rest : List Frame) :
    visible (pre ++ rest) = visible rest := by
  induction pre with
  | nil => rfl
  | cons f fs ih =>
    have hf : f.hidden = true := hpre f (List.mem_cons_self ..)
    have := ih (fun g hg => hpre g (List.mem_cons_of_mem _ hg))
    simp [visible, hf] at this ⊢
    exact this

/-- **decorator_caller_is_first_foreign_frame**: with `catch()` as a decorator and `backtrace = false`
the one calling frame is the first caller that is not loguru's own – however many loguru frames
(outer catch wrappers, `_log` evaluating a lazy argument or a patcher, `Catcher.__exit__` calling
`onerror`) lie between it and the catching wrapper -/
theorem decorator_caller_is_first_foreign_frame (o : Opts) (isFirst : Bool) (hb : o.backtrace = false)
    (own : List Frame) (hown : ∀ f ∈ own, f.hidden = true) (p : Frame) (hp : p.hidden = false)
    (above : List Frame) :
    callerFrames o isFirst true (own ++ p :: above) = [p] := by
  simp only [callerFrames, hb, Bool.not_false, Bool.and_self, if_true]
  rw [visible_hidden_prefix own hown]
  simp [visible, hp]

/-- the refuted shape (seeded change C13-i: the `break` outside the visibility test looks at the
immediate caller only): one loguru frame above the wrapper and the calling frame is lost -/
theorem immediate_caller_only_loses_frame (own p : Frame) (ho : own.hidden = true) (hp : p.hidden = false)
    (above : List Frame) :
    visible ((own :: p :: above).take 1) = [] ∧ (visible (own :: p :: above)).take 1 = [p] := by
  simp [visible, ho, hp]

theorem parent_walk_skips_hidden : Gen.parentWalkSkipsHidden = true := by decide

/-! ### `_extract_frames` statement by statement, over the REGENERATED decision kernels and limit slice -/

/-- **extract_loop_refines**: the statement-level transcription of `_extract_frames` (`Exc.extractLoop`: early
return, `infos.insert(0, …)` walk with its `break`, `infos[-1]` marking, traceback loop, limit slice – every test
and the slice regenerated from the source as `Gen.earlyReturn`, `Gen.walkCond`, `Gen.walkBreaks`, `Gen.markCond`,
`Gen.limitApplies`, `Gen.limitSlice`) computes exactly the list-level model the other theorems are about – for
every mode, entry point, `tracebacklimit`, traceback and caller chain.  An edit of one of those tests or of the
slice expression in the source breaks this proof. -/
theorem extract_loop_refines (o : Opts) (isFirst fromDec : Bool) (tb parents : List Frame) :
    extractLoop o isFirst fromDec tb parents = extractFrames o isFirst fromDec tb parents :=
  extractLoop_eq o isFirst fromDec tb parents

/-- hence the code's frames are the property's frames (`frames_are_traceback_frames_in_order` for the loop) -/
theorem loop_frames_are_traceback_frames_in_order (o : Opts) (isFirst fromDec : Bool) (tb parents : List Frame) :
    (extractLoop o isFirst fromDec tb parents).map (·.fr) =
      if tb.isEmpty || limitBlocks o.limit then []
      else applyLimit o.limit (callerFrames o isFirst fromDec parents ++ visible tb) := by
  rw [extract_loop_refines, frames_are_traceback_frames_in_order]

/-- **tracebacklimit_keeps_last_frames**: a positive `sys.tracebacklimit = k` shows the LAST `min k n` of the `n`
entries the unlimited report shows, in the same order and with the same marks (a suffix – the frames nearest to
the error, as the interpreter does); `k ≤ 0` shows none -/
theorem tracebacklimit_keeps_last_frames (o : Opts) (k : Int) (hl : o.limit = some k) (isFirst fromDec : Bool)
    (tb parents : List Frame) :
    let all := extractLoop { o with limit := none } isFirst fromDec tb parents
    let shown := extractLoop o isFirst fromDec tb parents
    (0 < k → shown <:+ all ∧ shown.length = min k.toNat all.length) ∧ (k ≤ 0 → shown = []) := by
  simp only [extract_loop_refines]
  cases tb with
  | nil => simp [extractFrames]
  | cons t0 rest =>
    rw [extractFrames_cons, extractFrames_cons]
    have hspec : infosSpec { o with limit := none } isFirst fromDec t0 rest parents =
        infosSpec o isFirst fromDec t0 rest parents := rfl
    simp only [hl, hspec, limitBlocks, applyLimit]
    constructor
    · intro hk
      have : ¬ k ≤ 0 := by omega
      simp only [this, decide_false, Bool.false_eq_true, if_false]
      exact ⟨List.drop_suffix _ _, by rw [List.length_drop]; omega⟩
    · intro hk
      simp [hk]

/-- non-vacuity: limit 1 over two traceback frames keeps the last one -/
example :
    let f (n : Int) : Frame := { info := ⟨"f.py".toList, n, "g".toList, []⟩, hidden := false, vals := [] }
    (extractLoop { backtrace := false, diagnose := false, colorize := false, limit := some 1, maxLen := 128 }
      true false [f 1, f 2] []).map (·.fr.info.line) = [2] := by decide

/-- **catch_point_is_the_catching_frame**: with `backtrace` on, for the logged exception whose first traceback
frame (the frame in which it was caught) is not loguru's own, the report shows the callers outermost first,
unmarked, then THAT frame carrying the catch-point mark (exactly one mark), then the deeper traceback frames,
unmarked – whatever the entry point -/
theorem catch_point_is_the_catching_frame (o : Opts) (hb : o.backtrace = true) (hl : o.limit = none) (fromDec : Bool)
    (t0 : Frame) (ht : t0.hidden = false) (rest parents : List Frame) :
    extractLoop o true fromDec (t0 :: rest) parents =
      unmarked (visible parents).reverse ++ [⟨t0, true⟩] ++ unmarked (visible rest) := by
  rw [extract_loop_refines, extractFrames_cons]
  have hv : visible [t0] = [t0] := by simp [visible, ht]
  simp [hl, limitBlocks, applyLimit, infosSpec, hb, hv, markLast_snoc]

/-- non-vacuity / the `>` line of a report: one caller, the catching frame, one deeper frame -/
example :
    let f (n : Int) (h : Bool) : Frame := { info := ⟨"f.py".toList, n, "g".toList, []⟩, hidden := h, vals := [] }
    (extractLoop { backtrace := true, diagnose := false, colorize := false, limit := none, maxLen := 128 }
      true true [f 1 false, f 2 true, f 3 false] [f 10 true, f 11 false]).map (fun s => (s.fr.info.line, s.mark)) =
      [(11, false), (1, true), (3, false)] := by decide

/-! ### what the `seen` set does -/

/-- **each_exception_rendered_once**: on heaps without exception groups – any cause/context graph, cycles and
self-references included – no exception gets its closing lines twice in a report (first-seen wins) -/
theorem each_exception_rendered_once (h : Heap) (o : Opts) (hgf : groupFree h) (root : ExcId) (fromDec : Bool)
    (budget : Nat) (hb : h.length < budget) (out : List Piece)
    (hout : formatException h o budget root fromDec = .ok out) :
    (out.filterMap Piece.excId?).Nodup := by
  rw [chain_order_eq_standard h o hgf root fromDec budget hb] at hout
  cases hout
  exact stdFormat_excIds_nodup h o root fromDec

/-- **report_closed_under_chaining** – the cycle guard never drops a chained exception.  For EVERY heap (groups,
cycles, falsy exceptions, shared members …), mode, entry point and budget, a successful report
(1) contains the logged exception; (2) with every truthy exception it contains, contains its `__cause__`;
(3) with every truthy exception without cause whose context is not suppressed, contains its `__context__`
(ids without an exception behind them aside).  So an exception is skipped by `id(…) not in seen` only when the
report shows it anyway. -/
theorem report_closed_under_chaining (h : Heap) (o : Opts) (budget : Nat) (root : ExcId) (fromDec : Bool)
    (out : List Piece) (hout : formatException h o budget root fromDec = .ok out) :
    (∀ x, h[root]? = some x → Rendered out root) ∧
    (∀ i x, Rendered out i → h[i]? = some x → x.truthy = true →
      (∀ c y, x.cause = some c → h[c]? = some y → Rendered out c) ∧
      (x.cause = none → x.suppress = false → ∀ d y, x.context = some d → h[d]? = some y → Rendered out d)) := by
  unfold formatException at hout
  split at hout
  · rename_i ps s hf
    simp at hout; subst hout
    obtain ⟨hcl, hroot⟩ := fmt_closed h o budget [] root true fromDec 0 ps s hf
    have hmem := fmt_ids_mem h o budget [] root true fromDec 0 ps s hf
    have hall : ∀ i ∈ s, Rendered ps i ∧ LinksIn h i s := by
      intro i hi
      rcases hcl i hi with h0 | h1
      · simp at h0
      · exact h1
    refine ⟨fun x hx => (hroot x hx).2.1, ?_⟩
    intro i x hr hx ht
    have his : i ∈ s := hmem i ((rendered_iff ps i).1 hr)
    obtain ⟨l1, l2⟩ := (hall i his).2 x hx ht
    exact ⟨fun c y hc hy => (hall c (l1 c y hc hy)).1, fun hn hs d y hd hy => (hall d (l2 hn hs d y hd hy)).1⟩
  · simp at hout

/-- non-vacuity: in the three-cycle 0 → 1 → 2 → 0 (through `__cause__`) logged at 0 every exception is rendered once -/
example :
    let x (c : Nat) : Exn := { truthy := true, cause := some c, context := none, suppress := true, group := none,
                               tb := [], parents := [] }
    ((formatException [x 1, x 2, x 0] plainOpts 5 0 false).toOption.getD []).filterMap Piece.excId? = [2, 1, 0] := by
  decide

/-! ### layout of a flat exception group -/

/-- **flat_group_layout**: a logged exception group without chain links whose members are plain exceptions
without chain links (any number of them, any tracebacks, any mode and entry point) is rendered as: the group's own
frames and closing lines one level in (`+`-prefixed intro), then for the first `groupWidth` (15) members, in the
order of `exceptions`, the separator numbered 1, 2, … followed by the member's frames and closing lines two levels
in; if there are more members, the `...` separator and "and k more" with k = len − 15; then one closing line.
This is the layout of `traceback.TracebackException.format` (`max_group_width = 15`). -/
theorem flat_group_layout (h : Heap) (o : Opts) (b : Nat) (root : ExcId) (x : Exn) (hx : h[root]? = some x)
    (ms : List ExcId) (hg : x.group = some ms) (hc : x.cause = none) (hcx : x.context = none)
    (hleaf : ∀ m ∈ ms, ∃ y, h[m]? = some y ∧ Leaf y) (fromDec : Bool) :
    formatException h o (b + 3) root fromDec = .ok (
      renderOwn o root x true fromDec 1 ++
      ((ms.take Gen.groupWidth).zipIdx 1).flatMap
        (fun p => Piece.ruler (some p.2) (p.2 == 1) 1 :: ownOf h o p.1 2) ++
      (if Gen.groupWidth < ms.length then [Piece.ruler none false 1, Piece.more (ms.length - Gen.groupWidth) 2] else []) ++
      [Piece.groupEnd 1]) := by
  obtain ⟨s, hs⟩ := fmt_flat_root_group h o b root x true fromDec hx ms hg hc hcx hleaf
  have hfp := flatPieces_closed h o 1 ms.length ms 1 (by omega) (by omega)
  simp only [Nat.add_sub_cancel] at hfp
  simp only [formatException, hs, hfp, List.append_assoc]

/-- non-vacuity: a group of two leaves -/
example :
    let leaf : Exn := { truthy := true, cause := none, context := none, suppress := false, group := none, tb := [], parents := [] }
    let g : Exn := { leaf with group := some [1, 2] }
    formatException [g, leaf, leaf] plainOpts 3 0 false =
      .ok [Piece.pfx, Piece.excOnly 0 1, Piece.ruler (some 1) true 1, Piece.excOnly 1 2, Piece.ruler (some 2) false 1,
           Piece.excOnly 2 2, Piece.groupEnd 1] := by rfl

/-! ### folding of repeated frames loses nothing -/

/-- **folding_loses_no_frame**: reading a folded frame list back – every `[Previous line repeated n more times]`
expanded into n further copies of the frame line above it, value lines skipped – gives exactly the extracted
frames (file, line, function, catch mark), in order and with multiplicity, in every mode.  (`folded_frames_in_order`
only said "a subsequence"; this is what oracle 5 of the harness checks on real reports.) -/
theorem folding_loses_no_frame (o : Opts) (d : Nat) (fs : List Shown) :
    expandFolded none (foldFrames o d none 0 fs) = fs.map Shown.key := by
  simpa [pendingRepeats] using expandFolded_foldFrames o d fs none 0 (fun _ => rfl)

/-- hence: the frame lines of one exception in a report, repeats expanded, are the frames the property names -/
theorem report_frames_are_the_property_frames (o : Opts) (d : Nat) (isFirst fromDec : Bool) (tb parents : List Frame) :
    (expandFolded none (foldFrames o d none 0 (extractLoop o isFirst fromDec tb parents))).map
        (fun k => (k.1, k.2.1, k.2.2.1)) =
      (if tb.isEmpty || limitBlocks o.limit then []
       else applyLimit o.limit (callerFrames o isFirst fromDec parents ++ visible tb)).map
        (fun f => (f.info.file, f.info.line, f.info.func)) := by
  rw [folding_loses_no_frame, ← loop_frames_are_traceback_frames_in_order]
  simp [List.map_map, Function.comp_def, Shown.key]

/-- **format_list_loop_refines**: the statement-level transcription of `_format_list` (`Exc.formatListLoop`: the
`count` / `last_source` loop with its `continue`, every test and counter update regenerated from the source as
`Gen.flInit`, `flFlushTest`, `flFlushArg`, `flSameTest`, `flStep`, `flContinueTest`, `flRestart`, `flFinalTest`, `flFinalArg`)
is the folding model `foldFrames` – so an edited threshold, comparison or counter update in the source breaks this proof -/
theorem format_list_loop_refines (o : Opts) (d : Nat) (fs : List Shown) :
    formatListLoop o d none Gen.flInit fs = foldFrames o d none 0 fs := by
  have := formatListLoop_eq o d fs none 0
  simpa [Gen.flInit] using this

/-- the two code-level loops composed: what `_format_list(_extract_frames(…))` shows, repeats expanded, is the
property's frame list – callers as the mode asks, then the traceback's own frames, last `tracebacklimit` of them -/
theorem code_loops_show_the_property_frames (o : Opts) (d : Nat) (isFirst fromDec : Bool) (tb parents : List Frame) :
    (expandFolded none (formatListLoop o d none Gen.flInit (extractLoop o isFirst fromDec tb parents))).map
        (fun k => (k.1, k.2.1, k.2.2.1)) =
      (if tb.isEmpty || limitBlocks o.limit then []
       else applyLimit o.limit (callerFrames o isFirst fromDec parents ++ visible tb)).map
        (fun f => (f.info.file, f.info.line, f.info.func)) := by
  rw [format_list_loop_refines, report_frames_are_the_property_frames]

/-- non-vacuity: six identical frames are shown as three + "repeated 3 more times", and read back as six -/
example :
    let f : Shown := ⟨{ info := ⟨"f.py".toList, 7, "rec".toList, []⟩, hidden := false, vals := [] }, false⟩
    let o : Opts := { backtrace := false, diagnose := false, colorize := false, limit := none, maxLen := 128 }
    (foldFrames o 0 none 0 (List.replicate 6 f)).length = 4 ∧
    (expandFolded none (foldFrames o 0 none 0 (List.replicate 6 f))).length = 6 := by decide

/-! ### the closing line: the one place where `__str__` of the exception object runs -/

/-- **closing_line_never_fails**: whatever `str(exc_value)` does – returns anything or raises any `Exception` –
and in every mode, the closing-line block of `_format_exception` completes (F11 was the absence of this guard) -/
theorem closing_line_never_fails (diagnose framesNonEmpty finalSourceNonEmpty : Bool) (x : ExcObj) :
    ∃ b, assertSuffix diagnose framesNonEmpty finalSourceNonEmpty x = .ok b := by
  unfold assertSuffix assertSuffixWith
  split
  · cases hs : x.str <;> simp [hasMessageWith, hs, Gen.strGuarded]
  · exact ⟨false, rfl⟩

/-- **closing_line_is_standard_unless**: the closing lines are `traceback.format_exception_only` verbatim except in
exactly one circumstance – `diagnose` on, at least one frame shown, an `AssertionError` (subclass), a non-empty
source line of the last frame, and `str(exc)` returning the empty string; in particular always with
`diagnose = false`, and for every exception whose `__str__` raises -/
theorem closing_line_is_standard_unless (diagnose framesNonEmpty finalSourceNonEmpty : Bool) (x : ExcObj) :
    assertSuffix diagnose framesNonEmpty finalSourceNonEmpty x = .ok true ↔
      (diagnose = true ∧ framesNonEmpty = true ∧ x.isAssertion = true ∧ finalSourceNonEmpty = true ∧ x.str = .ok []) := by
  obtain ⟨a, s⟩ := x
  cases s with
  | error e =>
    cases diagnose <;> cases framesNonEmpty <;>
      simp [assertSuffix, assertSuffixWith, hasMessageWith, Gen.strGuarded, Gen.closingGuard, Gen.assertAppend,
        Gen.hasMessageOnError]
  | ok t =>
    cases diagnose <;> cases framesNonEmpty <;> cases a <;> cases finalSourceNonEmpty <;> cases t <;>
      simp [assertSuffix, assertSuffixWith, hasMessageWith, Gen.closingGuard, Gen.assertAppend]

theorem closing_line_standard_without_diagnose (framesNonEmpty finalSourceNonEmpty : Bool) (x : ExcObj) :
    assertSuffix false framesNonEmpty finalSourceNonEmpty x = .ok false := by
  simp [assertSuffix, assertSuffixWith, Gen.closingGuard]

/-- the refuted shape (F11, mutant m10: `str(exc_value)` outside the `try`): a raising `__str__` escapes from the
formatter as soon as `diagnose` is on and a frame is shown – for every error and every kind of exception -/
theorem unguarded_str_escapes (finalSourceNonEmpty isAssertion : Bool) (e : Err) :
    assertSuffixWith false true true finalSourceNonEmpty ⟨isAssertion, .error e⟩ = .error e ∧
    assertSuffixWith true true true finalSourceNonEmpty ⟨isAssertion, .error e⟩ = .ok false := by
  simp [assertSuffixWith, hasMessageWith, Gen.closingGuard, Gen.assertAppend, Gen.hasMessageOnError]

/-- every call of `repr` / `str` / `ascii` / `format` / `hash` on an object inside `ExceptionFormatter` sits in the
body of a `try … except Exception` (regenerated from the AST of the whole class) -/
theorem user_calls_guarded : Gen.userCallsGuarded = true ∧ Gen.strGuarded = true ∧ Gen.reprGuarded = true := by decide

/-- non-vacuity: a bare `assert x` under diagnose gets its source appended, `assert x, "msg"` does not -/
example : assertSuffix true true true ⟨true, .ok []⟩ = .ok true ∧
    assertSuffix true true true ⟨true, .ok "msg".toList⟩ = .ok false := by constructor <;> rfl

/-! ### copied handlers keep their options -/

/-- **copied_formatter_keeps_options**: the formatter of a handler re-created by `copy.deepcopy(logger)`, a pickle
round trip or a spawned child has the options the handler was added with (regenerated `Gen.rebuild`) -/
theorem copied_formatter_keeps_options (o : Opts) : rebuildOpts o = o := by
  cases o; rfl

/-- hence a copied handler produces exactly the report of the original – every heap, entry point and budget – and in
particular never prints a value when it was added with `diagnose = false` -/
theorem copied_handler_reports_the_same (h : Heap) (o : Opts) (budget : Nat) (root : ExcId) (fromDec : Bool) :
    formatException h (rebuildOpts o) budget root fromDec = formatException h o budget root fromDec := by
  rw [copied_formatter_keeps_options]

theorem copied_handler_hides_values (h h' : Heap) (o : Opts) (budget : Nat) (root : ExcId) (fromDec : Bool)
    (hd : o.diagnose = false) (hsame : eraseVals h = eraseVals h') :
    formatException h (rebuildOpts o) budget root fromDec = formatException h' (rebuildOpts o) budget root fromDec := by
  rw [copied_formatter_keeps_options]
  exact diagnose_false_noninterference h h' o budget root fromDec hd hsame

/-- the refuted shape (seeded change C13-o: two constructor arguments exchanged on re-creation): a handler added with
`backtrace = true, diagnose = false` prints a variable value after copying (and not before) -/
theorem swapped_options_leak :
    let fr : Frame := { info := ⟨"f.py".toList, 3, "g".toList, "g(x)".toList⟩, hidden := false,
                        vals := [{ repr := .ok "'secret'".toList, typeName := "str".toList }] }
    let hp : Heap := [{ truthy := true, cause := none, context := none, suppress := false, group := none,
                        tb := [fr], parents := [] }]
    let o : Opts := { backtrace := true, diagnose := false, colorize := false, limit := none, maxLen := 128 }
    ((formatException hp o 2 0 false).toOption.map hasValue) = some false ∧
    ((formatException hp (swappedOpts o) 2 0 false).toOption.map hasValue) = some true := by
  constructor <;> rfl

end C13
