import LoguruModel.Format.SpecOk
/-!
C05 – property theorems (and their non-vacuity examples) only.  Every statement is about the model of
`Format/Model.lean`, which is defined over the constants, guards, field re-assembly order and branch
chains REGENERATED from /repo (`Generated/Format.lean`), and over the transcription of CPython's
field parser (`Py/FormatSyntax.lean`, `Py/VFormat.lean`).
-/
namespace C05
open Py Py.Fmt Format

/-- the recursion guards admit exactly three nesting levels (template, spec, spec of a spec) -/
theorem levels_eq : levelsWith = 3 ∧ levelsWithout = 3 := by decide

/-! ### (a) the handler's re-serialised format -/

/-- ROUND TRIP, for ALL templates: whatever Python's parser reads from `t`, it reads the same tuples
from the text `_parse_without_formatting` re-assembles (last brace of a literal doubled, fields rebuilt
as `{name!c:spec}`): doubled braces, conversions, nested specs, `[...]` keys holding `!`, `:`, `}` are
all inside the quantifier.  Proof: structural induction over the parse (`Format.reparse_fuel`). -/
theorem reserialize_parse_eq (t : Str) (ps : List Piece) (h : parse t = (ps, none)) :
    parse (reserialize ps) = (ps, none) :=
  reparse_fuel (t.length + 1) t (Nat.lt_succ_self _) ps h _ (Nat.lt_succ_self _)

/-- what `prepare_format(t).strip()` returns parses exactly like `t` -/
theorem prepare_format_parse_eq (t s : Str) (h : prepareFormat t = .ok s) :
    parse s = parse t ∧ (parse t).2 = none := by
  unfold prepareFormat at h
  split at h
  · rename_i hc
    simp at h; subst h
    rw [levels_eq.2] at hc
    simp [prepCheck] at hc
    have hp : parse t = ((parse t).1, none) := by rw [← hc.1]
    exact ⟨by rw [reserialize_parse_eq t _ hp, ← hp], hc.1⟩
  · simp at h

/-- therefore `format_map` (and `format`) cannot tell the stripped format from the original: same text,
same error, same auto-numbering state, for every record / argument oracle and every depth -/
theorem format_map_equiv {V} (env : Env V) (t s : Str) (h : prepareFormat t = .ok s) :
    (∀ d an, buildString env d s an = buildString env d t an) ∧ strFormat env s = strFormat env t := by
  have hp := (prepare_format_parse_eq t s h).1
  have h1 : ∀ d an, buildString env d s an = buildString env d t an := by
    intro d an
    cases d with
    | zero => rfl
    | succ d => simp [buildString, hp]
  exact ⟨h1, by simp [strFormat, h1]⟩

/-- Python's requirement on a template, as a specification: it and every nested format spec parse, and
no replacement field sits on a fourth level -/
inductive Accepts : Nat → Str → Prop where
  | mk (d : Nat) (t : Str) : (parse t).2 = none →
      (∀ p ∈ (parse t).1, ∀ f, p.field = some f → Accepts d f.spec) → Accepts (d + 1) t

theorem prepCheck_iff (d : Nat) (t : Str) : prepCheck d t = true ↔ Accepts d t := by
  induction d generalizing t with
  | zero => simp [prepCheck]; intro h; cases h
  | succ d ih =>
    constructor
    · intro h
      simp [prepCheck] at h
      refine Accepts.mk d t h.1 ?_
      intro p hp f hf
      have := h.2 p hp
      rw [hf] at this
      exact (ih _).1 this
    · intro h
      cases h with
      | mk _ _ h1 h2 =>
        simp [prepCheck, h1]
        intro p hp
        cases hf : p.field with
        | none => rfl
        | some f => exact (ih _).2 (h2 p hp f hf)

/-- `prepare_format` (hence `logger.add`) fails exactly on the templates Python's parser refuses within
three levels, always with `ValueError`; no template is rejected for a formatting reason of loguru's own -/
theorem reserialize_error_iff (t : Str) :
    (prepareFormat t = .error .valueError ↔ ¬ Accepts 3 t) ∧
    ((∃ s, prepareFormat t = .ok s) ↔ Accepts 3 t) := by
  have e := prepCheck_iff 3 t
  unfold prepareFormat
  rw [levels_eq.2]
  by_cases h : prepCheck 3 t = true
  · simp [h, e.1 h]
  · simp [h]; intro ha; exact h (e.2 ha)

/-! ### (c) `Logger.add`, `Logger._log`, `Handler.emit` -/

/-- string formats always end with the terminator and the `{exception}` field -/
theorem add_format_suffix (format terminator : Str) :
    Gen.composeFormat format terminator = format ++ terminator ++ "{exception}".toList := rfl

/-- the callable / file / stream / coroutine sinks terminate lines with `\n`, `logging.Handler`s with nothing -/
theorem terminators :
    Gen.terminatorCallable = ['\n'] ∧ Gen.terminatorFile = ['\n'] ∧ Gen.terminatorStream = ['\n'] ∧
    Gen.terminatorCoroutine = ['\n'] ∧ Gen.terminatorStandard = [] := by decide

/-- without `colors` the message goes through `str.format` exactly when there is an argument, and is
left untouched otherwise (a lone `{` in a plain message is not an error) -/
theorem plain_message_is_python_format {V} (env : Env V) (hasArgs hasKwargs : Bool) (m : Str) :
    logMessage env false hasArgs hasKwargs m =
      if hasArgs || hasKwargs then strFormat env m else .ok m := by
  cases hasArgs <;> cases hasKwargs <;> rfl

/-- with `colors` it goes through loguru's own formatter under the same guard -/
theorem colored_message_branch {V} (env : Env V) (hasArgs hasKwargs : Bool) (m : Str) :
    logMessage env true hasArgs hasKwargs m =
      if hasArgs || hasKwargs then coloredFormat env m else .ok m := by
  cases hasArgs <;> cases hasKwargs <;> rfl

/-- `emit`: raw ⇒ the bare message, whatever the format; otherwise `format_map` of the precomputed
(stripped) format over the record, in all four static/dynamic × colorize branches -/
theorem emit_text {V} (record : Env V) (isRaw dynamic colorize cmNone : Bool) (fmt message : Str) :
    emitText record isRaw dynamic colorize cmNone fmt message =
      if isRaw then .ok message else strFormat record fmt := by
  cases isRaw <;> cases dynamic <;> cases colorize <;> cases cmNone <;> rfl

/-- end to end for a static handler: the emitted text is Python's `format_map` of
`format + terminator + "{exception}"` itself -/
theorem emit_static_text {V} (record : Env V) (dynamic colorize cmNone : Bool)
    (format terminator s message : Str) (h : addFormat format terminator = .ok s) :
    emitText record false dynamic colorize cmNone s message =
      strFormat record (format ++ terminator ++ "{exception}".toList) := by
  rw [emit_text]
  exact (format_map_equiv record _ s h).2

/-! ### (b) coloured messages: `_parse_with_formatting` against `str.format` -/

/-- FULL statement (not proved – false of the current code, known finding F21): the coloured path
computes what `str.format` computes, same text or same error, for every template and all oracles -/
def colored_eq_str_format_statement : Prop :=
  ∀ (env : Env Str) (t : Str), env.hasArgs = true → coloredFormat env t = strFormat env t

/-- PROVED PART: on templates without a third nesting level (`shallow`, decidable) the coloured path
equals `str.format` – same text or same error kind – for EVERY field name (automatic, numbered, named,
with `.attr`/`[key]` accessors), every argument tuple/dict and all `__getattr__/__getitem__/__format__`
oracles.  Since d5e7115 the numbering rule regenerated from /repo (`Gen.numberingSubject`,
`Gen.headSeparators`, `Gen.autoIndexPrefixesName`) is `field_name_split`'s first-component rule
(`Format.numberingText_eq`); a revert to the whole-name rule breaks this proof.  Simulation of the two
auto-numbering automata (`Format.R`), induction over the pieces at each level. -/
theorem colored_eq_str_format_partial {V} (env : Env V) (hA : env.hasArgs = true) (t : Str)
    (h2 : shallow t = true) :
    coloredFormat env t = strFormat env t := by
  have h := colored_rel env hA t (specsOk_all t) h2
  unfold coloredFormat strFormat
  rw [levels_eq.1]
  have e0 : Gen.autoArgIndexDefault = 0 := rfl
  rw [e0]
  cases hb : buildString env 2 t .init with
  | error e => rw [hb] at h; rw [h.error_left]; rfl
  | ok w =>
    obtain ⟨x, an⟩ := w
    rw [hb] at h
    obtain ⟨au, e, _⟩ := h.ok_left
    rw [e]; rfl

/-- a tiny concrete universe for the witnesses: values are texts, `.attr` appends, `format` appends the spec -/
def demoEnv (args : List Str) : Env Str where
  args := args
  hasArgs := true
  kwargs := fun _ => .error .keyError
  getattr := fun v n => .ok (v ++ '.' :: n)
  getidx := fun v _ => .ok v
  getkey := fun v _ => .ok v
  convert := fun _ v => .ok v
  format := fun v spec => .ok (v ++ spec)

/-- regression of F5 (fixed by d5e7115; also corpus cases of harness/c05.py): `"{.real}".format(1)` –
the coloured call used to raise `KeyError`, now both render the attribute of argument 0 -/
theorem colored_first_component_regression :
    strFormat (demoEnv ["1".toList]) "{.real}".toList = .ok "1.real".toList ∧
    coloredFormat (demoEnv ["1".toList]) "{.real}".toList = .ok "1.real".toList := ⟨by rfl, by rfl⟩

/-- regression of F5: `"{0.real}{}"` switches from manual to automatic numbering – `ValueError` on
both paths (the coloured call used to render `1.real1`) -/
theorem colored_first_component_regression2 :
    strFormat (demoEnv ["1".toList]) "{0.real}{}".toList = .error .valueError ∧
    coloredFormat (demoEnv ["1".toList]) "{0.real}{}".toList = .error .valueError := ⟨by rfl, by rfl⟩

/-- F21 witness (replayed on the implementation by harness/c05.py): a third nesting level holding only
escaped braces is refused by `str.format` ("Max string recursion exceeded") and rendered by the
coloured call -/
theorem colored_depth_witness :
    strFormat (demoEnv ["1".toList]) "{0:{0:{{Y}}}}".toList = .error .valueError ∧
    coloredFormat (demoEnv ["1".toList]) "{0:{0:{{Y}}}}".toList = .ok "11{Y}".toList := ⟨by rfl, by rfl⟩

theorem colored_eq_str_format_statement_false : ¬ colored_eq_str_format_statement := by
  intro h
  have e := h (demoEnv ["1".toList]) "{0:{0:{{Y}}}}".toList rfl
  rw [colored_depth_witness.1, colored_depth_witness.2] at e
  cases e

/-! ### non-vacuity -/

example : parse "a{{b}}c{x[!:}]!r:>{w}}z".toList =
    ([⟨"a{".toList, none⟩, ⟨"b}".toList, none⟩,
      ⟨"c".toList, some ⟨"x[!:}]".toList, ">{w}".toList, some 'r'⟩⟩, ⟨"z".toList, none⟩], none) := by decide

example : prepareFormat "a{{b}}c{x[!:}]!r:>{w}}z".toList = .ok "a{{b}}c{x[!:}]!r:>{w}}z".toList := by rfl

example : prepareFormat "{a:{b:{c}}}".toList = .error .valueError := by rfl
example : prepareFormat "{a!}".toList = .error .valueError := by rfl
example : shallow "{:>{w}} {.b[0]!r:{}}{0.real}{{".toList = true := by decide
example : shallow "{0:{0:{{Y}}}}".toList = false := by decide
example : Accepts 3 "{a:{b}}".toList := (prepCheck_iff 3 _).1 (by decide)

end C05
