import LoguruModel.Format.SpecOk
/-!
C05 – property theorems (and their non-vacuity examples) only.  Every statement is about the model of
`Format/Model.lean`, which is defined over the constants, guards, field re-assembly order and branch
chains REGENERATED from /repo (`Generated/Format.lean`), and over the transcription of CPython's
field parser (`Py/FormatSyntax.lean`, `Py/VFormat.lean`).
-/
namespace C05
open Py Py.Fmt Format

/-- the recursion guards admit exactly three nesting levels (template, spec, spec of a spec) -/
theorem levels_eq : levelsWith = 3 ∧ levelsWithout = 3 := by decide

/-! ### (a) the handler's re-serialised format -/

/-- ROUND TRIP, for ALL templates: whatever Python's parser reads from `t`, it reads the same tuples
from the text `_parse_without_formatting` re-assembles (last brace of a literal doubled, fields rebuilt
as `{name!c:spec}`): doubled braces, conversions, nested specs, `[...]` keys holding `!`, `:`, `}` are
all inside the quantifier.  Proof: structural induction over the parse (`Format.reparse_fuel`). -/
theorem reserialize_parse_eq (t : Str) (ps : List Piece) (h : parse t = (ps, none)) :
    parse (reserialize ps) = (ps, none) :=
  reparse_fuel (t.length + 1) t (Nat.lt_succ_self _) ps h _ (Nat.lt_succ_self _)

/-- what `prepare_format(t).strip()` returns parses exactly like `t`, for every template whose
top-level literal text is markup-free and WHATEVER its fields and format specs contain (`<`, `>`,
tag-looking text …): by the regenerated `raw=` arguments only the top-level literal texts reach the
markup parser `mk` (`Format.feedsOk_nested`) -/
theorem prepare_format_parse_eq (mk : Str → Except Err Str) (t s : Str) (hm : MarkupFree mk t)
    (h : prepareFormat mk t = .ok s) :
    parse s = parse t ∧ (parse t).2 = none := by
  unfold prepareFormat at h
  split at h
  · rename_i hc
    simp at h; subst h
    rw [levels_eq.2] at hc
    simp [prepCheck] at hc
    have hp : parse t = ((parse t).1, none) := by rw [← hc.1.1]
    rw [reserializeM_markupFree mk _ hm]
    exact ⟨by rw [reserialize_parse_eq t _ hp, ← hp], hc.1.1⟩
  · simp at h

/-- therefore `format_map` (and `format`) cannot tell the stripped format from the original: same text,
same error, same auto-numbering state, for every record / argument oracle and every depth -/
theorem format_map_equiv {V} (mk : Str → Except Err Str) (env : Env V) (t s : Str) (hm : MarkupFree mk t)
    (h : prepareFormat mk t = .ok s) :
    (∀ d an, buildString env d s an = buildString env d t an) ∧ strFormat env s = strFormat env t := by
  have hp := (prepare_format_parse_eq mk t s hm h).1
  have h1 : ∀ d an, buildString env d s an = buildString env d t an := by
    intro d an
    cases d with
    | zero => rfl
    | succ d => simp [buildString, hp]
  exact ⟨h1, by simp [strFormat, h1]⟩

/-- Python's requirement on a template, as a specification: it and every nested format spec parse, and
no replacement field sits on a fourth level -/
inductive Accepts : Nat → Str → Prop where
  | mk (d : Nat) (t : Str) : (parse t).2 = none →
      (∀ p ∈ (parse t).1, ∀ f, p.field = some f → Accepts d f.spec) → Accepts (d + 1) t

theorem prepCheck_iff (d : Nat) (t : Str) : prepCheck d t = true ↔ Accepts d t := by
  induction d generalizing t with
  | zero => simp [prepCheck]; intro h; cases h
  | succ d ih =>
    constructor
    · intro h
      simp [prepCheck] at h
      refine Accepts.mk d t h.1 ?_
      intro p hp f hf
      have := h.2 p hp
      rw [hf] at this
      exact (ih _).1 this
    · intro h
      cases h with
      | mk _ _ h1 h2 =>
        simp [prepCheck, h1]
        intro p hp
        cases hf : p.field with
        | none => rfl
        | some f => exact (ih _).2 (h2 p hp f hf)

/-- `prepare_format` (hence `logger.add`) fails, on a template with markup-free literal text, exactly
when Python's parser refuses it within three levels, always with `ValueError`; no template is rejected
for a formatting reason of loguru's own – in particular not for what a format spec contains -/
theorem reserialize_error_iff (mk : Str → Except Err Str) (t : Str) (hm : MarkupFree mk t) :
    (prepareFormat mk t = .error .valueError ↔ ¬ Accepts 3 t) ∧
    ((∃ s, prepareFormat mk t = .ok s) ↔ Accepts 3 t) := by
  have e := prepCheck_iff 3 t
  have hf := feedsOk_markupFree mk 2 t hm
  unfold prepareFormat
  rw [levels_eq.2]
  by_cases h : prepCheck 3 t = true
  · simp [h, hf, e.1 h]
  · simp [h]; intro ha; exact h (e.2 ha)

/-- markup never hides a syntax error: whatever the markup parser does, `prepare_format` refuses every
template Python's parser refuses within three levels -/
theorem prepare_format_rejects (mk : Str → Except Err Str) (t : Str) (h : ¬ Accepts 3 t) :
    prepareFormat mk t = .error .valueError := by
  have e := prepCheck_iff 3 t
  unfold prepareFormat
  rw [levels_eq.2]
  have : prepCheck 3 t = false := by
    cases hc : prepCheck 3 t with
    | false => rfl
    | true => exact absurd (e.1 hc) h
  simp [this]

/-! ### (c) `Logger.add`, `Logger._log`, `Handler.emit` -/

/-- string formats always end with the terminator and the `{exception}` field -/
theorem add_format_suffix (format terminator : Str) :
    Gen.composeFormat format terminator = format ++ terminator ++ "{exception}".toList := rfl

/-- the callable / file / stream / coroutine sinks terminate lines with `\n`, `logging.Handler`s with nothing -/
theorem terminators :
    Gen.terminatorCallable = ['\n'] ∧ Gen.terminatorFile = ['\n'] ∧ Gen.terminatorStream = ['\n'] ∧
    Gen.terminatorCoroutine = ['\n'] ∧ Gen.terminatorStandard = [] := by decide

/-- without `colors` the message goes through `str.format` exactly when there is an argument, and is
left untouched otherwise (a lone `{` in a plain message is not an error) -/
theorem plain_message_is_python_format {V} (mk : Str → Except Err Str) (env : Env V) (hasArgs hasKwargs : Bool)
    (m : Str) :
    logMessage mk env false hasArgs hasKwargs m =
      if hasArgs || hasKwargs then strFormat env m else .ok m := by
  cases hasArgs <;> cases hasKwargs <;> rfl

/-- with `colors` it goes through loguru's own formatter under the same guard, and through the markup
parser alone when there is no argument -/
theorem colored_message_branch {V} (mk : Str → Except Err Str) (env : Env V) (hasArgs hasKwargs : Bool) (m : Str) :
    logMessage mk env true hasArgs hasKwargs m =
      if hasArgs || hasKwargs then coloredFormat mk env m else mk m := by
  cases hasArgs <;> cases hasKwargs <;> rfl

/-- `emit`: raw ⇒ the bare message, whatever the format; otherwise `format_map` of the precomputed
(stripped) format over the record, in all four static/dynamic × colorize branches -/
theorem emit_text {V} (record : Env V) (isRaw dynamic colorize cmNone : Bool) (fmt message : Str) :
    emitText record isRaw dynamic colorize cmNone fmt message =
      if isRaw then .ok message else strFormat record fmt := by
  cases isRaw <;> cases dynamic <;> cases colorize <;> cases cmNone <;> rfl

/-- end to end for a static handler: the emitted text is Python's `format_map` of
`format + terminator + "{exception}"` itself -/
theorem emit_static_text {V} (record : Env V) (dynamic colorize cmNone : Bool)
    (mk : Str → Except Err Str) (format terminator s message : Str)
    (hm : MarkupFree mk (format ++ terminator ++ "{exception}".toList))
    (h : addFormat mk format terminator = .ok s) :
    emitText record false dynamic colorize cmNone s message =
      strFormat record (format ++ terminator ++ "{exception}".toList) := by
  rw [emit_text]
  exact (format_map_equiv mk record _ s hm h).2

/-! ### (b) coloured messages: `_parse_with_formatting` against `str.format` -/

/-- FULL statement (not proved – false of the current code, known finding F21): on a template whose
literal text is markup-free the coloured path computes what `str.format` computes, same text or same
error, for every template, all oracles and every markup parser `mk` -/
def colored_eq_str_format_statement : Prop :=
  ∀ (mk : Str → Except Err Str) (env : Env Str) (t : Str), env.hasArgs = true →
    (∀ p ∈ (parse t).1, mk p.lit = .ok p.lit) → coloredFormat mk env t = strFormat env t

/-- `str.format` on an already parsed template (so that "markup removed" can be said on the pieces) -/
def strFormatPieces {V} (env : Env V) (pr : Parsed) : Except Err Str :=
  (formatPieces env 1 pr .init).map (·.1)

theorem strFormat_eq_pieces {V} (env : Env V) (t : Str) : strFormat env t = strFormatPieces env (parse t) := by
  simp [strFormat, strFormatPieces, buildString_succ]

/-- "… also under opt(colors=True) once markup is removed": if the markup parser leaves `st lit` of
every literal text of the template, the coloured message is `str.format` of the template whose literal
texts are replaced by `st lit` – same text or same error kind, every field name, every argument
tuple/dict, all `__getattr__/__getitem__/__format__` oracles – for templates without a third nesting
level (`shallow`, F21).  The markup parser `mk` is constrained on the TOP-LEVEL literal texts only: by
the `raw=` arguments regenerated from /repo (`Gen.literalRawWith`, `Gen.formattedRawWith`,
`Gen.nestedRecursiveWith`) the text of a format spec and the formatted values never reach it, so a
spec such as `<>8`, `%H<b>%M</b>` or `\<b>` arrives at `__format__` verbatim.  Feeding spec text to
the markup parser (`raw=recursive` dropped) breaks `Format.feed_nested`, hence this proof. -/
theorem colored_eq_str_format_stripped {V} (mk : Str → Except Err Str) (env : Env V) (hA : env.hasArgs = true)
    (st : Str → Str) (t : Str) (hm : ∀ p ∈ (parse t).1, mk p.lit = .ok (st p.lit))
    (h2 : shallow t = true) :
    coloredFormat mk env t = strFormatPieces env ((parse t).1.map (mapLit st), (parse t).2) := by
  have h := colored_rel mk env hA st t hm (specsOk_all t) h2
  unfold coloredFormat strFormatPieces
  rw [levels_eq.1]
  have e0 : Gen.autoArgIndexDefault = 0 := rfl
  rw [e0]
  cases hb : formatPieces env 1 ((parse t).1.map (mapLit st), (parse t).2) .init with
  | error e => rw [hb] at h; rw [h.error_left]; rfl
  | ok w =>
    obtain ⟨x, an⟩ := w
    rw [hb] at h
    obtain ⟨au, e, _⟩ := h.ok_left
    rw [e]; rfl

/-- PROVED PART of the full statement: markup-free literal text and no third nesting level ⇒ the
coloured path equals `str.format`, whatever the format specs contain and whatever the markup parser
would make of them.  Since d5e7115 the regenerated numbering rule is `field_name_split`'s
first-component rule (`Format.numberingText_eq`); a revert breaks this proof too. -/
theorem colored_eq_str_format_partial {V} (mk : Str → Except Err Str) (env : Env V) (hA : env.hasArgs = true)
    (t : Str) (hm : ∀ p ∈ (parse t).1, mk p.lit = .ok p.lit) (h2 : shallow t = true) :
    coloredFormat mk env t = strFormat env t := by
  rw [colored_eq_str_format_stripped mk env hA id t hm h2, map_mapLit_id, strFormat_eq_pieces]

/-- a tiny concrete universe for the witnesses: values are texts, `.attr` appends, `format` appends the spec -/
def demoEnv (args : List Str) : Env Str where
  args := args
  hasArgs := true
  kwargs := fun _ => .error .keyError
  getattr := fun v n => .ok (v ++ '.' :: n)
  getidx := fun v _ => .ok v
  getkey := fun v _ => .ok v
  convert := fun _ v => .ok v
  format := fun v spec => .ok (v ++ spec)

/-- regression of F5 (fixed by d5e7115; also corpus cases of harness/c05.py): `"{.real}".format(1)` –
the coloured call used to raise `KeyError`, now both render the attribute of argument 0 -/
theorem colored_first_component_regression :
    strFormat (demoEnv ["1".toList]) "{.real}".toList = .ok "1.real".toList ∧
    coloredFormat .ok (demoEnv ["1".toList]) "{.real}".toList = .ok "1.real".toList := ⟨by rfl, by rfl⟩

/-- regression of F5: `"{0.real}{}"` switches from manual to automatic numbering – `ValueError` on
both paths (the coloured call used to render `1.real1`) -/
theorem colored_first_component_regression2 :
    strFormat (demoEnv ["1".toList]) "{0.real}{}".toList = .error .valueError ∧
    coloredFormat .ok (demoEnv ["1".toList]) "{0.real}{}".toList = .error .valueError := ⟨by rfl, by rfl⟩

/-- F21 witness (replayed on the implementation by harness/c05.py): a third nesting level holding only
escaped braces is refused by `str.format` ("Max string recursion exceeded") and rendered by the
coloured call -/
theorem colored_depth_witness :
    strFormat (demoEnv ["1".toList]) "{0:{0:{{Y}}}}".toList = .error .valueError ∧
    coloredFormat .ok (demoEnv ["1".toList]) "{0:{0:{{Y}}}}".toList = .ok "11{Y}".toList := ⟨by rfl, by rfl⟩

/-- a hostile markup parser: refuses every text holding a `<` -/
def hostileMarkup (s : Str) : Except Err Str := if s.contains '<' then .error .valueError else .ok s

/-- format specs reach `__format__` verbatim: `<>8` (fill `<`, align `>`), tag-looking and
backslash-escaped spec text, also when the spec is assembled from a nested field -/
theorem colored_spec_verbatim_witness :
    coloredFormat hostileMarkup (demoEnv ["1".toList, "2".toList]) "{:<>8}|{:<b>%M</b>}".toList = .ok "1<>8|2<b>%M</b>".toList ∧
    coloredFormat hostileMarkup (demoEnv ["1".toList, "2".toList]) "a{0:\\<b>{1}</b>}".toList = .ok "a1\\<b>2</b>".toList ∧
    strFormat (demoEnv ["1".toList, "2".toList]) "a{0:\\<b>{1}</b>}".toList = .ok "a1\\<b>2</b>".toList :=
  ⟨by rfl, by rfl, by rfl⟩

theorem colored_eq_str_format_statement_false : ¬ colored_eq_str_format_statement := by
  intro h
  have e := h .ok (demoEnv ["1".toList]) "{0:{0:{{Y}}}}".toList rfl (fun _ _ => rfl)
  rw [colored_depth_witness.1, colored_depth_witness.2] at e
  cases e

/-! ### non-vacuity -/

example : parse "a{{b}}c{x[!:}]!r:>{w}}z".toList =
    ([⟨"a{".toList, none⟩, ⟨"b}".toList, none⟩,
      ⟨"c".toList, some ⟨"x[!:}]".toList, ">{w}".toList, some 'r'⟩⟩, ⟨"z".toList, none⟩], none) := by decide

example : prepareFormat .ok "a{{b}}c{x[!:}]!r:>{w}}z".toList = .ok "a{{b}}c{x[!:}]!r:>{w}}z".toList := by rfl

example : prepareFormat .ok "{a:{b:{c}}}".toList = .error .valueError := by rfl
example : prepareFormat .ok "{a!}".toList = .error .valueError := by rfl
example : prepareFormat hostileMarkup "[{x:<>8}|{t:%H<b>%M</b>}]".toList = .ok "[{x:<>8}|{t:%H<b>%M</b>}]".toList := by rfl
example : MarkupFree hostileMarkup "[{x:<>8}|{t:%H<b>%M</b>}]".toList := by
  intro p hp
  have : (parse "[{x:<>8}|{t:%H<b>%M</b>}]".toList).1 =
      [⟨"[".toList, some ⟨"x".toList, "<>8".toList, none⟩⟩, ⟨"|".toList, some ⟨"t".toList, "%H<b>%M</b>".toList, none⟩⟩,
       ⟨"]".toList, none⟩] := by decide
  rw [this] at hp
  simp at hp
  rcases hp with h | h | h <;> subst h <;> rfl
example : shallow "{:>{w}} {.b[0]!r:{}}{0.real}{{".toList = true := by decide
example : shallow "{0:{0:{{Y}}}}".toList = false := by decide
example : Accepts 3 "{a:{b}}".toList := (prepCheck_iff 3 _).1 (by decide)

end C05
