import LoguruModel.Format.ColoredWeak
import LoguruModel.Format.LogCallLemmas
import LoguruModel.Format.HandlerLemmas
import LoguruModel.Format.Refuse
/-!
C05 – property theorems (and their non-vacuity examples) only.  Every statement is about the model of
`Format/Model.lean`, which is defined over the constants, guards, field re-assembly order and branch
chains REGENERATED from /repo (`Generated/Format.lean`), and over the transcription of CPython's
field parser (`Py/FormatSyntax.lean`, `Py/VFormat.lean`).
-/
set_option linter.unusedSimpArgs false
namespace C05
open Py Py.Fmt Format

/-- the recursion guards admit exactly three nesting levels (template, spec, spec of a spec) -/
theorem levels_eq : levelsWith = 3 ∧ levelsWithout = 3 := by decide

/-! ### (a) the handler's re-serialised format -/

/-- ROUND TRIP, for ALL templates: whatever Python's parser reads from `t`, it reads the same tuples
from the text `_parse_without_formatting` re-assembles (last brace of a literal doubled, fields rebuilt
as `{name!c:spec}`): doubled braces, conversions, nested specs, `[...]` keys holding `!`, `:`, `}` are
all inside the quantifier.  Proof: structural induction over the parse (`Format.reparse_fuel`). -/
theorem reserialize_parse_eq (t : Str) (ps : List Piece) (h : parse t = (ps, none)) :
    parse (reserialize ps) = (ps, none) :=
  reparse_fuel (t.length + 1) t (Nat.lt_succ_self _) ps h _ (Nat.lt_succ_self _)

/-- what `prepare_format(t).strip()` returns parses exactly like `t`, for every template whose
top-level literal text is markup-free and WHATEVER its fields and format specs contain (`<`, `>`,
tag-looking text …): by the regenerated `raw=` arguments only the top-level literal texts reach the
markup parser `mk` (`Format.feedsOk_nested`) -/
theorem prepare_format_parse_eq (mk : Str → Except Err Str) (t s : Str) (hm : MarkupFree mk t)
    (h : prepareFormat mk t = .ok s) :
    parse s = parse t ∧ (parse t).2 = none := by
  unfold prepareFormat at h
  split at h
  · rename_i hc
    simp at h; subst h
    rw [levels_eq.2] at hc
    simp [prepCheck] at hc
    have hp : parse t = ((parse t).1, none) := by rw [← hc.1.1]
    rw [reserializeM_markupFree mk _ hm]
    exact ⟨by rw [reserialize_parse_eq t _ hp, ← hp], hc.1.1⟩
  · simp at h

/-- therefore `format_map` (and `format`) cannot tell the stripped format from the original: same text,
same error, same auto-numbering state, for every record / argument oracle and every depth -/
theorem format_map_equiv {V} (mk : Str → Except Err Str) (env : Env V) (t s : Str) (hm : MarkupFree mk t)
    (h : prepareFormat mk t = .ok s) :
    (∀ d an, buildString env d s an = buildString env d t an) ∧ strFormat env s = strFormat env t := by
  have hp := (prepare_format_parse_eq mk t s hm h).1
  have h1 : ∀ d an, buildString env d s an = buildString env d t an := by
    intro d an
    cases d with
    | zero => rfl
    | succ d => simp [buildString, hp]
  exact ⟨h1, by simp [strFormat, h1]⟩

/-- Python's requirement on a template, as a specification: it and every nested format spec parse, and
no replacement field sits on a fourth level -/
inductive Accepts : Nat → Str → Prop where
  | mk (d : Nat) (t : Str) : (parse t).2 = none →
      (∀ p ∈ (parse t).1, ∀ f, p.field = some f → Accepts d f.spec) → Accepts (d + 1) t

theorem prepCheck_iff (d : Nat) (t : Str) : prepCheck d t = true ↔ Accepts d t := by
  induction d generalizing t with
  | zero => simp [prepCheck]; intro h; cases h
  | succ d ih =>
    constructor
    · intro h
      simp [prepCheck] at h
      refine Accepts.mk d t h.1 ?_
      intro p hp f hf
      have := h.2 p hp
      rw [hf] at this
      exact (ih _).1 this
    · intro h
      cases h with
      | mk _ _ h1 h2 =>
        simp [prepCheck, h1]
        intro p hp
        cases hf : p.field with
        | none => rfl
        | some f => exact (ih _).2 (h2 p hp f hf)

/-- `prepare_format` (hence `logger.add`) fails, on a template with markup-free literal text, exactly
when Python's parser refuses it within three levels, always with `ValueError`; no template is rejected
for a formatting reason of loguru's own – in particular not for what a format spec contains -/
theorem reserialize_error_iff (mk : Str → Except Err Str) (t : Str) (hm : MarkupFree mk t) :
    (prepareFormat mk t = .error .valueError ↔ ¬ Accepts 3 t) ∧
    ((∃ s, prepareFormat mk t = .ok s) ↔ Accepts 3 t) := by
  have e := prepCheck_iff 3 t
  have hf := feedsOk_markupFree mk 2 t hm
  unfold prepareFormat
  rw [levels_eq.2]
  by_cases h : prepCheck 3 t = true
  · simp [h, hf, e.1 h]
  · simp [h]; intro ha; exact h (e.2 ha)

/-- markup never hides a syntax error: whatever the markup parser does, `prepare_format` refuses every
template Python's parser refuses within three levels -/
theorem prepare_format_rejects (mk : Str → Except Err Str) (t : Str) (h : ¬ Accepts 3 t) :
    prepareFormat mk t = .error .valueError := by
  have e := prepCheck_iff 3 t
  unfold prepareFormat
  rw [levels_eq.2]
  have : prepCheck 3 t = false := by
    cases hc : prepCheck 3 t with
    | false => rfl
    | true => exact absurd (e.1 hc) h
  simp [this]

/-! ### (c) `Logger.add`, `Logger._log`, `Handler.emit` -/

/-- string formats always end with the terminator and the `{exception}` field -/
theorem add_format_suffix (format terminator : Str) :
    Gen.composeFormat format terminator = format ++ terminator ++ "{exception}".toList := rfl

/-- the callable / file / stream / coroutine sinks terminate lines with `\n`, `logging.Handler`s with nothing -/
theorem terminators :
    Gen.terminatorCallable = ['\n'] ∧ Gen.terminatorFile = ['\n'] ∧ Gen.terminatorStream = ['\n'] ∧
    Gen.terminatorCoroutine = ['\n'] ∧ Gen.terminatorStandard = [] := by decide

/-- without `colors` the message goes through `str.format` exactly when there is an argument, and is
left untouched otherwise (a lone `{` in a plain message is not an error) -/
theorem plain_message_is_python_format {V} (mk : Str → Except Err Str) (env : Env V) (hasArgs hasKwargs : Bool)
    (m : Str) :
    logMessage mk env false hasArgs hasKwargs m =
      if hasArgs || hasKwargs then strFormat env m else .ok m := by
  cases hasArgs <;> cases hasKwargs <;> rfl

/-- with `colors` it goes through loguru's own formatter under the same guard, and through the markup
parser alone when there is no argument -/
theorem colored_message_branch {V} (mk : Str → Except Err Str) (env : Env V) (hasArgs hasKwargs : Bool) (m : Str) :
    logMessage mk env true hasArgs hasKwargs m =
      if hasArgs || hasKwargs then coloredFormat mk env m else mk m := by
  cases hasArgs <;> cases hasKwargs <;> rfl

/-- `emit`: raw ⇒ the bare message, whatever the format; otherwise `format_map` of the precomputed
(stripped) format over the record, in all four static/dynamic × colorize branches -/
theorem emit_text {V} (record : Env V) (isRaw dynamic colorize cmNone : Bool) (fmt message : Str) :
    emitText record isRaw dynamic colorize cmNone fmt message =
      if isRaw then .ok message else strFormat record fmt := by
  cases isRaw <;> cases dynamic <;> cases colorize <;> cases cmNone <;> rfl

/-- end to end for a static handler: the emitted text is Python's `format_map` of
`format + terminator + "{exception}"` itself -/
theorem emit_static_text {V} (record : Env V) (dynamic colorize cmNone : Bool)
    (mk : Str → Except Err Str) (format terminator s message : Str)
    (hm : MarkupFree mk (format ++ terminator ++ "{exception}".toList))
    (h : addFormat mk format terminator = .ok s) :
    emitText record false dynamic colorize cmNone s message =
      strFormat record (format ++ terminator ++ "{exception}".toList) := by
  rw [emit_text]
  exact (format_map_equiv mk record _ s hm h).2

/-! ### (b) coloured messages: `_parse_with_formatting` against `str.format` -/

/-- FULL statement (not proved – false of the current code, known finding F21): on a template whose
literal text is markup-free the coloured path computes what `str.format` computes, same text or same
error, for every template, all oracles and every markup parser `mk` -/
def colored_eq_str_format_statement : Prop :=
  ∀ (mk : Str → Except Err Str) (env : Env Str) (t : Str), env.hasArgs = true →
    (∀ p ∈ (parse t).1, mk p.lit = .ok p.lit) → coloredFormat mk env t = strFormat env t

/-- `str.format` on an already parsed template (so that "markup removed" can be said on the pieces) -/
def strFormatPieces {V} (env : Env V) (pr : Parsed) : Except Err Str :=
  (formatPieces env 1 pr .init).map (·.1)

theorem strFormat_eq_pieces {V} (env : Env V) (t : Str) : strFormat env t = strFormatPieces env (parse t) := by
  simp [strFormat, strFormatPieces, buildString_succ]

/-- "… also under opt(colors=True) once markup is removed": if the markup parser leaves `st lit` of
every literal text of the template, the coloured message is `str.format` of the template whose literal
texts are replaced by `st lit` – same text or same error kind, every field name, every argument
tuple/dict, all `__getattr__/__getitem__/__format__` oracles – for templates without a third nesting
level (`shallow`, F21).  The markup parser `mk` is constrained on the TOP-LEVEL literal texts only: by
the `raw=` arguments regenerated from /repo (`Gen.literalRawWith`, `Gen.formattedRawWith`,
`Gen.nestedRecursiveWith`) the text of a format spec and the formatted values never reach it, so a
spec such as `<>8`, `%H<b>%M</b>` or `\<b>` arrives at `__format__` verbatim.  Feeding spec text to
the markup parser (`raw=recursive` dropped) breaks `Format.feed_nested`, hence this proof. -/
theorem colored_eq_str_format_stripped {V} (mk : Str → Except Err Str) (env : Env V) (hA : env.hasArgs = true)
    (st : Str → Str) (t : Str) (hm : ∀ p ∈ (parse t).1, mk p.lit = .ok (st p.lit))
    (h2 : shallow t = true) :
    coloredFormat mk env t = strFormatPieces env ((parse t).1.map (mapLit st), (parse t).2) := by
  have h := colored_rel mk env hA st t hm (specsOk_all t) h2
  unfold coloredFormat strFormatPieces
  rw [levels_eq.1]
  have e0 : Gen.autoArgIndexDefault = 0 := rfl
  rw [e0]
  cases hb : formatPieces env 1 ((parse t).1.map (mapLit st), (parse t).2) .init with
  | error e => rw [hb] at h; rw [h.error_left]; rfl
  | ok w =>
    obtain ⟨x, an⟩ := w
    rw [hb] at h
    obtain ⟨au, e, _⟩ := h.ok_left
    rw [e]; rfl

/-- PROVED PART of the full statement: markup-free literal text and no third nesting level ⇒ the
coloured path equals `str.format`, whatever the format specs contain and whatever the markup parser
would make of them.  Since d5e7115 the regenerated numbering rule is `field_name_split`'s
first-component rule (`Format.numberingText_eq`); a revert breaks this proof too. -/
theorem colored_eq_str_format_partial {V} (mk : Str → Except Err Str) (env : Env V) (hA : env.hasArgs = true)
    (t : Str) (hm : ∀ p ∈ (parse t).1, mk p.lit = .ok p.lit) (h2 : shallow t = true) :
    coloredFormat mk env t = strFormat env t := by
  rw [colored_eq_str_format_stripped mk env hA id t hm h2, map_mapLit_id, strFormat_eq_pieces]

/-- a tiny concrete universe for the witnesses: values are texts, `.attr` appends, `format` appends the spec -/
def demoEnv (args : List Str) : Env Str where
  args := args
  hasArgs := true
  kwargs := fun _ => .error .keyError
  getattr := fun v n => .ok (v ++ '.' :: n)
  getidx := fun v _ => .ok v
  getkey := fun v _ => .ok v
  convert := fun _ v => .ok v
  format := fun v spec => .ok (v ++ spec)

/-- regression of F5 (fixed by d5e7115; also corpus cases of harness/c05.py): `"{.real}".format(1)` –
the coloured call used to raise `KeyError`, now both render the attribute of argument 0 -/
theorem colored_first_component_regression :
    strFormat (demoEnv ["1".toList]) "{.real}".toList = .ok "1.real".toList ∧
    coloredFormat .ok (demoEnv ["1".toList]) "{.real}".toList = .ok "1.real".toList := ⟨by rfl, by rfl⟩

/-- regression of F5: `"{0.real}{}"` switches from manual to automatic numbering – `ValueError` on
both paths (the coloured call used to render `1.real1`) -/
theorem colored_first_component_regression2 :
    strFormat (demoEnv ["1".toList]) "{0.real}{}".toList = .error .valueError ∧
    coloredFormat .ok (demoEnv ["1".toList]) "{0.real}{}".toList = .error .valueError := ⟨by rfl, by rfl⟩

/-- F21 witness (replayed on the implementation by harness/c05.py): a third nesting level holding only
escaped braces is refused by `str.format` ("Max string recursion exceeded") and rendered by the
coloured call -/
theorem colored_depth_witness :
    strFormat (demoEnv ["1".toList]) "{0:{0:{{Y}}}}".toList = .error .valueError ∧
    coloredFormat .ok (demoEnv ["1".toList]) "{0:{0:{{Y}}}}".toList = .ok "11{Y}".toList := ⟨by rfl, by rfl⟩

/-- a hostile markup parser: refuses every text holding a `<` -/
def hostileMarkup (s : Str) : Except Err Str := if s.contains '<' then .error .valueError else .ok s

/-- format specs reach `__format__` verbatim: `<>8` (fill `<`, align `>`), tag-looking and
backslash-escaped spec text, also when the spec is assembled from a nested field -/
theorem colored_spec_verbatim_witness :
    coloredFormat hostileMarkup (demoEnv ["1".toList, "2".toList]) "{:<>8}|{:<b>%M</b>}".toList = .ok "1<>8|2<b>%M</b>".toList ∧
    coloredFormat hostileMarkup (demoEnv ["1".toList, "2".toList]) "a{0:\\<b>{1}</b>}".toList = .ok "a1\\<b>2</b>".toList ∧
    strFormat (demoEnv ["1".toList, "2".toList]) "a{0:\\<b>{1}</b>}".toList = .ok "a1\\<b>2</b>".toList :=
  ⟨by rfl, by rfl, by rfl⟩

theorem colored_eq_str_format_statement_false : ¬ colored_eq_str_format_statement := by
  intro h
  have e := h .ok (demoEnv ["1".toList]) "{0:{0:{{Y}}}}".toList rfl (fun _ _ => rfl)
  rw [colored_depth_witness.1, colored_depth_witness.2] at e
  cases e

/-! ### Round 5 (a′): what `prepare_format` refuses, Python cannot format for any record -/

/-- `add(format=…)` (static formats) and `emit` (dynamic formats) refuse – eagerly, with `ValueError` –
ONLY templates that Python's own `format_map` / `format` fails on for EVERY record, every argument oracle:
a syntax error within the three levels, or a replacement field on a fourth one.  (Python may report the
failure later and as another exception when an earlier field fails first; it never renders a text.)
Together with `reserialize_error_iff` / `format_map_equiv`: no template Python can format is refused, none
is formatted differently. -/
theorem prepare_format_refuses_only_unformattable {V} (mk : Str → Except Err Str) (t : Str) (hm : MarkupFree mk t)
    (e : Err) (h : prepareFormat mk t = .error e) (env : Env V) :
    ∃ e', strFormat env t = .error e' := by
  unfold prepareFormat at h
  rw [levels_eq.2, feedsOk_markupFree mk 2 t hm, Bool.and_true] at h
  cases hc : prepCheck 3 t with
  | true => rw [hc] at h; simp at h
  | false =>
    have hb := buildString_fails_of_prepCheck env 2 t hc .init
    obtain ⟨e', he⟩ := (isErr_iff _).1 hb
    exact ⟨e', by simp [strFormat, he, Except.map]⟩

/-! ### Round 5 (b′): the coloured path for EVERY template – the guard `shallow` removed -/

/-- EVERY template, every field name, every argument tuple/dict, all oracles, every markup parser: the
coloured message is what `str.format` computes on the template whose literal texts are replaced by what
the markup parser leaves of them – same text or same error kind – UNLESS `str.format` raises
`ValueError`.  The syntactic guard `shallow` of `colored_eq_str_format_stripped` is gone: a third
nesting level (finding F21) is precisely a case in which Python answers `ValueError("Max string
recursion exceeded")`, and that is the only room left for a disagreement. -/
theorem colored_eq_str_format_or_valueError {V} (mk : Str → Except Err Str) (env : Env V) (hA : env.hasArgs = true)
    (st : Str → Str) (t : Str) (hm : ∀ p ∈ (parse t).1, mk p.lit = .ok (st p.lit)) :
    strFormatPieces env ((parse t).1.map (mapLit st), (parse t).2) = .error .valueError ∨
    coloredFormat mk env t = strFormatPieces env ((parse t).1.map (mapLit st), (parse t).2) := by
  have h := colored_relV mk env hA st t hm
  unfold coloredFormat strFormatPieces
  rw [levels_eq.1]
  have e0 : Gen.autoArgIndexDefault = 0 := rfl
  rw [e0]
  rcases h with h | h
  · left; rw [h]; rfl
  · right
    cases hb : formatPieces env 1 ((parse t).1.map (mapLit st), (parse t).2) .init with
    | error e => rw [hb] at h; rw [h.error_left]; rfl
    | ok w =>
      obtain ⟨x, an⟩ := w
      rw [hb] at h
      obtain ⟨au, e, _⟩ := h.ok_left
      rw [e]; rfl

/-- every message Python can format is formatted identically by `opt(colors=True)` – no guard on the
template at all (markup-free literal text; format specs may hold anything) -/
theorem colored_formats_what_python_formats {V} (mk : Str → Except Err Str) (env : Env V) (hA : env.hasArgs = true)
    (t : Str) (hm : ∀ p ∈ (parse t).1, mk p.lit = .ok p.lit) (x : Str) (h : strFormat env t = .ok x) :
    coloredFormat mk env t = .ok x := by
  have h0 := colored_eq_str_format_or_valueError mk env hA id t hm
  rw [map_mapLit_id, ← strFormat_eq_pieces, h] at h0
  rcases h0 with h0 | h0
  · cases h0
  · exact h0

/-- "whenever Python's formatting would raise, the logging call fails the same way": every exception
of `str.format` other than `ValueError` (a failing lookup, `__getattr__`, `__getitem__`, conversion or
`__format__`) is the exception of the coloured call, for every template -/
theorem colored_fails_like_python {V} (mk : Str → Except Err Str) (env : Env V) (hA : env.hasArgs = true)
    (t : Str) (hm : ∀ p ∈ (parse t).1, mk p.lit = .ok p.lit) (e : Err) (he : e ≠ .valueError)
    (h : strFormat env t = .error e) : coloredFormat mk env t = .error e := by
  have h0 := colored_eq_str_format_or_valueError mk env hA id t hm
  rw [map_mapLit_id, ← strFormat_eq_pieces, h] at h0
  rcases h0 with h0 | h0
  · injection h0 with h1; exact absurd h1 he
  · exact h0

/-- hence the full statement fails ONLY where Python raises `ValueError` (F21 is such a case) -/
theorem colored_disagrees_only_on_valueError {V} (mk : Str → Except Err Str) (env : Env V) (hA : env.hasArgs = true)
    (t : Str) (hm : ∀ p ∈ (parse t).1, mk p.lit = .ok p.lit) (h : coloredFormat mk env t ≠ strFormat env t) :
    strFormat env t = .error .valueError := by
  have h0 := colored_eq_str_format_or_valueError mk env hA id t hm
  rw [map_mapLit_id, ← strFormat_eq_pieces] at h0
  rcases h0 with h0 | h0
  · exact h0
  · exact absurd h0 h

/-! ### Round 5 (c′): `Logger._log` – lazy / capture / record preparation, then the message chain.
`logCall` interprets the block order, guards, evaluation order and keyword REGENERATED from /repo. -/

/-- no argument and no `opt(record=True)`: the message is `str(message)` untouched (through the markup
parser alone under `colors`), whatever `lazy` and `capture` say – nothing is called, nothing captured.
`strOf` is what `str()` returns; it is not assumed to be the character data of the object. -/
theorem log_call_no_arguments {V} (mk : Str → Except Err Str) (base : Env V) (o : LogOpts) (force : V → Except Err V)
    (rv : V) (data strOf : Str) (hr : o.record = false) :
    logCall mk base o force rv data strOf [] [] =
      (if o.colors then mk strOf else .ok strOf).map
        (fun m => (m, { args := [], kwargs := [], extraUpd := [], forced := [] })) := by
  unfold logCall
  rw [prepare_eq]
  cases hl : o.lazy <;> cases hc : o.colors <;>
    simp [finishPrep, hr, forceList, zipKeys, messageOf, messageBranch_eq, hc, Except.map] <;>
    cases mk strOf <;> rfl

/-- with arguments, without `lazy` and `record`: `message.format(*args, **kwargs)` on the character data
of the message (the coloured re-implementation under `colors`), keyword arguments copied to `extra`
exactly under `capture` -/
theorem log_call_formats_arguments {V} (mk : Str → Except Err Str) (base : Env V) (o : LogOpts)
    (force : V → Except Err V) (rv : V) (data strOf : Str) (args : List V) (kwargs : List (Str × V))
    (hl : o.lazy = false) (hr : o.record = false) (hne : (args.isEmpty && kwargs.isEmpty) = false) :
    logCall mk base o force rv data strOf args kwargs =
      (if o.colors then coloredFormat mk (argEnv base args kwargs) data else strFormat (argEnv base args kwargs) data).map
        (fun m => (m, { args := args, kwargs := kwargs,
                        extraUpd := (if o.capture && !kwargs.isEmpty then kwargs else []), forced := [] })) := by
  unfold logCall
  rw [prepare_eq]
  have hb : (!args.isEmpty || !kwargs.isEmpty) = true := by
    cases ha : args.isEmpty <;> cases hk : kwargs.isEmpty <;> simp_all
  cases hc : o.colors <;>
    simp only [finishPrep, hl, hr, messageOf, messageBranch_eq, hb, hc, callEnv, Bool.false_eq_true, if_false, if_true]
  · cases strFormat (argEnv base args kwargs) data <;> rfl
  · cases coloredFormat mk (argEnv base args kwargs) data <;> rfl

/-- `opt(record=True)` ALWAYS formats – the record is one more keyword argument, so even a call without
any argument goes through `str.format` (a lone `{` in the message then raises `ValueError`); the record
is bound AFTER `capture` looked at the keyword arguments, so it never lands in `extra` -/
theorem log_call_record_always_formats {V} (mk : Str → Except Err Str) (base : Env V) (o : LogOpts)
    (force : V → Except Err V) (rv : V) (data strOf : Str) (args : List V) (kwargs : List (Str × V))
    (hl : o.lazy = false) (hr : o.record = true) (hk : hasKey kwargs Gen.recordKey = false) :
    logCall mk base o force rv data strOf args kwargs =
      (if o.colors then coloredFormat mk (argEnv base args (kwargs ++ [(Gen.recordKey, rv)])) data
       else strFormat (argEnv base args (kwargs ++ [(Gen.recordKey, rv)])) data).map
        (fun m => (m, { args := args, kwargs := kwargs ++ [(Gen.recordKey, rv)],
                        extraUpd := (if o.capture && !kwargs.isEmpty then kwargs else []), forced := [] })) := by
  unfold logCall
  rw [prepare_eq]
  have hb : (!args.isEmpty || !(kwargs ++ [(Gen.recordKey, rv)]).isEmpty) = true := by
    cases kwargs <;> simp
  cases hc : o.colors <;>
    simp only [finishPrep, hl, hr, hk, messageOf, messageBranch_eq, hb, hc, callEnv, Bool.false_eq_true, if_false, if_true]
  · cases strFormat (argEnv base args (kwargs ++ [(Gen.recordKey, rv)])) data <;> rfl
  · cases coloredFormat mk (argEnv base args (kwargs ++ [(Gen.recordKey, rv)])) data <;> rfl

/-- a caller's own keyword named like the record is refused with `TypeError` under `opt(record=True)` –
never silently overwritten; `"record"` is the generated keyword -/
theorem log_call_record_keyword_conflict {V} (mk : Str → Except Err Str) (base : Env V) (o : LogOpts)
    (force : V → Except Err V) (rv : V) (data strOf : Str) (args : List V) (kwargs : List (Str × V))
    (hl : o.lazy = false) (hr : o.record = true) (hk : hasKey kwargs Gen.recordKey = true) :
    logCall mk base o force rv data strOf args kwargs = .error .typeError ∧ Gen.recordKey = "record".toList := by
  refine ⟨?_, rfl⟩
  unfold logCall
  rw [prepare_eq]
  simp [finishPrep, hl, hr, hk]

/-- `opt(lazy=True)`: whenever the call gets as far as a message, every argument has been called exactly
once – the positional ones left to right, then the keyword ones in call order – the formatting (and
`capture`) sees the RESULTS under the original keys; without `lazy` nothing is called -/
theorem log_call_lazy_forces_once_in_order {V} (mk : Str → Except Err Str) (base : Env V) (o : LogOpts)
    (force : V → Except Err V) (rv : V) (data strOf : Str) (args : List V) (kwargs : List (Str × V))
    (m : Str) (s : Prep V) (h : logCall mk base o force rv data strOf args kwargs = .ok (m, s)) :
    (o.lazy = true → s.forced = args ++ kwargs.map (·.2) ∧ forceList force args = .ok s.args ∧
        ∃ vs, forceList force (kwargs.map (·.2)) = .ok vs ∧
          s.kwargs = zipKeys kwargs vs ++ (if o.record then [(Gen.recordKey, rv)] else []) ∧
          (zipKeys kwargs vs).map (·.1) = kwargs.map (·.1)) ∧
    (o.lazy = false → s.forced = [] ∧ s.args = args) := by
  unfold logCall at h
  rw [prepare_eq] at h
  constructor
  · intro hl
    simp only [hl, if_true] at h
    cases h1 : forceList force args with
    | error e => rw [h1] at h; simp at h
    | ok as =>
      rw [h1] at h; simp only at h
      cases h2 : forceList force (kwargs.map (·.2)) with
      | error e => rw [h2] at h; simp at h
      | ok vs =>
        rw [h2] at h; simp only at h
        have hlen := forceList_length force _ vs h2
        rw [List.length_map] at hlen
        unfold finishPrep at h
        cases hr : o.record
        · simp only [hr, Bool.false_eq_true, if_false] at h
          cases hm : messageOf mk base o.colors data strOf
              { args := as, kwargs := zipKeys kwargs vs,
                extraUpd := (if (o.capture && !(zipKeys kwargs vs).isEmpty) = true then zipKeys kwargs vs else []),
                forced := args ++ kwargs.map (·.2) } with
          | error e => rw [hm] at h; simp at h
          | ok m' =>
            rw [hm] at h; simp only [Except.ok.injEq, Prod.mk.injEq] at h
            obtain ⟨_, hs⟩ := h
            subst hs
            exact ⟨rfl, rfl, vs, rfl, by simp, zipKeys_keys kwargs vs hlen⟩
        · simp only [hr, if_true] at h
          cases hk : hasKey (zipKeys kwargs vs) Gen.recordKey
          · simp only [hk, Bool.false_eq_true, if_false] at h
            cases hm : messageOf mk base o.colors data strOf
                { args := as, kwargs := zipKeys kwargs vs ++ [(Gen.recordKey, rv)],
                  extraUpd := (if (o.capture && !(zipKeys kwargs vs).isEmpty) = true then zipKeys kwargs vs else []),
                  forced := args ++ kwargs.map (·.2) } with
            | error e => rw [hm] at h; simp at h
            | ok m' =>
              rw [hm] at h; simp only [Except.ok.injEq, Prod.mk.injEq] at h
              obtain ⟨_, hs⟩ := h
              subst hs
              exact ⟨rfl, rfl, vs, rfl, by simp, zipKeys_keys kwargs vs hlen⟩
          · simp [hk] at h
  · intro hl
    simp only [hl, Bool.false_eq_true, if_false] at h
    unfold finishPrep at h
    cases hr : o.record
    · simp only [hr, Bool.false_eq_true, if_false] at h
      cases hm : messageOf mk base o.colors data strOf
          { args := args, kwargs := kwargs,
            extraUpd := (if (o.capture && !kwargs.isEmpty) = true then kwargs else []), forced := [] } with
      | error e => rw [hm] at h; simp at h
      | ok m' =>
        rw [hm] at h; simp only [Except.ok.injEq, Prod.mk.injEq] at h
        obtain ⟨_, hs⟩ := h
        subst hs
        exact ⟨rfl, rfl⟩
    · simp only [hr, if_true] at h
      cases hk : hasKey kwargs Gen.recordKey
      · simp only [hk, Bool.false_eq_true, if_false] at h
        cases hm : messageOf mk base o.colors data strOf
            { args := args, kwargs := kwargs ++ [(Gen.recordKey, rv)],
              extraUpd := (if (o.capture && !kwargs.isEmpty) = true then kwargs else []), forced := [] } with
        | error e => rw [hm] at h; simp at h
        | ok m' =>
          rw [hm] at h; simp only [Except.ok.injEq, Prod.mk.injEq] at h
          obtain ⟨_, hs⟩ := h
          subst hs
          exact ⟨rfl, rfl⟩
      · simp [hk] at h

/-- an exception raised by a lazy argument is the exception of the logging call (no message is
formatted, no later argument is called) -/
theorem log_call_lazy_failure {V} (mk : Str → Except Err Str) (base : Env V) (o : LogOpts)
    (force : V → Except Err V) (rv : V) (data strOf : Str) (args : List V) (kwargs : List (Str × V))
    (hl : o.lazy = true) (e : Err)
    (h : forceList force args = .error e ∨
         (∃ as, forceList force args = .ok as) ∧ forceList force (kwargs.map (·.2)) = .error e) :
    logCall mk base o force rv data strOf args kwargs = .error e := by
  unfold logCall
  rw [prepare_eq]
  rcases h with h | ⟨⟨as, h1⟩, h2⟩
  · simp [hl, h]
  · simp [hl, h1, h2]

/-! ### Round 5 (c″): `Handler.emit` – a replaced message, the raw branch, memoised dynamic formats -/

/-- `opt(raw=True)`: whatever the handler's format, whether it is static or dynamic, colorizing or not, and
whatever coloured message the call carried, the handler emits `record["message"]` as it is when the
handler runs – or, on a colorizing handler, the coloured rendering of exactly that text.  A coloured
message whose stripped text is no longer the record's message (a patcher replaced it) is never emitted. -/
theorem emit_raw_is_record_message {V} (record : Env V) (recMessage : Str) (cm : Option ColoredMsg)
    (dynamic colorize : Bool) (fmt : Str) :
    emitFull record recMessage cm true dynamic colorize fmt = .ok recMessage ∨
    ∃ c, cm = some c ∧ c.stripped = recMessage ∧ colorize = true ∧
      emitFull record recMessage cm true dynamic colorize fmt = .ok c.colorized := by
  unfold emitFull
  rw [emitBranch_eq]
  cases cm with
  | none => left; simp [cmNoneAtChain]
  | some c =>
    by_cases hs : c.stripped = recMessage
    · cases colorize
      · left; simp
      · right; exact ⟨c, rfl, hs, rfl, by simp [cmNoneAtChain, cmDropped_eq, hs]⟩
    · left; simp [cmNoneAtChain, cmDropped_eq, hs]

/-- a message replaced after the call formatted it (patcher, filter or format function assigning
`record["message"]`) is emitted like the message of a call WITHOUT colours: the stale coloured message is
dropped in every branch – raw, static, dynamic, colorizing or not -/
theorem emit_replaced_message_drops_colors {V} (record : Env V) (recMessage : Str) (c : ColoredMsg)
    (isRaw dynamic colorize : Bool) (fmt : Str) (h : c.stripped ≠ recMessage) :
    emitFull record recMessage (some c) isRaw dynamic colorize fmt =
      emitFull record recMessage none isRaw dynamic colorize fmt := by
  have hb : (c.stripped != recMessage) = true := by simpa using h
  unfold emitFull
  simp only [cmNoneAtChain, cmDropped_eq, hb, Bool.and_true, emitBranch_eq, Bool.true_or]
  cases isRaw <;> rfl

/-- not raw ⇒ `format_map` of the prepared format over the record, for every coloured message and all
flags (generalises `emit_text` from the flag `cmNone` to the comparison `emit` really makes) -/
theorem emit_full_text {V} (record : Env V) (recMessage : Str) (cm : Option ColoredMsg) (dynamic colorize : Bool)
    (fmt : Str) : emitFull record recMessage cm false dynamic colorize fmt = strFormat record fmt := by
  unfold emitFull
  rw [emitBranch_eq]
  rfl

/-- DYNAMIC FORMATS, every history: however many records went through the handler before, whatever their
templates were and whatever the `lru_cache` currently holds or evicted, each record is rendered by
Python's `format_map` of the stripped preparation of ITS OWN template (or fails with `ValueError` exactly
when that template is refused) – the memoisation is invisible -/
theorem dynamic_formats_cache_transparent {V} (mk : Str → Except Err Str) (hist : List (Env V × Str)) :
    dynRun mk hist [] = hist.map (fun rt =>
      match prepareFormat mk rt.2 with | .error e => .error e | .ok fmt => strFormat rt.1 fmt) := by
  have gen : ∀ (hist : List (Env V × Str)) (cache : List (Str × Str)), LruOk (prepareFormat mk) cache →
      dynRun mk hist cache = hist.map (fun rt =>
        match prepareFormat mk rt.2 with | .error e => .error e | .ok fmt => strFormat rt.1 fmt) := by
    intro hist
    induction hist with
    | nil => intro cache _; rfl
    | cons rt rest ih =>
      intro cache hc
      obtain ⟨record, template⟩ := rt
      have ht := dynEmit_transparent mk cache record template hc
      show (dynEmit mk cache record template).1 :: dynRun mk rest (dynEmit mk cache record template).2 = _
      rw [ht.1, ih _ ht.2]
      rfl
  exact gen hist [] (by intro p hp; cases hp)

/-- … and with `dynamic_format_text`: on templates with markup-free literal text that is Python's
`format_map` of the template itself -/
theorem dynamic_format_text {V} (mk : Str → Except Err Str) (record : Env V) (t s : Str) (hm : MarkupFree mk t)
    (h : prepareFormat mk t = .ok s) : strFormat record s = strFormat record t :=
  (format_map_equiv mk record t s hm h).2

/-! ### non-vacuity -/

example : parse "a{{b}}c{x[!:}]!r:>{w}}z".toList =
    ([⟨"a{".toList, none⟩, ⟨"b}".toList, none⟩,
      ⟨"c".toList, some ⟨"x[!:}]".toList, ">{w}".toList, some 'r'⟩⟩, ⟨"z".toList, none⟩], none) := by decide

example : prepareFormat .ok "a{{b}}c{x[!:}]!r:>{w}}z".toList = .ok "a{{b}}c{x[!:}]!r:>{w}}z".toList := by rfl

example : prepareFormat .ok "{a:{b:{c}}}".toList = .error .valueError := by rfl
example : prepareFormat .ok "{a!}".toList = .error .valueError := by rfl
example : prepareFormat hostileMarkup "[{x:<>8}|{t:%H<b>%M</b>}]".toList = .ok "[{x:<>8}|{t:%H<b>%M</b>}]".toList := by rfl
example : MarkupFree hostileMarkup "[{x:<>8}|{t:%H<b>%M</b>}]".toList := by
  intro p hp
  have : (parse "[{x:<>8}|{t:%H<b>%M</b>}]".toList).1 =
      [⟨"[".toList, some ⟨"x".toList, "<>8".toList, none⟩⟩, ⟨"|".toList, some ⟨"t".toList, "%H<b>%M</b>".toList, none⟩⟩,
       ⟨"]".toList, none⟩] := by decide
  rw [this] at hp
  simp at hp
  rcases hp with h | h | h <;> subst h <;> rfl
example : shallow "{:>{w}} {.b[0]!r:{}}{0.real}{{".toList = true := by decide
example : shallow "{0:{0:{{Y}}}}".toList = false := by decide
example : Accepts 3 "{a:{b}}".toList := (prepCheck_iff 3 _).1 (by decide)

/-! non-vacuity, round 5 -/
-- a template with a third nesting level (outside `shallow`) on which Python fails with a lookup error:
-- `colored_fails_like_python` applies, `colored_eq_str_format_partial` does not
example : shallow "{a}{0:{0:{{Y}}}}".toList = false ∧
    strFormat (demoEnv ["1".toList]) "{a}{0:{0:{{Y}}}}".toList = .error .keyError ∧
    coloredFormat .ok (demoEnv ["1".toList]) "{a}{0:{0:{{Y}}}}".toList = .error .keyError := ⟨by decide, by rfl, by rfl⟩
example : strFormat (demoEnv ["1".toList, "2".toList, "3".toList]) "{:>{}}|{.x[k]!r}".toList = .ok "1>2|3.x".toList := by rfl

def demoOpts (lz cp rc cl : Bool) : LogOpts := { lazy := lz, capture := cp, record := rc, colors := cl }
-- lazy + capture + record: the arguments are called (`!` marks a call), `k` is captured, the record is not
example : (logCall .ok (demoEnv []) (demoOpts true true true false) (fun v => .ok (v ++ "!".toList)) "R".toList
      "{}{k}{record}".toList "S".toList ["a".toList] [("k".toList, "b".toList)]).map
      (fun r => (r.1, r.2.extraUpd.map (·.1), r.2.forced)) =
    .ok ("a!b!R".toList, ["k".toList], ["a".toList, "b".toList]) := by rfl
-- opt(record=True) without any argument still formats: a lone brace is a ValueError, without it the text is untouched
example : (logCall .ok (demoEnv []) (demoOpts false true true false) .ok "R".toList "a{".toList "a{".toList [] []).map (·.1) =
    .error .valueError := by rfl
example : (logCall .ok (demoEnv []) (demoOpts false true false false) .ok "R".toList "a{".toList "S".toList [] []).map (·.1) =
    .ok "S".toList := by rfl
example : hasKey [("record".toList, "v".toList)] Gen.recordKey = true := by decide
example : forceList (fun v => if v = "b".toList then .error .keyError else .ok v) ["a".toList, "b".toList, "c".toList] =
    (.error .keyError : Except Err (List Str)) := by rfl

-- a coloured message whose text a patcher replaced: raw emits the replacement, not the stale colours
example : emitFull (demoEnv []) "patched".toList (some ⟨"orig".toList, "\x1b[31morig\x1b[0m".toList⟩) true false true [] =
    .ok "patched".toList := by rfl
example : emitFull (demoEnv []) "orig".toList (some ⟨"orig".toList, "\x1b[31morig\x1b[0m".toList⟩) true false true [] =
    .ok "\x1b[31morig\x1b[0m".toList := by rfl
-- three records, two templates, through one dynamic handler: second use of "{a}" is a cache hit
example : dynRun .ok [(demoEnv [], "{a".toList), (demoEnv [], "x{{".toList), (demoEnv [], "x{{".toList)] [] =
    [.error .valueError, .ok "x{".toList, .ok "x{".toList] := by rfl

example : prepareFormat .ok "{a}{b:{c:{d}}}".toList = .error .valueError ∧
    strFormat (demoEnv []) "{a}{b:{c:{d}}}".toList = .error .keyError := ⟨by rfl, by rfl⟩

end C05
