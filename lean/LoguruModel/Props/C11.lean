import LoguruModel.Datetime.Spec
import LoguruModel.Datetime.RenderLemmas
import LoguruModel.Datetime.CacheLemmas
import LoguruModel.Datetime.UtcLemmas
import LoguruModel.Datetime.ScanLemmas
/-
C11 – property theorems (only the theorems and their non-vacuity examples live here).
Every statement is about the *generated* kernels `Datetime.Gen.k_*` / `Datetime.Gen.table`,
i.e. about what `/repo/loguru/_datetime.py` says now.
-/
namespace C11
open Py Datetime Datetime.Gen Datetime.Spec

/-- every documented token is in the table with the documented zero padding, and nothing else is -/
theorem table_pads : table.map (fun e => (e.1, e.2.1)) = docPads := by decide

/-- the steps of `_compile_format` come in the modelled order: the default-format fast path is tested on the
whole spec BEFORE the `!UTC` suffix is cut (so `<default>!UTC` takes the generic, UTC-converting path) -/
theorem compile_steps_order : compileSteps = ["fast", "utc", "cut", "iso", "percent", "sevenS"] := by decide

/-- every text a token alternative can match (a run of `S` up to six, see `seven_S_rejected`) is a key of the
token table: no alternative matches something the table does not know, which the loop of `_compile_format`
would silently turn into `token[1:-1]` -/
def altTexts : Alt → List Str
  | .lit s => [s]
  | .rep c mn (some mx) => (List.range (mx + 1 - mn)).map (fun i => List.replicate (mn + i) c)
  | .rep c mn none => (List.range (7 - mn)).map (fun i => List.replicate (mn + i) c)

theorem alternatives_match_only_table_keys :
    ∀ a ∈ tokenAlts, ∀ txt ∈ altTexts a, (lookup txt table).isSome = true := by decide

/-- plain field tokens read the field they are documented to read -/
theorem field_tokens (t : Tm) (dt : Dt) :
    k_YYYY t dt = t.tm_year ∧ k_MM t dt = t.tm_mon ∧ k_M t dt = t.tm_mon ∧
    k_DDDD t dt = t.tm_yday ∧ k_DDD t dt = t.tm_yday ∧ k_DD t dt = t.tm_mday ∧ k_D t dt = t.tm_mday ∧
    k_HH t dt = t.tm_hour ∧ k_H t dt = t.tm_hour ∧ k_mm t dt = t.tm_min ∧ k_m t dt = t.tm_min ∧
    k_ss t dt = t.tm_sec ∧ k_s t dt = t.tm_sec ∧ k_d t dt = t.tm_wday ∧ k_E t dt = t.tm_wday + 1 ∧
    k_SSSSSS t dt = dt.microsecond ∧ k_zz t dt = dt.tzname ∧
    k_MMMM t dt = Calendar.monthName t.tm_mon ∧ k_MMM t dt = Calendar.monthAbbr t.tm_mon ∧
    k_dddd t dt = Calendar.dayName t.tm_wday ∧ k_ddd t dt = Calendar.dayAbbr t.tm_wday := by
  simp [k_YYYY, k_MM, k_M, k_DDDD, k_DDD, k_DD, k_D, k_HH, k_H, k_mm, k_m, k_ss, k_s, k_d, k_E,
    k_SSSSSS, k_zz, k_MMMM, k_MMM, k_dddd, k_ddd]

/-- `hh` / `h`: 12-hour clock (0 and 12 o'clock print 12) -/
theorem token_hh (t : Tm) (dt : Dt) :
    k_hh t dt = hour12 t.tm_hour ∧ k_h t dt = hour12 t.tm_hour := by
  unfold k_hh k_h hour12; constructor <;> (split <;> omega)

/-- `A`: AM exactly before noon -/
theorem token_A (t : Tm) (dt : Dt) :
    (t.tm_hour < 12 → k_A t dt = "AM".toList) ∧ (12 ≤ t.tm_hour → k_A t dt = "PM".toList) := by
  unfold k_A; constructor <;> intro h <;> simp <;> omega

/-- `Q`: quarter of the month -/
theorem token_Q (t : Tm) (dt : Dt) (h0 : 1 ≤ t.tm_mon) (h1 : t.tm_mon ≤ 12) :
    1 ≤ k_Q t dt ∧ k_Q t dt ≤ 4 ∧ 3 * (k_Q t dt - 1) < t.tm_mon ∧ t.tm_mon ≤ 3 * k_Q t dt := by
  unfold k_Q; omega

/-- `YY`: the last two digits of the year -/
theorem token_YY (t : Tm) (dt : Dt) :
    0 ≤ k_YY t dt ∧ k_YY t dt < 100 ∧ (t.tm_year - k_YY t dt) % 100 = 0 := by
  unfold k_YY; omega

/-- fractional seconds are *truncations* of the microsecond field to n digits -/
theorem token_S_truncates (t : Tm) (dt : Dt) :
    (k_S t dt * 100000 ≤ dt.microsecond ∧ dt.microsecond < (k_S t dt + 1) * 100000) ∧
    (k_SS t dt * 10000 ≤ dt.microsecond ∧ dt.microsecond < (k_SS t dt + 1) * 10000) ∧
    (k_SSS t dt * 1000 ≤ dt.microsecond ∧ dt.microsecond < (k_SSS t dt + 1) * 1000) ∧
    (k_SSSS t dt * 100 ≤ dt.microsecond ∧ dt.microsecond < (k_SSSS t dt + 1) * 100) ∧
    (k_SSSSS t dt * 10 ≤ dt.microsecond ∧ dt.microsecond < (k_SSSSS t dt + 1) * 10) := by
  unfold k_S k_SS k_SSS k_SSSS k_SSSSS; omega

/-- `x` is the exact number of microseconds since the epoch; `X` is its floor in seconds -/
theorem token_x_X (t : Tm) (dt : Dt) :
    k_x t dt = localMicros dt - dt.offsetUs ∧
    k_X t dt * 1000000 ≤ k_x t dt ∧ k_x t dt < (k_X t dt + 1) * 1000000 := by
  unfold k_x k_X timestampMicroseconds; omega

/-- `Z`/`ZZ` are `_format_timezone` with the documented separators -/
theorem token_Z_is_formatTimezone (t : Tm) (dt : Dt) :
    k_Z t dt = formatTimezone dt [':'] ∧ k_ZZ t dt = formatTimezone dt [] := by
  simp [k_Z, k_ZZ]

/-- FULL statement (not proved – it is false of the current code, finding F1):
    the offset is rendered as sign, hh, mm[, ss[.ffffff]] of its absolute value. -/
def token_Z_statement : Prop := ∀ (dt : Dt) (sep : Str), formatTimezone dt sep = tzSpec dt.offsetUs sep

/-- proved part: offsets that are non-negative or a whole number of minutes -/
theorem token_Z_partial (dt : Dt) (sep : Str)
    (h : 0 ≤ dt.offsetUs ∨ dt.offsetUs % 60000000 = 0) :
    formatTimezone dt sep = tzSpec dt.offsetUs sep := by
  unfold formatTimezone tzSpec
  have e1 : ((dt.offsetUs / 60000000).natAbs : Int) / 60 = (dt.offsetUs.natAbs : Int) / 3600000000 := by omega
  have e2 : ((dt.offsetUs / 60000000).natAbs : Int) % 60 = (dt.offsetUs.natAbs : Int) / 60000000 % 60 := by omega
  simp only [e1, e2]

/-- witness that the full statement fails (replayed on the implementation by harness/c11.py) -/
theorem token_Z_witness :
    let dt : Dt := { year := 2020, month := 1, day := 1, hour := 0, minute := 0, second := 0,
                     microsecond := 0, offsetUs := -3661000000, tzname := [] }
    formatTimezone dt [':'] = "-01:02:01".toList ∧ tzSpec dt.offsetUs [':'] = "-01:01:01".toList := by decide

theorem token_Z_statement_false : ¬ token_Z_statement := by
  intro h
  have := h { year := 2020, month := 1, day := 1, hour := 0, minute := 0, second := 0,
              microsecond := 0, offsetUs := -3661000000, tzname := [] } [':']
  revert this; decide

/-- the offset decomposition printed by `tzSpec` is exact -/
theorem tz_decomposition (a : Int) :
    a / 3600000000 * 3600000000 + a / 60000000 % 60 * 60000000 + a % 60000000 = a ∧
    0 ≤ a / 60000000 % 60 ∧ a / 60000000 % 60 < 60 := by omega

/-- the tokenizer loses nothing: the source text of the scanned pieces is the spec -/
def Piece.src : Piece → List Char
  | .text s => s
  | .tok s => s

def altOk : Alt → Bool
  | .lit l => decide (1 ≤ l.length)
  | .rep _ _ _ => true

theorem altLens_pos (a : Alt) (ha : altOk a = true) (s : List Char) : ∀ k ∈ altLens a s, 1 ≤ k := by
  intro k hk
  cases a with
  | lit l =>
    simp only [altLens] at hk
    split at hk
    · simp at hk; subst hk; simpa [altOk] using ha
    · simp at hk
  | rep c mn mx =>
    simp only [altLens, List.mem_filter, decide_eq_true_eq] at hk
    exact hk.2

theorem matchToken_pos (alts : List Alt) (hall : ∀ a ∈ alts, altOk a = true) (s : List Char) (k : Nat)
    (h : matchToken alts s = some k) : 1 ≤ k := by
  induction alts with
  | nil => simp [matchToken] at h
  | cons a rest ih =>
    unfold matchToken at h
    split at h
    · rename_i k' tl heq
      injection h with h; subst h
      exact altLens_pos a (hall a (by simp)) s k' (by rw [heq]; simp)
    · exact ih (fun b hb => hall b (by simp [hb])) h

theorem tokenAlts_ok : ∀ a ∈ tokenAlts, altOk a = true := by decide

theorem flush_src (acc : List Char) :
    (if acc.isEmpty = true then ([] : List Piece) else [.text acc.reverse]).flatMap Piece.src
      = acc.reverse := by
  cases acc <;> simp [Piece.src]

theorem scanAux_lossless (fuel : Nat) (s acc : List Char) (h : s.length ≤ fuel) :
    (scanAux fuel s acc).flatMap Piece.src = acc.reverse ++ s := by
  induction fuel generalizing s acc with
  | zero =>
    have : s = [] := List.length_eq_zero_iff.mp (by omega)
    subst this
    unfold scanAux
    simpa using flush_src acc
  | succ n ih =>
    cases s with
    | nil => unfold scanAux; simpa using flush_src acc
    | cons c cs =>
      unfold scanAux
      simp only
      split
      · rename_i k hk
        have hpos := matchToken_pos _ tokenAlts_ok _ _ hk
        have hlen : ((c :: cs).drop k).length ≤ n := by simp at h ⊢; omega
        simp only [List.flatMap_append, ih _ [] hlen, flush_src]
        simp [Piece.src]
      · split
        · split
          · rename_i k hk
            have hlen : ((c :: cs).drop (k + 2)).length ≤ n := by simp at h ⊢; omega
            simp only [List.flatMap_append, ih _ [] hlen, flush_src]
            simp [Piece.src]
          · have hlen : cs.length ≤ n := by simp at h; omega
            rw [ih cs (c :: acc) hlen]; simp
        · have hlen : cs.length ≤ n := by simp at h; omega
          rw [ih cs (c :: acc) hlen]; simp

theorem scan_lossless (spec : Str) : (scan spec).flatMap Piece.src = spec := by
  unfold scan
  simpa using scanAux_lossless spec.length spec [] (Nat.le_refl _)

/-- an empty format is ISO-8601 with offset, delegated to strftime (also with the `!UTC` suffix) -/
theorem empty_is_iso (dt : Dt) :
    formatDt [] dt = .ok (.strftime false "%Y-%m-%dT%H:%M:%S.%f%z".toList) ∧
    formatDt "!UTC".toList dt = .ok (.strftime true "%Y-%m-%dT%H:%M:%S.%f%z".toList) := by
  constructor <;> rfl

/-- a format containing `%` is delegated to strftime, whatever else it contains -/
theorem percent_delegates (spec : Str) (dt : Dt) (h0 : spec ≠ fastPathSpec)
    (h1 : endsWith spec utcSuffix = false) (h2 : '%' ∈ spec) :
    formatDt spec dt = .ok (.strftime false spec) := by
  unfold formatDt
  have h3 : spec ≠ [] := by
    intro h; subst h; simp at h2
  simp [h0, h1, h2, h3]

/-- more than six consecutive `S` is rejected -/
theorem seven_S_rejected (spec : Str) (dt : Dt) (h0 : spec ≠ fastPathSpec)
    (h1 : endsWith spec utcSuffix = false) (h2 : '%' ∉ spec)
    (h3 : spec ≠ []) (h4 : isInfix ['S', 'S', 'S', 'S', 'S', 'S', 'S'] spec = true) :
    formatDt spec dt = .error .valueError := by
  unfold formatDt
  have h5 : tooManyS = ['S', 'S', 'S', 'S', 'S', 'S', 'S'] := rfl
  rw [h5]
  simp [h0, h1, h2, h3, h4]

/-- the special-cased default format renders what the generic token path renders -/
theorem default_fast_path_eq_generic (dt : Dt) :
    formatDt fastPathSpec dt =
      (percentFormat (build (scan fastPathSpec)).1
        (((build (scan fastPathSpec)).2).map (·.eval (timetuple dt) dt))).map .text := by
  have hb : build (scan fastPathSpec) =
      ("%04d-%02d-%02d %02d:%02d:%02d.%03d %s".toList, [.int k_YYYY, .int k_MM, .int k_DD, .int k_HH,
        .int k_mm, .int k_ss, .int k_SSS, .str k_Z]) := by rfl
  rw [hb]
  unfold formatDt
  simp only [beq_self_eq_true, if_true]
  rfl

/-! ### Round 5: the two-phase implementation renders piece by piece; the `!UTC` suffix -/

theorem scan_pieces_clean (spec : Str) (h : '%' ∉ spec) : ∀ p ∈ scan spec, pieceClean p := by
  intro p hp
  have hsub : ∀ c ∈ Piece.src p, c ∈ spec := by
    intro c hc
    have : c ∈ (scan spec).flatMap Piece.src := List.mem_flatMap.mpr ⟨p, hp, hc⟩
    rwa [scan_lossless] at this
  cases p with
  | text s => exact fun hm => h (hsub _ hm)
  | tok s => exact fun hm => h (hsub _ hm)

/-- the generic path (`_compile_format` builds a `%`-format string, `_loguru_datetime_formatter` applies it to the
kernel values) renders, for EVERY spec it accepts, exactly the concatenation of the pieces' own renderings
(`Spec.renderBody`: text verbatim, table tokens through their padding, bracket escapes without their brackets)
at the instant's own fields – and never fails. -/
theorem format_generic (spec : Str) (dt : Dt) (h0 : spec ≠ fastPathSpec)
    (h1 : endsWith spec utcSuffix = false) (h2 : '%' ∉ spec) (h3 : spec ≠ [])
    (h4 : isInfix tooManyS spec = false) :
    formatDt spec dt = .ok (.text (renderBody spec dt)) := by
  unfold formatDt
  simp only [h0, h1, h2, h3, h4, beq_iff_eq, if_false, List.isEmpty_iff, List.contains_iff_mem,
    Bool.false_eq_true]
  rw [build_render _ (scan_pieces_clean spec h2)]
  rfl

/-- `!UTC`: exactly the four characters of the suffix are removed (whatever text precedes them is kept and rendered
verbatim by `format_generic`'s reading), and the body is rendered at the fields of `toUtc dt` – the same instant at
offset 0 (`toUtc_same_instant`) – instead of the instant's own fields. -/
theorem format_utc_suffix (body : Str) (dt : Dt) (h2 : '%' ∉ body) (h3 : body ≠ [])
    (h4 : isInfix tooManyS body = false) :
    formatDt (body ++ utcSuffix) dt = .ok (.text (renderBody body (toUtc dt))) := by
  unfold formatDt
  simp only [suffixed_ne_fast, endsWith_append_self, cut_utc_suffix, h2, h3, h4, beq_iff_eq, if_false, if_true,
    List.isEmpty_iff, List.contains_iff_mem, Bool.false_eq_true]
  rw [build_render _ (scan_pieces_clean body h2)]
  rfl

/-- a `%` body with the suffix: delegated to strftime on the UTC-converted instant, the body unchanged -/
theorem percent_delegates_utc (body : Str) (dt : Dt) (h2 : '%' ∈ body) :
    formatDt (body ++ utcSuffix) dt = .ok (.strftime true body) := by
  unfold formatDt
  have h3 : body ≠ [] := by intro h; subst h; simp at h2
  simp only [suffixed_ne_fast, endsWith_append_self, cut_utc_suffix, h2, h3, beq_iff_eq, if_false, if_true,
    List.isEmpty_iff, List.contains_iff_mem]

/-- the suffix changes nothing but the instant's representation: formatting `body!UTC` at `dt` is formatting `body`
at `toUtc dt` – for every body that is itself a plain spec (the default format included, through
`default_fast_path_eq_generic`). -/
theorem utc_suffix_converts (body : Str) (dt : Dt) (h1 : endsWith body utcSuffix = false)
    (h2 : '%' ∉ body) (h3 : body ≠ []) (h4 : isInfix tooManyS body = false) :
    formatDt (body ++ utcSuffix) dt = formatDt body (toUtc dt) := by
  rw [format_utc_suffix body dt h2 h3 h4]
  by_cases h0 : body = fastPathSpec
  · subst h0
    rw [default_fast_path_eq_generic, build_render _ (scan_pieces_clean _ h2)]
    rfl
  · rw [format_generic body (toUtc dt) h0 h1 h2 h3 h4]

/-- `!UTC` changes the representation, not the instant: the converted record has the same epoch microseconds (so the
tokens `x` and `X` print the same with and without the suffix), offset 0 (so `Z` prints `+00:00`, `ZZ` `+0000`), a
calendar month and clock fields in range – for EVERY aware instant (calendar round trip for every day number) -/
theorem utc_conversion_same_instant (t t' : Tm) (dt : Dt) :
    timestampMicroseconds (toUtc dt) = timestampMicroseconds dt ∧
    k_x t (toUtc dt) = k_x t' dt ∧ k_X t (toUtc dt) = k_X t' dt ∧
    k_Z t (toUtc dt) = "+00:00".toList ∧ k_ZZ t (toUtc dt) = "+0000".toList ∧
    (1 ≤ (toUtc dt).month ∧ (toUtc dt).month ≤ 12) ∧ (0 ≤ (toUtc dt).hour ∧ (toUtc dt).hour < 24) ∧
    (0 ≤ (toUtc dt).minute ∧ (toUtc dt).minute < 60) ∧ (0 ≤ (toUtc dt).second ∧ (toUtc dt).second < 60) ∧
    (0 ≤ (toUtc dt).microsecond ∧ (toUtc dt).microsecond < 1000000) := by
  obtain ⟨h1, h2, h3, h4, h5, h6⟩ := toUtc_same_instant dt
  have hz : ∀ sep, formatTimezone (toUtc dt) sep = "+00".toList ++ sep ++ "00".toList := by
    intro sep
    unfold formatTimezone
    rw [h2]
    have hf : fmtD0 2 0 = ['0', '0'] := by decide
    simp [hf]
  refine ⟨h1, ?_, ?_, ?_, ?_, toUtc_month_range dt, h3, h4, h5, h6⟩
  · simp only [k_x, h1]
  · simp only [k_X, h1]
  · rw [(token_Z_is_formatTimezone t (toUtc dt)).1, hz]; rfl
  · rw [(token_Z_is_formatTimezone t (toUtc dt)).2, hz]; rfl

/-! ### Round 5: what the scanner's matches are -/

theorem altLens_text (a : Alt) (s : List Char) (k : Nat) (hk : k ∈ altLens a s)
    (h6 : ∀ c mn, a = .rep c mn none → k ≤ 6) : s.take k ∈ altTexts a := by
  cases a with
  | lit l =>
    simp only [altLens] at hk
    split at hk
    · rename_i hp
      simp only [List.mem_singleton] at hk
      subst hk
      rw [List.isPrefixOf_iff_prefix] at hp
      obtain ⟨t, rfl⟩ := hp
      simp [altTexts]
    · simp at hk
  | rep c mn mx =>
    simp only [altLens, List.mem_filter, List.mem_map, List.mem_range, decide_eq_true_eq] at hk
    obtain ⟨⟨i, hi, hki⟩, hpos⟩ := hk
    cases mx with
    | some m =>
      simp only at hi hki
      have hrun : k ≤ (s.takeWhile (· == c)).length := by omega
      rw [take_of_takeWhile c s k hrun]
      simp only [altTexts, List.mem_map, List.mem_range]
      exact ⟨k - mn, by omega, by congr 1; omega⟩
    | none =>
      simp only at hi hki
      have hrun : k ≤ (s.takeWhile (· == c)).length := by omega
      have := h6 c mn rfl
      rw [take_of_takeWhile c s k hrun]
      simp only [altTexts, List.mem_map, List.mem_range]
      exact ⟨k - mn, by omega, by congr 1; omega⟩

/-- where the `.tok` pieces of a scan come from: the token branch of the pattern matched exactly that text at its
position, or it is a bracket match `[` … `]` -/
theorem scanAux_tok (fuel : Nat) (s acc : List Char) (h : s.length ≤ fuel) (t : Str)
    (ht : Piece.tok t ∈ scanAux fuel s acc) :
    (∃ pre rest k, s = pre ++ t ++ rest ∧ matchToken tokenAlts (t ++ rest) = some k ∧ t = (t ++ rest).take k) ∨
    (∃ inner, t = '[' :: inner ++ [']']) := by
  induction fuel generalizing s acc with
  | zero =>
    have : s = [] := List.length_eq_zero_iff.mp (by omega)
    subst this
    unfold scanAux at ht
    exact absurd ht (flush_no_tok acc t)
  | succ n ih =>
    cases s with
    | nil => unfold scanAux at ht; exact absurd ht (flush_no_tok acc t)
    | cons c cs =>
      unfold scanAux at ht
      simp only at ht
      split at ht
      · rename_i k hk
        have hpos : 1 ≤ k := matchToken_pos _ tokenAlts_ok _ _ hk
        rcases List.mem_append.mp ht with h1 | h1
        · rcases List.mem_append.mp h1 with h2 | h2
          · exact absurd h2 (flush_no_tok acc t)
          · simp only [List.mem_singleton, Piece.tok.injEq] at h2
            left
            refine ⟨[], (c :: cs).drop k, k, ?_, ?_, ?_⟩
            · rw [h2]; simp
            · rw [h2, List.take_append_drop]; exact hk
            · rw [h2, List.take_append_drop]
        · have hlen : ((c :: cs).drop k).length ≤ n := by simp at h ⊢; omega
          rcases ih _ [] hlen h1 with ⟨pre, rest, k', e1, e2, e3⟩ | hb
          · left
            refine ⟨(c :: cs).take k ++ pre, rest, k', ?_, e2, e3⟩
            rw [List.append_assoc, List.append_assoc, ← List.append_assoc pre, ← e1, List.take_append_drop]
          · right; exact hb
      · split at ht
        · split at ht
          · rename_i hc _ k hk
            have hc' : c = '[' := by simpa using hc
            rcases List.mem_append.mp ht with h1 | h1
            · rcases List.mem_append.mp h1 with h2 | h2
              · exact absurd h2 (flush_no_tok acc t)
              · simp only [List.mem_singleton, Piece.tok.injEq] at h2
                right
                have hb := matchBracketInner_some _ _ _ hk
                refine ⟨cs.take k, ?_⟩
                rw [h2, hc']
                simp only [List.take_succ_cons]
                rw [List.take_add_one]
                rw [List.head?_drop] at hb
                simp [hb]
            · have hlen : ((c :: cs).drop (k + 2)).length ≤ n := by simp at h ⊢; omega
              rcases ih _ [] hlen h1 with ⟨pre, rest, k', e1, e2, e3⟩ | hb
              · left
                refine ⟨(c :: cs).take (k + 2) ++ pre, rest, k', ?_, e2, e3⟩
                rw [List.append_assoc, List.append_assoc, ← List.append_assoc pre, ← e1, List.take_append_drop]
              · right; exact hb
          · have hlen : cs.length ≤ n := by simp at h; omega
            rcases ih cs (c :: acc) hlen ht with ⟨pre, rest, k', e1, e2, e3⟩ | hb
            · left; exact ⟨c :: pre, rest, k', by rw [e1]; simp, e2, e3⟩
            · right; exact hb
        · have hlen : cs.length ≤ n := by simp at h; omega
          rcases ih cs (c :: acc) hlen ht with ⟨pre, rest, k', e1, e2, e3⟩ | hb
          · left; exact ⟨c :: pre, rest, k', by rw [e1]; simp, e2, e3⟩
          · right; exact hb

theorem only_S_is_unbounded : ∀ a ∈ tokenAlts, ∀ c mn, a = Alt.rep c mn none → c = 'S' := by
  have h : tokenAlts.all unboundedOnlyS = true := by decide
  intro a ha c mn hac
  have := List.all_eq_true.mp h a ha
  subst hac
  simpa [unboundedOnlyS] using this

/-- every match of the pattern in a spec without seven consecutive `S` is a key of the token table or a bracket match:
the `except KeyError` branch of `_compile_format` (`token[1:-1]`) only ever sees `[` … `]` – no token text can fall through
it and silently lose its first and last character -/
theorem scan_tok_shape (spec : Str) (h7 : isInfix tooManyS spec = false) (t : Str)
    (ht : Piece.tok t ∈ scan spec) :
    (lookup t table).isSome = true ∨ ∃ inner, t = '[' :: inner ++ [']'] := by
  rcases scanAux_tok spec.length spec [] (Nat.le_refl _) t ht with ⟨pre, rest, k, e1, e2, e3⟩ | hb
  · left
    obtain ⟨a, ha, hka⟩ := matchToken_some _ _ _ e2
    have h6 : ∀ c mn, a = .rep c mn none → k ≤ 6 := by
      intro c mn hac
      subst hac
      have hc := only_S_is_unbounded _ ha c mn rfl
      subst hc
      have hrep := altLens_rep_take 'S' mn none _ k hka
      rw [← e3] at hrep
      by_cases hk : k ≤ 6
      · exact hk
      · exfalso
        have h7' : tooManyS = List.replicate 7 'S' := by decide
        have hsplit : t = tooManyS ++ List.replicate (k - 7) 'S' := by
          rw [hrep, h7', List.replicate_append_replicate]; congr 1; omega
        have : isInfix tooManyS spec = true := by
          have e : spec = pre ++ tooManyS ++ (List.replicate (k - 7) 'S' ++ rest) := by
            rw [e1, hsplit]; simp [List.append_assoc]
          rw [e]
          exact isInfix_of_decomp tooManyS pre _
        rw [h7] at this; cases this
    have hmem := altLens_text a _ k hka h6
    rw [← e3] at hmem
    exact alternatives_match_only_table_keys a ha t hmem
  · right; exact hb

/-! ### Round 5: what is rejected; bracket escapes -/

theorem fast_path_ok (dt : Dt) : ∃ s, formatDt fastPathSpec dt = .ok (.text s) := by
  rw [default_fast_path_eq_generic, build_render _ (scan_pieces_clean _ (by decide))]
  exact ⟨_, rfl⟩

/-- REJECTION is exactly "more than six consecutive `S`": `format` raises iff the spec is not the default format, is
not delegated to strftime, and its body contains `SSSSSSS`; it then raises ValueError; in every other case a text (or a
strftime delegation) comes out – the `%`-formatting stage never fails. -/
theorem rejected_iff_seven_S (spec : Str) (dt : Dt) :
    ((∃ e, formatDt spec dt = .error e) ↔
      (spec ≠ fastPathSpec ∧ '%' ∉ effectiveBody spec ∧ isInfix tooManyS (effectiveBody spec) = true)) ∧
    (∀ e, formatDt spec dt = .error e → e = .valueError) := by
  by_cases h0 : spec = fastPathSpec
  · subst h0
    obtain ⟨s, hs⟩ := fast_path_ok dt
    rw [hs]
    constructor
    · constructor
      · rintro ⟨e, he⟩; cases he
      · rintro ⟨h, _⟩; exact absurd rfl h
    · intro e he; cases he
  · have hb : (spec == fastPathSpec) = false := by simpa using h0
    unfold effectiveBody formatDt
    simp only [hb]
    generalize endsWith spec utcSuffix = u
    generalize (if (if u = true then List.take (spec.length - 4) spec else spec).isEmpty = true then isoSpec
      else if u = true then List.take (spec.length - 4) spec else spec) = s
    by_cases hp : s.contains '%' = true
    · have hp' : '%' ∈ s := by simpa using hp
      simp only [hp, if_true]
      constructor
      · constructor
        · rintro ⟨e, he⟩; cases he
        · rintro ⟨_, h, _⟩; exact absurd hp' h
      · intro e he; cases he
    · have hp' : '%' ∉ s := by simpa using hp
      by_cases h7 : isInfix tooManyS s = true
      · simp only [hp, h7, if_true]
        constructor
        · constructor
          · intro _; exact ⟨h0, hp', trivial⟩
          · intro _; exact ⟨_, rfl⟩
        · intro e he; cases he; rfl
      · simp only [hp, h7]
        rw [build_render _ (scan_pieces_clean s hp')]
        constructor
        · constructor
          · rintro ⟨e, he⟩; cases he
          · rintro ⟨_, _, h⟩; cases h
        · intro e he; cases he

/-- the keys of the token table -/
def tableKeys : List Str := table.map (·.1)

/-- bracket escapes: `[token]` renders the token's own text for EVERY token of the table, `[!UTC]` renders `!UTC`, `[]`
renders nothing – at every instant -/
theorem escapes_render_inner (dt : Dt) :
    (∀ k ∈ tableKeys, formatDt ('[' :: k ++ [']']) dt = .ok (.text k)) ∧
    formatDt "[!UTC]".toList dt = .ok (.text "!UTC".toList) ∧ formatDt "[]".toList dt = .ok (.text []) := by
  have H : ∀ k ∈ tableKeys ++ ["!UTC".toList, []],
      ('[' :: k ++ [']']) ≠ fastPathSpec ∧ endsWith ('[' :: k ++ [']']) utcSuffix = false ∧ '%' ∉ ('[' :: k ++ [']']) ∧
      isInfix tooManyS ('[' :: k ++ [']']) = false ∧ scan ('[' :: k ++ [']']) = [.tok ('[' :: k ++ [']'])] ∧
      lookup ('[' :: k ++ [']']) table = none ∧ (('[' :: k ++ [']']).drop 1).dropLast = k := by decide
  have G : ∀ k ∈ tableKeys ++ ["!UTC".toList, []], formatDt ('[' :: k ++ [']']) dt = .ok (.text k) := by
    intro k hk
    obtain ⟨h0, h1, h2, h4, hs, hl, hi⟩ := H k hk
    rw [format_generic _ dt h0 h1 h2 (by simp) h4]
    simp only [renderBody, hs, List.flatMap_cons, List.flatMap_nil, renderPieceStr, hl, hi, List.append_nil]
  refine ⟨fun k hk => G k (List.mem_append_left _ hk), ?_, ?_⟩
  · exact G "!UTC".toList (by simp)
  · exact G [] (by simp)

theorem table_keys_distinct : (table.map (·.1)).Nodup := by decide

/-- END-TO-END statement for every documented token alone: `format(dt, tok)` is the token's conversion applied to the
token's kernel value at the instant's own fields (each spec consisting of one table key scans to exactly that token –
`DDDD` is not read as `DD``DD` – and takes the generic path) -/
theorem single_token_renders (dt : Dt) :
    ∀ e ∈ table, formatDt e.1 dt = .ok (.text (fmtVal e.2.1 (e.2.2.eval (timetuple dt) dt))) := by
  have H : ∀ k ∈ tableKeys, k ≠ fastPathSpec ∧ endsWith k utcSuffix = false ∧ '%' ∉ k ∧ k ≠ [] ∧
      isInfix tooManyS k = false ∧ scan k = [.tok k] := by decide
  intro e he
  obtain ⟨h0, h1, h2, h3, h4, hs⟩ := H e.1 (List.mem_map.mpr ⟨e, he, rfl⟩)
  rw [format_generic _ dt h0 h1 h2 h3 h4]
  simp only [renderBody, hs, List.flatMap_cons, List.flatMap_nil, renderPieceStr,
    lookup_of_mem_nodup table table_keys_distinct e he, List.append_nil]

/-- the default format renders piece by piece like every other spec (fast path ≡ generic path ≡ piecewise spec) -/
theorem default_format_piecewise (dt : Dt) :
    formatDt fastPathSpec dt = .ok (.text (renderBody fastPathSpec dt)) := by
  rw [default_fast_path_eq_generic, build_render _ (scan_pieces_clean _ (by decide))]
  rfl

/-- instance: the 12-hour token end to end -/
example (dt : Dt) : formatDt "hh".toList dt = .ok (.text (fmtD0 2 (hour12 dt.hour))) := by
  have h := single_token_renders dt ("hh".toList, "%02d".toList, .int k_hh) (by simp [table])
  rw [h, show k_hh = fun t dt => hour12 t.tm_hour from funext fun t => funext fun dt => (token_hh t dt).1]
  rfl

/-- END-TO-END correctness of the default format (the fast path every record takes unless a format is configured):
for every instant whose offset is non-negative or a whole number of minutes (outside: F1) -/
theorem default_format_correct (dt : Dt) (h : 0 ≤ dt.offsetUs ∨ dt.offsetUs % 60000000 = 0) :
    formatDt fastPathSpec dt = .ok (.text (defaultSpecText dt)) := by
  have hf : defaultFormatString = "%04d".toList ++ (['-'] ++ ("%02d".toList ++ (['-'] ++ ("%02d".toList ++ ([' '] ++
      ("%02d".toList ++ ([':'] ++ ("%02d".toList ++ ([':'] ++ ("%02d".toList ++ (['.'] ++ ("%03d".toList ++ ([' '] ++
      ("%s".toList ++ [])))))))))))))) := by decide
  have ha : defaultArgs.map (·.eval (timetuple dt) dt) =
      [(Kernel.int fun _ d => d.year).eval (timetuple dt) dt, (Kernel.int fun _ d => d.month).eval (timetuple dt) dt,
       (Kernel.int fun _ d => d.day).eval (timetuple dt) dt, (Kernel.int fun _ d => d.hour).eval (timetuple dt) dt,
       (Kernel.int fun _ d => d.minute).eval (timetuple dt) dt, (Kernel.int fun _ d => d.second).eval (timetuple dt) dt,
       (Kernel.int fun _ d => d.microsecond / 1000).eval (timetuple dt) dt,
       (Kernel.str fun _ d => formatTimezone d ":".toList).eval (timetuple dt) dt] := rfl
  unfold formatDt
  simp only [beq_self_eq_true, if_true]
  rw [hf, ha]
  rw [percentFormat_conv _ _ rfl, percentFormat_text _ _ _ (by decide),
      percentFormat_conv _ _ rfl, percentFormat_text _ _ _ (by decide),
      percentFormat_conv _ _ rfl, percentFormat_text _ _ _ (by decide),
      percentFormat_conv _ _ rfl, percentFormat_text _ _ _ (by decide),
      percentFormat_conv _ _ rfl, percentFormat_text _ _ _ (by decide),
      percentFormat_conv _ _ rfl, percentFormat_text _ _ _ (by decide),
      percentFormat_conv _ _ rfl, percentFormat_text _ _ _ (by decide),
      percentFormat_conv _ _ rfl]
  have hz : formatTimezone dt [':'] = tzSpec dt.offsetUs [':'] := token_Z_partial dt _ h
  simp [percentFormat, Except.map, fmtVal, Kernel.eval, defaultSpecText, hz]

/-- … and with the suffix: the same text for the converted instant, whose offset prints `+00:00` – for EVERY instant
(no guard: the converted offset is 0, outside the region of F1) -/
theorem default_format_utc_correct (dt : Dt) :
    formatDt (fastPathSpec ++ utcSuffix) dt = .ok (.text (defaultSpecText (toUtc dt))) := by
  rw [utc_suffix_converts fastPathSpec dt (by decide) (by decide) (by decide) (by decide)]
  exact default_format_correct (toUtc dt) (Or.inl (by rw [(toUtc_same_instant dt).2.1]; decide))

/-! ### Round 5: `_format_timezone` / `_timestamp_microseconds` as the source has them NOW -/

/-- the hand-written `formatTimezone` the token kernels `Z`, `ZZ` and the default format call IS the function
regenerated from the statements of `_format_timezone` (sign test, `divmod(abs(offset // 60), 60)`,
`abs(offset) % 60`, the `s > 0` / `is_integer()` branches, the three format strings) -/
theorem formatTimezone_is_generated (dt : Dt) (sep : Str) :
    formatTimezone dt sep = formatTimezoneGen dt.offsetUs sep := by
  unfold formatTimezone formatTimezoneGen
  simp only [beq_iff_eq]
  repeat' split
  all_goals first
    | rfl
    | (simp only [List.append_assoc]; done)
    | (exfalso; omega)

/-- `_timestamp_microseconds` is `(dt - epoch) // timedelta(microseconds=1)` with the epoch literal and the unit of
the source (regenerated): exact integer microseconds, no float anywhere -/
theorem timestamp_is_generated (dt : Dt) : timestampMicroseconds dt = timestampGen dt := by
  have h : localMicros epochDt - epochDt.offsetUs = 0 := by decide
  have u : timestampUnitUs = 1 := by decide
  unfold timestampGen timestampMicroseconds
  rw [h, u]; omega

/-- COMPLETE characterisation of `Z`/`ZZ` (the documented region of F1): for every offset the rendering is the exact
split of an offset – of the instant's own offset when it is non-negative or a whole number of minutes, and of the
offset minus one minute otherwise (negative with a seconds part: exactly one minute too far from zero) -/
theorem token_Z_total (dt : Dt) (sep : Str) :
    formatTimezone dt sep =
      tzSpec (if 0 ≤ dt.offsetUs ∨ dt.offsetUs % 60000000 = 0 then dt.offsetUs else dt.offsetUs - 60000000) sep := by
  split
  · rename_i h; exact token_Z_partial dt sep h
  · rename_i h
    unfold formatTimezone tzSpec
    have e1 : ((dt.offsetUs / 60000000).natAbs : Int) / 60 = ((dt.offsetUs - 60000000).natAbs : Int) / 3600000000 := by omega
    have e2 : ((dt.offsetUs / 60000000).natAbs : Int) % 60 = ((dt.offsetUs - 60000000).natAbs : Int) / 60000000 % 60 := by omega
    have e3 : (dt.offsetUs.natAbs : Int) % 60000000 = ((dt.offsetUs - 60000000).natAbs : Int) % 60000000 := by omega
    have e4 : (dt.offsetUs ≥ 0) = False := by simp; omega
    have e5 : (dt.offsetUs - 60000000 ≥ 0) = False := by simp; omega
    simp only [e1, e2, e3, e4, e5]

/-- … and the same for what the token table calls (through the regenerated function) -/
theorem token_Z_generated (t : Tm) (dt : Dt) (h : 0 ≤ dt.offsetUs ∨ dt.offsetUs % 60000000 = 0) :
    formatTimezoneGen dt.offsetUs [':'] = tzSpec dt.offsetUs [':'] ∧ k_Z t dt = tzSpec dt.offsetUs [':'] ∧
    k_ZZ t dt = tzSpec dt.offsetUs [] := by
  refine ⟨?_, ?_, ?_⟩
  · rw [← formatTimezone_is_generated, token_Z_partial dt _ h]
  · rw [(token_Z_is_formatTimezone t dt).1, token_Z_partial dt _ h]
  · rw [(token_Z_is_formatTimezone t dt).2, token_Z_partial dt _ h]

/-- the loop of `_compile_format` that the hand-written `build` (over `scan`) mirrors is, statement for statement and up
to the names of its locals, the one modelled: text between matches appended verbatim (`spec[pos:start]`, then
`spec[pos:]`), `match.group(0)` looked up in the table, its conversion appended and its kernel pushed in match order,
anything not in the table appended without its first and last character (`token[1:-1]`) -/
theorem build_loop_is_the_modelled_one : buildLoopShape = [
  "v0 = ''",
  "v1 = []",
  "v2 = 0",
  "for v3 in pattern.finditer(SPEC):",
  "    v4, v5 = v3.span()",
  "    v0 += SPEC[v2:v4]",
  "    v2 = v5",
  "    v6 = v3.group(0)",
  "    try:",
  "        v7, v8 = TABLE[v6]",
  "    except KeyError:",
  "        v0 += v6[1:-1]",
  "    else:",
  "        v0 += v7",
  "        v1.append(v8)",
  "v0 += SPEC[v2:]"] := by decide

/-! ### Round 5: state that survives from one call to the next -/

/-- what the source says about cross-call state (all regenerated): the memoiser of `_compile_format` is keyed by the
whole spec `__format__` received; no function reachable from `__format__` writes a global, an attribute, an item, or
mutates anything it did not create itself; `_loguru_datetime_formatter` converts to UTC before it reads any field and
passes the kernels' values in formatter order; `aware_now` (the record's time) and what it calls remember nothing from one
record to the next -/
theorem source_keeps_no_other_state :
    cacheKeyIsWholeSpec = true ∧ formatStateWrites = [] ∧ utcConversionFirst = true ∧
    argsInFormatterOrder = true ∧ awareNowStateWrites = [] := by decide

theorem sourceKey_injective : ∀ a b, sourceKey a = sourceKey b → a = b := by
  have h : sourceKey = id := by unfold sourceKey; rw [source_keeps_no_other_state.1]; rfl
  intro a b hab; rw [h] at hab; exact hab

/-- the two stages of the code (`_compile_format(spec)`, cached; then the compiled formatter applied to the instant)
compose to the one-call model every other theorem speaks about -/
theorem compile_then_run_is_formatDt (spec : Str) (dt : Dt) :
    (compileFormat spec >>= fun f => runCompiled f dt) = formatDt spec dt := compile_then_run spec dt

/-- HISTORY theorem: through the source's memoiser – whatever its replacement policy drops or reorders, LRU of any
size included – EVERY call of EVERY history of `format` calls renders exactly `formatDt` of its own spec and its own
instant: nothing of an earlier call (another spec, another instant, another zone) shows in a later one. -/
theorem history_renderings_independent (policy : Str → Cache → Cache)
    (hpol : ∀ k c e, e ∈ policy k c → e ∈ c) (calls : List (Str × Dt)) :
    runHistory sourceKey policy [] calls = calls.map (fun x => formatDt x.1 x.2) :=
  runHistory_correct sourceKey sourceKey_injective policy hpol calls [] (by intro e he; cases he)

/-- instance: `functools.lru_cache(maxsize=…)` with the maxsize of the source -/
theorem history_lru (calls : List (Str × Dt)) :
    runHistory sourceKey (lruPolicy cacheMaxsize) [] calls = calls.map (fun x => formatDt x.1 x.2) :=
  history_renderings_independent _ (fun k c e h => lruPolicy_subset cacheMaxsize k c e h) calls

/-- why the key matters: a memoiser keyed by anything less than the whole spec (here: the spec without its `!UTC`
suffix) renders the second call of this two-call history in the zone of the FIRST call's spec -/
theorem noninjective_key_leaks :
    let dt : Dt := { year := 2024, month := 2, day := 29, hour := 1, minute := 30, second := 5, microsecond := 7,
                     offsetUs := 7200000000, tzname := ['X'] }
    let key : Str → Str := fun s => if endsWith s utcSuffix then s.take (s.length - 4) else s
    runHistory key (fun _ c => c) [] [("HH".toList, dt), ("HH!UTC".toList, dt)]
      = [.ok (.text "01".toList), .ok (.text "01".toList)] ∧
    formatDt "HH!UTC".toList dt = .ok (.text "23".toList) := by
  constructor <;> decide

/-- non-vacuity: a concrete instant and spec exercising tokens, escapes and the UTC suffix -/
example :
    formatDt "YYYY-MM-DD hh:mm A [YY] [at] Q ZZ!UTC".toList
      { year := 2024, month := 2, day := 29, hour := 1, minute := 30, second := 5, microsecond := 7,
        offsetUs := 7200000000, tzname := ['X'] } = .ok (.text "2024-02-28 11:30 PM YY [at] 1 +0000".toList) := by
  decide

/-- non-vacuity of `format_generic` / `format_utc_suffix` / `utc_suffix_converts`: a spec meeting their hypotheses, with
literal text (brackets around a non-token stay), an escaped token and text that merely looks like the suffix in the middle; its piecewise rendering computed -/
example :
    let dt : Dt := { year := 2024, month := 2, day := 29, hour := 1, minute := 30, second := 5, microsecond := 7,
                     offsetUs := 7200000000, tzname := ['X'] }
    let body := "D!UTC, [at] [hh] hh é".toList
    body ≠ fastPathSpec ∧ endsWith body utcSuffix = false ∧ '%' ∉ body ∧ body ≠ [] ∧ isInfix tooManyS body = false ∧
    renderBody body dt = "29!UTC, [at] hh 01 é".toList ∧ renderBody body (toUtc dt) = "28!UTC, [at] hh 11 é".toList ∧
    formatDt (body ++ utcSuffix) dt = .ok (.text "28!UTC, [at] hh 11 é".toList) := by
  refine ⟨by decide, by decide, by decide, by decide, by decide, by decide, by decide, by decide⟩

/-- non-vacuity of `toUtc_same_instant`: the day changes, the instant does not -/
example :
    let dt : Dt := { year := 2024, month := 3, day := 1, hour := 1, minute := 30, second := 5, microsecond := 7,
                     offsetUs := 7200000000, tzname := ['X'] }
    (toUtc dt).day = 29 ∧ (toUtc dt).month = 2 ∧ (toUtc dt).hour = 23 ∧
    timestampMicroseconds (toUtc dt) = timestampMicroseconds dt := by decide

/-- non-vacuity of `token_Z_total`: both regions are inhabited -/
example :
    (0 ≤ (3661000000 : Int) ∨ (3661000000 : Int) % 60000000 = 0) ∧
    ¬ (0 ≤ (-3661000000 : Int) ∨ (-3661000000 : Int) % 60000000 = 0) ∧
    tzSpec (-3661000000 - 60000000) [':'] = "-01:02:01".toList := by decide

/-- non-vacuity of `history_lru`: a history with a repeated spec, an erroring spec and a delegated one, on a tiny LRU
(size 1, so every second call evicts) -/
example :
    let d1 : Dt := { year := 2024, month := 2, day := 29, hour := 1, minute := 30, second := 5, microsecond := 7,
                     offsetUs := 7200000000, tzname := ['X'] }
    let d2 : Dt := { d1 with hour := 13, offsetUs := -3600000000 }
    runHistory id (lruPolicy (some 1)) [] [("H Z".toList, d1), ("H Z".toList, d2), ("SSSSSSS".toList, d1),
        ("H Z!UTC".toList, d2), ("H Z".toList, d1), ("%H".toList, d1)]
      = [.ok (.text "1 +02:00".toList), .ok (.text "13 -01:00".toList), .error .valueError,
         .ok (.text "14 +00:00".toList), .ok (.text "1 +02:00".toList), .ok (.strftime false "%H".toList)] := by decide

/-- non-vacuity of `rejected_iff_seven_S` (both sides inhabited) and of `scan_tok_shape` (a table key, a bracket match
and literal text in one scan) -/
example :
    (effectiveBody "HH SSSSSSS!UTC".toList = "HH SSSSSSS".toList ∧ '%' ∉ effectiveBody "HH SSSSSSS!UTC".toList ∧
      isInfix tooManyS (effectiveBody "HH SSSSSSS!UTC".toList) = true) ∧
    isInfix tooManyS (effectiveBody "HH SSSSSS".toList) = false ∧
    scan "[HH] DD[".toList = [.tok "[HH]".toList, .text [' '], .tok "DD".toList, .text ['[']] := by decide

/-- non-vacuity of `default_format_correct` / `default_format_utc_correct`: the written-out text at a concrete instant -/
example :
    let dt : Dt := { year := 2024, month := 2, day := 29, hour := 1, minute := 30, second := 5, microsecond := 7999,
                     offsetUs := 19800000000, tzname := ['X'] }
    (0 ≤ dt.offsetUs ∨ dt.offsetUs % 60000000 = 0) ∧
    defaultSpecText dt = "2024-02-29 01:30:05.007 +05:30".toList ∧
    defaultSpecText (toUtc dt) = "2024-02-28 20:00:05.007 +00:00".toList := by decide

end C11
