import LoguruModel.Parse.Finditer
import LoguruModel.Parse.Trace
import LoguruModel.Parse.Cont
import LoguruModel.Parse.GenProto
import LoguruModel.Parse.With
import LoguruModel.Parse.HeadStable
/-
C20 – `logger.parse()` is independent of the chunk size and equals a whole-text regex scan.
Only the property theorems and their non-vacuity examples live here.  Model: Parse/Model.lean
(`go`/`findIter` = `_find_iter` as written, over the constants regenerated from the source in
Generated/ParseShape.lean); the regex engine is the parameter `scan`; `Local scan` states the
property's side condition (restart (R), prefix stability (P), spans inside the text).
-/
namespace C20
open Py Parse

variable {α γ : Type}

/-! ### the constants found in the source are the ones the algorithm needs -/

/-- the guard lets a round trim only when a second-to-last match exists -/
theorem guard_implies_two_matches (n : Nat) (h : Gen.guard n = true) : 2 ≤ n := guard_sound n h

/-- the buffer is cut after the second-to-last match, exactly the last match is held back, and
the buffer starts empty (`fileobj.read(0)`) -/
theorem trim_and_hold_constants : Gen.trimBack = 2 ∧ Gen.yieldHold = 1 ∧ Gen.initialRead = 0 := by decide

/-! ### main theorem -/

/-- For every scanner with (R) and (P), every sequence of reads (any sizes, any number – so every
chunk size and every position of the chunk boundaries relative to the matches): `_find_iter`
yields exactly the values of the whole-text scan of what the file handed over, in order, and
ends without an exception. -/
theorem find_iter_eq_scan (scan : Scanner α γ) (H : Local scan) (reads : List (List α)) :
    findIter scan reads = ((scan (readable reads).flatten).map (·.val), none) := by
  have := go_eq_scan scan H reads []
  simpa [findIter] using this

/-- the same in the form of DESIGN §4: non-empty chunks -/
theorem find_iter_eq_scan_chunks (scan : Scanner α γ) (H : Local scan) (chunks : List (List α))
    (hne : ∀ c ∈ chunks, c ≠ []) :
    (findIter scan chunks).1 = (scan chunks.flatten).map (·.val) ∧ (findIter scan chunks).2 = none := by
  have hr : readable chunks = chunks :=
    readable_of_all_nonempty chunks (fun c hc => by
      cases c with
      | nil => exact absurd rfl (hne [] hc)
      | cons a r => rfl)
  rw [find_iter_eq_scan scan H, hr]; exact ⟨rfl, rfl⟩

/-- The same conclusion from ONLY the instances of (R) and (P) that `_find_iter` can meet on one
given text `T` (buffers start at reachable trim points of `T`): this is exactly the condition the
harness decides with the real `re` engine before it judges a (regex, text) pair. -/
theorem find_iter_eq_scan_on (scan : Scanner α γ) (T : List α) (H : LocalOn scan T)
    (reads : List (List α)) (hT : (readable reads).flatten = T) :
    findIter scan reads = ((scan T).map (·.val), none) := by
  have := go_eq_scan_on scan T H reads [] 0 Reach.zero (by simpa using hT)
  simpa [findIter] using this

/-- the global conditions imply the per-text ones (so the per-text theorem is the stronger one) -/
theorem local_implies_local_on (scan : Scanner α γ) (H : Local scan) (T : List α) : LocalOn scan T :=
  H.on scan T

/-- reads after the first empty one do not matter (the loop has ended) -/
theorem reads_after_eof_ignored (scan : Scanner α γ) (H : Local scan) (pre post : List (List α))
    (hne : ∀ c ∈ pre, c ≠ []) :
    findIter scan (pre ++ [] :: post) = findIter scan pre := by
  have hi := isEmpty_false_of_ne_nil pre hne
  have h1 := readable_append_empty pre post hi
  have h2 := readable_of_all_nonempty pre hi
  rw [find_iter_eq_scan scan H, find_iter_eq_scan scan H, h1, h2]

/-- `parse(file, pattern, chunk=k)` for every chunk size k ≥ 1 and every file content -/
theorem parse_chunk_independent (scan : Scanner α γ) (H : Local scan) (k : Nat) (hk : 1 ≤ k)
    (t : List α) : findIter scan (chunksOf k t) = ((scan t).map (·.val), none) := by
  unfold chunksOf
  rw [find_iter_eq_scan scan H,
    readable_of_all_nonempty _ (chunksAux_nonempty k hk t.length t),
    chunksAux_flatten k hk t.length t (Nat.le_refl _)]

/-- any two chunk sizes give the same result -/
theorem chunk_sizes_agree (scan : Scanner α γ) (H : Local scan) (k k' : Nat) (hk : 1 ≤ k)
    (hk' : 1 ≤ k') (t : List α) : findIter scan (chunksOf k t) = findIter scan (chunksOf k' t) := by
  rw [parse_chunk_independent scan H k hk, parse_chunk_independent scan H k' hk']

/-! ### the held-back match (state-machine view) -/

/-- invariant of the loop, for every continuation `R` of the input: what was yielded so far,
followed by the scan of (buffer ++ R), is the scan of (text read so far ++ R) -/
theorem run_invariant (scan : Scanner α γ) (H : Local scan) (cs : List (List α)) :
    (run scan cs).err = none ∧
    ∀ R, (run scan cs).out ++ (scan ((run scan cs).buf ++ R)).map (·.val)
         = (scan (cs.flatten ++ R)).map (·.val) := by
  have h0 : Parse.Inv scan ({ buf := [], out := [], err := none } : St α γ) [] := ⟨rfl, fun R => by simp⟩
  have := foldl_inv scan H cs _ [] h0
  simpa [run, Parse.Inv] using this

/-- whatever has been yielded before the end of input is a prefix of the whole-text scan of
EVERY possible continuation of the input: nothing is yielded that later text could revoke -/
theorem yielded_early_is_final (scan : Scanner α γ) (H : Local scan) (cs : List (List α))
    (rest : List α) :
    (run scan cs).out <+: (scan (cs.flatten ++ rest)).map (·.val) := by
  obtain ⟨_, hinv⟩ := run_invariant scan H cs
  rw [← hinv rest]; exact List.prefix_append _ _

/-- nothing is lost either: yielded ++ scan of the buffer = scan of the text read so far -/
theorem yielded_plus_pending (scan : Scanner α γ) (H : Local scan) (cs : List (List α)) :
    (run scan cs).out ++ (scan (run scan cs).buf).map (·.val) = (scan cs.flatten).map (·.val) := by
  obtain ⟨_, hinv⟩ := run_invariant scan H cs
  simpa using hinv []

/-- after a round whose buffer scan found something, the last match is still pending: strictly
fewer values have been yielded than the text read so far contains -/
theorem held_back_match_not_yielded_early (scan : Scanner α γ) (H : Local scan)
    (cs : List (List α)) (c : List α)
    (hm : scan ((run scan cs).buf ++ c) ≠ []) :
    (run scan (cs ++ [c])).out.length < (scan (cs ++ [c]).flatten).length := by
  have hsum := congrArg List.length (yielded_plus_pending scan H (cs ++ [c]))
  simp only [List.length_append, List.length_map] at hsum
  suffices h : 1 ≤ (scan (run scan (cs ++ [c])).buf).length by omega
  obtain ⟨he, _⟩ := run_invariant scan H cs
  rw [run_append]
  unfold step
  simp only [he]
  by_cases hg : Gen.guard (scan ((run scan cs).buf ++ c)).length = true
  · have h2 := guard_sound _ hg
    simp only [hg, ↓reduceIte, trimBack_eq, negIdx_two _ h2]
    have hr := congrArg List.length
      (H.restart ((run scan cs).buf ++ c) ((scan ((run scan cs).buf ++ c)).length - 2) (by omega))
    simp only [List.length_map, List.length_drop] at hr
    omega
  · simp only [hg, Bool.false_eq_true, ↓reduceIte]
    exact Nat.pos_of_ne_zero (fun h0 => hm (List.eq_nil_of_length_eq_zero h0))

/-! ### `parse`: cast, argument checks, the file it opened -/

section parse
variable {κ ν : Type} [DecidableEq κ]

/-- valid arguments: `parse` yields the cast of every groupdict of the whole-text scan, in order -/
theorem parse_eq_cast_scan (file : FileArg) (cast : CastArg κ ν) (scan : Scanner α (List (κ × ν)))
    (H : Local scan) (reads : List (List α)) (hf : file ≠ .other)
    (hc : cast ≠ .invalid) :
    (parse file cast true scan reads).out
      = (scan (readable reads).flatten).map (fun m => applyCast cast m.val) ∧
    (parse file cast true scan reads).err = none := by
  unfold parse
  cases cast with
  | invalid => exact absurd rfl hc
  | dict d => simp [hf, find_iter_eq_scan scan H]
  | fn f => simp [hf, find_iter_eq_scan scan H]

/-- a dict cast converts exactly the listed keys that are present, once, and leaves key order and
the other entries alone -/
theorem cast_dict_keys (d : List (κ × (ν → ν))) (g : List (κ × ν)) :
    (castDict d g).map (·.1) = g.map (·.1) := by
  unfold castDict
  induction d generalizing g with
  | nil => rfl
  | cons kv d ih =>
    simp only [List.foldl_cons]
    rw [ih]
    clear ih
    induction g with
    | nil => rfl
    | cons e g ihg =>
      obtain ⟨k', v⟩ := e
      simp only [setKey]
      split <;> simp [ihg]

/-- invalid `file`, `cast` or pattern: TypeError before anything is opened or read -/
theorem parse_rejects_bad_arguments (file : FileArg) (cast : CastArg κ ν) (ok : Bool)
    (scan : Scanner α (List (κ × ν))) (reads : List (List α))
    (h : file = .other ∨ cast = .invalid ∨ ok = false) :
    (parse file cast ok scan reads).err = some .typeError ∧
    (parse file cast ok scan reads).events = [] ∧ (parse file cast ok scan reads).out = [] := by
  unfold parse
  by_cases hf : file = .other
  · simp [hf]
  · cases cast with
    | invalid => simp [hf]
    | dict d =>
      rcases h with h | h | h
      · exact absurd h hf
      · cases h
      · simp [hf, h]
    | fn f =>
      rcases h with h | h | h
      · exact absurd h hf
      · cases h
      · simp [hf, h]

/-- a path or path-like: the function opens the file once, and it is closed – as the last event –
when the iteration is exhausted -/
theorem file_closed_when_exhausted (file : FileArg) (cast : CastArg κ ν)
    (scan : Scanner α (List (κ × ν))) (reads : List (List α))
    (hf : file = .pathStr ∨ file = .pathLike) (hc : cast ≠ .invalid) :
    ∃ n, (parse file cast true scan reads).events
      = [.opened] ++ List.replicate n .read ++ [.closed] := by
  have hpc : Gen.pathOpenerCloses = true := by decide
  have hiw : Gen.iterationInsideWith = true := by decide
  have hne : file ≠ .other := by rcases hf with h | h <;> simp [h]
  unfold parse
  cases cast with
  | invalid => exact absurd rfl hc
  | dict d => exact ⟨(readable reads).length + 2, by simp [hne, hf, hpc, hiw]⟩
  | fn f => exact ⟨(readable reads).length + 2, by simp [hne, hf, hpc, hiw]⟩

/-- an already open file object is only read: the function neither opens nor closes anything -/
theorem caller_file_left_open (file : FileArg) (cast : CastArg κ ν)
    (scan : Scanner α (List (κ × ν))) (reads : List (List α))
    (hf : file = .textFile ∨ file = .binaryFile) :
    ∀ e ∈ (parse file cast true scan reads).events, e = .read := by
  have hlo : Gen.fileObjectLeftOpen = true := by decide
  have h1 : file ≠ .other := by rcases hf with h | h <;> simp [h]
  have h2 : ¬ (file = .pathStr ∨ file = .pathLike) := by rcases hf with h | h <;> simp [h]
  unfold parse
  cases cast with
  | invalid => simp [h1]
  | dict d => simp [h1, h2]
  | fn f => simp [h1, h2]

end parse

/-! ### round 5: the hold-back rule and the buffer -/

/-- after a round that trims, the buffer holds exactly ONE match – the last match of the round,
with the same value – and nothing of the matches that were yielded -/
theorem trim_keeps_exactly_the_last_match (scan : Scanner α γ) (H : Local scan)
    (cs : List (List α)) (c : List α)
    (hg : Gen.guard (scan ((run scan cs).buf ++ c)).length = true) :
    (scan (run scan (cs ++ [c])).buf).map (·.val)
      = ((scan ((run scan cs).buf ++ c)).drop ((scan ((run scan cs).buf ++ c)).length - 1)).map (·.val) ∧
    (scan (run scan (cs ++ [c])).buf).length = 1 := by
  obtain ⟨he, _⟩ := run_invariant scan H cs
  have h2 := guard_sound _ hg
  have hr := H.restart ((run scan cs).buf ++ c) ((scan ((run scan cs).buf ++ c)).length - 2) (by omega)
  have hb : (run scan (cs ++ [c])).buf
      = ((run scan cs).buf ++ c).drop ((scan ((run scan cs).buf ++ c))[(scan ((run scan cs).buf ++ c)).length - 2]'(by omega)).e := by
    rw [run_append]; unfold step
    simp only [he, hg, ↓reduceIte, trimBack_eq, negIdx_two _ h2]
  rw [hb]
  have hidx : (scan ((run scan cs).buf ++ c)).length - 2 + 1 = (scan ((run scan cs).buf ++ c)).length - 1 := by omega
  rw [hidx] at hr
  refine ⟨hr, ?_⟩
  have := congrArg List.length hr
  simp only [List.length_map, List.length_drop] at this
  omega

/-- the buffer is always a suffix of the text read so far: trimming only ever drops a prefix, so
no character is seen twice or out of order by the scanner – for EVERY scanner -/
theorem buffer_is_suffix_of_input (scan : Scanner α γ) (cs : List (List α))
    (h : (run scan cs).err = none) : (run scan cs).buf <:+ cs.flatten := by
  have := foldl_buf_suffix scan cs { buf := [], out := [], err := none } [] (List.suffix_refl _) h
  simpa [run] using this

/-- what was dropped from the buffer is exactly covered by yielded matches or skipped text: the
yielded values plus the scan of the suffix kept equal the scan of everything read (for a `Local`
scanner the buffer can be dropped up to the held-back match without changing the result) -/
theorem buffer_suffix_and_pending (scan : Scanner α γ) (H : Local scan) (cs : List (List α)) :
    (run scan cs).buf <:+ cs.flatten ∧
    (run scan cs).out ++ (scan (run scan cs).buf).map (·.val) = (scan cs.flatten).map (·.val) :=
  ⟨buffer_is_suffix_of_input scan cs (run_invariant scan H cs).1, yielded_plus_pending scan H cs⟩

/-! ### round 5: a match that grows although it does not reach the end of the buffer -/

/-- `[^\n]*\n(?: [^\n]*\n)*` – a line and all complete indented lines after it – satisfies (R),(P) -/
theorem cont_scanner_local [DecidableEq α] (nl sp : α) : Local (contScanner nl sp) := contScanner_local nl sp

/-- every chunking of every text yields the records of the whole-text scan -/
theorem cont_scanner_any_chunking [DecidableEq α] (nl sp : α) (reads : List (List α)) :
    findIter (contScanner nl sp) reads
      = (contGroups nl sp (lines nl (readable reads).flatten), none) := by
  rw [find_iter_eq_scan _ (contScanner_local nl sp)]
  simp [contScanner, tiling, spansOf_map_val, contPieces, Function.comp_def]

/-- the last match of a buffer can end BEFORE the end of the buffer and still grow when a further
complete piece arrives: "it does not reach the end of the buffer" does not make a match final -/
theorem last_match_grows_without_reaching_buffer_end :
    ∃ (t u : List Char) (m m' : Span (List Char)),
      contScanner '\n' ' ' t = [m] ∧ m.e < t.length ∧
      contScanner '\n' ' ' (t ++ u) = [m'] ∧ m.e < m'.e :=
  ⟨"a\n b".toList, "\n".toList, ⟨0, 2, "a\n".toList⟩, ⟨0, 5, "a\n b\n".toList⟩, by decide⟩

/-- hence the cheaper-looking rule "hold the last match back only if it reaches the end of the
buffer" (`goEager`) is WRONG for a scanner inside the property's domain, on a chunking where
`_find_iter` as written is right -/
theorem eager_hold_back_rule_is_wrong :
    ∃ reads : List (List Char),
      goEager (contScanner '\n' ' ') [] reads ≠ (contScanner '\n' ' ' (readable reads).flatten).map (·.val) ∧
      (findIter (contScanner '\n' ' ') reads).1 = (contScanner '\n' ' ' (readable reads).flatten).map (·.val) :=
  ⟨["a\n b".toList, "\n".toList], by decide, by rw [find_iter_eq_scan _ (contScanner_local '\n' ' ')]⟩

/-- likewise the rule "a pending match that the text just read did not extend is complete" (release
the last match as soon as it ends at or before the old end of the buffer): a whole chunk can fall
strictly inside a continuation line that is still arriving -/
theorem unextended_release_rule_is_wrong :
    ∃ reads : List (List Char),
      goUnextended (contScanner '\n' ' ') [] reads ≠ (contScanner '\n' ' ' (readable reads).flatten).map (·.val) ∧
      (findIter (contScanner '\n' ' ') reads).1 = (contScanner '\n' ' ' (readable reads).flatten).map (·.val) :=
  ⟨["a\n".toList, " ".toList, "b\n".toList], by decide, by rw [find_iter_eq_scan _ (contScanner_local '\n' ' ')]⟩

/-- on the line scanner – whose matches grow character by character – both cheaper rules agree with
the whole-text scan on the same chunkings: the two earlier concrete scanners could not tell the
rules apart, only a scanner whose match grows after a further COMPLETE piece can -/
theorem cheaper_rules_look_right_on_line_records :
    goEager (lineScanner '\n') [] ["a\n b".toList, "\n".toList] = lines '\n' "a\n b\n".toList ∧
    goUnextended (lineScanner '\n') [] ["a\n".toList, " ".toList, "b\n".toList] = lines '\n' "a\n b\n".toList := by
  decide

/-! ### round 5: the tests of the source the model is defined through (regenerated kernels) -/

/-- `_find_iter` ends its loop exactly on an EMPTY read: a short read (`read(k)` returning fewer than
`k` items, as pipes, sockets and text decoders do) is not end of input.  `Gen.eofTest` is the test
found in the source, as a function of len(text) and chunk. -/
theorem eof_only_on_empty_read (n k : Nat) : Gen.eofTest n k = true ↔ n = 0 := by
  rw [eofTest_eq]; simp

/-- the cast-dict loop applies a converter exactly when the key is in the groupdict – also when the
value is `None` (group did not participate) or falsy (group matched the empty string) -/
theorem cast_applies_to_every_present_key (isNone truthy : Bool) :
    Gen.castApplies true isNone truthy = true ∧ Gen.castApplies false isNone truthy = false := by
  simp [castApplies_eq]

/-- `str` and `os.PathLike` arguments are opened by the function, and the object itself is handed
to `open()` (so `__fspath__` decides, not `__str__`) -/
theorem path_arguments_opened_as_given :
    Gen.opensStr = true ∧ Gen.opensPathLike = true ∧ Gen.openViaStr = false := by decide

/-! ### round 5: `parse` as a lazy pipeline – every way the iteration can end -/

section trace
variable {κ ν : Type} [DecidableEq κ]

/-- The lazy generator hands its consumer exactly what `findIter` computes, for EVERY scanner (no
locality needed) and every sequence of successful reads: the event-trace model refines the function
the chunk-independence theorems are about. -/
theorem lazy_pipeline_refines_find_iter (scan : Scanner α γ) (chunk : Nat) (reads : List (List α)) :
    itemsUntilFail (findIterActs true scan chunk (reads.map .ok)) = findIter scan reads :=
  findIterActs_eq_findIter scan chunk reads

/-- A generator that is created but never advanced runs nothing: no argument check, no `open`. -/
theorem unstarted_generator_does_nothing (s : Src α) (cast : CastArgE κ ν) (vv : ValView ν)
    (scan : Scanner α (List (κ × ν))) : parseTrace s cast vv scan (some 0) = [] := by
  simp [parseTrace]

/-- Invalid `file`, `cast` or pattern: the first `next()` raises TypeError and nothing else happens. -/
theorem bad_arguments_raise_at_first_next (s : Src α) (cast : CastArgE κ ν) (vv : ValView ν)
    (scan : Scanner α (List (κ × ν))) (limit : Option Nat) (hl : limit ≠ some 0)
    (h : s.file = .other ∨ cast.valid = false ∨ s.patternOk = false) :
    parseTrace s cast vv scan limit = [.raised .typeError] := by
  unfold parseTrace
  by_cases hf : s.file = .other
  · simp [hl, Src.own, Src.fileObj, hf]
  · rcases h with h | h | h
    · exact absurd h hf
    · cases cast with
      | invalid => simp only [hl, ↓reduceIte]; split <;> rfl
      | dict d => simp [CastArgE.valid] at h
      | fn f => simp [CastArgE.valid] at h
    · cases cast with
      | invalid => simp only [hl, ↓reduceIte]; split <;> rfl
      | dict d => simp only [hl, ↓reduceIte, h]; split <;> simp
      | fn f => simp only [hl, ↓reduceIte, h]; split <;> simp

/-- **Files the function opened are closed when iteration ends – however it ends.**  For a path or
path-like argument, ANY scanner, ANY outcomes of the reads (pieces of any size, a read that raises),
ANY cast (converters that raise included), a consumer that iterates to exhaustion or calls `close()`
after any number of items, a pattern of the wrong string type: the trace is `opened`, then events
among read / yielded, then `closed` – exactly once – and after it nothing but the exception, if one
ended the iteration, reaching the consumer. -/
theorem path_file_closed_on_every_path (s : Src α) (cast : CastArgE κ ν) (vv : ValView ν)
    (scan : Scanner α (List (κ × ν))) (limit : Option Nat)
    (hf : s.file = .pathStr ∨ s.file = .pathLike) (hc : cast.valid = true) (hp : s.patternOk = true)
    (ho : s.openErr = none) (hl : limit ≠ some 0) :
    ∃ mid tail, parseTrace s cast vv scan limit = [.opened] ++ mid ++ [.closed] ++ tail ∧
      (∀ e ∈ mid, e.inner = true) ∧ (tail = [] ∨ ∃ e, tail = [.raised e]) := by
  have h1 : Gen.opensStr = true := by decide
  have h2 : Gen.opensPathLike = true := by decide
  have h3 : Gen.openViaStr = false := by decide
  have hown : s.own = true := by rcases hf with h | h <;> simp [Src.own, h, h1, h2]
  have hof : s.openFails = none := by simp [Src.openFails, h3, ho]
  rw [parseTrace_own s cast vv scan limit hown hc hp hof hl]
  obtain ⟨mid, tail, h, hm, ht⟩ := consume_own_shape (applyCastE vv cast) (findIterActs s.kindOk scan s.chunk s.reads) limit
  exact ⟨mid, tail, by simp [h], hm, ht⟩

/-- `open()` itself failing: the exception reaches the consumer, nothing was opened, nothing is read. -/
theorem open_failure_reaches_consumer (s : Src α) (cast : CastArgE κ ν) (vv : ValView ν)
    (scan : Scanner α (List (κ × ν))) (limit : Option Nat) (e : Err)
    (hf : s.file = .pathStr ∨ s.file = .pathLike) (hc : cast.valid = true) (hp : s.patternOk = true)
    (ho : s.openErr = some e) (hl : limit ≠ some 0) :
    parseTrace s cast vv scan limit = [.raised e] := by
  have h1 : Gen.opensStr = true := by decide
  have h2 : Gen.opensPathLike = true := by decide
  have h3 : Gen.openViaStr = false := by decide
  have hown : s.own = true := by rcases hf with h | h <;> simp [Src.own, h, h1, h2]
  have hof : s.openFails = some e := by simp [Src.openFails, h3, ho]
  unfold parseTrace
  cases cast with
  | invalid => simp [CastArgE.valid] at hc
  | dict d => simp [hl, hown, hp, hof]
  | fn f => simp [hl, hown, hp, hof]

/-- A path-like is opened through `__fspath__`: what `str()` of it looks like is irrelevant (F13). -/
theorem pathlike_opened_whatever_its_str (s : Src α) (b : Bool) (cast : CastArgE κ ν) (vv : ValView ν)
    (scan : Scanner α (List (κ × ν))) (limit : Option Nat) :
    parseTrace { s with strIsPath := b } cast vv scan limit = parseTrace s cast vv scan limit := by
  have h3 : Gen.openViaStr = false := by decide
  unfold parseTrace
  simp [Src.own, Src.fileObj, Src.openFails, h3]

/-- A caller's file object (text or binary) is only read: never opened, never closed by the
function – on every path (exhaustion, `close()`, exceptions). -/
theorem caller_file_never_opened_or_closed (s : Src α) (cast : CastArgE κ ν) (vv : ValView ν)
    (scan : Scanner α (List (κ × ν))) (limit : Option Nat)
    (hf : s.file = .textFile ∨ s.file = .binaryFile) :
    ∀ e ∈ parseTrace s cast vv scan limit, e.inner = true := by
  have hown : s.own = false := by rcases hf with h | h <;> simp [Src.own, h]
  have hfo : s.fileObj = true := by rcases hf with h | h <;> simp [Src.fileObj, h]
  intro e he
  by_cases hl : limit = some 0
  · simp [parseTrace, hl] at he
  by_cases hc : cast.valid = true
  · by_cases hp : s.patternOk = true
    · rw [parseTrace_fileobj s cast vv scan limit hown hfo hc hp hl] at he
      exact consume_fileobj_shape _ _ _ e he
    · have := bad_arguments_raise_at_first_next s cast vv scan limit hl (Or.inr (Or.inr (by simpa using hp)))
      rw [this] at he; simp at he; subst he; rfl
  · have := bad_arguments_raise_at_first_next s cast vv scan limit hl (Or.inr (Or.inl (by simpa using hc)))
    rw [this] at he; simp at he; subst he; rfl

/-- An exception that reaches the consumer (from a converter, from `read`, from the scan, from
`open`) is the last event: nothing is read or yielded after it, and the function's own file has
been closed before. -/
theorem exception_ends_iteration (s : Src α) (cast : CastArgE κ ν) (vv : ValView ν)
    (scan : Scanner α (List (κ × ν))) (limit : Option Nat) (pre post : List (TEv (List (κ × ν)))) (e : Err)
    (hc : cast.valid = true) (hp : s.patternOk = true) (hf : (s.own || s.fileObj) = true)
    (h : parseTrace s cast vv scan limit = pre ++ .raised e :: post) :
    post = [] := by
  by_cases hl : limit = some 0
  · simp [parseTrace, hl] at h
  by_cases hown : s.own = true
  · cases ho : s.openFails with
    | some e' =>
      unfold parseTrace at h
      cases cast with
      | invalid => simp [CastArgE.valid] at hc
      | dict d =>
        simp only [hl, hown, hp, ho, ↓reduceIte, Bool.true_or, Bool.not_true, Bool.false_eq_true] at h
        cases pre with
        | nil => simp at h; exact h.2
        | cons x pre => cases pre <;> simp at h
      | fn f =>
        simp only [hl, hown, hp, ho, ↓reduceIte, Bool.true_or, Bool.not_true, Bool.false_eq_true] at h
        cases pre with
        | nil => simp at h; exact h.2
        | cons x pre => cases pre <;> simp at h
    | none =>
      rw [parseTrace_own s cast vv scan limit hown hc hp ho hl] at h
      cases pre with
      | nil => simp at h
      | cons x pre =>
        simp only [List.cons_append, List.cons.injEq] at h
        exact consume_raise_is_last _ _ _ _ pre post e h.2
  · have hown' : s.own = false := by simpa using hown
    have hfo : s.fileObj = true := by simpa [hown'] using hf
    rw [parseTrace_fileobj s cast vv scan limit hown' hfo hc hp hl] at h
    exact consume_raise_is_last _ _ _ _ pre post e h

/-- **What the consumer receives on every path.**  Reads that do not fail, a scanner with (R),(P):
the dicts received are `deliver cast limit` of the whole-text scan – the casts of the first matches,
until a converter raises or the consumer has had `limit` items – for every sequence of read sizes. -/
theorem trace_yields_eq_deliver_scan (s : Src α) (reads : List (List α)) (cast : CastArgE κ ν)
    (vv : ValView ν) (scan : Scanner α (List (κ × ν))) (H : Local scan) (limit : Option Nat)
    (hr : s.reads = reads.map .ok) (hk : s.kindOk = true)
    (hf : (s.own || s.fileObj) = true) (hc : cast.valid = true) (hp : s.patternOk = true)
    (ho : s.openFails = none) (hl : limit ≠ some 0) :
    yieldsOf (parseTrace s cast vv scan limit)
      = deliver (applyCastE vv cast) limit ((scan (readable reads).flatten).map (·.val)) := by
  rw [parseTrace_yields s cast vv scan limit hf hc hp ho hl, hr, hk,
    findIterActs_eq_findIter, find_iter_eq_scan scan H]

/-- the same from ONLY the instances of (R),(P) that `_find_iter` can meet on the given text `T` –
the condition the harness decides with the real `re` engine before it judges a (regex, text) pair,
also in the runs where the iteration is abandoned or a converter raises -/
theorem trace_yields_eq_deliver_scan_on (s : Src α) (reads : List (List α)) (cast : CastArgE κ ν)
    (vv : ValView ν) (scan : Scanner α (List (κ × ν))) (T : List α) (H : LocalOn scan T)
    (hT : (readable reads).flatten = T) (limit : Option Nat)
    (hr : s.reads = reads.map .ok) (hk : s.kindOk = true)
    (hf : (s.own || s.fileObj) = true) (hc : cast.valid = true) (hp : s.patternOk = true)
    (ho : s.openFails = none) (hl : limit ≠ some 0) :
    yieldsOf (parseTrace s cast vv scan limit)
      = deliver (applyCastE vv cast) limit ((scan T).map (·.val)) := by
  rw [parseTrace_yields s cast vv scan limit hf hc hp ho hl, hr, hk,
    findIterActs_eq_findIter, find_iter_eq_scan_on scan T H reads hT]

/-- str vs bytes: a pattern of the other string type than the file's content (a str pattern on a
binary file or the reverse) makes the first `regex.finditer(buffer)` raise TypeError – after
`read(0)` and the first `read(chunk)`, nothing is yielded, and a file the function opened is closed
before the exception reaches the consumer.  (With the right type nothing of the kind happens: the
buffer starts as `fileobj.read(0)`, i.e. it always has the type of what the file hands over.) -/
theorem string_type_mismatch_raises_type_error (s : Src α) (cast : CastArgE κ ν) (vv : ValView ν)
    (scan : Scanner α (List (κ × ν))) (limit : Option Nat)
    (hf : s.file = .pathStr ∨ s.file = .pathLike) (hc : cast.valid = true) (hp : s.patternOk = true)
    (ho : s.openErr = none) (hl : limit ≠ some 0) (hk : s.kindOk = false)
    (hr : ∀ e rest, s.reads ≠ .error e :: rest) :
    parseTrace s cast vv scan limit = [.opened, .read, .read, .closed, .raised .typeError] := by
  have h1 : Gen.opensStr = true := by decide
  have h2 : Gen.opensPathLike = true := by decide
  have h3 : Gen.openViaStr = false := by decide
  have hown : s.own = true := by rcases hf with h | h <;> simp [Src.own, h, h1, h2]
  have hof : s.openFails = none := by simp [Src.openFails, h3, ho]
  rw [parseTrace_own s cast vv scan limit hown hc hp hof hl, hk]
  have : findIterActs false scan s.chunk s.reads = [.read, .read, .fail .typeError] := by
    unfold findIterActs
    cases hrd : s.reads with
    | nil => simp
    | cons r rest =>
      cases r with
      | error e => exact absurd hrd (hr e rest)
      | ok c => simp
  rw [this]
  simp [consume, closeEv_own]

/-- the i-th dict received is the cast of the i-th match of the whole-text scan – whatever ended or
interrupted the iteration later -/
theorem each_yield_is_cast_of_its_match (s : Src α) (reads : List (List α)) (cast : CastArgE κ ν)
    (vv : ValView ν) (scan : Scanner α (List (κ × ν))) (H : Local scan) (limit : Option Nat)
    (hr : s.reads = reads.map .ok) (hk : s.kindOk = true)
    (hf : (s.own || s.fileObj) = true) (hc : cast.valid = true) (hp : s.patternOk = true)
    (ho : s.openFails = none) (hl : limit ≠ some 0) (i : Nat) (w : List (κ × ν))
    (hw : (yieldsOf (parseTrace s cast vv scan limit))[i]? = some w) :
    ∃ m, (scan (readable reads).flatten)[i]? = some m ∧ applyCastE vv cast m.val = .ok w := by
  rw [trace_yields_eq_deliver_scan s reads cast vv scan H limit hr hk hf hc hp ho hl] at hw
  obtain ⟨x, hx, hcx⟩ := deliver_pointwise _ _ _ _ _ hw
  rw [List.getElem?_map] at hx
  cases hm : (scan (readable reads).flatten)[i]? with
  | none => simp [hm] at hx
  | some m => simp [hm] at hx; subst hx; exact ⟨m, rfl, hcx⟩

/-- converters that never raise, consumer iterating to exhaustion: the trace model gives what
`parse` (the function of the earlier theorems) gives – for every scanner -/
theorem trace_refines_parse (s : Src α) (reads : List (List α)) (cast : CastArg κ ν)
    (vv : ValView ν) (scan : Scanner α (List (κ × ν)))
    (hr : s.reads = reads.map .ok) (hk : s.kindOk = true)
    (hf : (s.own || s.fileObj) = true) (hc : cast.lift.valid = true) (hp : s.patternOk = true)
    (ho : s.openFails = none) :
    yieldsOf (parseTrace s cast.lift vv scan none) = (findIter scan reads).1.map (applyCast cast) := by
  rw [parseTrace_yields s cast.lift vv scan none hf hc hp ho (by simp), hr, hk, findIterActs_eq_findIter]
  have : applyCastE vv cast.lift = fun g => Except.ok (applyCast cast g) := by
    funext g; exact applyCastE_lift vv cast g
  rw [this, deliver_total]

/-- a consumer that calls `close()` after `n ≥ 1` items received exactly the first `n` dicts of the
whole-text result (all of them if there are fewer) -/
theorem early_close_gets_first_n (s : Src α) (reads : List (List α)) (cast : CastArg κ ν)
    (vv : ValView ν) (scan : Scanner α (List (κ × ν))) (H : Local scan) (n : Nat) (hn : 1 ≤ n)
    (hr : s.reads = reads.map .ok) (hk : s.kindOk = true)
    (hf : (s.own || s.fileObj) = true) (hc : cast.lift.valid = true) (hp : s.patternOk = true)
    (ho : s.openFails = none) :
    yieldsOf (parseTrace s cast.lift vv scan (some n))
      = ((scan (readable reads).flatten).map (fun m => applyCast cast m.val)).take n := by
  rw [trace_yields_eq_deliver_scan s reads cast.lift vv scan H (some n) hr hk hf hc hp ho (by simp; omega)]
  have : applyCastE vv cast.lift = fun g => Except.ok (applyCast cast g) := by
    funext g; exact applyCastE_lift vv cast g
  rw [this, deliver_limit _ _ n hn, List.map_map]
  rfl

/-- a converter raising on match number `i` (none before): exactly the first `i` dicts arrive -/
theorem converter_error_stops_at_that_record (s : Src α) (reads : List (List α)) (cast : CastArgE κ ν)
    (vv : ValView ν) (scan : Scanner α (List (κ × ν))) (H : Local scan)
    (hr : s.reads = reads.map .ok) (hk : s.kindOk = true)
    (hf : (s.own || s.fileObj) = true) (hc : cast.valid = true) (hp : s.patternOk = true)
    (ho : s.openFails = none)
    (i : Nat) (hi : i < (scan (readable reads).flatten).length) (e : Err)
    (he : applyCastE vv cast ((scan (readable reads).flatten)[i]).val = .error e)
    (hb : ∀ j (hj : j < i), ∃ w, applyCastE vv cast ((scan (readable reads).flatten)[j]'(by omega)).val = .ok w) :
    (yieldsOf (parseTrace s cast vv scan none)).length = i := by
  rw [trace_yields_eq_deliver_scan s reads cast vv scan H none hr hk hf hc hp ho (by simp)]
  refine deliver_stops_at_failure _ _ i (by simpa using hi) e (by simpa using he) ?_
  intro j hj
  obtain ⟨w, hw⟩ := hb j hj
  exact ⟨w, by simpa using hw⟩

/-- **The event trace follows from CPython's generator protocol.**  `parseAuto` is the body of
`parse` as an automaton of the shared protocol model `Py/Generators.lean` (`send`/`throw`/`close`,
unstarted and finished objects, GeneratorExit – validated against real generator objects by C16);
a consumer drives the generator object with `next` … `next`, `close()`.  The events are exactly
`parseTrace` – so that nothing runs before the first `next()`, that `close()` reaches the `yield`
as GeneratorExit, that an exception finishes the object are consequences of the protocol, and only
the meaning of the two `with` blocks (close the file on every exit) is written down by hand. -/
theorem event_trace_follows_from_generator_protocol (s : Src α) (cast : CastArgE κ ν) (vv : ValView ν)
    (scan : Scanner α (List (κ × ν))) (limit : Option Nat) (fuel : Nat)
    (hf : (findIterActs s.kindOk scan s.chunk s.reads).length < fuel) :
    drive (Gen.genObj .generator (parseAuto s cast vv scan)) fuel limit (.unstarted .start) []
      = parseTrace s cast vv scan limit :=
  drive_eq_parseTrace s cast vv scan limit fuel hf

/-- hence, driven through the generator protocol, a path argument is opened once and closed exactly
once however the consumer uses the generator -/
theorem generator_protocol_closes_path_file (s : Src α) (cast : CastArgE κ ν) (vv : ValView ν)
    (scan : Scanner α (List (κ × ν))) (limit : Option Nat) (fuel : Nat)
    (hfu : (findIterActs s.kindOk scan s.chunk s.reads).length < fuel)
    (hf : s.file = .pathStr ∨ s.file = .pathLike) (hc : cast.valid = true) (hp : s.patternOk = true)
    (ho : s.openErr = none) (hl : limit ≠ some 0) :
    ∃ mid tail, drive (Gen.genObj .generator (parseAuto s cast vv scan)) fuel limit (.unstarted .start) []
        = [.opened] ++ mid ++ [.closed] ++ tail ∧
      (∀ e ∈ mid, e.inner = true) ∧ (tail = [] ∨ ∃ e, tail = [.raised e]) := by
  rw [drive_eq_parseTrace s cast vv scan limit fuel hfu]
  exact path_file_closed_on_every_path s cast vv scan limit hf hc hp ho hl

/-- The two `opener` context managers as they are written (`with open(file) as fileobj: yield fileobj`
/ `yield file`), run through contextlib's generator-based `__enter__` over the protocol model:
entering opens the file for a path argument only; an error of `open()` comes out with nothing opened. -/
theorem entering_with_opener_opens_only_a_path {ρ : Type} (own : Bool) (openErr : Option Err) (w : List (TEv ρ)) :
    cmEnter (openerAuto ρ own openErr) (.unstarted .start) w =
      match own, openErr with
      | true, some e => (.raised (excOf e), .done, w)
      | true, none => (.ok, .suspended .inside, w ++ [.opened])
      | false, _ => (.ok, .suspended .inside, w) :=
  opener_enter own openErr w

/-- … and leaving the block in ANY way – normally, or with any exception in flight (the
GeneratorExit of `close()` included) – through contextlib's `__exit__` does exactly what the trace
model appends at every exit (`closeEv`): the file the function opened is closed, a caller's file
object is left alone, and the exception is not swallowed. -/
theorem leaving_with_opener_is_closeEv {ρ : Type} (own : Bool) (openErr : Option Err) (exc : Option Gen.Exc)
    (hx : ∀ x, exc = some x → x.isStopIteration = false) (w : List (TEv ρ)) :
    cmExit (openerAuto ρ own openErr) (.suspended .inside) exc w = (.ok, .done, w ++ closeEv ρ own) := by
  have hiw : Gen.iterationInsideWith = true := by decide
  rw [opener_exit own openErr exc hx w]
  simp [closeEv, hiw]

/-- **The event trace with the `with` statement spelled out.**  `parseAutoW` is the body of `parse`
in which `with opener() as fileobj:` is what Python makes of it – `cm = opener()`, `cm.__enter__()`,
and on every exit of the block `cm.__exit__(…)` through contextlib's generator-based protocol over
the two opener automata, the exception re-raised unless `__exit__` says otherwise.  Driven by a
consumer it produces exactly `parseTrace`: `closeEv` is not an ingredient of this derivation, only a
name for its result.  (Assumed: a `with` statement calls `__exit__` once on every exit of its body;
`open(file).__exit__` closes the file and does not suppress.) -/
theorem event_trace_with_statement_spelled_out (s : Src α) (cast : CastArgE κ ν) (vv : ValView ν)
    (scan : Scanner α (List (κ × ν))) (limit : Option Nat) (fuel : Nat)
    (hf : (findIterActs s.kindOk scan s.chunk s.reads).length < fuel) :
    drive (Gen.genObj .generator (parseAutoW s cast vv scan)) fuel limit (.unstarted .start) []
      = parseTrace s cast vv scan limit :=
  driveW_eq_parseTrace s cast vv scan limit fuel hf

/-- a cast dict (distinct keys) converts the value of each listed key that is present exactly once
and leaves every other entry alone – for every value, `None` and `''` included -/
theorem cast_dict_converts_exactly_listed_keys (d : List (κ × (ν → ν))) (hd : (d.map (·.1)).Nodup)
    (g : List (κ × ν)) (k : κ) :
    lookup k (castDict d g) =
      match convFor k d with
      | some f => (lookup k g).map f
      | none => lookup k g :=
  lookup_castDict d hd g k

end trace

/-! ### non-vacuity: concrete scanners satisfy the hypotheses; the theorem runs on them -/

/-- `[^\n]*\n|[^\n]+` -/
theorem line_scanner_local [DecidableEq α] (nl : α) : Local (lineScanner nl) := lineScanner_local nl

/-- `[^\n]*\n[^\n]*\n` (two-line blocks) -/
theorem block_scanner_local [DecidableEq α] (nl : α) : Local (blockScanner nl) := blockScanner_local nl

/-- every chunk size splits a text into the same lines as the whole-text scan -/
theorem line_scanner_any_chunk [DecidableEq α] (nl : α) (k : Nat) (hk : 1 ≤ k) (t : List α) :
    findIter (lineScanner nl) (chunksOf k t) = (lines nl t, none) := by
  rw [parse_chunk_independent _ (lineScanner_local nl) k hk]
  simp [lineScanner, tiling, spansOf_map_val, linePieces, Function.comp_def]

/-- multi-line matches: every chunking yields the same two-line blocks as the whole text -/
theorem block_scanner_any_chunking [DecidableEq α] (nl : α) (chunks : List (List α)) :
    findIter (blockScanner nl) chunks
      = ((blockPieces nl (readable chunks).flatten).map (·.2), none) := by
  rw [find_iter_eq_scan _ (blockScanner_local nl)]
  simp [blockScanner, tiling, spansOf_map_val]

/-! ### engines without look-behind: (R) is a theorem, only (P) depends on the pattern -/

/-- `finditer m` = leftmost non-overlapping non-empty matches of an anchored matcher `m` that is
only ever shown the text from the current position on.  For EVERY such engine the restart
condition holds – "matches do not depend on look-behind context at a previous match" is exactly
what makes (R) true. -/
theorem anchored_matcher_restart (m : Matcher α γ) (t : List α) (i : Nat)
    (h : i < (finditer m t).length) :
    (finditer m (t.drop ((finditer m t)[i]).e)).map (·.val) = ((finditer m t).drop (i + 1)).map (·.val) :=
  aux_restart m t.length t (Nat.le_refl _) i h

/-- hence for such an engine prefix stability alone gives chunk independence -/
theorem anchored_matcher_find_iter (m : Matcher α γ)
    (hP : ∀ t u, (finditer m t).dropLast <+: finditer m (t ++ u)) (reads : List (List α)) :
    findIter (finditer m) reads = ((finditer m (readable reads).flatten).map (·.val), none) :=
  find_iter_eq_scan _ (finditer_local m hP) reads

/-- the generic engine run on the anchored line matcher is the tiling line scanner (two independent
models of `re.finditer(r"[^\n]*\n|[^\n]+")` agree on every text), so `hP` above is satisfiable -/
theorem line_matcher_is_line_scanner [DecidableEq α] (nl : α) :
    finditer (lineMatcher nl) = lineScanner nl ∧
    ∀ t u, (finditer (lineMatcher nl) t).dropLast <+: finditer (lineMatcher nl) (t ++ u) := by
  refine ⟨finditer_lineMatcher nl, fun t u => ?_⟩
  rw [finditer_lineMatcher nl]
  exact (lineScanner_local nl).prefixStable t u

/-- Round 5: for an engine without look-behind the whole side condition reduces to its HEAD instance
`HeadStable m`: "the first of at least two matches of a text is the first match of every extension
of the text" (a first match is final once a second one has been seen).  (R) is a theorem for such
engines, and full prefix stability follows from the head instance by induction along the matches. -/
theorem anchored_matcher_head_stability_suffices (m : Matcher α γ) (h1 : HeadStable m)
    (reads : List (List α)) :
    findIter (finditer m) reads = ((finditer m (readable reads).flatten).map (·.val), none) :=
  find_iter_eq_scan _ (finditer_local_of_headStable m h1) reads

/-- head stability is not stronger than (P): for anchored matchers the two are equivalent -/
theorem head_stability_iff_prefix_stability (m : Matcher α γ) :
    HeadStable m ↔ ∀ t u, (finditer m t).dropLast <+: finditer m (t ++ u) := by
  constructor
  · intro h1 t u
    exact prefixStable_of_headStable m h1 t.length t u (Nat.le_refl _)
  · intro hP t u a b rest hS
    have := hP t u
    rw [hS, List.dropLast_cons_cons] at this
    obtain ⟨tl, htl⟩ := this
    exact ⟨(b :: rest).dropLast ++ tl, by rw [← htl]; simp⟩

/-- non-vacuity: the anchored line matcher is head stable -/
theorem line_matcher_head_stable [DecidableEq α] (nl : α) : HeadStable (lineMatcher nl) :=
  (head_stability_iff_prefix_stability _).mpr (line_matcher_is_line_scanner nl).2

-- a match straddling every boundary (chunk size 1), a last line without terminator, a multi-byte char
example : findIter (lineScanner '\n') (chunksOf 1 "ab\n\né😀".toList)
    = (["ab\n".toList, "\n".toList, "é😀".toList], none) := by decide
example : findIter (lineScanner '\n') (chunksOf 4 "ab\n\né😀".toList)
    = (["ab\n".toList, "\n".toList, "é😀".toList], none) := by decide
-- the empty file
example : findIter (lineScanner '\n') (chunksOf 3 ([] : List Char)) = ([], none) := by decide
-- two-line blocks over irregular reads; the trailing single line is no block
example : findIter (blockScanner '\n') ["a".toList, "\nbc\nd".toList, "\n".toList, "e\nf".toList]
    = ([("a".toList, "bc".toList), ("d".toList, "e".toList)], none) := by decide
-- the state machine really holds the last match back: after reading "a\nb\nc" the line "c" is pending
example : (run (lineScanner '\n') ["a\nb".toList, "\nc".toList]).out = ["a\n".toList, "b\n".toList]
    ∧ (run (lineScanner '\n') ["a\nb".toList, "\nc".toList]).buf = "c".toList := by decide
-- the generic engine, evaluated by the kernel
example : (finditer (lineMatcher '\n') "ab\n\ncd".toList).map (fun m => (m.s, m.e))
    = [(0, 3), (3, 4), (4, 6)] := by decide
-- bytes files: the same scanner over UInt8
example : findIter (lineScanner (10 : UInt8)) [[97, 10, 98], [99]] = ([[97, 10], [98, 99]], none) := by decide
-- records with continuation lines, chunk size 1 and 3: the record grows piece by piece and is yielded once
example : findIter (contScanner '\n' ' ') (chunksOf 1 "a\n b\nc\n\n d\nf".toList)
    = (["a\n b\n".toList, "c\n".toList, "\n d\n".toList], none) := by decide
example : findIter (contScanner '\n' ' ') (chunksOf 3 "a\n b\nc\n\n d\nf".toList)
    = (["a\n b\n".toList, "c\n".toList, "\n d\n".toList], none) := by decide
-- after a trimming round exactly the last match is in the buffer
example : (run (contScanner '\n' ' ') ["a\n b\nc\ne\n".toList, " d".toList]).buf = "e\n d".toList
    ∧ (run (contScanner '\n' ' ') ["a\n b\nc\ne\n".toList, " d".toList]).out = ["a\n b\n".toList, "c\n".toList] := by decide

/-! ### round 5: the trace theorems on concrete runs (kernel-evaluated) -/

section trace_examples
open TEv

/-- `(?P<l>[^\n]*\n|[^\n]+)` with `groupdict() = {0: text of l}` -/
private abbrev gdScan : Scanner Char (List (Nat × List Char)) := mapVal (fun v => [(0, v)]) (lineScanner '\n')
private abbrev vvStr : ValView (List Char) := ⟨fun _ => false, fun v => !v.isEmpty⟩
/-- converter of key 0: raises ValueError on a line containing 'b', else prefixes '#' -/
private abbrev convB : List Char → Except Err (List Char) := fun v => if v.contains 'b' then .error .valueError else .ok ('#' :: v)
private abbrev rd (l : List String) : List (ReadRes Char) := l.map (fun x => .ok x.toList)

-- the hypotheses of the trace theorems are satisfiable
example : Local gdScan := (lineScanner_local '\n').mapVal _ _
-- (the reads are chosen so that every round sees >= 3 or <= 1 matches: the traces are the same for the
-- equivalent guards `> 1`, `>= 2` and the lazier `> 2`)
-- exhaustion through a path: opened, read(0), reads and yields interleaved lazily, closed
example : parseTrace { file := .pathStr, chunk := 5, reads := rd ["a\nb\nc", "\nd\ne"] } (.dict []) vvStr gdScan none
    = [opened, read, read, yielded [(0, "a\n".toList)], yielded [(0, "b\n".toList)], read,
       yielded [(0, "c\n".toList)], yielded [(0, "d\n".toList)], read, yielded [(0, "e".toList)], closed] := by decide
-- the consumer closes after the first item: no further read, the file is closed
example : parseTrace { file := .pathLike, strIsPath := false, chunk := 5, reads := rd ["a\nb\nc", "\nd\ne"] }
      (.dict []) vvStr gdScan (some 1)
    = [opened, read, read, yielded [(0, "a\n".toList)], closed] := by decide
-- a converter raises on the second record: one dict, the file is closed, the exception arrives
example : parseTrace { file := .pathStr, chunk := 5, reads := rd ["a\nb\nc", "\nd\ne"] } (.dict [(0, convB)]) vvStr gdScan none
    = [opened, read, read, yielded [(0, "#a\n".toList)], closed, raised .valueError] := by decide
-- the second read raises
example : parseTrace { file := .pathStr, chunk := 5, reads := [.ok "a\nb\nc".toList, .error .osError] }
      (.dict []) vvStr gdScan none
    = [opened, read, read, yielded [(0, "a\n".toList)], yielded [(0, "b\n".toList)], read, closed, raised .osError] := by decide
-- str pattern on a binary file (or the reverse): TypeError at the first scan, file closed
example : parseTrace { file := .pathStr, kindOk := false, chunk := 3, reads := rd ["a\n"] } (.dict []) vvStr gdScan none
    = [opened, read, read, closed, raised .typeError] := by decide
-- the caller's file object, consumer closing early: only reads and yields
example : parseTrace { file := .textFile, chunk := 5, reads := rd ["a\nb\nc", "\nd\ne"] } (.fn (fun g => .ok g)) vvStr gdScan (some 1)
    = [read, read, yielded [(0, "a\n".toList)]] := by decide
-- the same through the generator protocol of Py/Generators.lean: three `next`, then `close()`
example : drive (Gen.genObj .generator (parseAuto { file := .pathStr, chunk := 5, reads := rd ["a\nb\nc", "\nd\ne"] }
      (.dict [(0, fun v => .ok ('#' :: v))]) vvStr gdScan)) 20 (some 3) (.unstarted .start) []
    = [opened, read, read, yielded [(0, "#a\n".toList)], yielded [(0, "#b\n".toList)], read,
       yielded [(0, "#c\n".toList)], closed] := by decide
-- the body with the `with` statement spelled out, a converter raising on the second record
example : drive (Gen.genObj .generator (parseAutoW { file := .pathLike, chunk := 5, reads := rd ["a\nb\nc", "\nd\ne"] }
      (.dict [(0, convB)]) vvStr gdScan)) 20 none (.unstarted .start) []
    = [opened, read, read, yielded [(0, "#a\n".toList)], closed, raised .valueError] := by decide
-- the path opener through contextlib's protocol: enter, then GeneratorExit in flight at the exit
example : (cmExit (openerAuto Nat true none) (.suspended .inside) (some Gen.genExit) [.opened, .read]).2.2
    = [.opened, .read, .closed] := by decide
-- open() fails
example : parseTrace { file := .pathStr, openErr := some .osError, chunk := 3, reads := rd ["a\n"] } (.dict []) vvStr gdScan none
    = [raised .osError] := by decide
-- a group that did not participate (None) and one that matched '' are converted like any other
example : (castDictE (κ := Nat) ⟨fun v => v.isNone, fun v => v.isSome && v != some []⟩
      [(1, fun v => .ok (v.map ('!' :: ·))), (2, fun _ => .ok (some ['n'])), (7, fun v => .ok v)]
      [(0, some ['x']), (1, some []), (2, none)]).toOption
    = some [(0, some ['x']), (1, some ['!']), (2, some ['n'])] := by decide

end trace_examples

end C20
