import LoguruModel.Parse.Finditer
/-
C20 – `logger.parse()` is independent of the chunk size and equals a whole-text regex scan.
Only the property theorems and their non-vacuity examples live here.  Model: Parse/Model.lean
(`go`/`findIter` = `_find_iter` as written, over the constants regenerated from the source in
Generated/ParseShape.lean); the regex engine is the parameter `scan`; `Local scan` states the
property's side condition (restart (R), prefix stability (P), spans inside the text).
-/
namespace C20
open Py Parse

variable {α γ : Type}

/-! ### the constants found in the source are the ones the algorithm needs -/

/-- the guard lets a round trim only when a second-to-last match exists -/
theorem guard_implies_two_matches (n : Nat) (h : Gen.guard n = true) : 2 ≤ n := guard_sound n h

/-- the buffer is cut after the second-to-last match, exactly the last match is held back, and
the buffer starts empty (`fileobj.read(0)`) -/
theorem trim_and_hold_constants : Gen.trimBack = 2 ∧ Gen.yieldHold = 1 ∧ Gen.initialRead = 0 := by decide

/-! ### main theorem -/

/-- For every scanner with (R) and (P), every sequence of reads (any sizes, any number – so every
chunk size and every position of the chunk boundaries relative to the matches): `_find_iter`
yields exactly the values of the whole-text scan of what the file handed over, in order, and
ends without an exception. -/
theorem find_iter_eq_scan (scan : Scanner α γ) (H : Local scan) (reads : List (List α)) :
    findIter scan reads = ((scan (readable reads).flatten).map (·.val), none) := by
  have := go_eq_scan scan H reads []
  simpa [findIter] using this

/-- the same in the form of DESIGN §4: non-empty chunks -/
theorem find_iter_eq_scan_chunks (scan : Scanner α γ) (H : Local scan) (chunks : List (List α))
    (hne : ∀ c ∈ chunks, c ≠ []) :
    (findIter scan chunks).1 = (scan chunks.flatten).map (·.val) ∧ (findIter scan chunks).2 = none := by
  have hr : readable chunks = chunks :=
    readable_of_all_nonempty chunks (fun c hc => by
      cases c with
      | nil => exact absurd rfl (hne [] hc)
      | cons a r => rfl)
  rw [find_iter_eq_scan scan H, hr]; exact ⟨rfl, rfl⟩

/-- The same conclusion from ONLY the instances of (R) and (P) that `_find_iter` can meet on one
given text `T` (buffers start at reachable trim points of `T`): this is exactly the condition the
harness decides with the real `re` engine before it judges a (regex, text) pair. -/
theorem find_iter_eq_scan_on (scan : Scanner α γ) (T : List α) (H : LocalOn scan T)
    (reads : List (List α)) (hT : (readable reads).flatten = T) :
    findIter scan reads = ((scan T).map (·.val), none) := by
  have := go_eq_scan_on scan T H reads [] 0 Reach.zero (by simpa using hT)
  simpa [findIter] using this

/-- the global conditions imply the per-text ones (so the per-text theorem is the stronger one) -/
theorem local_implies_local_on (scan : Scanner α γ) (H : Local scan) (T : List α) : LocalOn scan T :=
  H.on scan T

/-- reads after the first empty one do not matter (the loop has ended) -/
theorem reads_after_eof_ignored (scan : Scanner α γ) (H : Local scan) (pre post : List (List α))
    (hne : ∀ c ∈ pre, c ≠ []) :
    findIter scan (pre ++ [] :: post) = findIter scan pre := by
  have hi := isEmpty_false_of_ne_nil pre hne
  have h1 := readable_append_empty pre post hi
  have h2 := readable_of_all_nonempty pre hi
  rw [find_iter_eq_scan scan H, find_iter_eq_scan scan H, h1, h2]

/-- `parse(file, pattern, chunk=k)` for every chunk size k ≥ 1 and every file content -/
theorem parse_chunk_independent (scan : Scanner α γ) (H : Local scan) (k : Nat) (hk : 1 ≤ k)
    (t : List α) : findIter scan (chunksOf k t) = ((scan t).map (·.val), none) := by
  unfold chunksOf
  rw [find_iter_eq_scan scan H,
    readable_of_all_nonempty _ (chunksAux_nonempty k hk t.length t),
    chunksAux_flatten k hk t.length t (Nat.le_refl _)]

/-- any two chunk sizes give the same result -/
theorem chunk_sizes_agree (scan : Scanner α γ) (H : Local scan) (k k' : Nat) (hk : 1 ≤ k)
    (hk' : 1 ≤ k') (t : List α) : findIter scan (chunksOf k t) = findIter scan (chunksOf k' t) := by
  rw [parse_chunk_independent scan H k hk, parse_chunk_independent scan H k' hk']

/-! ### the held-back match (state-machine view) -/

/-- invariant of the loop, for every continuation `R` of the input: what was yielded so far,
followed by the scan of (buffer ++ R), is the scan of (text read so far ++ R) -/
theorem run_invariant (scan : Scanner α γ) (H : Local scan) (cs : List (List α)) :
    (run scan cs).err = none ∧
    ∀ R, (run scan cs).out ++ (scan ((run scan cs).buf ++ R)).map (·.val)
         = (scan (cs.flatten ++ R)).map (·.val) := by
  have h0 : Parse.Inv scan ({ buf := [], out := [], err := none } : St α γ) [] := ⟨rfl, fun R => by simp⟩
  have := foldl_inv scan H cs _ [] h0
  simpa [run, Parse.Inv] using this

/-- whatever has been yielded before the end of input is a prefix of the whole-text scan of
EVERY possible continuation of the input: nothing is yielded that later text could revoke -/
theorem yielded_early_is_final (scan : Scanner α γ) (H : Local scan) (cs : List (List α))
    (rest : List α) :
    (run scan cs).out <+: (scan (cs.flatten ++ rest)).map (·.val) := by
  obtain ⟨_, hinv⟩ := run_invariant scan H cs
  rw [← hinv rest]; exact List.prefix_append _ _

/-- nothing is lost either: yielded ++ scan of the buffer = scan of the text read so far -/
theorem yielded_plus_pending (scan : Scanner α γ) (H : Local scan) (cs : List (List α)) :
    (run scan cs).out ++ (scan (run scan cs).buf).map (·.val) = (scan cs.flatten).map (·.val) := by
  obtain ⟨_, hinv⟩ := run_invariant scan H cs
  simpa using hinv []

/-- after a round whose buffer scan found something, the last match is still pending: strictly
fewer values have been yielded than the text read so far contains -/
theorem held_back_match_not_yielded_early (scan : Scanner α γ) (H : Local scan)
    (cs : List (List α)) (c : List α)
    (hm : scan ((run scan cs).buf ++ c) ≠ []) :
    (run scan (cs ++ [c])).out.length < (scan (cs ++ [c]).flatten).length := by
  have hsum := congrArg List.length (yielded_plus_pending scan H (cs ++ [c]))
  simp only [List.length_append, List.length_map] at hsum
  suffices h : 1 ≤ (scan (run scan (cs ++ [c])).buf).length by omega
  obtain ⟨he, _⟩ := run_invariant scan H cs
  rw [run_append]
  unfold step
  simp only [he]
  by_cases hg : Gen.guard (scan ((run scan cs).buf ++ c)).length = true
  · have h2 := guard_sound _ hg
    simp only [hg, ↓reduceIte, trimBack_eq, negIdx_two _ h2]
    have hr := congrArg List.length
      (H.restart ((run scan cs).buf ++ c) ((scan ((run scan cs).buf ++ c)).length - 2) (by omega))
    simp only [List.length_map, List.length_drop] at hr
    omega
  · simp only [hg, Bool.false_eq_true, ↓reduceIte]
    exact Nat.pos_of_ne_zero (fun h0 => hm (List.eq_nil_of_length_eq_zero h0))

/-! ### `parse`: cast, argument checks, the file it opened -/

section parse
variable {κ ν : Type} [DecidableEq κ]

/-- valid arguments: `parse` yields the cast of every groupdict of the whole-text scan, in order -/
theorem parse_eq_cast_scan (file : FileArg) (cast : CastArg κ ν) (scan : Scanner α (List (κ × ν)))
    (H : Local scan) (reads : List (List α)) (hf : file ≠ .other)
    (hc : cast ≠ .invalid) :
    (parse file cast true scan reads).out
      = (scan (readable reads).flatten).map (fun m => applyCast cast m.val) ∧
    (parse file cast true scan reads).err = none := by
  unfold parse
  cases cast with
  | invalid => exact absurd rfl hc
  | dict d => simp [hf, find_iter_eq_scan scan H]
  | fn f => simp [hf, find_iter_eq_scan scan H]

/-- a dict cast converts exactly the listed keys that are present, once, and leaves key order and
the other entries alone -/
theorem cast_dict_keys (d : List (κ × (ν → ν))) (g : List (κ × ν)) :
    (castDict d g).map (·.1) = g.map (·.1) := by
  unfold castDict
  induction d generalizing g with
  | nil => rfl
  | cons kv d ih =>
    simp only [List.foldl_cons]
    rw [ih]
    clear ih
    induction g with
    | nil => rfl
    | cons e g ihg =>
      obtain ⟨k', v⟩ := e
      simp only [setKey]
      split <;> simp [ihg]

/-- invalid `file`, `cast` or pattern: TypeError before anything is opened or read -/
theorem parse_rejects_bad_arguments (file : FileArg) (cast : CastArg κ ν) (ok : Bool)
    (scan : Scanner α (List (κ × ν))) (reads : List (List α))
    (h : file = .other ∨ cast = .invalid ∨ ok = false) :
    (parse file cast ok scan reads).err = some .typeError ∧
    (parse file cast ok scan reads).events = [] ∧ (parse file cast ok scan reads).out = [] := by
  unfold parse
  by_cases hf : file = .other
  · simp [hf]
  · cases cast with
    | invalid => simp [hf]
    | dict d =>
      rcases h with h | h | h
      · exact absurd h hf
      · cases h
      · simp [hf, h]
    | fn f =>
      rcases h with h | h | h
      · exact absurd h hf
      · cases h
      · simp [hf, h]

/-- a path or path-like: the function opens the file once, and it is closed – as the last event –
when the iteration is exhausted -/
theorem file_closed_when_exhausted (file : FileArg) (cast : CastArg κ ν)
    (scan : Scanner α (List (κ × ν))) (reads : List (List α))
    (hf : file = .pathStr ∨ file = .pathLike) (hc : cast ≠ .invalid) :
    ∃ n, (parse file cast true scan reads).events
      = [.opened] ++ List.replicate n .read ++ [.closed] := by
  have hpc : Gen.pathOpenerCloses = true := by decide
  have hiw : Gen.iterationInsideWith = true := by decide
  have hne : file ≠ .other := by rcases hf with h | h <;> simp [h]
  unfold parse
  cases cast with
  | invalid => exact absurd rfl hc
  | dict d => exact ⟨(readable reads).length + 2, by simp [hne, hf, hpc, hiw]⟩
  | fn f => exact ⟨(readable reads).length + 2, by simp [hne, hf, hpc, hiw]⟩

/-- an already open file object is only read: the function neither opens nor closes anything -/
theorem caller_file_left_open (file : FileArg) (cast : CastArg κ ν)
    (scan : Scanner α (List (κ × ν))) (reads : List (List α))
    (hf : file = .textFile ∨ file = .binaryFile) :
    ∀ e ∈ (parse file cast true scan reads).events, e = .read := by
  have hlo : Gen.fileObjectLeftOpen = true := by decide
  have h1 : file ≠ .other := by rcases hf with h | h <;> simp [h]
  have h2 : ¬ (file = .pathStr ∨ file = .pathLike) := by rcases hf with h | h <;> simp [h]
  unfold parse
  cases cast with
  | invalid => simp [h1]
  | dict d => simp [h1, h2]
  | fn f => simp [h1, h2]

end parse

/-! ### non-vacuity: concrete scanners satisfy the hypotheses; the theorem runs on them -/

/-- `[^\n]*\n|[^\n]+` -/
theorem line_scanner_local [DecidableEq α] (nl : α) : Local (lineScanner nl) := lineScanner_local nl

/-- `[^\n]*\n[^\n]*\n` (two-line blocks) -/
theorem block_scanner_local [DecidableEq α] (nl : α) : Local (blockScanner nl) := blockScanner_local nl

/-- every chunk size splits a text into the same lines as the whole-text scan -/
theorem line_scanner_any_chunk [DecidableEq α] (nl : α) (k : Nat) (hk : 1 ≤ k) (t : List α) :
    findIter (lineScanner nl) (chunksOf k t) = (lines nl t, none) := by
  rw [parse_chunk_independent _ (lineScanner_local nl) k hk]
  simp [lineScanner, tiling, spansOf_map_val, linePieces, Function.comp_def]

/-- multi-line matches: every chunking yields the same two-line blocks as the whole text -/
theorem block_scanner_any_chunking [DecidableEq α] (nl : α) (chunks : List (List α)) :
    findIter (blockScanner nl) chunks
      = ((blockPieces nl (readable chunks).flatten).map (·.2), none) := by
  rw [find_iter_eq_scan _ (blockScanner_local nl)]
  simp [blockScanner, tiling, spansOf_map_val]

/-! ### engines without look-behind: (R) is a theorem, only (P) depends on the pattern -/

/-- `finditer m` = leftmost non-overlapping non-empty matches of an anchored matcher `m` that is
only ever shown the text from the current position on.  For EVERY such engine the restart
condition holds – "matches do not depend on look-behind context at a previous match" is exactly
what makes (R) true. -/
theorem anchored_matcher_restart (m : Matcher α γ) (t : List α) (i : Nat)
    (h : i < (finditer m t).length) :
    (finditer m (t.drop ((finditer m t)[i]).e)).map (·.val) = ((finditer m t).drop (i + 1)).map (·.val) :=
  aux_restart m t.length t (Nat.le_refl _) i h

/-- hence for such an engine prefix stability alone gives chunk independence -/
theorem anchored_matcher_find_iter (m : Matcher α γ)
    (hP : ∀ t u, (finditer m t).dropLast <+: finditer m (t ++ u)) (reads : List (List α)) :
    findIter (finditer m) reads = ((finditer m (readable reads).flatten).map (·.val), none) :=
  find_iter_eq_scan _ (finditer_local m hP) reads

/-- the generic engine run on the anchored line matcher is the tiling line scanner (two independent
models of `re.finditer(r"[^\n]*\n|[^\n]+")` agree on every text), so `hP` above is satisfiable -/
theorem line_matcher_is_line_scanner [DecidableEq α] (nl : α) :
    finditer (lineMatcher nl) = lineScanner nl ∧
    ∀ t u, (finditer (lineMatcher nl) t).dropLast <+: finditer (lineMatcher nl) (t ++ u) := by
  refine ⟨finditer_lineMatcher nl, fun t u => ?_⟩
  rw [finditer_lineMatcher nl]
  exact (lineScanner_local nl).prefixStable t u

-- a match straddling every boundary (chunk size 1), a last line without terminator, a multi-byte char
example : findIter (lineScanner '\n') (chunksOf 1 "ab\n\né😀".toList)
    = (["ab\n".toList, "\n".toList, "é😀".toList], none) := by decide
example : findIter (lineScanner '\n') (chunksOf 4 "ab\n\né😀".toList)
    = (["ab\n".toList, "\n".toList, "é😀".toList], none) := by decide
-- the empty file
example : findIter (lineScanner '\n') (chunksOf 3 ([] : List Char)) = ([], none) := by decide
-- two-line blocks over irregular reads; the trailing single line is no block
example : findIter (blockScanner '\n') ["a".toList, "\nbc\nd".toList, "\n".toList, "e\nf".toList]
    = ([("a".toList, "bc".toList), ("d".toList, "e".toList)], none) := by decide
-- the state machine really holds the last match back: after reading "a\nb\nc" the line "c" is pending
example : (run (lineScanner '\n') ["a\nb".toList, "\nc".toList]).out = ["a\n".toList, "b\n".toList]
    ∧ (run (lineScanner '\n') ["a\nb".toList, "\nc".toList]).buf = "c".toList := by decide
-- the generic engine, evaluated by the kernel
example : (finditer (lineMatcher '\n') "ab\n\ncd".toList).map (fun m => (m.s, m.e))
    = [(0, 3), (3, 4), (4, 6)] := by decide
-- bytes files: the same scanner over UInt8
example : findIter (lineScanner (10 : UInt8)) [[97, 10, 98], [99]] = ([[97, 10], [98, 99]], none) := by decide

end C20
