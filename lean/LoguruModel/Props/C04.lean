import LoguruModel.Emit.Lemmas
import LoguruModel.Emit.NestedLemmas
import LoguruModel.Emit.Threads
import LoguruModel.Emit.Stderr
import LoguruModel.Emit.RemoveLemmas
import LoguruModel.Emit.PreLock
/-
C04 – a failing handler never breaks the caller, the other handlers, or itself.
Only the property theorems and their non-vacuity examples live here.  Every statement is about
the model of `Emit/Model.lean`, which is defined in terms of the shape constants `Emit.Gen.*`
regenerated from /repo on every run: narrowing the `except` clause of `Handler.emit`, moving the
marker reset out of the `finally`, turning a `continue` arm of the worker into `break`, or calling
`stop()` before the registry is published makes the corresponding proof below fail.

All theorems quantify over every fault oracle `env`, every handler configuration, every nesting
depth `n` of re-entrant sinks, every message index and every (quiet) handler state.
-/
namespace C04
open Py Emit Emit.Spec

/-- the shape of the error handling the model is instantiated with is the documented one -/
theorem shape_as_documented :
    Gen.preLockStages = [.filter, .dynFormat, .excFormat, .formatMap, .serialize] ∧
    (∀ e, Gen.emitCaught e = true) ∧ (∀ e, Gen.workerCaught e = true) ∧
    Gen.markerCheckedBeforeSet = true ∧ Gen.markerResetInFinally = true ∧
    Gen.workerGetArm = .continue_ ∧ Gen.workerWriteArm = .continue_ ∧
    Gen.removeUnpublishesFirst = true ∧ Gen.logLoopUnguarded = true ∧ Gen.stopMarksStoppedFirst = true ∧
    Gen.printSkipsWhenNoStderr = true ∧ Gen.printGuardsRecordStr = true ∧
    (∀ e, Gen.printSwallows e = true ↔ e = .osError) ∧
    Gen.streamFlushAfterWrite = true ∧ Gen.taskCallbackRetrieves = true ∧ Gen.taskCallbackReraises = true ∧
    Gen.markerPerThread = true ∧ (∀ e, Gen.asyncScheduleSwallows e = false) ∧
    Gen.stopUsesProtectedLock = true ∧ Gen.tasksUseProtectedLock = true ∧
    Gen.printResolvesStderrPerCall = true := by
  refine ⟨rfl, ?_, ?_, rfl, rfl, rfl, rfl, rfl, rfl, rfl, rfl, rfl, ?_, rfl, rfl, rfl, rfl, ?_, rfl, rfl, rfl⟩
  · intro e; cases e <;> rfl
  · intro e; cases e <;> rfl
  · intro e; cases e <;> simp [Gen.printSwallows]
  · intro e; cases e <;> rfl

/-- REFINEMENT: from a usable handler state and for a sink that does not call the logger, the whole
    of `Handler.emit` (try/except, lock, marker, hand-off) does exactly what the stage-by-stage
    specification says: same new state, same stderr reports, same exception at the call site. -/
theorem emit_characterised (env : Env) (c : Cfg) (n i : Nat) (s : HState)
    (hq : Quiet s) (hre : env.reenter i c.id = []) :
    emitD env c n i s = expected env c i s :=
  emitD_characterised env c n i s hq hre

/-- `catch=True`: `emit` returns normally under EVERY fault oracle (re-entrant sinks included),
    provided stderr itself fails at most with OSError (DESIGN §4 C04 *Outside*). -/
theorem catch_true_never_raises (env : Env) (c : Cfg) (n i : Nat) (s : HState)
    (hc : c.catch_ = true) (ht : StderrTame env) (hq : Quiet s) :
    (emitD env c n i s).res = .ok :=
  emitD_catch_ok env c n i s hc ht hq

/-- … and with a working stderr there is exactly one report, carrying the handler id, the record
    and the error of the first failing stage, iff some stage failed; none otherwise. -/
theorem catch_true_reports_iff_failed (env : Env) (c : Cfg) (n i : Nat) (s : HState)
    (hc : c.catch_ = true) (hq : Quiet s) (hre : env.reenter i c.id = [])
    (herr : env.stderr i c.id = .ok) :
    (emitD env c n i s).ev =
      match outcome env c i s.stopped with
      | .failed e => [.report c.id (some i) e (env.strFails i) .emit]
      | .deliveredThenFailed e => [.report c.id (some i) e (env.strFails i) .emit]
      | _ => [] := by
  rw [emit_characterised env c n i s hq hre]
  unfold expected handle
  cases outcome env c i s.stopped <;> simp [hc, print, herr, Gen.printGuardsRecordStr]

/-- after ANY emit – raising or not, whatever failed – the lock is free and the marker is clear,
    the call did not block, and nothing but sink contents / queue / tasks has changed -/
theorem handler_recovers (env : Env) (c : Cfg) (n i : Nat) (s : HState) (hq : Quiet s) :
    Quiet (emitD env c n i s).st ∧ (emitD env c n i s).res ≠ .blocked ∧
    SameCtl s (emitD env c n i s).st :=
  emitD_quiet env c n i s hq

/-- a message that failed before the hand-off leaves the handler state untouched, so the next
    message is processed exactly as if the failing one had never been logged -/
theorem next_message_unaffected (env : Env) (c : Cfg) (n i j : Nat) (s : HState) (e : Err)
    (hq : Quiet s) (hre : env.reenter i c.id = []) (hf : outcome env c i s.stopped = .failed e) :
    emitD env c n j (emitD env c n i s).st = emitD env c n j s := by
  rw [emit_characterised env c n i s hq hre]
  unfold expected handle
  simp only [hf]
  split <;> rfl

/-- all handlers `catch=True`: the call returns normally and every handler's new state is the one
    its OWN `emit` produces from its OWN state – no term of another handler occurs in it -/
theorem others_still_receive (env : Env) (n i : Nat) (reg : Reg) (hq : AllQuiet reg)
    (hc : ∀ p ∈ reg, p.1.catch_ = true) (ht : StderrTame env) :
    (logLoop env n i reg).res = .ok ∧
    (logLoop env n i reg).reg = reg.map (fun p => (p.1, (emitD env p.1 n i p.2).st)) :=
  logLoop_all_catch env n i reg hq hc ht

/-- REFINEMENT of the whole handler loop of `Logger._log`: for usable handlers whose sinks do not call
    the logger it is the specification's loop – same registry states, same reports in the same order,
    same exception at the call site (induction over the registry) -/
theorem log_loop_characterised (env : Env) (n i : Nat) (reg : Reg) (hq : AllQuiet reg)
    (hre : ∀ p ∈ reg, env.reenter i p.1.id = []) :
    logLoop env n i reg = specLoop env i reg :=
  logLoop_eq_specLoop env n i reg hq hre

/-- … and a direct (non-enqueue, non-coroutine) handler has received message `i` iff its own stages
    up to `write` succeeded -/
theorem receives_iff_own_stages_succeed (env : Env) (c : Cfg) (n i : Nat) (s : HState)
    (hq : Quiet s) (hre : env.reenter i c.id = []) (he : c.enqueue = false) (hk : c.kind ≠ .coroutine) :
    (emitD env c n i s).st.sink =
      (if (outcome env c i s.stopped).handedOver then s.sink ++ [i] else s.sink) := by
  rw [emit_characterised env c n i s hq hre]
  unfold expected handle deliver Outcome.handedOver
  cases outcome env c i s.stopped <;> simp [he, hk] <;> split <;> simp

/-- the outcome of handler `c` reads the oracle only at `c`'s own id: faults of other handlers
    cannot influence it -/
theorem outcome_local (env env' : Env) (c : Cfg) (i : Nat) (b : Bool)
    (hl : env.level i = env'.level i) (hx : env.hasExc i = env'.hasExc i)
    (hf : ∀ st, env.fault i c.id st = env'.fault i c.id st)
    (ha : env.accept i c.id = env'.accept i c.id) (hlo : env.loop i = env'.loop i)
    (hr : env.raw i = env'.raw i) :
    outcome env c i b = outcome env' c i b := by
  unfold outcome handOff firstFault firstFault firstFault firstFault firstFault faultAt stageActive
  simp only [hl, hx, hf, ha, hlo, hr]

/-- `catch=False` on handler `c`: the error of its first failing stage reaches the caller, with no
    report -/
theorem catch_false_raises_first_failure (env : Env) (c : Cfg) (n i : Nat) (s : HState) (e : Err)
    (hc : c.catch_ = false) (hq : Quiet s) (hre : env.reenter i c.id = [])
    (hf : outcome env c i s.stopped = .failed e ∨ outcome env c i s.stopped = .deliveredThenFailed e) :
    (emitD env c n i s).res = .raised e ∧ (emitD env c n i s).ev = [] := by
  rw [emit_characterised env c n i s hq hre]
  unfold expected handle
  rcases hf with hf | hf <;> simp [hf, hc]

/-- … the handlers registered before it have processed the message, those after it have not been
    touched, and every handler is still usable -/
theorem catch_false_propagates_prefix (env : Env) (n i : Nat) (pre post : Reg) (c : Cfg) (s : HState)
    (e : Err) (hq : AllQuiet (pre ++ (c, s) :: post))
    (hpre : ∀ p ∈ pre, (emitD env p.1 n i p.2).res = .ok)
    (hx : (emitD env c n i s).res = .raised e) :
    (logLoop env n i (pre ++ (c, s) :: post)).res = .raised e ∧
    (logLoop env n i (pre ++ (c, s) :: post)).reg =
      pre.map (fun p => (p.1, (emitD env p.1 n i p.2).st)) ++ (c, (emitD env c n i s).st) :: post ∧
    AllQuiet (logLoop env n i (pre ++ (c, s) :: post)).reg := by
  have h := logLoop_prefix env n i pre post c s (.raised e) hpre hx (by simp)
  exact ⟨h.1, h.2, (logLoop_quiet env n i _ hq).1⟩

/-- whatever happens in the handler loop, all handlers stay usable and the call does not block -/
theorem log_keeps_all_usable (env : Env) (n i : Nat) (reg : Reg) (hq : AllQuiet reg) :
    AllQuiet (logLoop env n i reg).reg ∧ (logLoop env n i reg).res ≠ .blocked :=
  logLoop_quiet env n i reg hq

/-- the enqueue worker survives every item that is not the sentinel (failing `get`, failing
    `write`), empties the pipe, and the sink receives exactly the writable messages in FIFO order -/
theorem worker_never_dies (env : Env) (c : Cfg) (ht : StderrTame env) (items : List QItem) (s : HState)
    (hs : QItem.sentinel ∉ items) (ha : s.workerAlive = true) :
    (workerRun env c items s).1.workerAlive = true ∧ (workerRun env c items s).1.queue = [] ∧
    (workerRun env c items s).1.sink = s.sink ++ items.flatMap (workerWrites env c) := by
  have h := workerRun_alive env c ht items s hs ha
  exact ⟨h.1, h.2.1, h.2.2.1⟩

/-- … and with a working stderr it reports every failure exactly once, in order: a failing `get`
    without record, a failing `write`/`flush` with the record, whatever `catch` says -/
theorem worker_reports_each_failure (env : Env) (c : Cfg) (hok : ∀ i, env.stderr i c.id = .ok)
    (items : List QItem) (s : HState) (hs : QItem.sentinel ∉ items) :
    (workerRun env c items s).2 = items.flatMap (workerReports env c) :=
  workerRun_reports env c hok items s hs

/-- coroutine sinks: every scheduled task is awaited; a failing body yields exactly one event – a
    stderr report (`catch=True`) or the exception handed to the event loop's handler by the
    done-callback (`catch=False`) – never an unretrieved exception; the others reach the sink in order -/
theorem task_exception_retrieved (env : Env) (c : Cfg) (hok : ∀ i, env.stderr i c.id = .ok)
    (ts : List Nat) (s : HState) :
    (runTasks env c ts s).1.tasks = [] ∧
    (runTasks env c ts s).2 = ts.flatMap (taskEvents env c) ∧
    (runTasks env c ts s).1.sink = s.sink ++ ts.filter (fun i => (env.fault i c.id .coroBody).isNone) :=
  runTasks_spec env c hok ts s

/-- `remove(hid)` – returning normally or raising – leaves `hid` out of the registry, keeps every
    other handler, and publishes the minimum level of the rest; the removed handler's lock is free -/
theorem remove_unpublishes_even_if_stop_raises (env : Env) (hid k : Nat) (w : World) (c : Cfg) (s : HState)
    (hl : lookup hid w.reg = some (c, s)) (hq : Quiet s) :
    let r := removeW env hid k w
    r.w.reg = erase hid w.reg ∧ (∀ p ∈ r.w.reg, p.1.id ≠ hid) ∧
    (∀ p ∈ w.reg, p.1.id ≠ hid → p ∈ r.w.reg) ∧
    r.w.minLevel = minLevelOf r.w.reg ∧ r.res = (stopH env c k s).res ∧ r.res ≠ .blocked ∧
    (∃ s', r.w.removed = w.removed ++ [(c, s')] ∧ Quiet s') := by
  intro r
  have hr : r = ⟨{ reg := erase hid w.reg, minLevel := minLevelOf (erase hid w.reg),
                   removed := w.removed ++ [(c, (stopH env c k s).st)] },
                 (stopH env c k s).ev, (stopH env c k s).res⟩ := by
    simp [r, removeW, hl, Gen.removeUnpublishesFirst]
  rw [hr]
  exact ⟨rfl, erase_not_mem hid w.reg, fun p hp hne => erase_keeps hid w.reg p hp hne, rfl, rfl,
    (stopH_quiet env c k s hq).2, _, rfl, (stopH_quiet env c k s hq).1⟩

/-- the published minimum level is the minimum over the registered handlers (`none` = +inf) -/
theorem min_level_is_minimum (reg : Reg) :
    (minLevelOf reg = none ↔ reg = []) ∧
    ∀ m, minLevelOf reg = some m → (∀ p ∈ reg, m ≤ p.1.level) ∧ ∃ p ∈ reg, p.1.level = m :=
  minLevelOf_spec reg

/-- a logging call made from inside the handler's own sink (marker set, lock held) is turned into a
    RuntimeError – reported when `catch=True`, raised otherwise – the state is not touched (the outer
    call still owns lock and marker) and the call does not block -/
theorem reentrant_use_detected (env : Env) (c : Cfg) (n j : Nat) (s : HState)
    (hm : s.marker = true) (hlv : ¬ c.level > env.level j)
    (hpre : runPre env c j Gen.preLockStages = .pass) :
    emitD env c n j s = handle env c j s .runtimeError := by
  have key : ∀ inner, emitWith env c j inner s = handle env c j s .runtimeError := by
    intro inner
    unfold emitWith emitTry
    simp only [hlv, if_false, hpre, protectedLock_marker _ s hm]
    unfold handle
    cases c.catch_ <;> simp [Gen.emitCaught]
  cases n with
  | zero => exact key _
  | succ n => exact key _

/-- a sink that logs to its own handler any number of times: the outer call neither blocks nor
    leaves the handler locked (instance of `handler_recovers` at depth `n + 1`) -/
theorem reentrant_sink_never_deadlocks (env : Env) (c : Cfg) (n i : Nat) (s : HState) (hq : Quiet s) :
    (emitD env c (n + 1) i s).res ≠ .blocked ∧ Quiet (emitD env c (n + 1) i s).st :=
  ⟨(emitD_quiet env c (n + 1) i s hq).2.1, (emitD_quiet env c (n + 1) i s hq).1⟩

/-- FOR EVERY HISTORY of log / complete / remove operations on any set of added handlers, under every
    fault oracle (stderr tame): no operation ever blocks – no deadlock, `complete()` always returns,
    so no worker died – and every handler still registered is in working order (lock free, marker
    clear, not stopped, worker alive, no sentinel pending) after the whole history -/
theorem every_history_keeps_handlers_usable (env : Env) (ht : StderrTame env) (n : Nat)
    (cfgs : List Cfg) (ops : List Op) :
    AllGood (runW env n ops (cfgs.foldl (fun w c => addW c w) {})).1.reg ∧
    Res.blocked ∉ (runW env n ops (cfgs.foldl (fun w c => addW c w) {})).2.2 :=
  runW_good env ht n ops _ (addAll_good cfgs {} (by intro p hp; simp at hp))

/-- one step of that induction, for any world in working order -/
theorem step_keeps_handlers_usable (env : Env) (ht : StderrTame env) (n : Nat) (w : World) (op : Op)
    (hg : AllGood w.reg) :
    AllGood (stepW env n w op).w.reg ∧ (stepW env n w op).res ≠ .blocked :=
  stepW_good env ht n w op hg

/-! ### re-entrant sinks at the level of the whole registry (`Emit/Nested.lean`): the sink's
`logger.info(...)` is a whole `_log` loop over ALL handlers, nested to any depth -/

/-- a logging call that reaches a busy handler (we are inside its sink: marker set) leaves the registry
    untouched and is answered with RuntimeError – reported or raised as `catch` says -/
theorem nested_reentry_detected (env : Env) (innerLog : Nat → Reg → NRet) (k j : Nat) (reg : Reg)
    (c : Cfg) (s : HState) (hk : reg[k]? = some (c, s)) (hm : s.marker = true)
    (hlv : ¬ c.level > env.level j) (hpre : runPre env c j Gen.preLockStages = .pass) :
    (emitAt env innerLog k j reg).reg = reg ∧
    (emitAt env innerLog k j reg).ev = (handle env c j s .runtimeError).ev ∧
    (emitAt env innerLog k j reg).res = (handle env c j s .runtimeError).res :=
  emitAt_busy env innerLog k j reg c s hk hm hlv hpre

/-- STATE RESTORATION for nested logging: whatever sinks log from inside sinks (depth `n`, any fault
    oracle), as long as locks are only held together with their marker (true of every reachable state),
    a `_log` loop never blocks and gives back every handler with exactly the lock, marker, stopped,
    worker and config it had – position by position (induction over depth, positions and inner calls) -/
theorem nested_log_restores_everything (env : Env) (n i : Nat) (reg : Reg) (hi : LockInv reg) :
    (loopN env n i reg).res ≠ .blocked ∧ (loopN env n i reg).reg.map ctl = reg.map ctl :=
  loopN_innerLogOk env n i reg hi

/-- … hence from usable handlers to usable handlers -/
theorem nested_log_keeps_all_usable (env : Env) (n i : Nat) (reg : Reg) (hg : AllGood reg) :
    AllGood (loopN env n i reg).reg ∧ (loopN env n i reg).res ≠ .blocked :=
  loopN_good env n i reg hg

/-- BRIDGE between the two model layers: when no handler's sink calls the logger for message `i`, the
    registry-level handler loop IS the handler-level one (so every theorem above about `logLoop`
    speaks about `loopN` too) … -/
theorem layers_agree (env : Env) (n i : Nat) (reg : Reg) (hre : ∀ p ∈ reg, env.reenter i p.1.id = []) (hpub : ∀ p ∈ reg, p.2.published = true) :
    loopN env n i reg = ⟨(logLoop env n i reg).reg, (logLoop env n i reg).ev, (logLoop env n i reg).res⟩ :=
  loopN_eq_logLoop env n i reg hre hpub

/-- … in particular it refines the specification's loop -/
theorem nested_log_refines_spec (env : Env) (n i : Nat) (reg : Reg) (hq : AllQuiet reg)
    (hre : ∀ p ∈ reg, env.reenter i p.1.id = []) (hpub : ∀ p ∈ reg, p.2.published = true) :
    loopN env n i reg = ⟨(specLoop env i reg).reg, (specLoop env i reg).ev, (specLoop env i reg).res⟩ := by
  rw [layers_agree env n i reg hre hpub, log_loop_characterised env n i reg hq hre]

/-- the history theorem with registry-level re-entrancy: for every set of added handlers, every history
    and every fault oracle (stderr tame) no operation blocks and all registered handlers stay in
    working order -/
theorem nested_history_keeps_handlers_usable (env : Env) (ht : StderrTame env) (n : Nat)
    (cfgs : List Cfg) (ops : List Op) :
    AllGood (runWN env n ops (cfgs.foldl (fun w c => addW c w) {})).1.reg ∧
    Res.blocked ∉ (runWN env n ops (cfgs.foldl (fun w c => addW c w) {})).2.2 :=
  runWN_good env ht n ops _ (addAll_good cfgs {} (by intro p hp; simp at hp))

/-! ### coroutine sinks: a failure while the task is being scheduled is a failure of the `write` stage -/

/-- the `except RuntimeError: return` of `AsyncSink.write` guards the loop lookup only: whatever is raised
    while the task is scheduled (`loop.create_task` on a closed loop …) leaves `sink.write` as an error –
    to be reported (`catch=True`, enqueue worker) or raised (`catch=False`) like any other sink failure -/
theorem coroutine_schedule_failure_not_swallowed (env : Env) (c : Cfg) (i : Nat) (s : HState) (e : Err)
    (hf : env.fault i c.id .write = some e) :
    rawWrite env c i s = (s, .raised e) := by
  unfold rawWrite
  simp [hf, asyncSwallows_false]

/-! ### several logging threads: the re-entrancy marker must belong to the calling thread
(`Emit/Threads.lean`; `Gen.markerPerThread` is read from `_protected_lock`, `__init__`, `__setstate__`) -/

/-- FOR EVERY NUMBER OF THREADS AND EVERY SCHEDULE of the four shared-memory actions of `_protected_lock`
    (enter / acquire / re-enter from the running sink / leave): a thread that waits for or holds the handler
    lock reads its own marker as set – so its sink's use of the logger is always refused with RuntimeError –
    and no thread ever waits for a lock it holds itself -/
theorem reentry_detected_across_threads (sched : List (Threads.Tid × Threads.Act)) :
    (∀ t, ((Threads.run Gen.markerPerThread sched Threads.init).pc t = .waiting ∨
           (Threads.run Gen.markerPerThread sched Threads.init).pc t = .inside) →
          Threads.marked Gen.markerPerThread (Threads.run Gen.markerPerThread sched Threads.init) t = true) ∧
    (∀ t, (Threads.run Gen.markerPerThread sched Threads.init).pc t ≠ .stuck) := by
  have hp : Gen.markerPerThread = true := rfl
  rw [hp]
  have h := Threads.inv_run sched Threads.init Threads.inv_init
  exact ⟨fun t ht => by simp [Threads.marked, h.1 t ht], h.2⟩

/-- … whereas ONE marker shared by all threads does not have this property: thread 0 is inside its sink,
    thread 1 starts logging (and overwrites the marker while it waits), thread 0's sink uses the logger –
    and waits for its own lock for ever -/
theorem shared_marker_deadlocks_witness :
    (Threads.run false [(0, .enter), (0, .acquire), (1, .enter), (0, .reenter)] Threads.init).pc 0 = .stuck := by
  decide

/-! ### using the logger from inside a sink through `remove()` / `complete()` (not only logging calls) -/

/-- `logger.remove(<own id>)` from inside the handler's own sink reaches `Handler.stop()` with the marker set:
    refused with RuntimeError, nothing touched, not blocked (`Gen.stopUsesProtectedLock`) -/
theorem remove_from_own_sink_detected (env : Env) (c : Cfg) (k : Nat) (s : HState) (hm : s.marker = true) :
    stopH env c k s = ⟨s, [], .raised .runtimeError⟩ :=
  stopH_marker env c k s hm

/-- `logger.complete()` from inside a (non-enqueue) handler's own sink reaches `tasks_to_complete()` with the
    marker set: refused with RuntimeError (`Gen.tasksUseProtectedLock`) -/
theorem complete_from_own_sink_detected (s : HState) (hm : s.marker = true) :
    tasksLocked s = ⟨s, [], .raised .runtimeError⟩ :=
  tasksLocked_marker s hm

/-- … whereas the bare `with self._lock:` in their place waits for a lock its own thread holds: the refuting
    witness for that shape (seed C04-g) -/
theorem bare_lock_from_own_sink_blocks_witness (body : Step) (s : HState) (hl : s.lockHeld = true) :
    (plainLock body s).res = .blocked := by
  simp [plainLock, hl]

/-- every way the sink's use of the logger reaches its own handler (logging, remove, complete), nested to any
    depth, leaves the busy handler untouched and does not block -/
theorem every_inner_use_refused (env : Env) (c : Cfg) (n : Nat) : InnerOk (innerD env c n) :=
  emitD_innerOk env c n

/-- registry level: a sink that removes its own handler – the handler is unpublished FIRST (so it is gone
    afterwards, as for any `remove` whose `stop()` raises), then refused with RuntimeError; nothing else moves -/
theorem nested_remove_self_detected (env : Env) (k kk : Nat) (c : Cfg) (reg : Reg) (s : HState)
    (hk : reg[k]? = some (c, s)) (hm : s.marker = true) (hp : s.published = true) :
    removeSelfAt env k kk c reg =
      ⟨reg.set k (c, { s with published := false }), [], .raised .runtimeError⟩ := by
  simp [removeSelfAt, hk, hp, stopH_marker env c kk { s with published := false } hm]

/-! ### `sys.stderr` changing during the life of a handler (`Emit/Stderr.lean`) -/

/-- FOR EVERY stderr history: a report goes to the stream that IS `sys.stderr` at that moment, whenever the
    handler first reported (`Gen.printResolvesStderrPerCall`) … -/
theorem report_goes_to_current_stderr (h : Stderr.Hist) (first t : Nat) :
    (Stderr.printAt Gen.printResolvesStderrPerCall h first t).stream = h.cur t := by
  have hp : Gen.printResolvesStderrPerCall = true := rfl
  simp only [Stderr.printAt, Stderr.target, hp, if_true]
  split <;> rfl

/-- … and what happens depends on the condition of THAT stream only: if it is usable or fails with OSError,
    nothing escapes – whatever became of the streams that were stderr earlier (closed files …) -/
theorem report_never_escapes_if_current_stderr_tame (h : Stderr.Hist) (first t : Nat)
    (ht : ∀ e, h.cond (h.cur t) t = .fails e → e = .osError)
    (ht' : ∀ c e, h.cond (h.cur t) t = .failsAt c e → e = .osError) :
    (Stderr.printAt Gen.printResolvesStderrPerCall h first t).escapes = none := by
  have hp : Gen.printResolvesStderrPerCall = true := rfl
  simp only [Stderr.printAt, Stderr.target, hp, if_true]
  split
  · rfl
  · rfl
  · rename_i e he
    have := ht e he
    subst this
    simp [Gen.printSwallows]
  · rename_i c e he
    have := ht' c e he
    subst this
    simp [Gen.printSwallows]

/-- refuting witness for a handler that keeps the stream of its first report (seed C04-f): stderr is stream 0 at
    time 0 and stream 1 (healthy) from time 1 on, stream 0 is closed at time 1 – the second report is written to
    stream 0, not to stderr, and the closed file's ValueError escapes -/
theorem memoised_stderr_witness :
    let h : Stderr.Hist := { cur := fun t => if t = 0 then 0 else 1,
                             cond := fun x t => if x = 0 ∧ t ≥ 1 then .fails .valueError else .ok }
    (Stderr.printAt false h 0 1).stream = 0 ∧ h.cur 1 = 1 ∧
    (Stderr.printAt false h 0 1).escapes = some .valueError ∧
    (Stderr.printAt true h 0 1) = ⟨1, true, none⟩ := by
  decide

/-! ### round 5 – `ErrorInterceptor.print` write by write (`Emit/Print.lean`; the statements of its `try` body
are the list `Gen.printProgram` read from `_error_interceptor.py`) -/

/-- the statements of `print`'s `try` body as extracted: header, guarded rendering of the record, record line,
    traceback, footer – so the writes are the four chunks of a report in this order and every rendering of the
    record is guarded -/
theorem print_program_as_documented :
    Gen.printProgram = [.write .header, .render true, .write .record, .write .traceback, .write .footer] ∧
    Print.writesOf Gen.printProgram = Print.fullReport ∧ Print.allGuarded Gen.printProgram = true :=
  ⟨rfl, rfl, rfl⟩

/-- FOR EVERY way `sys.stderr` may refuse writes (any chunk, any error, printable record or not): what reaches
    stderr is the longest prefix of the report that stderr accepts – nothing after the first refused write, nothing
    out of order – and the exception leaving the `try` body is the error of the first refused write, swallowed iff
    `Gen.printSwallows` covers it -/
theorem print_writes_longest_accepted_prefix (o : Print.Oracle) (hp : o.present = true) :
    (Print.printP Gen.printProgram o).chunks = Print.fullReport.takeWhile (fun c => (o.wr c).isNone) ∧
    (Print.printP Gen.printProgram o).chunks <+: Print.fullReport ∧
    (Print.printP Gen.printProgram o).escapes = Print.afterExcept (Print.firstFail o Print.fullReport) := by
  rw [printP_spec o hp]
  exact ⟨rfl, List.takeWhile_prefix _, rfl⟩

/-- … hence a stderr that breaks with OSError – at the header, in the middle of the report, at the footer, or is
    not there at all – never makes `print` raise, whether or not `str(record)` raises as well -/
theorem print_never_raises_when_stderr_breaks_with_oserror (o : Print.Oracle)
    (h : ∀ c e, o.wr c = some e → e = .osError) :
    (Print.printP Gen.printProgram o).escapes = none := by
  cases hp : o.present with
  | false => simp [Print.printP, hp, Gen.printSkipsWhenNoStderr]
  | true =>
    rw [printP_spec o hp]
    simp only []
    cases hf : Print.firstFail o Print.fullReport with
    | none => rfl
    | some e =>
      obtain ⟨c, _, hw⟩ := firstFail_some o _ e hf
      have := h c e hw
      subst this
      simp [Print.afterExcept, Gen.printSwallows]

/-- the report is complete exactly when stderr accepts every chunk – and then it is complete even for a record
    whose `str()` raises (placeholder line), and nothing escapes -/
theorem print_complete_iff_stderr_accepts_all (o : Print.Oracle) (hp : o.present = true) :
    ((Print.printP Gen.printProgram o).chunks = Print.fullReport ↔ ∀ c, o.wr c = none) ∧
    ((∀ c, o.wr c = none) → Print.printP Gen.printProgram o = ⟨Print.fullReport, o.strFails, none⟩) := by
  rw [printP_spec o hp]
  simp only [Print.fullReport, Print.firstFail, List.takeWhile]
  constructor
  · constructor
    · intro h c
      cases h1 : o.wr .header <;> cases h2 : o.wr .record <;> cases h3 : o.wr .traceback <;>
        cases h4 : o.wr .footer <;> simp [h1, h2, h3, h4] at h
      cases c <;> assumption
    · intro h; simp [h]
  · intro h; simp [h, Print.afterExcept]

/-- the model's `print` (what `emit`, the worker and the done-callback call) IS that program: its spelled-out arms
    for a working / absent / wholly failing stderr coincide with the write-level run under the corresponding
    oracle, and a stderr that breaks in the middle is defined by it – so every theorem above about `emitD`,
    `logLoop`, `workerRun`, `runW` covers reports that break off at any chunk -/
theorem print_is_the_write_level_program (env : Env) (i hid : Nat) (msg : Option Nat) (kind : Err) (src : Src) :
    print env i hid msg kind src =
      (eventsOf (Print.printP Gen.printProgram (oracleOf (env.stderr i hid) (strFailsOf env msg))) hid msg kind src,
       (Print.printP Gen.printProgram (oracleOf (env.stderr i hid) (strFailsOf env msg))).escapes) :=
  print_eq_printP env i hid msg kind src

/-- `catch_true_reports_iff_failed` without its hypothesis "stderr works": for EVERY stderr condition (working,
    absent, failing as a whole, breaking off at any chunk with any error) what a failing message leaves on stderr is
    exactly the prefix of its report that stderr accepts – one complete report, a partial one, or nothing -/
theorem catch_true_report_is_accepted_prefix (env : Env) (c : Cfg) (n i : Nat) (s : HState) (e : Err)
    (hc : c.catch_ = true) (hq : Quiet s) (hre : env.reenter i c.id = [])
    (hf : outcome env c i s.stopped = .failed e ∨ outcome env c i s.stopped = .deliveredThenFailed e) :
    (emitD env c n i s).ev =
      eventsOf (Print.printP Gen.printProgram (oracleOf (env.stderr i c.id) (env.strFails i))) c.id (some i) e .emit ∧
    (emitD env c n i s).res =
      resOf (Print.printP Gen.printProgram (oracleOf (env.stderr i c.id) (env.strFails i))).escapes := by
  rw [emit_characterised env c n i s hq hre]
  unfold expected handle
  rcases hf with hf | hf <;> simp only [hf, hc, if_true] <;>
    rw [print_is_the_write_level_program env i c.id (some i) e .emit] <;> exact ⟨rfl, rfl⟩

/-- in particular the enqueue worker survives a stderr that breaks off in the middle of its report, at any chunk,
    for every queue content (instance of `worker_never_dies`: `StderrTame` covers `.failsAt c .osError`) -/
theorem worker_survives_report_breaking_off (env : Env) (c : Cfg) (ch : Chunk) (items : List QItem) (s : HState)
    (hst : ∀ i h, env.stderr i h = .failsAt ch .osError)
    (hs : QItem.sentinel ∉ items) (ha : s.workerAlive = true) :
    (workerRun env c items s).1.workerAlive = true ∧ (workerRun env c items s).1.queue = [] := by
  have ht : StderrTame env := by
    constructor
    · intro i h e he; rw [hst i h] at he; cases he
    · intro i h c' e he; rw [hst i h] at he; cases he; rfl
  exact ⟨(worker_never_dies env c ht items s hs ha).1, (worker_never_dies env c ht items s hs ha).2.1⟩

/-! ### round 5 – what `sink.stop()` can raise (`Gen.sinkStop`, read from the `stop` method of every sink class) -/

/-- the table as extracted: a callable and a coroutine sink run no user code in `stop()`, a stream sink runs the
    stream's `stop()` only if it has one, a `logging.Handler` and a file sink always run user code -/
theorem sink_stop_table_as_documented :
    Gen.sinkStop .callable = .noUserCode ∧ Gen.sinkStop .coroutine = .noUserCode ∧
    Gen.sinkStop .stream = .userIfCapable ∧ Gen.sinkStop .streamFlush = .userIfCapable ∧
    Gen.sinkStop .standard = .userAlways ∧ Gen.sinkStop .file = .userAlways :=
  ⟨rfl, rfl, rfl, rfl, rfl, rfl⟩

/-- removing a handler whose sink has nothing of the user's to stop (a function, a coroutine function, a stream
    object without `stop`) returns normally under EVERY fault oracle, and the handler is gone -/
theorem remove_without_user_stop_never_raises (env : Env) (hid k : Nat) (w : World) (c : Cfg) (s : HState)
    (hl : lookup hid w.reg = some (c, s)) (hq : Quiet s) (hn : NoUserStop c) :
    (removeW env hid k w).res = .ok ∧ (removeW env hid k w).w.reg = erase hid w.reg := by
  rw [removeW_found env hid k w c s hl]
  simp [stopH_res env c k s hq, stopFault_none env c k hn, resOf]

/-- … and in general the result of `remove(hid)` is exactly what the sink's own `stop()` raises -/
theorem remove_result_is_sink_stop_result (env : Env) (hid k : Nat) (w : World) (c : Cfg) (s : HState)
    (hl : lookup hid w.reg = some (c, s)) (hq : Quiet s) :
    (removeW env hid k w).res = resOf (stopFault env c k) := by
  rw [removeW_found env hid k w c s hl]
  exact stopH_res env c k s hq

/-- `stop()` of an enqueue handler in working order (what `remove` runs after unpublishing it), whatever is still
    in its pipe and whatever fails there: every queued item is processed first – the writable messages reach the
    sink in FIFO order, failing `get`s and writes are reported by the worker, which ends only at the sentinel –
    and only then is the sink stopped (`Gen.stopDrainsBeforeSinkStop`: sentinel, join, `sink.stop()` in this order) -/
theorem stop_drains_queue_before_stopping_sink (env : Env) (ht : StderrTame env) (c : Cfg) (k : Nat) (s : HState)
    (hg : Good (c, s)) (he : c.enqueue = true) :
    Gen.stopDrainsBeforeSinkStop = true ∧
    (stopH env c k s).st.queue = [] ∧ (stopH env c k s).st.workerAlive = false ∧
    (stopH env c k s).st.stopped = true ∧
    (stopH env c k s).st.sink = s.sink ++ s.queue.flatMap (workerWrites env c) :=
  ⟨rfl, stopH_drains env ht c k s hg he⟩

/-! ### round 5 – `logger.remove()` of ALL handlers (the loop of `Logger.remove` over `list(core.handlers)`) -/

/-- whatever `stop()` methods raise, `remove()` never blocks, leaves every handler that is still registered in
    working order, and publishes the minimum level of exactly those -/
theorem remove_all_keeps_rest_usable (env : Env) (k : Nat) (w : World) (hg : AllGood w.reg)
    (hm : w.minLevel = minLevelOf w.reg) :
    AllGood (removeAllW env k w).w.reg ∧ (removeAllW env k w).res ≠ .blocked ∧
    (removeAllW env k w).w.minLevel = minLevelOf (removeAllW env k w).w.reg :=
  ⟨(removeLoop_good env k _ w hg).1, (removeLoop_good env k _ w hg).2, removeLoop_minLevel env k _ w hm⟩

/-- EXACT: over handlers with distinct ids, `remove()` removes the handlers up to AND INCLUDING the first one whose
    `stop()` raises ("removed nonetheless"), that error reaches the caller, and the handlers registered after it stay
    registered, untouched, with the minimum level recomputed over them -/
theorem remove_all_stops_at_first_failing_stop (env : Env) (k : Nat) (pre post : Reg) (c : Cfg) (s : HState)
    (e : Err) (w : World) (hreg : w.reg = pre ++ (c, s) :: post) (hnd : (ids w.reg).Nodup)
    (hq : AllQuiet w.reg) (hpre : ∀ p ∈ pre, stopFault env p.1 k = none) (hc : stopFault env c k = some e) :
    (removeAllW env k w).res = .raised e ∧ (removeAllW env k w).w.reg = post ∧
    (removeAllW env k w).w.minLevel = minLevelOf post := by
  have h := removeLoop_first_failure env k pre post c s e w hreg (hreg ▸ hnd) (hreg ▸ hq) hpre hc
  unfold removeAllW
  rw [hreg]
  exact h

/-- … and when no `stop()` raises the registry is empty afterwards and the minimum level is +inf -/
theorem remove_all_empties_registry (env : Env) (k : Nat) (w : World) (hnd : (ids w.reg).Nodup)
    (hq : AllQuiet w.reg) (hok : ∀ p ∈ w.reg, stopFault env p.1 k = none) (hm : w.reg = [] → w.minLevel = none) :
    (removeAllW env k w).res = .ok ∧ (removeAllW env k w).w.reg = [] ∧ (removeAllW env k w).w.minLevel = none :=
  removeLoop_all_ok env k w.reg w rfl hnd hq hok hm

/-- PROGRESS under every fault oracle: each `remove()` on a non-empty registry – returning or raising – removes at
    least one handler, so calling it as many times as there are handlers (catching what it raises) always ends
    with an empty registry: no handler can make itself unremovable by failing in `stop()` -/
theorem remove_all_repeated_empties_registry (env : Env) (ks : List Nat) (w : World) :
    (w.reg ≠ [] → ∀ k, (removeAllW env k w).w.reg.length < w.reg.length) ∧
    (w.reg.length ≤ ks.length → (ks.foldl (fun w k => (removeAllW env k w).w) w).reg = []) :=
  ⟨fun hne k => removeAllW_length_lt env k w hne, removeAll_repeated env ks w⟩

/-! ### round 5 – `await logger.complete()`: `AsyncSink._complete_task` (`Gen.completeTaskSwallows`, read from the AST) -/

/-- awaiting the tasks of a coroutine sink never raises on account of a failing task body, whatever it raised and
    however many tasks fail: `_complete_task` swallows it (the done-callback reports it – `task_exception_retrieved`),
    so `complete()` on a handler in working order returns normally and leaves it in working order -/
theorem complete_never_raises_for_failing_tasks (env : Env) (ht : StderrTame env) (c : Cfg) (s : HState)
    (ts : List Nat) (hg : Good (c, s)) :
    (∀ e, Gen.completeTaskSwallows e = true) ∧ tasksRes env c ts = .ok ∧
    (completeH env c s).res = .ok ∧ Good (c, (completeH env c s).st) :=
  ⟨fun e => by cases e <;> rfl, tasksRes_ok env c ts, (completeH_good env ht c s hg).2, (completeH_good env ht c s hg).1⟩

/-! ### round 5 – whole histories refine the specification -/

/-- REFINEMENT AT THE LEVEL OF HISTORIES: for every set of added handlers, every history of log / complete /
    remove(id) / remove() operations and every fault oracle (stderr tame, sinks that do not call the logger), the
    model of the code – locks, markers, try/except, `should_catch`, print – produces exactly the registry, the
    stderr events and the results at the call sites that the specification's history produces, operation by
    operation (induction over the history; the invariant is `AllGood`) -/
theorem history_refines_spec (env : Env) (ht : StderrTame env) (hre : ∀ i h, env.reenter i h = []) (n : Nat)
    (cfgs : List Cfg) (ops : List Op) :
    runW env n ops (cfgs.foldl (fun w c => addW c w) {}) = specRunW env ops (cfgs.foldl (fun w c => addW c w) {}) :=
  runW_eq_specRunW env ht n ops _ (addAll_good cfgs {} (by intro p hp; simp at hp)) hre

/-! ### round 5 – `opt(raw=True)`: the `is_raw` branch of `emit` (`Gen.rawSkipsFormatMap`, read from the AST) -/

/-- a raw message is emitted as it is – no `format_map` call in the `is_raw` branch – so whatever the handler's
    format would raise for it (a missing `extra` key, a value whose `__format__` raises) is irrelevant: the outcome
    of the message in this handler is the same under every replacement of its `format_map` fault -/
theorem raw_message_unaffected_by_format_faults (env : Env) (c : Cfg) (i : Nat) (b : Bool) (f : Option Err)
    (hr : env.raw i = true) :
    Gen.rawSkipsFormatMap = true ∧
    outcome { env with fault := fun i' h st => if i' = i ∧ h = c.id ∧ st = .formatMap then f else env.fault i' h st }
      c i b = outcome env c i b := by
  refine ⟨rfl, ?_⟩
  unfold outcome handOff firstFault firstFault firstFault firstFault firstFault faultAt stageActive
  simp [hr, Gen.rawSkipsFormatMap]

/-! ### round 5 – the logger used from a handler's FILTER (`Emit/PreLock.lean`): before the lock, not a re-entry -/

/-- STATE RESTORATION with talking filters: whatever filters and sinks log from inside a logging call (any `pre`,
    any depth `n`, any fault oracle), a `_log` never blocks and gives back every handler with exactly the lock, marker,
    stopped flag, worker and config it had, position by position (the analogue of `nested_log_restores_everything`) -/
theorem filter_using_logger_restores_everything (env : Env) (pre : Nat → Nat → List Nat) (n i : Nat) (reg : Reg)
    (hi : LockInv reg) :
    (loopNP env pre n i reg).res ≠ .blocked ∧ (loopNP env pre n i reg).reg.map ctl = reg.map ctl :=
  loopNP_innerLogOk env pre n i reg hi

/-- an exception escaping from a logging call made by handler `k`'s filter is a failure of THAT handler's filter
    stage: reported (`catch=True`) or raised (`catch=False`) with the outer record, and nothing of handler `k`'s own
    pipeline runs – the registry is the one the inner calls left -/
theorem filter_escape_is_filter_stage_failure (env : Env) (pre : Nat → Nat → List Nat) (innerLog : Nat → Reg → NRet)
    (k i : Nat) (reg : Reg) (c : Cfg) (s : HState) (e : Err)
    (hk : reg[k]? = some (c, s)) (hlv : ¬ c.level > env.level i) (hf : c.hasFilter = true)
    (hp : (runPreCalls innerLog (pre i c.id) reg).res = .raised e) :
    (emitAtP env pre innerLog k i reg).reg = (runPreCalls innerLog (pre i c.id) reg).reg ∧
    (emitAtP env pre innerLog k i reg).res =
      (if c.catch_ then resOf (print env i c.id (some i) e .emit).2 else .raised e) ∧
    (emitAtP env pre innerLog k i reg).ev =
      (runPreCalls innerLog (pre i c.id) reg).ev ++ (if c.catch_ then (print env i c.id (some i) e .emit).1 else []) := by
  unfold emitAtP
  simp only [hk, hlv, if_false, hf, if_true, hp]
  cases c.catch_ <;> simp [Gen.emitCaught, hp]

/-- BRIDGE: when no filter uses the logger this layer IS the registry-level loop of `Emit/Nested.lean` – so
    `layers_agree`, `nested_log_refines_spec` and the rest apply to it unchanged -/
theorem prelock_layer_agrees (env : Env) (n i : Nat) (reg : Reg) :
    loopNP env (fun _ _ => []) n i reg = loopN env n i reg :=
  loopNP_eq_loopN env n i reg

/-! ### non-vacuity: concrete environments meeting the hypotheses, evaluated by the kernel -/

/-- handler 1's `format_map` raises KeyError for message 0; handler 2's stream fails to flush -/
def exEnv : Env :=
  { level := fun _ => 20, hasExc := fun _ => false,
    fault := fun i h st =>
      if i = 0 ∧ h = 1 ∧ st = .formatMap then some .keyError
      else if i = 0 ∧ h = 2 ∧ st = .flush then some .osError else none,
    accept := fun _ _ => true, stderr := fun _ _ => .ok, strFails := fun _ => false,
    reenter := fun i h => if i = 5 ∧ h = 1 then [.log 6, .log 7] else if i = 8 ∧ h = 1 then [.removeSelf 0] else [], loop := fun _ => true }

def exReg : Reg :=
  [({ id := 0 }, {}), ({ id := 1 }, {}), ({ id := 2, kind := .streamFlush }, {})]

example : (logLoop exEnv 1 0 exReg).res = .ok ∧
    (logLoop exEnv 1 0 exReg).reg.map (fun p => p.2.sink) = [[0], [], [0]] ∧
    (logLoop exEnv 1 0 exReg).ev =
      [.report 1 (some 0) .keyError false .emit, .report 2 (some 0) .osError false .emit] := by decide

example : outcome exEnv { id := 1 } 0 false = .failed .keyError := by decide

/-- the same registry with `catch=False` on handler 1: KeyError reaches the caller, handler 0 has the
    message, handler 2 has not -/
example : (logLoop exEnv 1 0 [({ id := 0 }, {}), ({ id := 1, catch_ := false }, {}), ({ id := 2 }, {})]).res
      = .raised .keyError ∧
    (logLoop exEnv 1 0 [({ id := 0 }, {}), ({ id := 1, catch_ := false }, {}), ({ id := 2 }, {})]).reg.map
      (fun p => p.2.sink) = [[0], [], []] := by decide

/-- re-entrant sink: message 5 makes handler 1's sink log messages 6 and 7 to itself – one RuntimeError
    report for each, message 5 is written, the handler is quiet afterwards -/
example : (emitD exEnv { id := 1 } 1 5 {}).ev =
      [.report 1 (some 6) .runtimeError false .emit, .report 1 (some 7) .runtimeError false .emit] ∧
    (emitD exEnv { id := 1 } 1 5 {}).st = { sink := [5] } ∧ (emitD exEnv { id := 1 } 1 5 {}).res = .ok := by
  decide

/-- a worker facing a failing `get`, a failing `write` and two good messages -/
example : (workerRun exEnv { id := 2, enqueue := true } [.bad 7 .other, .msg 0, .msg 1, .confirm, .msg 2]
      { workerAlive := true }).1 = { workerAlive := true, sink := [0, 1, 2] } := by decide

/-- `stop()` raising in `remove` (handler 2, a stream with a `stop` method): the handler is gone all the same -/
example :
    let env := { exEnv with fault := fun _ h st => if h = 2 ∧ st = .stop then some .osError else none }
    let w : World := { reg := exReg, minLevel := some 0 }
    (removeW env 2 9 w).res = .raised .osError ∧ (removeW env 2 9 w).w.reg.map (fun p => p.1.id) = [0, 1] := by
  decide

/-- registry-level re-entrancy: message 5 makes handler 1's sink log 6 and 7 through the logger; handlers
    0 and 2 receive 6 and 7 (0 before, 2 after handler 1's RuntimeError each time), then 5 goes on -/
example : (loopN exEnv 2 5 exReg).reg.map (fun p => p.2.sink) = [[5, 6, 7], [5], [6, 7, 5]] ∧
    (loopN exEnv 2 5 exReg).ev =
      [.report 1 (some 6) .runtimeError false .emit, .report 1 (some 7) .runtimeError false .emit] ∧
    (loopN exEnv 2 5 exReg).res = .ok := by decide

/-- a one-shot sink: message 8 makes handler 1's sink call `logger.remove(1)` – RuntimeError reported, message 8
    not written by it, the handler is unpublished, the others have the message -/
example : (loopN exEnv 2 8 exReg).reg.map (fun p => (p.2.sink, p.2.published)) =
      [([8], true), ([], false), ([8], true)] ∧
    (loopN exEnv 2 8 exReg).ev = [.report 1 (some 8) .runtimeError false .emit] ∧
    (loopN exEnv 2 8 exReg).res = .ok := by decide

/-- stderr breaks when the traceback of a report is written: handler 1's KeyError report breaks off after the
    record line (a partial report), handler 2's OSError likewise; nothing reaches the caller, everybody has the
    message who should -/
example :
    let env := { exEnv with stderr := fun _ _ => .failsAt .traceback .osError }
    (logLoop env 1 0 exReg).res = .ok ∧
    (logLoop env 1 0 exReg).reg.map (fun p => p.2.sink) = [[0], [], [0]] ∧
    (logLoop env 1 0 exReg).ev =
      [.partialReport 1 (some 0) false [.header, .record] .emit,
       .partialReport 2 (some 0) false [.header, .record] .emit] := by decide

/-- the write-level program on a stream that refuses the footer with ValueError: three chunks, the error escapes -/
example : Print.printP Gen.printProgram ⟨true, fun c => if c = .footer then some .valueError else none, true⟩ =
    ⟨[.header, .record, .traceback], true, some .valueError⟩ := by decide

/-- `remove()` over a callable, a stream whose `stop()` raises and a `logging.Handler`: the first two are removed,
    OSError reaches the caller, the third stays; a second `remove()` empties the registry -/
example :
    let env := { exEnv with fault := fun _ h st => if h = 1 ∧ st = .stop then some .osError else none }
    let w : World := { reg := [({ id := 0 }, {}), ({ id := 1, kind := .stream }, {}), ({ id := 2, kind := .standard }, {})],
                       minLevel := some 0 }
    (removeAllW env 9 w).res = .raised .osError ∧ (removeAllW env 9 w).w.reg.map (fun p => p.1.id) = [2] ∧
    (removeAllW env 10 (removeAllW env 9 w).w).w.reg = [] ∧
    stopFault env { id := 0 } 9 = none ∧ NoUserStop { id := 0 } := by
  refine ⟨by decide, by decide, by decide, by decide, Or.inl rfl⟩

/-- `opt(raw=True)`: handler 1's `format_map` fault fails the formatted message 0 but not the same message logged
    raw (non-vacuity of `raw_message_unaffected_by_format_faults`) -/
example : outcome exEnv { id := 1 } 0 false = .failed .keyError ∧
    outcome { exEnv with raw := fun _ => true } { id := 1 } 0 false = .delivered := by decide

/-- an enqueue handler removed while two messages and an item that cannot be un-pickled are still in its pipe: all
    three are processed before the sink is stopped (non-vacuity of `stop_drains_queue_before_stopping_sink`) -/
example :
    (stopH exEnv { id := 3, enqueue := true, kind := .stream } 9
      { workerAlive := true, queue := [.msg 4, .bad 5 .typeError, .msg 6] }).st =
      { workerAlive := false, stopped := true, sinkStopped := true, sink := [4, 6] } ∧
    (stopH exEnv { id := 3, enqueue := true, kind := .stream } 9
      { workerAlive := true, queue := [.msg 4, .bad 5 .typeError, .msg 6] }).ev =
      [.report 3 none .typeError false .worker] := by decide

/-- a history with a failing `format_map`, a `remove()` of everything and logging afterwards: the model of the code
    and the specification's history agree on registry, events and results (an instance of `history_refines_spec`,
    evaluated by the kernel on both sides) -/
example :
    let w0 : World := [({ id := 0 } : Cfg), { id := 1, catch_ := false }, { id := 2, kind := .streamFlush, enqueue := true }].foldl
      (fun w c => addW c w) {}
    let ops : List Op := [.log 0, .complete, .remove 1 3, .log 1, .removeAll 4, .log 2]
    (runW exEnv 2 ops w0).2.2 = [.raised .keyError, .ok, .ok, .ok, .ok, .ok] ∧
    (runW exEnv 2 ops w0).2.2 = (specRunW exEnv ops w0).2.2 ∧
    (runW exEnv 2 ops w0).2.1 = (specRunW exEnv ops w0).2.1 ∧
    (runW exEnv 2 ops w0).1.reg = [] ∧ (specRunW exEnv ops w0).1.reg = [] := by decide

/-- a coroutine sink with two scheduled tasks, the first of which fails: `complete()` returns normally, the failure
    is reported once, the other message is delivered (non-vacuity of `complete_never_raises_for_failing_tasks`) -/
example :
    let env := { exEnv with fault := fun i h st => if i = 7 ∧ h = 4 ∧ st = .coroBody then some .valueError else none }
    (completeH env { id := 4, kind := .coroutine } { tasks := [7, 8] }).res = .ok ∧
    (completeH env { id := 4, kind := .coroutine } { tasks := [7, 8] }).ev =
      [.report 4 (some 7) .valueError false .task] ∧
    (completeH env { id := 4, kind := .coroutine } { tasks := [7, 8] }).st = { sink := [8] } := by decide

/-- the worker facing a stderr that breaks off at the record line of every report: it goes on, the partial reports
    are what stderr accepted (non-vacuity of `worker_survives_report_breaking_off`) -/
example :
    let env := { exEnv with stderr := fun _ _ => .failsAt .record .osError }
    (workerRun env { id := 2, enqueue := true } [.bad 7 .other, .msg 0, .msg 1] { workerAlive := true }).1 =
      { workerAlive := true, sink := [0, 1] } ∧
    (workerRun env { id := 2, enqueue := true } [.bad 7 .other, .msg 0, .msg 1] { workerAlive := true }).2 =
      [.partialReport 2 none false [.header] .worker] := by decide

/-- handler 1's filter logs message 100 while it is asked about message 0: handler 0 has 0 then 100, handlers 1 and 2
    have 100 then 0 – nobody is refused, nobody blocks; with a `catch=False` handler 2 failing on message 100 the
    KeyError escapes from handler 1's filter and is reported as ITS failure for message 0 (handler 1 `catch=True`) -/
example :
    let reg : Reg := [({ id := 0 }, {}), ({ id := 1, hasFilter := true }, {}), ({ id := 2 }, {})]
    let pre : Nat → Nat → List Nat := fun i h => if i = 0 ∧ h = 1 then [100] else []
    (loopNP exEnv pre 2 0 reg).reg.map (fun p => p.2.sink) = [[0, 100], [100], [100, 0]] ∧
    (loopNP exEnv pre 2 0 reg).res = .ok := by decide

example :
    let env := { exEnv with fault := fun i h st => if i = 100 ∧ h = 2 ∧ st = .write then some .keyError else none }
    let reg : Reg := [({ id := 0 }, {}), ({ id := 1, hasFilter := true }, {}), ({ id := 2, catch_ := false }, {})]
    let pre : Nat → Nat → List Nat := fun i h => if i = 0 ∧ h = 1 then [100] else []
    (loopNP env pre 2 0 reg).reg.map (fun p => p.2.sink) = [[0, 100], [100], [0]] ∧
    (loopNP env pre 2 0 reg).ev = [.report 1 (some 0) .keyError false .emit] ∧
    (loopNP env pre 2 0 reg).res = .ok := by decide

end C04
