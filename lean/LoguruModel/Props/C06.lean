import LoguruModel.Markup.Lemmas
import LoguruModel.Markup.TreeLemmas
import LoguruModel.Markup.SgrStringLemmas
import LoguruModel.Generated.MarkupEmit
import LoguruModel.Generated.MarkupShare
import LoguruModel.Markup.HandlersLemmas
/-
C06 – property theorems (only the theorems, the small lemmas they need, and non-vacuity examples).
The tables `Markup.Gen.*` are regenerated from `/repo/loguru/_colorizer.py` on every run.
-/
namespace C06
open Py Markup Markup.Gen Markup.Spec Markup.Lemmas

/-! ## Table theorems (tie G) -/

/-- the tag regex the hand-written scanner `Markup.scan` is equivalent to is still the one in the code -/
theorem regex_is_modelled :
    tagRegex = "(\\\\*)(</?(?:[fb]g\\s)?[^<>\\s]*>)".toList ∧
    hexRegex = "#(?:[a-fA-F0-9]{3}){1,2}$".toList := by decide +kernel

/-- every documented tag (long name or abbreviation) resolves to the documented SGR code … -/
theorem tables_match_doc :
    ∀ e ∈ docTable, getAnsiCode e.1 = some (ESC :: '[' :: (natStr e.2 ++ ['m'])) := by decide +kernel

/-- … and the three tables hold nothing but the documented tags -/
theorem tables_only_doc :
    ∀ e ∈ styleTable ++ fgTable ++ bgTable, e ∈ docTable := by decide +kernel

/-- an abbreviation means exactly what its long name means -/
theorem abbrev_eq_long :
    ∀ e ∈ abbrevPairs, getAnsiCode e.1 = getAnsiCode e.2 ∧ (getAnsiCode e.1).isSome = true := by decide +kernel

/-- background = foreground + 10, name by name (upper case ↔ lower case) -/
theorem fg_bg_offsets :
    (∀ e ∈ fgTable, lookup bgTable (e.1.map upperC) = some (e.2 + 10)) ∧
    (∀ e ∈ bgTable, lookup fgTable (e.1.map lowerC) = some (e.2 - 10) ∧ 10 ≤ e.2) := by decide +kernel

/-- `<fg name>` / `<bg NAME>` are the plain colour tags in either letter case -/
theorem fg_bg_named :
    (∀ e ∈ fgTable, getAnsiCode ("fg ".toList ++ e.1) = some (esc e.2) ∧
                    getAnsiCode ("fg ".toList ++ e.1.map upperC) = some (esc e.2)) ∧
    (∀ e ∈ bgTable, getAnsiCode ("bg ".toList ++ e.1) = some (esc e.2) ∧
                    getAnsiCode ("bg ".toList ++ e.1.map lowerC) = some (esc e.2)) := by decide +kernel

/-- the CLOSING token is the SGR reset, the templates have the SGR shape -/
theorem templates :
    closingCode = "\x1b[0m".toList ∧ escPre = "\x1b[".toList ∧ escPost = "m".toList ∧
    fgSel = "38".toList ∧ bgSel = "48".toList ∧ limit8 = 255 ∧
    tmpl8 = ["\x1b[".toList, ";5;".toList, "m".toList] ∧
    tmpl24 = ["\x1b[".toList, ";2;".toList, ";".toList, ";".toList, "m".toList] ∧
    levelTags = ["level".toList, "lvl".toList] := by decide +kernel

/-- every sequence `_get_ansicode` can produce – table entry, 8-bit, hex or r,g,b form, for ANY tag text – has
the shape `ESC [ [0-9;]* m`, i.e. is removed entirely by the property's `\x1b\[[0-9;]*m` -/
theorem ansi_shape (tag a : Str) (h : getAnsiCode tag = some a) : IsSgr a := getAnsiCode_isSgr tag a h

/-- no generated sequence contains a brace, so the later `format_map` on the colourised format cannot see it -/
theorem ansi_brace_free (tag a : Str) (h : getAnsiCode tag = some a) : '{' ∉ a ∧ '}' ∉ a := by
  obtain ⟨body, rfl, hb⟩ := ansi_shape tag a h
  constructor <;>
  · intro hm
    simp only [List.mem_cons, List.mem_append, List.not_mem_nil, or_false] at hm
    rcases hm with hm | hm | hm | hm
    · exact absurd hm (by decide)
    · exact absurd hm (by decide)
    · have := hb _ hm; revert this; decide
    · exact absurd hm (by decide)

example : getAnsiCode "fg #00005f".toList = some "\x1b[38;2;0;0;95m".toList := by decide +kernel
example : getAnsiCode "bg 72,119,65".toList = some "\x1b[48;2;72;119;65m".toList := by decide +kernel
example : getAnsiCode "fg 256".toList = none := by decide +kernel

/-! ## The scanner -/

/-- the scanner (= `finditer` of the tag regex) cuts the text into literal pieces and tags without losing
or inventing a character: re-assembling the segments gives the text back, for every text -/
theorem scan_lossless (s : Str) : unscan (scan s).1 (scan s).2 = s := Lemmas.scan_lossless s

/-- escape rule: 2k+1 backslashes before a tag print k backslashes and the tag literally, nothing is
interpreted and the tag stack is untouched … -/
theorem escape_semantics_odd (p : P) (pre inner : Str) (k : Nat) :
    feedSeg p ⟨pre, 2 * k + 1, inner⟩ =
      .ok { tokens := p.tokens ++ [.text pre, .text (bs k ++ ('<' :: inner ++ ['>']))], stack := p.stack } := by
  have h1 : (2 * k + 1) % 2 = 1 := by omega
  have h2 : (2 * k + 1) / 2 = k := by omega
  simp [feedSeg, h1, h2]

/-- … 2k backslashes print k backslashes and the tag is interpreted -/
theorem escape_semantics_even (p : P) (pre inner : Str) (k : Nat) :
    feedSeg p ⟨pre, 2 * k, inner⟩ =
      feedTag { tokens := p.tokens ++ .text pre :: (if k > 0 then [.text (bs k)] else []), stack := p.stack } inner := by
  have h1 : (2 * k) % 2 = 0 := by omega
  have h2 : (2 * k) / 2 = k := by omega
  have h3 : (2 * k > 0) = (k > 0) := by simp
  simp [feedSeg, h1, h2]

example : parse "\\\\\\<b>x".toList = .ok [.text [], .text "\\<b>".toList, .text "x".toList] := by decide +kernel
example : parse "\\\\<b>x</b>".toList =
    .ok [.text [], .text "\\".toList, .ansi "\x1b[1m".toList, .text "x".toList, .closing, .text []] := by decide +kernel

/-! ## Same visible text -/

/-- the colourised rendering of ANY token list with its SGR sequences removed is the stripped rendering
(tokens clean = text tokens without ESC, ANSI tokens of SGR shape; level colour = SGR sequences) -/
theorem strip_eq_visible_tokens (toks : List Tok) (lvl out : Str) (hc : ∀ t ∈ toks, TokClean t)
    (hl : IsSgrSeq lvl) (h : colorize toks (some lvl) = .ok out) : unansi out = strip toks :=
  unansi_colorize toks lvl out hc hl h

/-- for every ESC-free text that parses, every level colour made of SGR sequences:
`re.sub("\x1b\[[0-9;]*m", "", colorize(tokens, level)) == strip(tokens)` -/
theorem strip_eq_visible (feeds : List (Str × Bool)) (p : P) (strict : Bool) (toks : List Tok) (lvl out : Str)
    (hf : ∀ f ∈ feeds, NoEsc f.1) (hl : IsSgrSeq lvl)
    (hp : feedMany {} feeds = .ok p) (hd : done p strict = .ok toks)
    (h : colorize toks (some lvl) = .ok out) : unansi out = strip toks := by
  have hclean : ∀ (fs : List (Str × Bool)) (q q' : P), Clean q → (∀ f ∈ fs, NoEsc f.1) →
      feedMany q fs = .ok q' → Clean q' := by
    intro fs
    induction fs with
    | nil => intro q q' hq _ h; simp [feedMany] at h; subst h; exact hq
    | cons f r ih =>
      intro q q' hq hn h
      obtain ⟨t, raw⟩ := f
      simp only [feedMany] at h
      split at h
      · rename_i q1 h1
        exact ih q1 q' (clean_feed q q1 t raw hq (hn (t, raw) (by simp)) h1) (fun f hf => hn f (by simp [hf])) h
      · cases h
  have hc := hclean feeds {} p clean_init hf hp
  unfold done at hd
  split at hd
  · cases hd
  · injection hd with hd; subst hd
    exact unansi_colorize _ lvl out hc.toks hl h

example : (do let p ← feedMany {} [("<red>a".toList, false), ("<b>".toList, true), ("</red>".toList, false)]
              let t ← done p; colorize t (some "\x1b[1m".toList)) =
    .ok "\x1b[31ma<b>\x1b[0m".toList := by decide +kernel

/-! ## Characters are styled by their enclosing tags -/

/-- THE INVARIANT: after any sequence of `feed` calls (raw or not, any texts), the SGR state produced by
the tokens emitted so far – sequences append, the CLOSING reset clears – equals the codes of the current
tag stack, oldest first.  Opening appends; closing resets and re-emits what remains. -/
theorem sgr_state_is_tag_stack (lvl : List Str) (feeds : List (Str × Bool)) (p : P)
    (hp : feedMany {} feeds = .ok p) :
    sgrState lvl [] p.tokens = codes lvl p.colorTokens := by
  have hinv : ∀ (fs : List (Str × Bool)) (q q' : P), Inv lvl q → feedMany q fs = .ok q' → Inv lvl q' := by
    intro fs
    induction fs with
    | nil => intro q q' hq h; simp [feedMany] at h; subst h; exact hq
    | cons f r ih =>
      intro q q' hq h
      obtain ⟨t, raw⟩ := f
      simp only [feedMany] at h
      split at h
      · rename_i q1 h1
        exact ih q1 q' (inv_feed lvl q q1 t raw hq h1) h
      · cases h
  exact (hinv feeds {} p (inv_init lvl) hp).state

/-- one step of it, spelled out: an opening tag appends exactly its code to the state … -/
theorem open_appends (lvl : List Str) (p p' : P) (tag a : Str) (hs : tag.head? ≠ some '/')
    (hl : levelTags.contains tag = false) (ha : getAnsiCode tag = some a) (h : feedTag p tag = .ok p') :
    sgrState lvl [] p'.tokens = sgrState lvl [] p.tokens ++ [a] ∧ p'.stack = (tag, .ansi a) :: p.stack := by
  unfold feedTag at h
  split at h
  · simp at hs
  · simp only [hl, ha] at h
    simp at h
    subst h
    simp [sgrState_append, sgrState, tokCodes]

/-- … and a closing tag leaves the state equal to the codes of the remaining stack (outer styles restored) -/
theorem close_restores (lvl : List Str) (p p' : P) (tag : Str) (hi : Inv lvl p)
    (h : feedTag p ('/' :: tag) = .ok p') :
    ∃ top, p.stack = top :: p'.stack ∧ (tag = [] ∨ tag = top.1) ∧
      sgrState lvl [] p'.tokens = codes lvl (p'.stack.reverse.map (·.2)) := by
  have hi' := inv_feedTag lvl p p' _ hi h
  unfold feedTag at h
  simp only at h
  split at h
  · rename_i top tk below hst
    split at h
    · rename_i hc
      injection h with h; subst h
      refine ⟨(top, tk), hst, ?_, hi'.state⟩
      simp at hc
      rcases hc with hc | hc
      · exact Or.inl hc
      · exact Or.inr hc
    · cases h
  · cases h

/-! ## Tree equivalence: the stack machine of `AnsiParser` ≡ the recursive-descent reference reader -/

/-- for EVERY text and every level colour: the reference reader `tree` (recursive descent over well-nested tags,
no token list, no stack, no re-emission) accepts the text exactly when `AnsiParser.feed` + strict `done` do, and
then the SGR reading of the parser's tokens – every visible character with the codes in force since the last
reset – is the reference's list: every character with the codes of the tags ENCLOSING it, outermost first
(`<level>` = the level's codes, the rest through `_get_ansicode`).  When the reference fails (unknown tag,
closing tag that does not match the innermost open tag or has nothing to close, text ending inside a tag) the
parser raises ValueError. -/
theorem tree_equivalence (lvl : List Str) (text : Str) :
    match tree lvl text with
    | .ok cs => ∃ toks, parse text = .ok toks ∧ sgr lvl [] toks = cs
    | .error _ => parse text = .error .valueError := tree_machine lvl text

/-- unknown, unbalanced and mis-nested tags are exactly the ValueError cases -/
theorem parse_ok_iff_well_nested_known (lvl : List Str) (text : Str) :
    (∃ toks, parse text = .ok toks) ↔ (∃ cs, tree lvl text = .ok cs) := by
  have h := tree_equivalence lvl text
  constructor
  · rintro ⟨toks, ht⟩
    cases hr : tree lvl text with
    | ok cs => exact ⟨cs, rfl⟩
    | error e => rw [hr] at h; simp only at h; rw [h] at ht; cases ht
  · rintro ⟨cs, hc⟩
    rw [hc] at h
    obtain ⟨toks, ht, _⟩ := h
    exact ⟨toks, ht⟩

/-- each printed character carries exactly the styles of the markup tags enclosing it -/
theorem char_styles_eq_enclosing_tags (lvl : List Str) (text : Str) (toks : List Tok) (h : parse text = .ok toks) :
    tree lvl text = .ok (sgr lvl [] toks) := by
  have ht := tree_equivalence lvl text
  cases hr : tree lvl text with
  | ok cs =>
    rw [hr] at ht
    obtain ⟨toks', h', hs⟩ := ht
    rw [h] at h'; injection h' with h'; subst h'; rw [hs]
  | error e => rw [hr] at ht; simp only at ht; rw [ht] at h; cases h

/-- the same from any state of the machine (formats are fed chunk by chunk, messages piece by piece): for every
state satisfying the invariant and every item list the reference reader, started with the codes of the current
tag stack in force, describes what the machine does -/
theorem tree_equivalence_from_any_state (lvl : List Str) (items : List Item) (p : P) (hi : Inv lvl p) :
    Sim lvl p items (descend lvl (items.length + 1) (codes lvl p.colorTokens) items) :=
  descend_sim lvl (items.length + 1) items p hi (by omega)

example : tree ["L".toList] "<b><i>x</i>y</b>z\\\\<lvl>w</>".toList =
    .ok [('x', ["\x1b[1m".toList, "\x1b[3m".toList]), ('y', ["\x1b[1m".toList]), ('z', []), ('\\', []),
         ('w', ["L".toList])] := by decide +kernel
example : tree [] "<b><i>x</b></i>".toList = .error .bad := by decide +kernel
example : tree [] "<b>x".toList = .error .unclosed := by decide +kernel
example : tree [] "x</b>".toList = .error .bad := by decide +kernel
example : tree [] "<foo>x</foo>".toList = .error .bad := by decide +kernel
example : tree [] "\\<foo>x".toList = .ok [('<', []), ('f', []), ('o', []), ('o', []), ('>', []), ('x', [])] := by
  decide +kernel

/-- no sequence `_get_ansicode` can return – table entry, 8-bit, hex or r,g,b form, for ANY tag text – is a reset
(`ESC[0m` / `ESC[m`): an opening tag can never switch the enclosing styles off -/
theorem ansi_never_reset (tag a : Str) (h : getAnsiCode tag = some a) : NotReset a := getAnsiCode_notReset tag a h

/-- THE PRINTED STRING: for every ESC-free text that parses and every level colour made of non-reset SGR sequences
`lv`, reading the colourised STRING the way a terminal does (`sgrStr`: `ESC[…m` sequences add to the styles in
force, `ESC[0m` clears them, everything else is a visible character) gives every printed character exactly the
codes of the tags enclosing it in the reference reading – the property's second clause about the handler's
output text itself, not about tokens -/
theorem printed_string_styles_eq_enclosing_tags (lv : List Str) (text : Str) (toks : List Tok) (out : Str)
    (hl : ∀ a ∈ lv, IsSgr a ∧ NotReset a) (ht : NoEsc text)
    (hp : parse text = .ok toks) (hc : colorize toks (some lv.flatten) = .ok out) :
    tree lv text = .ok (sgrStr out) := by
  have htree := char_styles_eq_enclosing_tags lv text toks hp
  unfold parse at hp
  split at hp
  · rename_i p hf
    have hclean := clean_feed {} p text false clean_init ht hf
    have hnr := nr_feed {} p text false nr_init hf
    unfold done at hp
    split at hp
    · cases hp
    · injection hp with hp; subst hp
      rw [htree]
      simp only [sgrStr]
      rw [sgrStr_colorize lv hl p.tokens [] out hclean.toks hnr.toks hc]
  · cases hp

example : (parse "<b><lvl>x</>y</b>z".toList).map (fun t => (colorize t (some ["\x1b[31m".toList].flatten)).map sgrStr) =
    .ok (.ok [('x', ["\x1b[1m".toList, "\x1b[31m".toList]), ('y', ["\x1b[1m".toList]), ('z', [])]) := by
  decide +kernel

/-! ## Arguments and values are never interpreted -/

/-- text fed with `raw=True` (formatting arguments, the re-serialised `{field}` text of a format) becomes
one TEXT token whatever it contains; the tag stack is untouched -/
theorem args_and_values_never_interpreted (p : P) (v : Str) :
    feed p v true = .ok { tokens := p.tokens ++ [.text v], stack := p.stack } := by
  simp [feed]

/-! ## The two handlers print the same visible text -/

/-- FULL STATEMENT of the first half of C06 at handler level: for every format (as chunks of
`Formatter.parse`), every coloured message (as its feeds), every level colour and field values, the
colourising handler's output with SGR sequences removed is the non-colourising handler's output.
It is FALSE of the current code (known finding F10) – see `handler_visible_text_equal_statement_false`. -/
def handler_visible_text_equal_statement : Prop :=
  ∀ (chunks : List Chunk) (feeds : List (Str × Bool)) (lvl : Str) (vals : List Str) (outC outP : Str),
    (∀ c ∈ chunks, NoEsc c.lit) → (∀ f ∈ feeds, NoEsc f.1) → (∀ v ∈ vals, NoEsc v) → IsSgrSeq lvl →
    handlerPair chunks feeds lvl vals = .ok (outC, outP) → unansi outC = outP

/-- the guard: every `{message}` field of the format has an empty format spec (a conversion on it is refused
by the model, hence excluded by the success hypothesis) -/
def MessageFieldsPlain (chunks : List Chunk) : Prop :=
  ∀ c ∈ chunks, ∀ f, c.field = some f → f.isMessage = true → f.spec = []

/-- PARTIAL (what holds of the current code): under the guard, for every format, message, level colour and
field values, both handlers print the same visible text -/
theorem handler_visible_text_equal_partial
    (chunks : List Chunk) (feeds : List (Str × Bool)) (lvl : Str) (vals : List Str) (outC outP : Str)
    (hg : MessageFieldsPlain chunks)
    (hc : ∀ c ∈ chunks, NoEsc c.lit) (hf : ∀ f ∈ feeds, NoEsc f.1) (hv : ∀ v ∈ vals, NoEsc v) (hl : IsSgrSeq lvl)
    (h : handlerPair chunks feeds lvl vals = .ok (outC, outP)) : unansi outC = outP := by
  unfold handlerPair at h
  split at h
  · cases h
  · rename_i ftoks msgs hprep
    split at h
    · cases h
    · rename_i p hp
      split at h
      · cases h
      · rename_i mt hd
        obtain ⟨c1, c2, c3⟩ := prepareChunks_clean [] chunks ftoks msgs (by intro e he; cases he) hc hprep
        have hclean : ∀ (fs : List (Str × Bool)) (q q' : P), Clean q → (∀ f ∈ fs, NoEsc f.1) →
            feedMany q fs = .ok q' → Clean q' := by
          intro fs
          induction fs with
          | nil => intro q q' hq _ h; simp [feedMany] at h; subst h; exact hq
          | cons f r ih =>
            intro q q' hq hn h
            obtain ⟨t, raw⟩ := f
            simp only [feedMany] at h
            split at h
            · rename_i q1 h1
              exact ih q1 q' (clean_feed q q1 t raw hq (hn (t, raw) (by simp)) h1) (fun f hf => hn f (by simp [hf])) h
            · cases h
        have hmt : ∀ t ∈ mt, TokClean t := by
          have := hclean feeds {} p clean_init hf hp
          unfold done at hd
          split at hd
          · cases hd
          · injection hd with hd; subst hd; exact this.toks
        have hgf : MessagePlain ftoks := by
          intro f hfm him
          obtain ⟨c, hcm, e⟩ := c3 f hfm
          exact hg c hcm f e him
        split at h
        · rename_i oc op hrc hrp
          injection h with h; injection h with h1 h2; subst h1; subst h2
          exact render_visible_eq lvl mt ftoks msgs vals _ _ hl hmt c1 c2 hv hgf hrc hrp
        · cases h
        · cases h

/-- the F10 witness: format `[{message:>10}]`, message `<red>ab</red>` -/
def f10Chunks : List Chunk :=
  [⟨"[".toList, some ⟨"message".toList, none, ">10".toList⟩⟩, ⟨"]\n".toList, some ⟨"exception".toList, none, []⟩⟩]

/-- WITNESS (replayed on the implementation by the harness on every run): the colourising handler pads the
string that already contains the SGR sequences, so its visible text is `[ab]`, the plain handler prints
`[        ab]` -/
theorem padded_message_witness :
    handlerPair f10Chunks [("<red>ab</red>".toList, false)] "\x1b[1m".toList [[]] =
      .ok ("[\x1b[31mab\x1b[0m]\n".toList, "[        ab]\n".toList) ∧
    unansi "[\x1b[31mab\x1b[0m]\n".toList = "[ab]\n".toList := by decide +kernel

/-- hence the full statement is false of the current code -/
theorem handler_visible_text_equal_statement_false : ¬ handler_visible_text_equal_statement := by
  intro h
  have hw := padded_message_witness
  have := h f10Chunks [("<red>ab</red>".toList, false)] "\x1b[1m".toList [[]] _ _
    (by decide) (by decide) (by decide) ⟨["\x1b[1m".toList], by decide, by
      intro a ha; simp at ha; subst ha; exact ⟨['1'], by decide, by decide⟩⟩ hw.1
  rw [hw.2] at this
  revert this; decide

example : MessageFieldsPlain [⟨"<red>".toList, some ⟨"message".toList, none, []⟩⟩, ⟨"</red>".toList, none⟩] := by
  intro c hc f hf _
  simp at hc
  rcases hc with rfl | rfl
  · injection hf with hf; subst hf; rfl
  · cases hf

example : handlerPair [⟨"<red>".toList, some ⟨"message".toList, none, []⟩⟩, ⟨" </red>x".toList, none⟩]
    [("<b>a</b>b".toList, false)] "".toList [] =
    .ok ("\x1b[31m\x1b[1ma\x1b[0m\x1b[31mb \x1b[0mx".toList, "ab x".toList) := by decide +kernel

/-! ## The format's styles are re-applied inside the message -/

/-- `wrap` as a token transformation: after every CLOSING of the message the format's colour tokens at the
`{message}` field are emitted again -/
def wrapToks (outer : List Tok) : List Tok → List Tok
  | [] => []
  | .closing :: r => .closing :: (outer ++ wrapToks outer r)
  | t :: r => t :: wrapToks outer r

theorem wrap_eq_wrapToks (lvl : Str) (outer toks : List Tok) :
    wrap lvl outer toks = ((wrapToks outer toks).map (Tok.valueL lvl)).flatten := by
  induction toks with
  | nil => rfl
  | cons t r ih => cases t <;> simp [wrap, wrapToks, ih, Tok.valueL, Tok.value]

/-- for a format whose `{message}` field sits under colour tokens `outer` (any stack) and ANY coloured
message: at every point of the message the SGR state is `codes outer ++ (state of the message alone)`;
in particular after a closing tag inside the message the outer styles are in force again, and at the end
of a well-formed message the state is exactly the format's own stack again. -/
theorem message_in_format_keeps_outer_styles (lvl : List Str) (outer toks : List Tok) (x : List Str)
    (ho : ∀ t ∈ outer, Tok.isColor t = true) :
    sgrState lvl (codes lvl outer ++ x) (wrapToks outer toks) = codes lvl outer ++ sgrState lvl x toks := by
  induction toks generalizing x with
  | nil => rfl
  | cons t r ih =>
    cases t with
    | text s => simp only [wrapToks, sgrState]; exact ih x
    | ansi a =>
      simp only [wrapToks, sgrState, tokCodes]
      rw [List.append_assoc]; exact ih (x ++ [a])
    | level =>
      simp only [wrapToks, sgrState, tokCodes]
      rw [List.append_assoc]; exact ih (x ++ lvl)
    | closing =>
      simp only [wrapToks, sgrState]
      rw [sgrState_append, sgrState_colors lvl [] outer ho]
      have := ih []
      simpa using this

/-- … combined with the invariant: inside a parsed message the state is `outer ++ message stack` -/
theorem message_state (lvl : List Str) (outer : List Tok) (feeds : List (Str × Bool)) (p : P)
    (ho : ∀ t ∈ outer, Tok.isColor t = true) (hp : feedMany {} feeds = .ok p) :
    sgrState lvl (codes lvl outer) (wrapToks outer p.tokens) = codes lvl outer ++ codes lvl p.colorTokens := by
  have := message_in_format_keeps_outer_styles lvl outer p.tokens [] ho
  simp only [List.append_nil] at this
  rw [this, sgr_state_is_tag_stack lvl feeds p hp]

/-! ## Per-level cache follows the level colours -/

theorem find_assoc_same {α} (k : Str) (v : α) (l : List (Str × α)) : find? k (assoc k v l) = some v := by
  induction l with
  | nil => simp [assoc, find?]
  | cons e r ih =>
    obtain ⟨k', v'⟩ := e
    simp only [assoc]
    split
    · simp [find?]
    · rename_i hne; simp [find?, hne, ih]

theorem find_assoc_other {α} (k k2 : Str) (v : α) (l : List (Str × α)) (h : k2 ≠ k) :
    find? k2 (assoc k v l) = find? k2 l := by
  induction l with
  | nil => simp [assoc, find?]; intro e; exact (h e.symm).elim
  | cons e r ih =>
    obtain ⟨k', v'⟩ := e
    simp only [assoc]
    split
    · rename_i heq
      have : k' = k := by simpa using heq
      subst this
      have hne : ¬ (k' == k2) = true := by simpa using (fun e => h e.symm)
      simp [find?, hne]
    · by_cases hk : (k' == k2) = true
      · simp [find?, hk]
      · simp [find?, hk, ih]

/-- after ANY history of `level(name, color=…)` calls, the cached pre-colourised format of every level is
`colorize(format tokens, ansify(current colour of that level))` – `update_format` keeps the cache in step -/
theorem precolorized_follows_level_color (toks : List Tok) (ops : List (Str × Str)) (c : Cache)
    (h : levelOps toks {} ops = .ok c) :
    ∀ name, find? name c.pre = (find? name c.ansi).map (fun a => colorize toks (some a)) := by
  have gen : ∀ (ops : List (Str × Str)) (c0 c : Cache),
      (∀ name, find? name c0.pre = (find? name c0.ansi).map (fun a => colorize toks (some a))) →
      levelOps toks c0 ops = .ok c →
      ∀ name, find? name c.pre = (find? name c.ansi).map (fun a => colorize toks (some a)) := by
    intro ops
    induction ops with
    | nil => intro c0 c h0 h; simp [levelOps] at h; subst h; exact h0
    | cons op r ih =>
      intro c0 c h0 h
      obtain ⟨n, col⟩ := op
      simp only [levelOps] at h
      split at h
      · rename_i c1 h1
        refine ih c1 c ?_ h
        unfold levelOp at h1
        split at h1
        · cases h1
        · rename_i a ha
          injection h1 with h1; subst h1
          intro name
          by_cases hn : name = n
          · subst hn; simp [find_assoc_same]
          · simp [find_assoc_other _ _ _ _ hn, h0 name]
      · cases h
  exact gen ops {} c (by intro name; simp [find?]) h

example : (levelOps [.level, .text "x".toList] {} [("INFO".toList, "<red>".toList), ("INFO".toList, "<blue>".toList)]).map
    (fun c => find? "INFO".toList c.pre) = .ok (some (.ok "\x1b[34mx".toList)) := by decide +kernel

/-! ## Dynamic (callable) formats: the memoised cache follows the level colours too -/

/-- every cached entry is the colourisation of its format with the ANSI prefix it is keyed on -/
def MemoOK (prep : Str → List Tok) (d : Dyn) : Prop :=
  ∀ k r, memoFind k d.memo = some r → r = colorize (prep k.1) (some k.2)

theorem dynStep_preserves (prep : Str → List Tok) (d d' : Dyn) (op : DynOp) (out : Option (Except Err Str))
    (hm : MemoOK prep d) (h : dynStep prep d op = .ok (d', out)) : MemoOK prep d' := by
  cases op with
  | recolor n c =>
    simp only [dynStep] at h
    split at h
    · injection h with h; injection h with h1 _; subst h1; exact hm
    · cases h
  | log fmt n =>
    simp only [dynStep] at h
    split at h
    · injection h with h; injection h with h1 _; subst h1; exact hm
    · rename_i a ha
      split at h
      · injection h with h; injection h with h1 _; subst h1; exact hm
      · injection h with h; injection h with h1 _; subst h1
        intro k r hk
        simp only [memoFind] at hk
        split at hk
        · rename_i heq
          have : (fmt, a) = k := by simpa using heq
          subst this
          injection hk with hk; exact hk.symm
        · exact hm k r hk

/-- after ANY history of logging calls and `level(name, color=…)` re-colourings, the format a colourising
handler with a callable format uses for a call at level `n` is `colorize(prepare_format(fmt), CURRENT ansi of
n)` – a cache hit can never resurrect an old colour, because the key contains the ANSI prefix itself -/
theorem dynamic_cache_follows_level_color (prep : Str → List Tok) (ops : List DynOp) (d d' : Dyn)
    (fmt n : Str) (r : Except Err Str)
    (hrun : dynRun prep {} ops = .ok d) (hlog : dynStep prep d (.log fmt n) = .ok (d', some r)) :
    ∃ a, find? n d.ansi = some a ∧ r = colorize (prep fmt) (some a) := by
  have hall : ∀ (ops : List DynOp) (d0 d : Dyn), MemoOK prep d0 → dynRun prep d0 ops = .ok d → MemoOK prep d := by
    intro ops
    induction ops with
    | nil => intro d0 d h0 h; simp [dynRun] at h; subst h; exact h0
    | cons op rest ih =>
      intro d0 d h0 h
      simp only [dynRun] at h
      split at h
      · rename_i d1 o1 h1
        exact ih d1 d (dynStep_preserves prep d0 d1 op o1 h0 h1) h
      · cases h
  have hm : MemoOK prep d := hall ops {} d (by intro k r h; simp [memoFind] at h) hrun
  simp only [dynStep] at hlog
  split at hlog
  · injection hlog with hlog; injection hlog with _ h2; cases h2
  · rename_i a ha
    refine ⟨a, ha, ?_⟩
    split at hlog
    · rename_i r0 hr0
      injection hlog with hlog; injection hlog with _ h2; injection h2 with h2; subst h2
      exact hm (fmt, a) r0 hr0
    · injection hlog with hlog; injection hlog with _ h2; injection h2 with h2; exact h2.symm

/-- the code keys that cache as the model does: on the format string the format function returned and the level's
ANSI prefix (`self._levels_ansi_codes[level_id]`), and the memoised function colourises the prepared format with
exactly that second argument (regenerated from class `Handler`, modulo renaming of locals/parameters, local
aliases and the place where `memoize(...)` is called) -/
theorem dynamic_cache_keyed_on_ansi :
    (∀ k ∈ GenEmit.dynCacheKeys, k = ("self._formatter(record)".toList, "self._levels_ansi_codes[level_id]".toList)) ∧
    GenEmit.dynCacheKeys ≠ [] ∧
    GenEmit.dynPrepParams = ["format_".toList, "ansi_level".toList] ∧
    GenEmit.dynPrepReturn =
      "(Colorizer.prepare_format(format_), Colorizer.prepare_format(format_).colorize(ansi_level))".toList := by
  decide +kernel

example : (do
    let d ← dynRun (fun _ => [.level, .text "x".toList]) {}
      [.recolor "INFO".toList "<red>".toList, .log "f".toList "INFO".toList, .recolor "INFO".toList "<blue>".toList]
    let r ← dynStep (fun _ => [.level, .text "x".toList]) d (.log "f".toList "INFO".toList)
    pure r.2) = .ok (some (.ok "\x1b[34mx".toList)) := by decide +kernel

/-! ## A coloured message that no longer is `record["message"]` is dropped by EVERY handler -/

/-- `Handler.emit` compares `colored_message.stripped` with `record["message"]` unconditionally, after this
handler's filter and format function ran, and nowhere else (in particular not once-for-all in `Logger._log`):
a rewrite of the shared record by a patcher, by an earlier handler or by this handler's own user code is seen
by every handler (regenerated shape of `Handler.emit` / `Logger._log`) -/
theorem drop_rule_is_per_handler :
    GenEmit.dropRuleTopLevel = true ∧ GenEmit.dropRuleAfterUserCode = true ∧
    GenEmit.emitStrippedCompares = 1 ∧ GenEmit.logStrippedCompares = 0 := by decide

/-! ## One record dict shared by all the handlers of a call -/

/-- for EVERY chain of handlers on one logging call with `opt(colors=True)`, EVERY patcher and EVERY rewriting of
`record["message"]` by the handlers' own user code (filters, callable formats – each runs before its handler
looks at the record, and what it leaves is what the next handler finds): each colourising handler's output with
the SGR sequences removed is what a non-colourising handler with the same format at the same place of the chain
prints.  Whether the handler still prints the coloured message or the record's (rewritten) text is decided by the
comparison `colored_message.stripped != record["message"]` it makes itself (`drop_rule_is_per_handler`).
(Guard as in `handler_visible_text_equal_partial`: `{message}` fields without format spec – F10; user code does
not put ESC into the message.) -/
theorem shared_record_visible_text_equal (lvl : Str) (mt : List Tok) (patch : Str → Str) (hs : List EH)
    (hl : IsSgrSeq lvl) (hmt : ∀ t ∈ mt, TokClean t) (hpatch : NoEsc (patch (strip mt))) (hok : ∀ h ∈ hs, EHOK h)
    (i : Nat) (h : EH) (outC outP : Str) (hi : hs[i]? = some h) (hc : h.colorize = true)
    (hC : (logColored true lvl mt patch hs)[i]? = some (.ok outC))
    (hP : (plainAll (patch (strip mt)) hs)[i]? = some (.ok outP)) : unansi outC = outP :=
  emitAll_visible lvl mt _ hl hmt hs _ hpatch hok i h outC outP hi hc hC hP

/-- REFUTING WITNESS for the shape "the re-parse decision is taken once per call" (in `_log`, or cached on the
first handler): an earlier handler's filter redacts the message, the colourising handler behind it still prints
the coloured original – `hunter2` – while a plain handler at the same place prints `***`; decided per handler
(the code) both print `***` -/
theorem drop_decided_once_witness :
    let mt : List Tok := [.ansi "\x1b[4m".toList, .text "hunter2".toList, .closing]
    let fmt : List FTok := [.fld ⟨"message".toList, none, []⟩]
    let redact : EH := { rewrite := fun _ => "***".toList, ftoks := fmt, msgs := [[]], colorize := false, vals := [] }
    let col : EH := { rewrite := fun s => s, ftoks := fmt, msgs := [[]], colorize := true, vals := [] }
    logColored false [] mt (fun s => s) [redact, col] = [.ok "***".toList, .ok "\x1b[4mhunter2\x1b[0m".toList] ∧
    logColored true [] mt (fun s => s) [redact, col] = [.ok "***".toList, .ok "***".toList] ∧
    plainAll (strip mt) [redact, col] = [.ok "***".toList, .ok "***".toList] := by decide +kernel

/-! ## Levels declared at run time, with or without a colour -/

/-- every level of the core has its ANSI prefix and its pre-coloured format, both for its CURRENT colour -/
def LevelsOK (toks : List Tok) (c : LCore) : Prop :=
  ∀ name col, find? name c.colors = some col →
    ∃ a, ansify col = .ok a ∧ find? name c.cache.ansi = some a ∧
      find? name c.cache.pre = some (colorize toks (some a))

/-- after ANY history of `level(...)` calls made while a colourising static handler exists – new levels with a
colour, with the colour `""`, with the colour omitted; existing levels re-coloured, re-declared with the same
colour, or with the colour omitted – every level has the pre-coloured format of its current colour (so the
lookup `_precolorized_formats[level_id]` in `emit` cannot fail and never serves a stale colour) -/
theorem every_declared_level_is_precolorized (toks : List Tok) (ds : List Decl) (c : LCore)
    (h : declareAll false toks {} ds = .ok c) : LevelsOK toks c := by
  have step : ∀ (c0 c1 : LCore) (d : Decl), LevelsOK toks c0 → declare false toks c0 d = .ok c1 → LevelsOK toks c1 := by
    intro c0 c1 d h0 h1
    simp only [declare] at h1
    split at h1
    · cases h1
    · rename_i a ha
      injection h1 with h1; subst h1
      intro name col hcol
      by_cases hn : name = d.name
      · subst hn
        rw [find_assoc_same] at hcol
        injection hcol with hcol; subst hcol
        exact ⟨a, ha, by simp [find_assoc_same], by simp [find_assoc_same]⟩
      · rw [find_assoc_other _ _ _ _ hn] at hcol
        obtain ⟨a', h1, h2, h3⟩ := h0 name col hcol
        exact ⟨a', h1, by simpa [find_assoc_other _ _ _ _ hn] using h2, by simpa [find_assoc_other _ _ _ _ hn] using h3⟩
  have gen : ∀ (ds : List Decl) (c0 c : LCore), LevelsOK toks c0 → declareAll false toks c0 ds = .ok c → LevelsOK toks c := by
    intro ds
    induction ds with
    | nil => intro c0 c h0 h; simp [declareAll] at h; subst h; exact h0
    | cons d r ih =>
      intro c0 c h0 h
      simp only [declareAll] at h
      split at h
      · rename_i c1 h1
        exact ih c1 c (step c0 c1 d h0 h1) h
      · cases h
  exact gen ds {} c (by intro name col h; simp [find?] at h) h

/-- REFUTING WITNESS for the shape "call `update_format` only when the colour changed": a new level declared
without a colour has colour `""` = the default old colour, so the guarded variant stores its ANSI prefix but no
pre-coloured format – `emit` then fails with `KeyError(name)` for a colourising static handler -/
theorem guarded_update_witness :
    (declareAll true [.level, .text "x".toList] {} [⟨"NOCOLOR".toList, none⟩]).map
        (fun c => (find? "NOCOLOR".toList c.cache.ansi, find? "NOCOLOR".toList c.cache.pre)) = .ok (some [], none) ∧
    (declareAll false [.level, .text "x".toList] {} [⟨"NOCOLOR".toList, none⟩]).map
        (fun c => (find? "NOCOLOR".toList c.cache.ansi, find? "NOCOLOR".toList c.cache.pre)) =
      .ok (some [], some (.ok "x".toList)) := by decide +kernel

/-- the code has the unguarded shape: inside the locked block of `Logger.level` the ANSI prefix
(`Colorizer.ansify(color)`) is stored, then `update_format(name)` is called for EVERY handler, unconditionally,
and nowhere else (regenerated from `Logger.level`) -/
theorem level_updates_every_handler :
    GenEmit.levelUpdatesEveryHandler = true ∧ GenEmit.levelAnsiStoredBeforeUpdate = true ∧
    GenEmit.levelUpdateCalls = 1 ∧ GenEmit.levelAnsiSource = "Colorizer.ansify(color)".toList := by decide +kernel

example : (declareAll false [.level, .text "x".toList] {}
    [⟨"N".toList, none⟩, ⟨"N".toList, some "<red>".toList⟩, ⟨"N".toList, none⟩, ⟨"M".toList, some [] ⟩]).map
    (fun c => (find? "N".toList c.cache.pre, find? "M".toList c.cache.pre)) =
    .ok (some (.ok "\x1b[31mx".toList), some (.ok "x".toList)) := by decide +kernel

/-! ## The escape arithmetic of `feed`, regenerated -/

/-- the three expressions of `AnsiParser.feed` that decide what a backslash run does (regenerated from the source
as `Int` kernels) are the ones the model uses: `n // 2` backslashes are kept, the tag is literal iff `n % 2 == 1`,
a TEXT token for the kept backslashes is emitted iff `n > 0` -/
theorem escape_kernels_are_modelled (n : Nat) :
    GenShare.escKeep n = ((n / 2 : Nat) : Int) ∧ GenShare.escLiteral n = (n % 2 == 1) ∧
    GenShare.escEmits n = decide (n > 0) := by
  refine ⟨?_, ?_, ?_⟩
  · simp [GenShare.escKeep]
  · simp only [GenShare.escLiteral]
    have : ((n : Int) % 2 = 1) ↔ (n % 2 = 1) := by omega
    rw [Bool.eq_iff_iff]; simp only [beq_iff_eq]; exact this
  · simp [GenShare.escEmits]

/-- hence `feedSeg` IS the code's rule: stated through the regenerated kernels, for every state and every match -/
theorem feed_escape_rule_regenerated (p : P) (s : Seg) :
    feedSeg p s =
      if GenShare.escLiteral s.nb then
        .ok { p with tokens := p.tokens ++ [.text s.pre, .text (bs (GenShare.escKeep s.nb).toNat ++ ('<' :: s.inner ++ ['>']))] }
      else
        feedTag { p with tokens := p.tokens ++ .text s.pre ::
          (if GenShare.escEmits s.nb then [.text (bs (GenShare.escKeep s.nb).toNat)] else []) } s.inner := by
  obtain ⟨h1, h2, h3⟩ := escape_kernels_are_modelled s.nb
  rw [h1, h2, h3]
  simp only [feedSeg, Int.toNat_natCast, decide_eq_true_eq]

/-! ## Several handlers, one level table -/

/-- the flags under which `Handler.update_format` skips, under which `Handler.__init__` pre-colours the format for
every level of the table, the one store `update_format` performs, and the sharing of the table
(`Logger.add` passes `self._core.levels_ansi_codes` itself, `__init__` keeps that object) – regenerated from
`_handler.py` / `_logger.py`, as Boolean functions of (colorize, dynamic) and normalised source -/
theorem handler_colour_shapes :
    (∀ c d, GenShare.updateSkips c d = (!c || d)) ∧ (∀ c d, GenShare.initUpdates c d = (c && !d)) ∧
    GenShare.initUpdateCalls = 1 ∧
    GenShare.updateStores =
      "self._precolorized_formats[level_id] = self._formatter.colorize(self._levels_ansi_codes[level_id])".toList ∧
    GenShare.handlerKeepsTableRef = true ∧ GenShare.addPassesTable = "self._core.levels_ansi_codes".toList := by
  decide

/-- the model's handler follows exactly these regenerated guards -/
theorem handler_model_uses_regenerated_guards (ansi : List (Str × Str)) (h : H) (n : Str) (toks : List Tok) (c d : Bool) :
    h.updateFormat ansi n =
      (if GenShare.updateSkips h.colorize h.dynamic then h else
        match find? n ansi with
        | some a => { h with pre := assoc n (colorize h.toks (some a)) h.pre }
        | none => h) ∧
    H.init ansi toks c d =
      (if GenShare.initUpdates c d then
        (ansi.map (·.1)).foldl (fun h n => h.updateFormat ansi n) { toks := toks, colorize := c, dynamic := d }
       else { toks := toks, colorize := c, dynamic := d }) := by
  constructor
  · rfl
  · cases c <;> cases d <;> rfl

/-- what a `pickle` / `copy.deepcopy` round trip of a logger keeps, computed from the REGENERATED shapes of
`Core.__getstate__` and `Handler.__getstate__`: both are shallow copies of `__dict__` in which neither the level
table, nor the handlers, nor the handler's reference to the table is assigned anything – so core and handlers of
the copy still reach ONE table object (object identity inside one pickle / one deepcopy memo is CPython's) -/
def copyKeepsSharing : Bool :=
  GenShare.coreStateIsDictCopy && GenShare.handlerStateIsDictCopy &&
  !GenShare.coreStateDropped.contains "levels_ansi_codes".toList &&
  !GenShare.coreStateDropped.contains "handlers".toList &&
  !GenShare.handlerStateDropped.contains "_levels_ansi_codes".toList &&
  !GenShare.handlerStateDropped.contains "_precolorized_formats".toList

/-- a history as the API produces it: every copy is what the code's `__getstate__` makes it -/
def AsCoded (ops : List MOp) : Prop := ∀ op ∈ ops, ∀ k, op = MOp.copy k → k = copyKeepsSharing

/-- after ANY history of `add` (static or callable format, colourising or not), `level(name, color=…)` (new level
or re-colouring), `remove`, and COPIES of the logger (`copy.deepcopy`, `pickle` round trip; the history continues
on the copy) – starting from any level table – EVERY handler present formats a record of any level of the table
with that level's CURRENT colour: a static colourising handler finds `_precolorized_formats[name]` (never
`KeyError`, never a stale colour – also for handlers added after the level was declared or re-coloured, for levels
declared after the handler was added, and for handlers inherited by a copy), a callable-format handler colourises
with the table's current prefix, a non-colourising handler uses the stripped format.
The proof needs `copyKeepsSharing = true`, i.e. the regenerated `__getstate__` shapes. -/
theorem handlers_follow_shared_level_table (ansi0 : List (Str × Str)) (ops : List MOp) (c : MCore)
    (hcoded : AsCoded ops) (h : mrun { ansi := ansi0, handlers := [] } ops = .ok c) :
    ∀ ih ∈ c.handlers, ∀ name a, find? name c.ansi = some a →
      ih.2.emitFormat (ih.2.table c.ansi) name =
        if ih.2.colorize then colorize ih.2.toks (some a) else .ok (strip ih.2.toks) := by
  have hkeep : copyKeepsSharing = true := by decide
  have hsh : ∀ op ∈ ops, op.sharing := by
    intro op hm
    cases op with
    | copy k => exact (hcoded _ hm k rfl).trans hkeep
    | add _ _ _ _ => trivial
    | level _ _ => trivial
    | remove _ => trivial
  have hok : CoreOK c := mrun_ok _ c ops hsh (by intro ih hm; cases hm) h
  intro ih hm name a ha
  obtain ⟨hown, hh⟩ := hok ih hm
  have htab : ih.2.table c.ansi = c.ansi := by simp only [H.table, hown]; rfl
  rw [htab]
  unfold H.emitFormat
  cases hc : ih.2.colorize with
  | false => simp
  | true =>
    cases hd : ih.2.dynamic with
    | true => simp [ha]
    | false =>
      have := hh ⟨hc, hd⟩ name a ha
      simp [this]

/-- REFUTING WITNESS for copies that break the sharing (`Core.__getstate__` handing out `dict(...)` copies of the
level tables, `Handler.__getstate__` copying its reference, …): the handler inherited by the copy keeps the old
colour after `level("INFO", color="<red>")` on the copy; with the sharing kept it serves the new one -/
theorem detached_copy_witness :
    let run := fun keeps => (mrun { ansi := [("INFO".toList, "\x1b[1m".toList)], handlers := [] }
      [.add 0 [.level, .text "x".toList] true false, .copy keeps, .level "INFO".toList "<red>".toList]).map
      (fun c => c.handlers.map (fun ih => ih.2.emitFormat (ih.2.table c.ansi) "INFO".toList))
    run false = .ok [.ok "\x1b[1mx".toList] ∧ run true = .ok [.ok "\x1b[31mx".toList] := by decide +kernel

/-- REFUTING WITNESS for the shape "the handler works on its OWN COPY of the level table" (a `dict(...)` in
`add`/`__init__`, or a pickled state that separates the two): after a re-colouring the handler's `update_format`
reads the stale copy and keeps serving the old colour – with the shared table it serves the new one -/
theorem detached_table_witness :
    let old : List (Str × Str) := [("INFO".toList, "\x1b[1m".toList)]
    let h := H.init old [.level, .text "x".toList] true false
    (h.updateFormat old "INFO".toList).emitFormat (assoc "INFO".toList "\x1b[31m".toList old) "INFO".toList =
      .ok "\x1b[1mx".toList ∧
    (h.updateFormat (assoc "INFO".toList "\x1b[31m".toList old) "INFO".toList).emitFormat
      (assoc "INFO".toList "\x1b[31m".toList old) "INFO".toList = .ok "\x1b[31mx".toList := by decide +kernel

/-- what survives `pickle` / `copy.deepcopy` of a logger: `Core.__getstate__` and `Handler.__getstate__` are shallow
copies of `__dict__` that overwrite only locks, thread-locals, the queue machinery and the memo – never the level
tables, the handlers, the per-level cache or the flags – so the copy's handlers and its core still reach ONE table
(object identity inside one pickle is CPython's), and `__setstate__` gives every callable-format handler a FRESH
memo (regenerated from `_logger.py` / `_handler.py`) -/
theorem pickled_state_keeps_colour_tables :
    GenShare.coreStateIsDictCopy = true ∧ GenShare.handlerStateIsDictCopy = true ∧
    (∀ k ∈ ["levels_ansi_codes".toList, "levels".toList, "levels_lookup".toList, "handlers".toList],
      k ∉ GenShare.coreStateDropped) ∧
    (∀ k ∈ ["_levels_ansi_codes".toList, "_precolorized_formats".toList, "_decolorized_format".toList,
            "_formatter".toList, "_colorize".toList, "_is_formatter_dynamic".toList],
      k ∉ GenShare.handlerStateDropped) ∧
    "_memoize_dynamic_format".toList ∈ GenShare.handlerStateDropped ∧
    GenShare.setstateFreshMemo = ["prepare_colored_format".toList, "prepare_stripped_format".toList] := by
  decide

example : (mrun { ansi := [("INFO".toList, "\x1b[1m".toList)], handlers := [] }
    [.add 0 [.level, .text "x".toList] true false, .level "NEW".toList "<red>".toList,
     .add 1 [.text "y".toList, .level] true false, .copy copyKeepsSharing, .level "INFO".toList "<blue>".toList,
     .remove 0]).map
    (fun c => c.handlers.map (fun ih => (ih.2.emitFormat c.ansi "INFO".toList, ih.2.emitFormat c.ansi "NEW".toList))) =
    .ok [(.ok "y\x1b[34m".toList, .ok "y\x1b[31m".toList)] := by decide +kernel

/-! ## Format specs of arguments are argument text: never markup -/

/-- the format spec of a field is parsed by the recursive call, which feeds every piece (literal text of the
spec, rendered nested fields) RAW: whatever the pieces contain – `<>6`, `<b>x</b>`, backslashes before tags –
parsing cannot fail, leaves the tag stack empty, and the spec handed to `format_field` is the plain
concatenation of the pieces -/
theorem spec_text_never_interpreted (pieces : List Str) :
    ∀ p : P, feedMany p (pieces.map (fun t => (t, true))) =
      .ok { tokens := p.tokens ++ pieces.map Tok.text, stack := p.stack } := by
  induction pieces with
  | nil => intro p; simp [feedMany]
  | cons t r ih =>
    intro p
    simp only [List.map_cons, feedMany, feed, if_true]
    rw [ih]; simp

theorem spec_strip_is_concat (pieces : List Str) : strip (pieces.map Tok.text) = pieces.flatten := by
  induction pieces with
  | nil => rfl
  | cons t r ih => simp [strip, ih]

/-- the code feeds that way (regenerated from `Colorizer._parse_with_formatting` and
`_parse_without_formatting`): literal text with `raw=recursive`, values / re-serialised fields with `raw=True`,
the spec through a call with `recursive=True`, `recursive` defaulting to `False` -/
theorem spec_feeds_are_raw :
    GenEmit.msgFeeds = [("literal".toList, "recursive".toList), ("value".toList, "True".toList)] ∧
    GenEmit.msgSpecCalls = ["True".toList] ∧ GenEmit.msgRecursiveDefault = "False".toList ∧
    GenEmit.fmtFeeds = [("literal".toList, "recursive".toList), ("value".toList, "True".toList)] ∧
    GenEmit.fmtSpecCalls = ["True".toList] ∧ GenEmit.fmtRecursiveDefault = "False".toList := by decide +kernel

/-- REFUTING WITNESS for the shape "spec text fed like message text": the valid spec `<>6` (fill `<`, align
`>`, width 6) is rejected, the tags of `%Y <b>x</b> %m` vanish, an escaping backslash is eaten -/
theorem nonraw_spec_witness :
    feed {} "<>6".toList false = .error .valueError ∧
    (parse "%Y <b>x</b> %m".toList).map strip = .ok "%Y x %m".toList ∧
    (parse "\\<b>".toList).map strip = .ok "<b>".toList ∧
    (feedMany {} [("<>6".toList, true)]).map (fun p => strip p.tokens) = .ok "<>6".toList := by decide +kernel

/-! ## Hex colours are exactly `#` + 3 or 6 hexadecimal digits -/

theorem lookup_mem (t : List (Str × Nat)) (k : Str) (v : Nat) (h : lookup t k = some v) : ∃ e ∈ t, e.1 = k := by
  induction t with
  | nil => simp [lookup] at h
  | cons e r ih =>
    obtain ⟨k', v'⟩ := e
    simp only [lookup] at h
    split at h
    · rename_i heq
      exact ⟨(k', v'), by simp, by simpa using heq⟩
    · obtain ⟨e, he, hk⟩ := ih h
      exact ⟨e, by simp [he], hk⟩

theorem splitOn_hash_head (h : Str) : ∃ x t, splitOn ',' ('#' :: h) = ('#' :: x) :: t := by
  unfold splitOn
  split
  · rename_i a t _
    exact ⟨a, t, by simp⟩
  · exact ⟨[], [], rfl⟩

theorem byteOk_hash (x : Str) : byteOk ('#' :: x) = false := by
  simp [byteOk, isDigits, isDigitC]

/-- a `<fg #…>` / `<bg #…>` tag is a colour ONLY when what follows `#` is 3 or 6 characters, all of them
`[0-9a-fA-F]` – signs, underscores, blanks, `0x`, non-ASCII digits (everything `int(s, 16)` would also accept)
are unknown tags -/
theorem hex_colour_exact (isFg : Bool) (h a : Str) (hc : colorForm isFg ('#' :: h) = some a) :
    h.all isHexC = true ∧ (h.length = 3 ∨ h.length = 6) := by
  have nokey : ∀ (t : List (Str × Nat)) (f : Char → Char), (∀ e ∈ t, e.1.head? ≠ some (f '#')) →
      lookup t (('#' :: h).map f) = none := by
    intro t f ht
    cases hl : lookup t (('#' :: h).map f) with
    | none => rfl
    | some v =>
      obtain ⟨e, he, hk⟩ := lookup_mem t _ v hl
      exact absurd (by rw [hk]; rfl) (ht e he)
  have hrgb : ∀ sel, colorForm.rgbForm sel ('#' :: h) = none := by
    intro sel
    simp only [colorForm.rgbForm]
    split
    · obtain ⟨x, t, hs⟩ := splitOn_hash_head h
      rw [hs]
      simp [byteOk_hash]
    · rfl
  simp only [colorForm] at hc
  have hfg : lookup Gen.fgTable (('#' :: h).map lowerC) = none := nokey _ _ (by decide)
  have hbg : lookup Gen.bgTable (('#' :: h).map upperC) = none := nokey _ _ (by decide)
  cases isFg <;> simp only [hfg, hbg, byteOk_hash, Bool.false_eq_true, if_false, if_true] at hc
  all_goals
    split at hc
    · rename_i hcond
      simp at hcond
      exact ⟨by simpa using hcond.1, hcond.2⟩
    · rw [hrgb] at hc; cases hc

example : getAnsiCode "fg #+1+2+3".toList = none ∧ getAnsiCode "bg #-a-b-c".toList = none ∧
    getAnsiCode "fg #0x10x20x3".toList = none := by decide +kernel

end C06
