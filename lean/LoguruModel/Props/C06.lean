import LoguruModel.Markup.Spec
/-
C06 – property theorems (only the theorems, the small lemmas they need, and non-vacuity examples).
The tables `Markup.Gen.*` are regenerated from `/repo/loguru/_colorizer.py` on every run.
-/
namespace C06
open Py Markup Markup.Gen Markup.Spec

/-! ## Table theorems (tie G) -/

/-- the tag regex the hand-written scanner `Markup.scan` is equivalent to is still the one in the code -/
theorem regex_is_modelled :
    tagRegex = "(\\\\*)(</?(?:[fb]g\\s)?[^<>\\s]*>)".toList ∧
    hexRegex = "#(?:[a-fA-F0-9]{3}){1,2}$".toList := by decide +kernel

/-- every documented tag (long name or abbreviation) resolves to the documented SGR code … -/
theorem tables_match_doc :
    ∀ e ∈ docTable, getAnsiCode e.1 = some (ESC :: '[' :: (natStr e.2 ++ ['m'])) := by decide +kernel

/-- … and the three tables hold nothing but the documented tags -/
theorem tables_only_doc :
    ∀ e ∈ styleTable ++ fgTable ++ bgTable, e ∈ docTable := by decide +kernel

/-- an abbreviation means exactly what its long name means -/
theorem abbrev_eq_long :
    ∀ e ∈ abbrevPairs, getAnsiCode e.1 = getAnsiCode e.2 ∧ (getAnsiCode e.1).isSome = true := by decide +kernel

/-- background = foreground + 10, name by name (upper case ↔ lower case) -/
theorem fg_bg_offsets :
    (∀ e ∈ fgTable, lookup bgTable (e.1.map upperC) = some (e.2 + 10)) ∧
    (∀ e ∈ bgTable, lookup fgTable (e.1.map lowerC) = some (e.2 - 10) ∧ 10 ≤ e.2) := by decide +kernel

/-- `<fg name>` / `<bg NAME>` are the plain colour tags in either letter case -/
theorem fg_bg_named :
    (∀ e ∈ fgTable, getAnsiCode ("fg ".toList ++ e.1) = some (esc e.2) ∧
                    getAnsiCode ("fg ".toList ++ e.1.map upperC) = some (esc e.2)) ∧
    (∀ e ∈ bgTable, getAnsiCode ("bg ".toList ++ e.1) = some (esc e.2) ∧
                    getAnsiCode ("bg ".toList ++ e.1.map lowerC) = some (esc e.2)) := by decide +kernel

/-- the CLOSING token is the SGR reset, the templates have the SGR shape -/
theorem templates :
    closingCode = "\x1b[0m".toList ∧ escPre = "\x1b[".toList ∧ escPost = "m".toList ∧
    fgSel = "38".toList ∧ bgSel = "48".toList ∧ limit8 = 255 ∧
    tmpl8 = ["\x1b[".toList, ";5;".toList, "m".toList] ∧
    tmpl24 = ["\x1b[".toList, ";2;".toList, ";".toList, ";".toList, "m".toList] ∧
    levelTags = ["level".toList, "lvl".toList] := by decide +kernel

end C06
