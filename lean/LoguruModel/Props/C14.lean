import LoguruModel.Json.Lemmas
/-
C14 – property theorems (only the theorems and their non-vacuity examples live here).
Every statement about the emitted line is about `Json.serializeRecord` / `Json.emit`, which are
DEFINED over the dict literal, the `json.dumps` keyword arguments and the suffix REGENERATED from
`/repo/loguru/_handler.py` (`Json.Gen.*`), i.e. about what the code says now.
-/
namespace C14
open Py Py.JsonStr Json

/-! ### one line -/

/-- no LF / CR in the dump of ANY JSON value tree, for either setting of `ensure_ascii` -/
theorem dumps_single_line (ea : Bool) (v : JVal) : ∀ c ∈ dumps ea v, c ≠ '\n' ∧ c ≠ '\r' :=
  dumps_noBreak ea v

/-- what `_serialize_record` returns is a line-break-free body followed by exactly `"\n"` -/
theorem emitted_is_one_line (strOf : Nat → Except Err Str) (text : Str) (r : Record) (s : Str)
    (h : serializeRecord strOf text r = .ok s) :
    ∃ body, s = body ++ ['\n'] ∧ (∀ c ∈ body, c ≠ '\n' ∧ c ≠ '\r') := by
  unfold serializeRecord at h
  split at h
  · rename_i j _
    refine ⟨dumps Gen.ensureAscii j, ?_, dumps_noBreak _ j⟩
    have hs : Gen.suffix = ['\n'] := by decide
    rw [hs] at h
    exact (Except.ok.inj h).symm
  · cases h

/-- … hence exactly one LF in the emitted text, it is the last character, and no CR at all -/
theorem emitted_one_newline (strOf : Nat → Except Err Str) (text : Str) (r : Record) (s : Str)
    (h : serializeRecord strOf text r = .ok s) :
    s.count '\n' = 1 ∧ s.getLast? = some '\n' ∧ '\r' ∉ s := by
  obtain ⟨body, rfl, hb⟩ := emitted_is_one_line strOf text r s h
  refine ⟨?_, by simp, ?_⟩
  · have : body.count '\n' = 0 := List.count_eq_zero.2 (fun hm => (hb _ hm).1 rfl)
    simp [List.count_append, this]
  · intro hm
    rcases List.mem_append.1 hm with hm | hm
    · exact (hb _ hm).2 rfl
    · simp at hm

/-- the serialize branch of `emit` is `_serialize_record` applied to the already formatted text -/
theorem emit_serializes_formatted (strOf : Nat → Except Err Str) (formatted : Str) (r : Record) :
    emit true strOf formatted r = serializeRecord strOf formatted r ∧
    emit false strOf formatted r = .ok formatted := by
  constructor <;> simp [emit, Gen.serializeAfterFormatting]

/-! ### strings -/

/-- the string decoder inverts the encoder (every escape class), whatever follows the token -/
theorem decodeStr_encodeStr (s rest : Str) :
    decodeStr (encodeStr Gen.ensureAscii s ++ rest) = some (s, rest) :=
  Py.JsonStr.decodeStr_encodeStr s rest

/-- non-ASCII text is preserved unescaped: every character from U+0020 on except `"` and `\`
(so U+007F, U+0085, U+2028, U+2029 and everything above) is copied verbatim -/
theorem non_ascii_verbatim (c : Char) (h : 0x20 ≤ c.toNat) (hq : c ≠ '"') (hb : c ≠ '\\') :
    escapeChar Gen.ensureAscii c = [c] := by
  have h1 : c ≠ '\n' := by intro e; subst e; revert h; decide
  have h2 : c ≠ '\r' := by intro e; subst e; revert h; decide
  have h3 : c ≠ '\t' := by intro e; subst e; revert h; decide
  have h4 : c ≠ '\x08' := by intro e; subst e; revert h; decide
  have h5 : c ≠ '\x0c' := by intro e; subst e; revert h; decide
  have h6 : ¬ c.toNat < 0x20 := by omega
  simp [escapeChar, Gen.ensureAscii, escVerbatim, hq, hb, h1, h2, h3, h4, h5, h6]

theorem non_ascii_verbatim_high (c : Char) (h : 0x80 ≤ c.toNat) : escapeChar Gen.ensureAscii c = [c] :=
  non_ascii_verbatim c (by omega) (by intro e; subst e; revert h; decide) (by intro e; subst e; revert h; decide)

/-- a whole string without `"`, `\` and C0 controls is written as itself between quotes -/
theorem encodeStr_verbatim (s : Str) (h : ∀ c ∈ s, 0x20 ≤ c.toNat ∧ c ≠ '"' ∧ c ≠ '\\') :
    encodeStr Gen.ensureAscii s = '"' :: (s ++ ['"']) := by
  have : encodeBody Gen.ensureAscii s = s := by
    induction s with
    | nil => rfl
    | cons c t ih =>
      rw [encodeBody_cons, non_ascii_verbatim c (h c (by simp)).1 (h c (by simp)).2.1 (h c (by simp)).2.2,
        ih (fun x hx => h x (List.mem_cons_of_mem _ hx))]
      rfl
  simp [encodeStr, this]

/-! ### colour -/

/-- `add()`: with `serialize=True` an unspecified `colorize` becomes `False` before the sink is ever
consulted; an explicit choice is kept.  Hence colour is applied only when explicitly requested. -/
theorem no_colour_unless_requested :
    (∀ sinkWants, handlerColorize none true sinkWants = false) ∧
    (∀ b serialize sinkWants, handlerColorize (some b) serialize sinkWants = b) := by
  constructor
  · intro w; rfl
  · intro b s w; cases b <;> cases s <;> rfl

/-! ### parsed back -/

/-- `json.loads ∘ json.dumps = id` on EVERY JSON value tree: strings with every escape class,
nested arrays/objects with Python's separators, ints of any size, bools, null, float tokens -/
theorem loads_dumps (v : JVal) : loads (dumps Gen.ensureAscii v) = some v := by
  have h : Gen.ensureAscii = false := rfl
  rw [h]; exact loads_dumps_false v

/-- a key of the serialised object -/
abbrev K (s : String) : Str := s.toList

/-- "the value found at `path` in the parsed JSON is the encoder's image of the record's own value `w`"
(a JSON-representable value as itself, anything else as `str(w)`) -/
def Mirrors (strOf : Nat → Except Err Str) (j : JVal) (path : List Str) (w : PyVal) : Prop :=
  ∃ jw, toJson Gen.defaultIsStr strOf w = .ok jw ∧ j.get path = some jw

/-- a successful `_serialize_record` is the dump of the encoder's image of the generated dict + LF -/
theorem serialize_ok (strOf : Nat → Except Err Str) (text : Str) (r : Record) (s : Str)
    (h : serializeRecord strOf text r = .ok s) :
    ∃ j, toJson Gen.defaultIsStr strOf (serializable text r) = .ok j ∧
      s = dumps Gen.ensureAscii j ++ ['\n'] := by
  unfold serializeRecord at h
  split at h
  · rename_i j hj
    have hs : Gen.suffix = ['\n'] := by decide
    rw [hs] at h
    exact ⟨j, hj, (Except.ok.inj h).symm⟩
  · cases h

/-- Parsed back, `text` is the formatted message and `record` carries every listed field, each equal
to the record's own value.  (`loads` of the line without its final LF gives `j`.) -/
theorem record_mirrored (strOf : Nat → Except Err Str) (text : Str) (r : Record) (s : Str)
    (h : serializeRecord strOf text r = .ok s) :
    ∃ j, s = dumps Gen.ensureAscii j ++ ['\n'] ∧ loads (dumps Gen.ensureAscii j) = some j ∧
      j.get [K "text"] = some (.str text) ∧
      Mirrors strOf j [K "record", K "message"] r.message ∧
      Mirrors strOf j [K "record", K "level", K "name"] r.levelName ∧
      Mirrors strOf j [K "record", K "level", K "no"] r.levelNo ∧
      Mirrors strOf j [K "record", K "level", K "icon"] r.levelIcon ∧
      Mirrors strOf j [K "record", K "time", K "repr"] r.time ∧
      Mirrors strOf j [K "record", K "time", K "timestamp"] r.timeTimestamp ∧
      Mirrors strOf j [K "record", K "elapsed", K "repr"] r.elapsed ∧
      Mirrors strOf j [K "record", K "elapsed", K "seconds"] r.elapsedSeconds ∧
      Mirrors strOf j [K "record", K "file", K "name"] r.fileName ∧
      Mirrors strOf j [K "record", K "file", K "path"] r.filePath ∧
      Mirrors strOf j [K "record", K "function"] r.function ∧
      Mirrors strOf j [K "record", K "line"] r.line ∧
      Mirrors strOf j [K "record", K "module"] r.module ∧
      Mirrors strOf j [K "record", K "name"] r.name ∧
      Mirrors strOf j [K "record", K "process", K "id"] r.processId ∧
      Mirrors strOf j [K "record", K "process", K "name"] r.processName ∧
      Mirrors strOf j [K "record", K "thread", K "id"] r.threadId ∧
      Mirrors strOf j [K "record", K "thread", K "name"] r.threadName ∧
      Mirrors strOf j [K "record", K "extra"] r.extra := by
  obtain ⟨j, hj, hs⟩ := serialize_ok strOf text r s h
  refine ⟨j, hs, loads_dumps j, ?_, ?_⟩
  · obtain ⟨jw, h1, h2⟩ := toJson_get _ strOf [K "text"] _ (.str text) j hj rfl
    simp only [toJson] at h1; cases h1; exact h2
  · refine ⟨?_, ?_, ?_, ?_, ?_, ?_, ?_, ?_, ?_, ?_, ?_, ?_, ?_, ?_, ?_, ?_, ?_, ?_, ?_⟩ <;>
      exact toJson_get _ strOf _ _ _ j hj rfl

/-- the exception summary: `null` without exception; otherwise type name (or null), the value
(an exception instance is opaque, so `str(value)`), and whether a traceback exists -/
theorem exception_mirrored (strOf : Nat → Except Err Str) (text : Str) (r : Record) (s : Str)
    (h : serializeRecord strOf text r = .ok s) :
    ∃ j, s = dumps Gen.ensureAscii j ++ ['\n'] ∧
      (r.exception = none → j.get [K "record", K "exception"] = some .null) ∧
      (∀ e, r.exception = some e →
        j.get [K "record", K "exception", K "type"] =
          some (match e.typeName with | none => .null | some n => .str n) ∧
        Mirrors strOf j [K "record", K "exception", K "value"] e.value ∧
        j.get [K "record", K "exception", K "traceback"] = some (.bool e.hasTraceback)) := by
  obtain ⟨j, hj, hs⟩ := serialize_ok strOf text r s h
  refine ⟨j, hs, ?_, ?_⟩
  · intro hn
    have hg : (serializable text r).get [K "record", K "exception"] = some .none := by
      simp only [serializable, exceptionValue, hn]; rfl
    obtain ⟨jw, h1, h2⟩ := toJson_get _ strOf _ _ _ j hj hg
    simp only [toJson] at h1; cases h1; exact h2
  · intro e he
    have hser : serializable text r = Gen.serializable (.str text) r (Gen.exceptionSummary e) := by
      simp only [serializable, exceptionValue, he]
    rw [hser] at hj
    refine ⟨?_, toJson_get _ strOf _ _ _ j hj rfl, ?_⟩
    · obtain ⟨jw, h1, h2⟩ := toJson_get _ strOf [K "record", K "exception", K "type"] _ (optStr e.typeName) j hj rfl
      rw [h2]
      cases hn : e.typeName <;> (rw [hn] at h1; simp only [optStr, toJson] at h1; cases h1; rfl)
    · obtain ⟨jw, h1, h2⟩ := toJson_get _ strOf [K "record", K "exception", K "traceback"] _ (.bool e.hasTraceback) j hj rfl
      simp only [toJson] at h1; cases h1; exact h2

/-- exactly the documented keys, in the documented order, and nothing else -/
theorem record_keys (strOf : Nat → Except Err Str) (text : Str) (r : Record) (s : Str)
    (h : serializeRecord strOf text r = .ok s) :
    ∃ j, s = dumps Gen.ensureAscii j ++ ['\n'] ∧
      j.keysAt [] = some [K "text", K "record"] ∧
      j.keysAt [K "record"] = some [K "elapsed", K "exception", K "extra", K "file", K "function",
        K "level", K "line", K "message", K "module", K "name", K "process", K "thread", K "time"] ∧
      j.keysAt [K "record", K "level"] = some [K "icon", K "name", K "no"] ∧
      j.keysAt [K "record", K "time"] = some [K "repr", K "timestamp"] ∧
      j.keysAt [K "record", K "elapsed"] = some [K "repr", K "seconds"] ∧
      j.keysAt [K "record", K "file"] = some [K "name", K "path"] ∧
      j.keysAt [K "record", K "process"] = some [K "id", K "name"] ∧
      j.keysAt [K "record", K "thread"] = some [K "id", K "name"] ∧
      (∀ e, r.exception = some e →
        j.keysAt [K "record", K "exception"] = some [K "type", K "value", K "traceback"]) := by
  obtain ⟨j, hj, hs⟩ := serialize_ok strOf text r s h
  refine ⟨j, hs, ?_, ?_, ?_, ?_, ?_, ?_, ?_, ?_, ?_⟩
  · exact toJson_keysAt _ strOf [] _ j _ hj rfl
  · exact toJson_keysAt _ strOf [K "record"] _ j _ hj rfl
  · exact toJson_keysAt _ strOf [K "record", K "level"] _ j _ hj rfl
  · exact toJson_keysAt _ strOf [K "record", K "time"] _ j _ hj rfl
  · exact toJson_keysAt _ strOf [K "record", K "elapsed"] _ j _ hj rfl
  · exact toJson_keysAt _ strOf [K "record", K "file"] _ j _ hj rfl
  · exact toJson_keysAt _ strOf [K "record", K "process"] _ j _ hj rfl
  · exact toJson_keysAt _ strOf [K "record", K "thread"] _ j _ hj rfl
  · intro e he
    have hser : serializable text r = Gen.serializable (.str text) r (Gen.exceptionSummary e) := by
      simp only [serializable, exceptionValue, he]
    rw [hser] at hj
    exact toJson_keysAt _ strOf [K "record", K "exception"] _ j _ hj rfl

/-! ### values JSON cannot represent -/

/-- an object the encoder has no rule for becomes the JSON string `str(obj)`; the only way for the
whole call to fail is that `str()` of one of the opaque objects inside the value fails, and then
with that very error -/
theorem unrepresentable_rendered_with_str (strOf : Nat → Except Err Str) :
    (∀ o t, strOf o = .ok t → toJson Gen.defaultIsStr strOf (.opaque o) = .ok (.str t)) ∧
    (∀ v e, toJson Gen.defaultIsStr strOf v = .error e → ∃ o ∈ opaques v, strOf o = .error e) ∧
    (∀ v, (∀ o ∈ opaques v, ∃ t, strOf o = .ok t) → ∃ j, toJson Gen.defaultIsStr strOf v = .ok j) := by
  have hd : Gen.defaultIsStr = true := rfl
  rw [hd]
  refine ⟨?_, fun v e h => toJson_error strOf e v h, ?_⟩
  · intro o t h; simp [toJson, h]
  · intro v hall
    cases hv : toJson true strOf v with
    | ok j => exact ⟨j, rfl⟩
    | error e =>
      obtain ⟨o, ho, hs⟩ := toJson_error strOf e v hv
      obtain ⟨t, ht⟩ := hall o ho
      rw [ht] at hs; cases hs

/-- … for the record: `_serialize_record` fails only if `str()` fails on an opaque object reachable
from the dictionary it builds (extra values, exception value, time, elapsed, patched fields) -/
theorem serialize_fails_only_if_str_fails (strOf : Nat → Except Err Str) (text : Str) (r : Record) (e : Err)
    (h : serializeRecord strOf text r = .error e) :
    ∃ o ∈ opaques (serializable text r), strOf o = .error e := by
  unfold serializeRecord at h
  split at h
  · cases h
  · rename_i e' he
    cases h
    exact (unrepresentable_rendered_with_str strOf).2.1 _ _ he

/-! ### elapsed.seconds -/

/-- what is written under `record.elapsed.seconds` is the WHOLE duration – days included, negative
durations included – i.e. `total_seconds()` of the record's own timedelta (exact microsecond count) -/
theorem elapsed_seconds_is_total (td : TimeDelta) :
    Gen.elapsedSecondsMicros td = td.days * 86400000000 + td.seconds * 1000000 + td.microseconds := by
  simp only [Gen.elapsedSecondsMicros, TimeDelta.totalMicros]; omega

/-- an expression built from `.seconds` and `.microseconds` alone is NOT the duration: one day and
5.25 s, and minus one second, refute it (these are replayed on the implementation by the patcher
stream of harness/c14.py) -/
theorem elapsed_without_days_refuted :
    (∃ td : TimeDelta, td.seconds * 1000000 + td.microseconds ≠ td.totalMicros ∧ 0 < td.days) ∧
    (∃ td : TimeDelta, td.seconds * 1000000 + td.microseconds ≠ td.totalMicros ∧ td.totalMicros < 0) :=
  ⟨⟨⟨1, 5, 250000⟩, by decide, by decide⟩, ⟨⟨-1, 86399, 0⟩, by decide, by decide⟩⟩

/-! ### histories on one handler -/

/-- Whatever a long-lived handler has serialised before (records at the same level, `logger.level`
updates in between …), the i-th line it emits mirrors the i-th record's OWN level name / no / icon and
message, and is the formatted text of that very call. -/
theorem history_mirrors_each_record (strOf : Nat → Except Err Str) (h : List (Str × Record)) (i : Nat)
    (p : Str × Record) (s : Str) (hp : h[i]? = some p) (hs : (emitHistory strOf h)[i]? = some (.ok s)) :
    (emitHistory strOf h).length = h.length ∧
    ∃ j, s = dumps Gen.ensureAscii j ++ ['\n'] ∧ loads (dumps Gen.ensureAscii j) = some j ∧
      j.get [K "text"] = some (.str p.1) ∧
      Mirrors strOf j [K "record", K "message"] p.2.message ∧
      Mirrors strOf j [K "record", K "level", K "name"] p.2.levelName ∧
      Mirrors strOf j [K "record", K "level", K "no"] p.2.levelNo ∧
      Mirrors strOf j [K "record", K "level", K "icon"] p.2.levelIcon := by
  have hpure : Gen.serializeIsPure = true := rfl
  simp only [emitHistory, hpure, if_true, List.getElem?_map, hp, Option.map_some, Option.some.injEq] at hs
  refine ⟨by simp [emitHistory, hpure], ?_⟩
  rw [(emit_serializes_formatted strOf p.1 p.2).1] at hs
  obtain ⟨j, h1, h2, h3, h4, h5, h6, h7, _⟩ := record_mirrored strOf p.1 p.2 s hs
  exact ⟨j, h1, h2, h3, h4, h5, h6, h7⟩

/-! ### non-vacuity -/

def exFloat : FloatTok := ⟨"1.5e-07".toList, by decide⟩
def exVal : JVal :=
  .obj (.cons (K "a\n\"") (.arr (.cons (.int (-12)) (.cons (.float exFloat) (.cons (.str (K "é \\\x01")) .nil))))
       (.cons (K "") (.obj .nil) (.cons (K "n") .null (.cons (K "t") (.bool true) .nil))))

example : dumps false exVal =
    "{\"a\\n\\\"\": [-12, 1.5e-07, \"é \\\\\\u0001\"], \"\": {}, \"n\": null, \"t\": true}".toList := by decide
example : loads (dumps false exVal) = some exVal := loads_dumps exVal
example : loads "[1 2]".toList = none := by decide
example : (loads "[-12]".toList).map (dumps false) = some "[-12]".toList := by decide
example : (loads "[NaN]".toList).map (dumps false) = some "[NaN]".toList := by decide
example : escapeChar Gen.ensureAscii '\u2028' = ['\u2028'] := non_ascii_verbatim_high _ (by decide)

def exRecord : Record :=
  { elapsed := .opaque 0, elapsedSeconds := .float exFloat, exception := some ⟨some (K "ValueError"), .opaque 1, true⟩,
    extra := .dict (.cons (K "k") (.list (.cons (.opaque 2) .nil)) .nil), fileName := .str (K "f.py"),
    filePath := .str (K "/f.py"), function := .str (K "<module>"), levelIcon := .str (K "ℹ️"),
    levelName := .str (K "INFO"), levelNo := .int 20, line := .int 7, message := .str (K "a\nb"),
    module := .str (K "f"), name := .none, processId := .int 1, processName := .str (K "MainProcess"),
    threadId := .int 2, threadName := .str (K "MainThread"), time := .opaque 3, timeTimestamp := .float exFloat }
def exStr : Nat → Except Err Str := fun o => if o = 2 then .error .valueError else .ok (K "x\r")
def exStrOk : Nat → Except Err Str := fun _ => .ok (K "b'\\n'")

example : ∃ s, serializeRecord exStrOk (K "a\nb\n") exRecord = .ok s := by
  obtain ⟨j, hj⟩ := (unrepresentable_rendered_with_str exStrOk).2.2 (serializable (K "a\nb\n") exRecord)
    (fun o _ => ⟨_, rfl⟩)
  exact ⟨dumps Gen.ensureAscii j ++ Gen.suffix, by unfold serializeRecord; rw [hj]⟩
example : (toJson Gen.defaultIsStr exStr (.list (.cons (.opaque 1) (.cons (.opaque 2) .nil))) matches .error .valueError) = true := by
  decide
example : (toJson Gen.defaultIsStr exStr (.list (.cons (.opaque 1) .nil))).toOption.map (dumps Gen.ensureAscii) =
    some "[\"x\\r\"]".toList := by decide

end C14
