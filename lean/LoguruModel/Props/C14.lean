import LoguruModel.Json.Lemmas
/-
C14 – property theorems (only the theorems and their non-vacuity examples live here).
Every statement about the emitted line is about `Json.serializeRecord` / `Json.emit`, which are
DEFINED over the dict literal, the `json.dumps` keyword arguments and the suffix REGENERATED from
`/repo/loguru/_handler.py` (`Json.Gen.*`), i.e. about what the code says now.
-/
namespace C14
open Py Py.JsonStr Json

/-! ### one line -/

/-- no LF / CR in the dump of ANY JSON value tree, for either setting of `ensure_ascii` -/
theorem dumps_single_line (ea : Bool) (v : JVal) : ∀ c ∈ dumps ea v, c ≠ '\n' ∧ c ≠ '\r' :=
  dumps_noBreak ea v

/-- what `_serialize_record` returns is a line-break-free body followed by exactly `"\n"` -/
theorem emitted_is_one_line (strOf : Nat → Except Err Str) (text : Str) (r : Record) (s : Str)
    (h : serializeRecord strOf text r = .ok s) :
    ∃ body, s = body ++ ['\n'] ∧ (∀ c ∈ body, c ≠ '\n' ∧ c ≠ '\r') := by
  unfold serializeRecord at h
  split at h
  · rename_i j _
    refine ⟨dumps Gen.ensureAscii j, ?_, dumps_noBreak _ j⟩
    have hs : Gen.suffix = ['\n'] := by decide
    rw [hs] at h
    exact (Except.ok.inj h).symm
  · cases h

/-- … hence exactly one LF in the emitted text, it is the last character, and no CR at all -/
theorem emitted_one_newline (strOf : Nat → Except Err Str) (text : Str) (r : Record) (s : Str)
    (h : serializeRecord strOf text r = .ok s) :
    s.count '\n' = 1 ∧ s.getLast? = some '\n' ∧ '\r' ∉ s := by
  obtain ⟨body, rfl, hb⟩ := emitted_is_one_line strOf text r s h
  refine ⟨?_, by simp, ?_⟩
  · have : body.count '\n' = 0 := List.count_eq_zero.2 (fun hm => (hb _ hm).1 rfl)
    simp [List.count_append, this]
  · intro hm
    rcases List.mem_append.1 hm with hm | hm
    · exact (hb _ hm).2 rfl
    · simp at hm

/-- the serialize branch of `emit` is `_serialize_record` applied to the already formatted text -/
theorem emit_serializes_formatted (strOf : Nat → Except Err Str) (formatted : Str) (r : Record) :
    emit true strOf formatted r = serializeRecord strOf formatted r ∧
    emit false strOf formatted r = .ok formatted := by
  constructor <;> simp [emit, Gen.serializeAfterFormatting]

/-! ### strings -/

/-- the string decoder inverts the encoder (every escape class), whatever follows the token -/
theorem decodeStr_encodeStr (s rest : Str) :
    decodeStr (encodeStr Gen.ensureAscii s ++ rest) = some (s, rest) :=
  Py.JsonStr.decodeStr_encodeStr s rest

/-- non-ASCII text is preserved unescaped: every character from U+0020 on except `"` and `\`
(so U+007F, U+0085, U+2028, U+2029 and everything above) is copied verbatim -/
theorem non_ascii_verbatim (c : Char) (h : 0x20 ≤ c.toNat) (hq : c ≠ '"') (hb : c ≠ '\\') :
    escapeChar Gen.ensureAscii c = [c] := by
  have h1 : c ≠ '\n' := by intro e; subst e; revert h; decide
  have h2 : c ≠ '\r' := by intro e; subst e; revert h; decide
  have h3 : c ≠ '\t' := by intro e; subst e; revert h; decide
  have h4 : c ≠ '\x08' := by intro e; subst e; revert h; decide
  have h5 : c ≠ '\x0c' := by intro e; subst e; revert h; decide
  have h6 : ¬ c.toNat < 0x20 := by omega
  simp [escapeChar, Gen.ensureAscii, escVerbatim, hq, hb, h1, h2, h3, h4, h5, h6]

theorem non_ascii_verbatim_high (c : Char) (h : 0x80 ≤ c.toNat) : escapeChar Gen.ensureAscii c = [c] :=
  non_ascii_verbatim c (by omega) (by intro e; subst e; revert h; decide) (by intro e; subst e; revert h; decide)

/-- a whole string without `"`, `\` and C0 controls is written as itself between quotes -/
theorem encodeStr_verbatim (s : Str) (h : ∀ c ∈ s, 0x20 ≤ c.toNat ∧ c ≠ '"' ∧ c ≠ '\\') :
    encodeStr Gen.ensureAscii s = '"' :: (s ++ ['"']) := by
  have : encodeBody Gen.ensureAscii s = s := by
    induction s with
    | nil => rfl
    | cons c t ih =>
      rw [encodeBody_cons, non_ascii_verbatim c (h c (by simp)).1 (h c (by simp)).2.1 (h c (by simp)).2.2,
        ih (fun x hx => h x (List.mem_cons_of_mem _ hx))]
      rfl
  simp [encodeStr, this]

/-! ### colour -/

/-- `add()`: with `serialize=True` an unspecified `colorize` becomes `False` before the sink is ever
consulted; an explicit choice is kept.  Hence colour is applied only when explicitly requested. -/
theorem no_colour_unless_requested :
    (∀ sinkWants, handlerColorize none true sinkWants = false) ∧
    (∀ b serialize sinkWants, handlerColorize (some b) serialize sinkWants = b) := by
  constructor
  · intro w; rfl
  · intro b s w; cases b <;> cases s <;> rfl

end C14
