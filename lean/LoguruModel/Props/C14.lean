import LoguruModel.Json.Lemmas
/-
C14 – property theorems (only the theorems and their non-vacuity examples live here).
Every statement about the emitted line is about `Json.serializeRecord` / `Json.emit`, which are
DEFINED over the dict literal, the `json.dumps` keyword arguments and the suffix REGENERATED from
`/repo/loguru/_handler.py` (`Json.Gen.*`), i.e. about what the code says now.
-/
namespace C14
open Py Py.JsonStr Json

/-! ### one line -/

/-- no LF / CR in the dump of ANY JSON value tree, for either setting of `ensure_ascii` -/
theorem dumps_single_line (ea : Bool) (v : JVal) : ∀ c ∈ dumps ea v, c ≠ '\n' ∧ c ≠ '\r' :=
  dumps_noBreak ea v

/-- what `_serialize_record` returns is a line-break-free body followed by exactly `"\n"` -/
theorem emitted_is_one_line (strOf : Nat → Except Err Str) (text : Str) (r : Record) (s : Str)
    (h : serializeRecord strOf text r = .ok s) :
    ∃ body, s = body ++ ['\n'] ∧ (∀ c ∈ body, c ≠ '\n' ∧ c ≠ '\r') := by
  unfold serializeRecord at h
  split at h
  · rename_i j _
    refine ⟨dumps Gen.ensureAscii j, ?_, dumps_noBreak _ j⟩
    have hs : Gen.suffix = ['\n'] := by decide
    rw [hs] at h
    exact (Except.ok.inj h).symm
  · cases h

/-- … hence exactly one LF in the emitted text, it is the last character, and no CR at all -/
theorem emitted_one_newline (strOf : Nat → Except Err Str) (text : Str) (r : Record) (s : Str)
    (h : serializeRecord strOf text r = .ok s) :
    s.count '\n' = 1 ∧ s.getLast? = some '\n' ∧ '\r' ∉ s := by
  obtain ⟨body, rfl, hb⟩ := emitted_is_one_line strOf text r s h
  refine ⟨?_, by simp, ?_⟩
  · have : body.count '\n' = 0 := List.count_eq_zero.2 (fun hm => (hb _ hm).1 rfl)
    simp [List.count_append, this]
  · intro hm
    rcases List.mem_append.1 hm with hm | hm
    · exact (hb _ hm).2 rfl
    · simp at hm

/-- the serialize branch of `emit` is `_serialize_record` applied to the already formatted text -/
theorem emit_serializes_formatted (strOf : Nat → Except Err Str) (formatted : Str) (r : Record) :
    emit true strOf formatted r = serializeRecord strOf formatted r ∧
    emit false strOf formatted r = .ok formatted := by
  constructor <;> simp [emit, Gen.serializeAfterFormatting]

/-! ### strings -/

/-- the string decoder inverts the encoder (every escape class), whatever follows the token -/
theorem decodeStr_encodeStr (s rest : Str) :
    decodeStr (encodeStr Gen.ensureAscii s ++ rest) = some (s, rest) :=
  Py.JsonStr.decodeStr_encodeStr s rest

/-- non-ASCII text is preserved unescaped: every character from U+0020 on except `"` and `\`
(so U+007F, U+0085, U+2028, U+2029 and everything above) is copied verbatim -/
theorem non_ascii_verbatim (c : Char) (h : 0x20 ≤ c.toNat) (hq : c ≠ '"') (hb : c ≠ '\\') :
    escapeChar Gen.ensureAscii c = [c] := by
  have h1 : c ≠ '\n' := by intro e; subst e; revert h; decide
  have h2 : c ≠ '\r' := by intro e; subst e; revert h; decide
  have h3 : c ≠ '\t' := by intro e; subst e; revert h; decide
  have h4 : c ≠ '\x08' := by intro e; subst e; revert h; decide
  have h5 : c ≠ '\x0c' := by intro e; subst e; revert h; decide
  have h6 : ¬ c.toNat < 0x20 := by omega
  simp [escapeChar, Gen.ensureAscii, escVerbatim, hq, hb, h1, h2, h3, h4, h5, h6]

theorem non_ascii_verbatim_high (c : Char) (h : 0x80 ≤ c.toNat) : escapeChar Gen.ensureAscii c = [c] :=
  non_ascii_verbatim c (by omega) (by intro e; subst e; revert h; decide) (by intro e; subst e; revert h; decide)

/-- a whole string without `"`, `\` and C0 controls is written as itself between quotes -/
theorem encodeStr_verbatim (s : Str) (h : ∀ c ∈ s, 0x20 ≤ c.toNat ∧ c ≠ '"' ∧ c ≠ '\\') :
    encodeStr Gen.ensureAscii s = '"' :: (s ++ ['"']) := by
  have : encodeBody Gen.ensureAscii s = s := by
    induction s with
    | nil => rfl
    | cons c t ih =>
      rw [encodeBody_cons, non_ascii_verbatim c (h c (by simp)).1 (h c (by simp)).2.1 (h c (by simp)).2.2,
        ih (fun x hx => h x (List.mem_cons_of_mem _ hx))]
      rfl
  simp [encodeStr, this]

/-! ### colour -/

/-- `add()`: with `serialize=True` an unspecified `colorize` becomes `False` before the sink is ever
consulted; an explicit choice is kept.  Hence colour is applied only when explicitly requested. -/
theorem no_colour_unless_requested :
    (∀ sinkWants, handlerColorize none true sinkWants = false) ∧
    (∀ b serialize sinkWants, handlerColorize (some b) serialize sinkWants = b) := by
  constructor
  · intro w; rfl
  · intro b s w; cases b <;> cases s <;> rfl

/-! ### parsed back -/

/-- `json.loads ∘ json.dumps = id` on EVERY JSON value tree: strings with every escape class,
nested arrays/objects with Python's separators, ints of any size, bools, null, float tokens -/
theorem loads_dumps (v : JVal) : loads (dumps Gen.ensureAscii v) = some v := by
  have h : Gen.ensureAscii = false := rfl
  rw [h]; exact loads_dumps_false v

/-- a key of the serialised object -/
abbrev K (s : String) : Str := s.toList

/-- "the value found at `path` in the parsed JSON is the encoder's image of the record's own value `w`"
(a JSON-representable value as itself, anything else as `str(w)`) -/
def Mirrors (strOf : Nat → Except Err Str) (j : JVal) (path : List Str) (w : PyVal) : Prop :=
  ∃ jw, toJson genOpts strOf w = .ok jw ∧ j.get path = some jw

/-- `sort_keys` is off in the REGENERATED keyword arguments: members stay in insertion order -/
theorem hsort : genOpts.sortKeys = false := rfl

/-- a successful `_serialize_record` is the dump of the encoder's image of the generated dict + LF -/
theorem serialize_ok (strOf : Nat → Except Err Str) (text : Str) (r : Record) (s : Str)
    (h : serializeRecord strOf text r = .ok s) :
    ∃ j, toJson genOpts strOf (serializable text r) = .ok j ∧
      s = dumps Gen.ensureAscii j ++ ['\n'] := by
  unfold serializeRecord at h
  split at h
  · rename_i j hj
    have hs : Gen.suffix = ['\n'] := by decide
    rw [hs] at h
    exact ⟨j, hj, (Except.ok.inj h).symm⟩
  · cases h

/-- Parsed back, `text` is the formatted message and `record` carries every listed field, each equal
to the record's own value.  (`loads` of the line without its final LF gives `j`.) -/
theorem record_mirrored (strOf : Nat → Except Err Str) (text : Str) (r : Record) (s : Str)
    (h : serializeRecord strOf text r = .ok s) :
    ∃ j, s = dumps Gen.ensureAscii j ++ ['\n'] ∧ loads (dumps Gen.ensureAscii j) = some j ∧
      j.get [K "text"] = some (.str text) ∧
      Mirrors strOf j [K "record", K "message"] r.message ∧
      Mirrors strOf j [K "record", K "level", K "name"] r.levelName ∧
      Mirrors strOf j [K "record", K "level", K "no"] r.levelNo ∧
      Mirrors strOf j [K "record", K "level", K "icon"] r.levelIcon ∧
      Mirrors strOf j [K "record", K "time", K "repr"] r.time ∧
      Mirrors strOf j [K "record", K "time", K "timestamp"] r.timeTimestamp ∧
      Mirrors strOf j [K "record", K "elapsed", K "repr"] r.elapsed ∧
      Mirrors strOf j [K "record", K "elapsed", K "seconds"] r.elapsedSeconds ∧
      Mirrors strOf j [K "record", K "file", K "name"] r.fileName ∧
      Mirrors strOf j [K "record", K "file", K "path"] r.filePath ∧
      Mirrors strOf j [K "record", K "function"] r.function ∧
      Mirrors strOf j [K "record", K "line"] r.line ∧
      Mirrors strOf j [K "record", K "module"] r.module ∧
      Mirrors strOf j [K "record", K "name"] r.name ∧
      Mirrors strOf j [K "record", K "process", K "id"] r.processId ∧
      Mirrors strOf j [K "record", K "process", K "name"] r.processName ∧
      Mirrors strOf j [K "record", K "thread", K "id"] r.threadId ∧
      Mirrors strOf j [K "record", K "thread", K "name"] r.threadName ∧
      Mirrors strOf j [K "record", K "extra"] r.extra := by
  obtain ⟨j, hj, hs⟩ := serialize_ok strOf text r s h
  refine ⟨j, hs, loads_dumps j, ?_, ?_⟩
  · obtain ⟨jw, h1, h2⟩ := toJson_get _ strOf hsort [K "text"] _ (.str text) j hj rfl
    simp only [toJson] at h1; cases h1; exact h2
  · refine ⟨?_, ?_, ?_, ?_, ?_, ?_, ?_, ?_, ?_, ?_, ?_, ?_, ?_, ?_, ?_, ?_, ?_, ?_, ?_⟩ <;>
      exact toJson_get _ strOf hsort _ _ _ j hj rfl

/-- … and `extra` is mirrored at EVERY depth: whatever value `w` sits at a key path `p` inside the record's
`extra` (nested dictionaries, keys read as json writes them: `int` keys as decimals, `None` as `null` …),
the parsed line has the encoder's image of `w` at `record.extra.p` -/
theorem extra_mirrored_at_every_path (strOf : Nat → Except Err Str) (text : Str) (r : Record) (s : Str)
    (h : serializeRecord strOf text r = .ok s) (p : List Str) (w : PyVal) (hw : r.extra.get p = some w) :
    ∃ j, s = dumps Gen.ensureAscii j ++ ['\n'] ∧ Mirrors strOf j (K "record" :: K "extra" :: p) w := by
  obtain ⟨j, hj, hs⟩ := serialize_ok strOf text r s h
  refine ⟨j, hs, toJson_get _ strOf hsort _ _ _ j hj ?_⟩
  have h1 : (serializable text r).get [K "record", K "extra"] = some r.extra := rfl
  have h2 : ∀ (q : List Str) (v x : PyVal), v.get q = some x → v.get (q ++ p) = x.get p := by
    intro q
    induction q with
    | nil => intro v x hx; simp only [PyVal.get, Option.some.injEq] at hx; subst hx; rfl
    | cons k ks ih =>
      intro v x hx
      cases v with
      | dict ms =>
        simp only [PyVal.get, List.cons_append] at hx ⊢
        cases hf : ms.find k with
        | none => rw [hf] at hx; cases hx
        | some y => rw [hf] at hx; simp only [] at hx ⊢; exact ih y x hx
      | _ => simp [PyVal.get] at hx
  have := h2 [K "record", K "extra"] _ _ h1
  simpa [hw] using this

/-- the exception summary: `null` without exception; otherwise type name (or null), the value
(an exception instance is opaque, so `str(value)`), and whether a traceback exists -/
theorem exception_mirrored (strOf : Nat → Except Err Str) (text : Str) (r : Record) (s : Str)
    (h : serializeRecord strOf text r = .ok s) :
    ∃ j, s = dumps Gen.ensureAscii j ++ ['\n'] ∧
      (r.exception = none → j.get [K "record", K "exception"] = some .null) ∧
      (∀ e, r.exception = some e →
        j.get [K "record", K "exception", K "type"] =
          some (match e.typeName with | none => .null | some n => .str n) ∧
        Mirrors strOf j [K "record", K "exception", K "value"] e.value ∧
        j.get [K "record", K "exception", K "traceback"] = some (.bool e.hasTraceback)) := by
  obtain ⟨j, hj, hs⟩ := serialize_ok strOf text r s h
  refine ⟨j, hs, ?_, ?_⟩
  · intro hn
    have hg : (serializable text r).get [K "record", K "exception"] = some .none := by
      simp only [serializable, exceptionValue, hn]; rfl
    obtain ⟨jw, h1, h2⟩ := toJson_get _ strOf hsort _ _ _ j hj hg
    simp only [toJson] at h1; cases h1; exact h2
  · intro e he
    have hser : serializable text r = Gen.serializable (.str text) r (Gen.exceptionSummary e) := by
      simp only [serializable, exceptionValue, he]
    rw [hser] at hj
    refine ⟨?_, toJson_get _ strOf hsort _ _ _ j hj rfl, ?_⟩
    · obtain ⟨jw, h1, h2⟩ := toJson_get _ strOf hsort [K "record", K "exception", K "type"] _ (optStr e.typeName) j hj rfl
      rw [h2]
      cases hn : e.typeName <;> (rw [hn] at h1; simp only [optStr, toJson] at h1; cases h1; rfl)
    · obtain ⟨jw, h1, h2⟩ := toJson_get _ strOf hsort [K "record", K "exception", K "traceback"] _ (.bool e.hasTraceback) j hj rfl
      simp only [toJson] at h1; cases h1; exact h2

/-- exactly the documented keys, in the documented order, and nothing else -/
theorem record_keys (strOf : Nat → Except Err Str) (text : Str) (r : Record) (s : Str)
    (h : serializeRecord strOf text r = .ok s) :
    ∃ j, s = dumps Gen.ensureAscii j ++ ['\n'] ∧
      j.keysAt [] = some [K "text", K "record"] ∧
      j.keysAt [K "record"] = some [K "elapsed", K "exception", K "extra", K "file", K "function",
        K "level", K "line", K "message", K "module", K "name", K "process", K "thread", K "time"] ∧
      j.keysAt [K "record", K "level"] = some [K "icon", K "name", K "no"] ∧
      j.keysAt [K "record", K "time"] = some [K "repr", K "timestamp"] ∧
      j.keysAt [K "record", K "elapsed"] = some [K "repr", K "seconds"] ∧
      j.keysAt [K "record", K "file"] = some [K "name", K "path"] ∧
      j.keysAt [K "record", K "process"] = some [K "id", K "name"] ∧
      j.keysAt [K "record", K "thread"] = some [K "id", K "name"] ∧
      (∀ e, r.exception = some e →
        j.keysAt [K "record", K "exception"] = some [K "type", K "value", K "traceback"]) := by
  obtain ⟨j, hj, hs⟩ := serialize_ok strOf text r s h
  refine ⟨j, hs, ?_, ?_, ?_, ?_, ?_, ?_, ?_, ?_, ?_⟩
  · exact toJson_keysAt _ strOf hsort [] _ j _ hj rfl
  · exact toJson_keysAt _ strOf hsort [K "record"] _ j _ hj rfl
  · exact toJson_keysAt _ strOf hsort [K "record", K "level"] _ j _ hj rfl
  · exact toJson_keysAt _ strOf hsort [K "record", K "time"] _ j _ hj rfl
  · exact toJson_keysAt _ strOf hsort [K "record", K "elapsed"] _ j _ hj rfl
  · exact toJson_keysAt _ strOf hsort [K "record", K "file"] _ j _ hj rfl
  · exact toJson_keysAt _ strOf hsort [K "record", K "process"] _ j _ hj rfl
  · exact toJson_keysAt _ strOf hsort [K "record", K "thread"] _ j _ hj rfl
  · intro e he
    have hser : serializable text r = Gen.serializable (.str text) r (Gen.exceptionSummary e) := by
      simp only [serializable, exceptionValue, he]
    rw [hser] at hj
    exact toJson_keysAt _ strOf hsort [K "record", K "exception"] _ j _ hj rfl

/-! ### values JSON cannot represent -/

/-- an object the encoder has no rule for becomes the JSON string `str(obj)`.  The whole call can fail in
exactly two ways: `str()` of one of the opaque objects inside the value fails (then with that very error),
or some dictionary inside the value has a KEY json has no rule for (tuple, bytes, … – `default=` is never
consulted for keys; `TypeError`).  Without such a key and with every `str()` succeeding it is total.
The proof needs `default=str`, `sort_keys=False`, `skipkeys=False`, `allow_nan=True` of the regenerated
keyword arguments (`rfl` on `genOpts`). -/
theorem unrepresentable_rendered_with_str (strOf : Nat → Except Err Str) :
    (∀ o t, strOf o = .ok t → toJson genOpts strOf (.opaque o) = .ok (.str t)) ∧
    (∀ v e, toJson genOpts strOf v = .error e →
      (∃ o ∈ opaques v, strOf o = .error e) ∨ (e = .typeError ∧ ∃ x, x ∈ badKeys v)) ∧
    (∀ v, badKeys v = [] → (∀ o ∈ opaques v, ∃ t, strOf o = .ok t) → ∃ j, toJson genOpts strOf v = .ok j) := by
  refine ⟨?_, fun v e h => toJson_error genOpts rfl rfl rfl rfl strOf e v h, ?_⟩
  · intro o t h
    have hd : genOpts.useDefault = true := rfl
    simp [toJson, hd, h]
  · intro v hb hall
    cases hv : toJson genOpts strOf v with
    | ok j => exact ⟨j, rfl⟩
    | error e =>
      rcases toJson_error genOpts rfl rfl rfl rfl strOf e v hv with ⟨o, ho, hs⟩ | ⟨_, x, hx⟩
      · obtain ⟨t, ht⟩ := hall o ho
        rw [ht] at hs; cases hs
      · rw [hb] at hx; cases hx

/-- … on the property's own domain (every dictionary key has a rule: `str`, `int`, `float`, `bool`, `None`)
a failure can only come from `str()` -/
theorem fails_only_if_str_fails (strOf : Nat → Except Err Str) (v : PyVal) (e : Err) (hb : badKeys v = [])
    (h : toJson genOpts strOf v = .error e) : ∃ o ∈ opaques v, strOf o = .error e := by
  rcases (unrepresentable_rendered_with_str strOf).2.1 v e h with h1 | ⟨_, x, hx⟩
  · exact h1
  · rw [hb] at hx; cases hx

/-- … for the record: `_serialize_record` fails only if `str()` fails on an opaque object reachable
from the dictionary it builds (extra values, exception value, time, elapsed, patched fields), or a
dictionary reachable from it has a key without a rule -/
theorem serialize_fails_only_if_str_fails (strOf : Nat → Except Err Str) (text : Str) (r : Record) (e : Err)
    (h : serializeRecord strOf text r = .error e) :
    (∃ o ∈ opaques (serializable text r), strOf o = .error e) ∨
      (e = .typeError ∧ ∃ x, x ∈ badKeys (serializable text r)) := by
  unfold serializeRecord at h
  split at h
  · cases h
  · rename_i e' he
    cases h
    exact (unrepresentable_rendered_with_str strOf).2.1 _ _ he

/-- TOTALITY as the property states it ("values JSON cannot represent are rendered with str() instead of
failing"): every record all of whose reachable opaque objects have a `str()` is serialised.  FALSE of the
current code (known finding F33): see `serialize_total_statement_false`. -/
def serialize_total_statement : Prop :=
  ∀ (strOf : Nat → Except Err Str) (text : Str) (r : Record),
    (∀ o ∈ opaques (serializable text r), ∃ t, strOf o = .ok t) → ∃ s, serializeRecord strOf text r = .ok s

/-- TOTALITY under the decidable guard "every dictionary key reachable from the record is `str`, `int`,
`float`, `bool` or `None`" (`badKeys … = []`): such a record, all of whose opaque objects have a `str()`,
IS serialised (to one line, by `emitted_is_one_line`).  Depends on `sort_keys=False` (mixed
`str`/`int`/`None` keys are never compared), `allow_nan=True`, `default=str` of the regenerated keywords. -/
theorem serialize_total_partial (strOf : Nat → Except Err Str) (text : Str) (r : Record)
    (hb : badKeys (serializable text r) = [])
    (hall : ∀ o ∈ opaques (serializable text r), ∃ t, strOf o = .ok t) :
    ∃ s, serializeRecord strOf text r = .ok s := by
  obtain ⟨j, hj⟩ := (unrepresentable_rendered_with_str strOf).2.2 _ hb hall
  exact ⟨dumps Gen.ensureAscii j ++ Gen.suffix, by unfold serializeRecord; rw [hj]⟩

/-- the dictionary `_serialize_record` builds has string-literal keys only: a key without a rule can
only sit inside one of the record's own values -/
theorem serializable_badKeys (text : Str) (r : Record) (x : Nat) :
    x ∈ badKeys (serializable text r) ↔
      x ∈ badKeys r.elapsed ∨ x ∈ badKeys r.elapsedSeconds ∨ x ∈ badKeys (exceptionValue r) ∨
      x ∈ badKeys r.extra ∨ x ∈ badKeys r.fileName ∨ x ∈ badKeys r.filePath ∨ x ∈ badKeys r.function ∨
      x ∈ badKeys r.levelIcon ∨ x ∈ badKeys r.levelName ∨ x ∈ badKeys r.levelNo ∨ x ∈ badKeys r.line ∨
      x ∈ badKeys r.message ∨ x ∈ badKeys r.module ∨ x ∈ badKeys r.name ∨ x ∈ badKeys r.processId ∨
      x ∈ badKeys r.processName ∨ x ∈ badKeys r.threadId ∨ x ∈ badKeys r.threadName ∨
      x ∈ badKeys r.time ∨ x ∈ badKeys r.timeTimestamp := by
  simp only [serializable, Gen.serializable, badKeys, badKeysMembers, PyKey.bad, List.nil_append,
    List.append_nil, List.mem_append]
  constructor <;> intro h <;> simp only [or_assoc] at h ⊢ <;> exact h

/-- the model's exact statement of what the code does with a dictionary key json has no rule for: such a
key ANYWHERE in the record's values makes `_serialize_record` raise – the record is not emitted
(`skipkeys=False`; `default=str` does not apply to keys) -/
theorem nonscalar_key_loses_record (strOf : Nat → Except Err Str) (text : Str) (r : Record)
    (h : ∃ x, x ∈ badKeys (serializable text r)) : ∃ e, serializeRecord strOf text r = .error e := by
  obtain ⟨e, he⟩ := toJson_badKey genOpts rfl strOf _ h
  exact ⟨e, by unfold serializeRecord; rw [he]⟩

/-- the full statement is false of the code as it is: a tuple key two levels down in `extra`, every
`str()` succeeding, and `_serialize_record` raises `TypeError` (F33; replayed on the implementation as
`WITNESS_OUTSIDE` of harness/c14.py) -/
theorem serialize_total_statement_false : ¬ serialize_total_statement := by
  intro h
  let r : Record :=
    { elapsed := .opaque 0, elapsedSeconds := .int 0, exception := none,
      extra := .dict (.cons (.str (K "d")) (.dict (.cons (.str (K "e")) (.dict (.cons (.other 0) (.str (K "x")) .nil)) .nil)) .nil),
      fileName := .none, filePath := .none, function := .none, levelIcon := .none, levelName := .none,
      levelNo := .none, line := .none, message := .str (K "tuple key"), module := .none, name := .none,
      processId := .none, processName := .none, threadId := .none, threadName := .none, time := .opaque 1,
      timeTimestamp := .int 0 }
  obtain ⟨s, hs⟩ := h (fun _ => .ok []) (K "tuple key\n") r (fun o _ => ⟨[], rfl⟩)
  obtain ⟨e, he⟩ := nonscalar_key_loses_record (fun _ => .ok []) (K "tuple key\n") r ⟨0, by decide⟩
  rw [hs] at he; cases he

/-- no member is dropped and none is reordered: the object written for a dictionary has exactly the
coerced keys of its items, in insertion order (`int` → decimal, `float` → repr, `True/False/None` →
`true/false/null`).  Depends on `skipkeys=False`, `sort_keys=False`. -/
theorem no_member_dropped (strOf : Nat → Except Err Str) (ms : PyMembers) (j : JVal)
    (h : toJson genOpts strOf (.dict ms) = .ok j) :
    ∃ js, j = .obj js ∧ js.keys.map some = ms.keyList.map PyKey.text := by
  obtain ⟨js, rfl, hjs⟩ := toJson_dict genOpts strOf hsort ms j h
  exact ⟨js, rfl, toJsonMembers_keys genOpts rfl strOf ms js hjs⟩

/-- the alternatives are refuted: with `sort_keys=True` a dictionary with one `int` and one `str` key
(both have a rule, nothing opaque) is a `TypeError`; with `allow_nan=False` a NaN is a `ValueError`;
with `skipkeys=True` a member is silently dropped.  (The first is replayed on the implementation by the
mixed-key generator of harness/c14.py.) -/
theorem dumps_keywords_matter (strOf : Nat → Except Err Str) :
    (∃ v, badKeys v = [] ∧ opaques v = [] ∧
      toJson { genOpts with sortKeys := true } strOf v = .error .typeError) ∧
    toJson { genOpts with allowNan := false } strOf (.float floatNaN) = .error .valueError ∧
    toJson { genOpts with skipKeys := true } strOf (.dict (.cons (.other 0) (.int 1) .nil)) = .ok (.obj .nil) :=
  ⟨⟨.dict (.cons (.int 1) .none (.cons (.str ['a']) .none .nil)), rfl, rfl, rfl⟩, rfl, rfl⟩

/-! ### elapsed.seconds -/

/-- what is written under `record.elapsed.seconds` is the WHOLE duration – days included, negative
durations included – i.e. `total_seconds()` of the record's own timedelta (exact microsecond count) -/
theorem elapsed_seconds_is_total (td : TimeDelta) :
    Gen.elapsedSecondsMicros td = td.days * 86400000000 + td.seconds * 1000000 + td.microseconds := by
  simp only [Gen.elapsedSecondsMicros, TimeDelta.totalMicros]; omega

/-- an expression built from `.seconds` and `.microseconds` alone is NOT the duration: one day and
5.25 s, and minus one second, refute it (these are replayed on the implementation by the patcher
stream of harness/c14.py) -/
theorem elapsed_without_days_refuted :
    (∃ td : TimeDelta, td.seconds * 1000000 + td.microseconds ≠ td.totalMicros ∧ 0 < td.days) ∧
    (∃ td : TimeDelta, td.seconds * 1000000 + td.microseconds ≠ td.totalMicros ∧ td.totalMicros < 0) :=
  ⟨⟨⟨1, 5, 250000⟩, by decide, by decide⟩, ⟨⟨-1, 86399, 0⟩, by decide, by decide⟩⟩

/-! ### histories on one handler -/

/-- Whatever a long-lived handler has serialised before (records at the same level, `logger.level`
updates in between …), the i-th line it emits mirrors the i-th record's OWN level name / no / icon and
message, and is the formatted text of that very call. -/
theorem history_mirrors_each_record (strOf : Nat → Except Err Str) (h : List (Str × Record)) (i : Nat)
    (p : Str × Record) (s : Str) (hp : h[i]? = some p) (hs : (emitHistory strOf h)[i]? = some (.ok s)) :
    (emitHistory strOf h).length = h.length ∧
    ∃ j, s = dumps Gen.ensureAscii j ++ ['\n'] ∧ loads (dumps Gen.ensureAscii j) = some j ∧
      j.get [K "text"] = some (.str p.1) ∧
      Mirrors strOf j [K "record", K "message"] p.2.message ∧
      Mirrors strOf j [K "record", K "level", K "name"] p.2.levelName ∧
      Mirrors strOf j [K "record", K "level", K "no"] p.2.levelNo ∧
      Mirrors strOf j [K "record", K "level", K "icon"] p.2.levelIcon := by
  have hpure : Gen.serializeIsPure = true := rfl
  simp only [emitHistory, hpure, if_true, List.getElem?_map, hp, Option.map_some, Option.some.injEq] at hs
  refine ⟨by simp [emitHistory, hpure], ?_⟩
  rw [(emit_serializes_formatted strOf p.1 p.2).1] at hs
  obtain ⟨j, h1, h2, h3, h4, h5, h6, h7, _⟩ := record_mirrored strOf p.1 p.2 s hs
  exact ⟨j, h1, h2, h3, h4, h5, h6, h7⟩

/-- NO STATE ACROSS CALLS: the i-th result of a long-lived handler is `_serialize_record` of the i-th
(text, record) pair and of nothing else – neither an earlier record (same thread id with another
name, same level, same process) nor an earlier failure can show in it -/
theorem history_pointwise (strOf : Nat → Except Err Str) (h : List (Str × Record)) (i : Nat) :
    (emitHistory strOf h)[i]? = (h[i]?).map (fun p => serializeRecord strOf p.1 p.2) := by
  have hpure : Gen.serializeIsPure = true := rfl
  simp only [emitHistory, hpure, if_true, List.getElem?_map]
  cases h[i]? with
  | none => rfl
  | some p => simp [(emit_serializes_formatted strOf p.1 p.2).1]

/-- … hence every field is fresh at every call: the i-th line carries the i-th record's own process
id/name, thread id/name, time, elapsed, file, function, line, module, name, extra and exception summary,
whatever the handler serialised before (a thread or process renamed between two calls, a record
patched with the same id and another name …) -/
theorem history_mirrors_every_field (strOf : Nat → Except Err Str) (h : List (Str × Record)) (i : Nat)
    (p : Str × Record) (s : Str) (hp : h[i]? = some p) (hs : (emitHistory strOf h)[i]? = some (.ok s)) :
    serializeRecord strOf p.1 p.2 = .ok s ∧
    ∃ j, s = dumps Gen.ensureAscii j ++ ['\n'] ∧ loads (dumps Gen.ensureAscii j) = some j ∧
      Mirrors strOf j [K "record", K "process", K "id"] p.2.processId ∧
      Mirrors strOf j [K "record", K "process", K "name"] p.2.processName ∧
      Mirrors strOf j [K "record", K "thread", K "id"] p.2.threadId ∧
      Mirrors strOf j [K "record", K "thread", K "name"] p.2.threadName ∧
      Mirrors strOf j [K "record", K "time", K "repr"] p.2.time ∧
      Mirrors strOf j [K "record", K "time", K "timestamp"] p.2.timeTimestamp ∧
      Mirrors strOf j [K "record", K "elapsed", K "repr"] p.2.elapsed ∧
      Mirrors strOf j [K "record", K "elapsed", K "seconds"] p.2.elapsedSeconds ∧
      Mirrors strOf j [K "record", K "file", K "name"] p.2.fileName ∧
      Mirrors strOf j [K "record", K "file", K "path"] p.2.filePath ∧
      Mirrors strOf j [K "record", K "function"] p.2.function ∧
      Mirrors strOf j [K "record", K "line"] p.2.line ∧
      Mirrors strOf j [K "record", K "module"] p.2.module ∧
      Mirrors strOf j [K "record", K "name"] p.2.name ∧
      Mirrors strOf j [K "record", K "extra"] p.2.extra ∧
      (p.2.exception = none → j.get [K "record", K "exception"] = some .null) ∧
      (∀ e, p.2.exception = some e →
        Mirrors strOf j [K "record", K "exception", K "value"] e.value ∧
        j.get [K "record", K "exception", K "traceback"] = some (.bool e.hasTraceback)) := by
  have hser : serializeRecord strOf p.1 p.2 = .ok s := by
    have := history_pointwise strOf h i
    rw [hs, hp] at this
    simpa using this.symm
  refine ⟨hser, ?_⟩
  obtain ⟨j, hj, hsj⟩ := serialize_ok strOf p.1 p.2 s hser
  obtain ⟨j', hj', hx1, hx2⟩ := exception_mirrored strOf p.1 p.2 s hser
  have hjj : j' = j := by
    have h1 : dumps Gen.ensureAscii j' = dumps Gen.ensureAscii j :=
      List.append_cancel_right (hj'.symm.trans hsj)
    have h2 := loads_dumps j'
    rw [h1, loads_dumps j] at h2
    exact (Option.some.inj h2).symm
  subst hjj
  refine ⟨j', hsj, loads_dumps j', ?_, ?_, ?_, ?_, ?_, ?_, ?_, ?_, ?_, ?_, ?_, ?_, ?_, ?_, ?_, hx1, ?_⟩
  all_goals first
    | exact toJson_get _ strOf hsort _ _ _ j' hj rfl
    | (intro e he; exact ⟨(hx2 e he).2.1, (hx2 e he).2.2⟩)

/-! ### several serialising handlers sharing one record -/

/-- NO STATE ACROSS HANDLERS: when one logging call is dispatched to any number of serialize=True handlers
whose filters, format functions and sinks edit the shared record, the i-th handler's result is
`_serialize_record` of the text ITS format produced and of the record AS IT saw it – not a snapshot taken
for an earlier handler -/
theorem dispatch_pointwise (strOf : Nat → Except Err Str) :
    ∀ (hs : List HandlerSpec) (r : Record) (i : Nat),
      (dispatch strOf hs r)[i]? =
        (match hs[i]?, seenBy hs r i with
         | some h, some ri => some (serializeRecord strOf (h.fmt ri) ri)
         | _, _ => none)
  | [], r, i => by simp [dispatch, seenBy]
  | h :: t, r, 0 => by
    have hpure : Gen.serializeIsPure = true := rfl
    simp [dispatch, seenBy, hpure, (emit_serializes_formatted strOf _ _).1]
  | h :: t, r, i + 1 => by
    have hpure : Gen.serializeIsPure = true := rfl
    simp only [dispatch, hpure, if_true, List.getElem?_cons_succ, seenBy]
    exact dispatch_pointwise strOf t _ i

/-- … hence each handler's line mirrors the record as THAT handler saw it: its extra (at every key path),
its message, and the text is what its own format produced from that state -/
theorem each_handler_mirrors_its_own_view (strOf : Nat → Except Err Str) (hs : List HandlerSpec) (r : Record)
    (i : Nat) (h : HandlerSpec) (ri : Record) (s : Str)
    (hh : hs[i]? = some h) (hr : seenBy hs r i = some ri) (hs' : (dispatch strOf hs r)[i]? = some (.ok s)) :
    serializeRecord strOf (h.fmt ri) ri = .ok s ∧
    ∃ j, s = dumps Gen.ensureAscii j ++ ['\n'] ∧
      j.get [K "text"] = some (.str (h.fmt ri)) ∧
      Mirrors strOf j [K "record", K "message"] ri.message ∧
      Mirrors strOf j [K "record", K "extra"] ri.extra ∧
      Mirrors strOf j [K "record", K "function"] ri.function ∧
      (∀ p w, ri.extra.get p = some w → Mirrors strOf j (K "record" :: K "extra" :: p) w) := by
  have hser : serializeRecord strOf (h.fmt ri) ri = .ok s := by
    have := dispatch_pointwise strOf hs r i
    rw [hs', hh, hr] at this
    simpa using this.symm
  refine ⟨hser, ?_⟩
  obtain ⟨j, hj, hsj⟩ := serialize_ok strOf _ ri s hser
  refine ⟨j, hsj, ?_, toJson_get _ strOf hsort _ _ _ j hj rfl, toJson_get _ strOf hsort _ _ _ j hj rfl,
    toJson_get _ strOf hsort _ _ _ j hj rfl, ?_⟩
  · obtain ⟨jw, h1, h2⟩ := toJson_get _ strOf hsort [K "text"] _ (.str (h.fmt ri)) j hj rfl
    simp only [toJson] at h1; cases h1; exact h2
  · intro p w hw
    obtain ⟨j', hj', hm⟩ := extra_mirrored_at_every_path strOf _ ri s hser p w hw
    have hjj : j' = j := by
      have h1 : dumps Gen.ensureAscii j' = dumps Gen.ensureAscii j := List.append_cancel_right (hj'.symm.trans hsj)
      have h2 := loads_dumps j'
      rw [h1, loads_dumps j] at h2
      exact (Option.some.inj h2).symm
    rw [hjj] at hm
    exact hm

/-! ### the `except Exception:` clause of `emit`: when a record can be lost -/

/-- one `emit` call of a serialising handler: on success the sink is handed exactly the line
`_serialize_record` built; an error goes back into the logging call when `catch=False` and is reported
on stderr – the record dropped – only when `catch=True` (`Gen.onError`, regenerated from the handler
body of `emit`) -/
theorem emit_outcome (strOf : Nat → Except Err Str) (text : Str) (r : Record) :
    (∀ s, serializeRecord strOf text r = .ok s → ∀ c, handlerEmit c true strOf text r = .wrote s) ∧
    (∀ e, serializeRecord strOf text r = .error e →
      handlerEmit false true strOf text r = .raised e ∧ handlerEmit true true strOf text r = .reported e) := by
  constructor
  · intro s h c
    simp [handlerEmit, (emit_serializes_formatted strOf text r).1, h]
  · intro e h
    constructor <;> simp [handlerEmit, (emit_serializes_formatted strOf text r).1, h, Gen.onError]

/-- under the guard of `serialize_total_partial` the record is NEVER lost, whatever `catch` is: the sink
receives one message, and it is one line -/
theorem record_never_lost (c : Bool) (strOf : Nat → Except Err Str) (text : Str) (r : Record)
    (hb : badKeys (serializable text r) = [])
    (hall : ∀ o ∈ opaques (serializable text r), ∃ t, strOf o = .ok t) :
    ∃ s, handlerEmit c true strOf text r = .wrote s ∧
      s.count '\n' = 1 ∧ s.getLast? = some '\n' ∧ '\r' ∉ s := by
  obtain ⟨s, hs⟩ := serialize_total_partial strOf text r hb hall
  exact ⟨s, (emit_outcome strOf text r).1 s hs c, emitted_one_newline strOf text r s hs⟩

/-- a record dropped by a `catch=True` handler has one of the two causes: `str()` of a reachable object
failed with that error, or (F33) a reachable dictionary has a key json has no rule for -/
theorem lost_only_with_cause (strOf : Nat → Except Err Str) (text : Str) (r : Record) (e : Err)
    (h : handlerEmit true true strOf text r = .reported e) :
    (∃ o ∈ opaques (serializable text r), strOf o = .error e) ∨
      (e = .typeError ∧ ∃ x, x ∈ badKeys (serializable text r)) := by
  cases hs : serializeRecord strOf text r with
  | ok s => rw [(emit_outcome strOf text r).1 s hs true] at h; cases h
  | error e' =>
    rw [((emit_outcome strOf text r).2 e' hs).2] at h
    injection h with h
    subst h
    exact serialize_fails_only_if_str_fails strOf text r e' hs

/-- a history on one handler: the sink has received exactly the lines of the records that could be
serialised, in order – a record that failed (re-raised or reported) neither leaves a partial line nor
disturbs a later one; every received message is one line -/
theorem sink_lines_are_the_successes (c : Bool) (strOf : Nat → Except Err Str) (h : List (Str × Record)) :
    sinkLines c true strOf h = h.filterMap (fun p => (serializeRecord strOf p.1 p.2).toOption) ∧
    ∀ s ∈ sinkLines c true strOf h, s.count '\n' = 1 ∧ s.getLast? = some '\n' ∧ '\r' ∉ s := by
  have key : ∀ p : Str × Record,
      (match handlerEmit c true strOf p.1 p.2 with | .wrote s => some s | _ => none) =
        (serializeRecord strOf p.1 p.2).toOption := by
    intro p
    cases hs : serializeRecord strOf p.1 p.2 with
    | ok s => rw [(emit_outcome strOf p.1 p.2).1 s hs c]; rfl
    | error e =>
      cases c
      · rw [((emit_outcome strOf p.1 p.2).2 e hs).1]; rfl
      · rw [((emit_outcome strOf p.1 p.2).2 e hs).2]; rfl
  have h1 : sinkLines c true strOf h = h.filterMap (fun p => (serializeRecord strOf p.1 p.2).toOption) := by
    unfold sinkLines
    congr 1
    funext p
    exact key p
  refine ⟨h1, ?_⟩
  intro s hs
  rw [h1, List.mem_filterMap] at hs
  obtain ⟨p, _, hp⟩ := hs
  cases hser : serializeRecord strOf p.1 p.2 with
  | ok s' =>
    rw [hser] at hp
    simp only [Except.toOption, Option.some.injEq] at hp
    subst hp
    exact emitted_one_newline strOf p.1 p.2 s' hser
  | error e => rw [hser] at hp; simp [Except.toOption] at hp

/-- THE CONSUMER'S VIEW: whatever history of records a serialising handler has written to its sink, a
line-by-line reader of the concatenated output gets back exactly the messages, one per serialisable record,
in order – no message is split, none are merged (this is what NDJSON shippers rely on); and the output
contains no CR, so universal-newlines readers see the same lines -/
theorem file_read_back_line_by_line (c : Bool) (strOf : Nat → Except Err Str) (h : List (Str × Record)) :
    readLines (sinkLines c true strOf h).flatten = sinkLines c true strOf h ∧
    '\r' ∉ (sinkLines c true strOf h).flatten ∧
    (sinkLines c true strOf h).flatten.count '\n' = (sinkLines c true strOf h).length := by
  have hl : ∀ l ∈ sinkLines c true strOf h, ∃ body, l = body ++ ['\n'] ∧ ∀ x ∈ body, x ≠ '\n' ∧ x ≠ '\r' := by
    intro l hl
    rw [(sink_lines_are_the_successes c strOf h).1, List.mem_filterMap] at hl
    obtain ⟨p, _, hp⟩ := hl
    cases hser : serializeRecord strOf p.1 p.2 with
    | ok s' =>
      rw [hser] at hp
      simp only [Except.toOption, Option.some.injEq] at hp
      subst hp
      exact emitted_is_one_line strOf p.1 p.2 s' hser
    | error e => rw [hser] at hp; simp [Except.toOption] at hp
  refine ⟨readLines_flatten _ (fun l hm => ?_), ?_, ?_⟩
  · obtain ⟨b, hb, hx⟩ := hl l hm
    exact ⟨b, hb, fun x hxm => (hx x hxm).1⟩
  · intro hm
    rw [List.mem_flatten] at hm
    obtain ⟨l, hlm, hr⟩ := hm
    obtain ⟨b, rfl, hx⟩ := hl l hlm
    rcases List.mem_append.1 hr with hr | hr
    · exact (hx _ hr).2 rfl
    · simp at hr
  · generalize sinkLines c true strOf h = ls at hl
    induction ls with
    | nil => rfl
    | cons l t ih =>
      obtain ⟨b, hbl, hx⟩ := hl l (List.mem_cons_self ..)
      subst hbl
      have hb : b.count '\n' = 0 := List.count_eq_zero.2 (fun hm => (hx _ hm).1 rfl)
      have := ih (fun x hxm => hl x (List.mem_cons_of_mem _ hxm))
      simp [List.count_append, hb, this]

/-! ### non-vacuity -/

def exFloat : FloatTok := ⟨"1.5e-07".toList, by decide⟩
def exVal : JVal :=
  .obj (.cons (K "a\n\"") (.arr (.cons (.int (-12)) (.cons (.float exFloat) (.cons (.str (K "é \\\x01")) .nil))))
       (.cons (K "") (.obj .nil) (.cons (K "n") .null (.cons (K "t") (.bool true) .nil))))

example : dumps false exVal =
    "{\"a\\n\\\"\": [-12, 1.5e-07, \"é \\\\\\u0001\"], \"\": {}, \"n\": null, \"t\": true}".toList := by decide
example : loads (dumps false exVal) = some exVal := loads_dumps exVal
example : loads "[1 2]".toList = none := by decide
example : (loads "[-12]".toList).map (dumps false) = some "[-12]".toList := by decide
example : (loads "[NaN]".toList).map (dumps false) = some "[NaN]".toList := by decide
example : escapeChar Gen.ensureAscii '\u2028' = ['\u2028'] := non_ascii_verbatim_high _ (by decide)

def exRecord : Record :=
  { elapsed := .opaque 0, elapsedSeconds := .float exFloat, exception := some ⟨some (K "ValueError"), .opaque 1, true⟩,
    extra := .dict (.cons (.str (K "k")) (.list (.cons (.opaque 2) .nil)) .nil), fileName := .str (K "f.py"),
    filePath := .str (K "/f.py"), function := .str (K "<module>"), levelIcon := .str (K "ℹ️"),
    levelName := .str (K "INFO"), levelNo := .int 20, line := .int 7, message := .str (K "a\nb"),
    module := .str (K "f"), name := .none, processId := .int 1, processName := .str (K "MainProcess"),
    threadId := .int 2, threadName := .str (K "MainThread"), time := .opaque 3, timeTimestamp := .float exFloat }
def exStr : Nat → Except Err Str := fun o => if o = 2 then .error .valueError else .ok (K "x\r")
def exStrOk : Nat → Except Err Str := fun _ => .ok (K "b'\\n'")

example : ∃ s, serializeRecord exStrOk (K "a\nb\n") exRecord = .ok s :=
  serialize_total_partial exStrOk _ exRecord (by decide) (fun o _ => ⟨_, rfl⟩)
example : (toJson genOpts exStr (.list (.cons (.opaque 1) (.cons (.opaque 2) .nil))) matches .error .valueError) = true := by
  decide
example : (toJson genOpts exStr (.list (.cons (.opaque 1) .nil))).toOption.map (dumps Gen.ensureAscii) =
    some "[\"x\\r\"]".toList := by decide

/-- mixed key types in one (nested) dictionary: total, keys coerced, insertion order kept -/
def exMixed : PyVal :=
  .dict (.cons (.int 1) (.str (K "a")) (.cons (.str (K "1")) .none (.cons .none (.bool true)
    (.cons (.bool false) (.dict (.cons (.float exFloat) (.int 2) .nil)) .nil))))
example : (toJson genOpts exStrOk exMixed).toOption.map (dumps Gen.ensureAscii) =
    some "{\"1\": \"a\", \"1\": null, \"null\": true, \"false\": {\"1.5e-07\": 2}}".toList := by decide
example : badKeys exMixed = [] := by decide
example : exMixed.get [K "false", K "1.5e-07"] = some (.int 2) := rfl
example : exRecord.extra.get [K "k"] = some (.list (.cons (.opaque 2) .nil)) := rfl
example : ∃ js, toJson genOpts exStrOk exMixed = .ok (.obj js) ∧ js.keys = [K "1", K "1", K "null", K "false"] := by
  refine ⟨_, rfl, ?_⟩; decide
/-- a tuple key two levels down in `extra`: the record is lost (F33) -/
def exBadRecord : Record :=
  { exRecord with extra := .dict (.cons (.str (K "d")) (.dict (.cons (.other 7) (.int 1) .nil)) .nil) }
example : ∃ e, serializeRecord exStrOk (K "x\n") exBadRecord = .error e :=
  nonscalar_key_loses_record exStrOk _ exBadRecord ⟨7, by decide⟩
example : (serializeRecord exStrOk (K "x\n") exBadRecord matches .error .typeError) = true := by decide
example : handlerEmit true true exStrOk (K "x\n") exBadRecord = .reported .typeError := by decide
example : handlerEmit false true exStrOk (K "x\n") exBadRecord = .raised .typeError := by decide
example : ∃ s, handlerEmit true true exStrOk (K "y\n") exRecord = .wrote s :=
  (record_never_lost true exStrOk _ exRecord (by decide) (fun o _ => ⟨_, rfl⟩)).imp fun _ h => h.1
/-- a history: the failing record leaves no trace, the next one is written -/
example : ∃ s, sinkLines true true exStrOk [(K "x\n", exBadRecord), (K "y\n", exRecord)] = [s] := by
  obtain ⟨s, hs⟩ := serialize_total_partial exStrOk (K "y\n") exRecord (by decide) (fun o _ => ⟨_, rfl⟩)
  obtain ⟨e, he⟩ := nonscalar_key_loses_record exStrOk (K "x\n") exBadRecord ⟨7, by decide⟩
  exact ⟨s, by rw [(sink_lines_are_the_successes true exStrOk _).1]; simp [hs, he, Except.toOption]⟩
example : readLines "{\"a\": 1}\n{\"b\": \"\u2028\"}\n".toList = ["{\"a\": 1}\n".toList, "{\"b\": \"\u2028\"}\n".toList] := by
  decide
example : (emitHistory exStrOk [(K "x\n", exBadRecord), (K "y\n", exRecord)])[1]? =
    some (serializeRecord exStrOk (K "y\n") exRecord) := by
  rw [history_pointwise]; rfl

/-- two handlers, the second one's filter adds a key to the shared extra: its line has the key, the first one's has not -/
def exSpecs : List HandlerSpec :=
  [⟨id, fun _ => K "a\n", id⟩,
   ⟨fun r => { r with extra := .dict (.cons (.str (K "route")) (.str (K "audit")) .nil) }, fun _ => K "b\n", id⟩]
example : seenBy exSpecs exRecord 1 = some { exRecord with extra := .dict (.cons (.str (K "route")) (.str (K "audit")) .nil) } := rfl
example : (dispatch exStrOk exSpecs exRecord).length = 2 := rfl

end C14
