import LoguruModel.Frames.Spec
/-
C17 – property theorems (only the theorems and their non-vacuity examples live here).
Every statement is about the GENERATED constants of `Frames.Gen` (what `/repo/loguru/_logger.py`
says now): the `depth + K` constant, the decorator increment, the chains of library frames of every
entry point, the placeholders, the sources of the record fields.
-/
namespace C17
open Py Frames Frames.Spec

/-! ### the index arithmetic -/

/-- selecting index `|pre| + d` of `pre ++ us` selects index `d` of `us` – for every stack -/
theorem index_skips_pushed_frames (pre us : List Frame) (d : Nat) :
    (pre ++ us)[pre.length + d]? = us[d]? := by
  rw [List.getElem?_append_right (by omega)]; congr 1; omega

theorem unpackDepth_ok (options : List Int) (depth : Int) (hopt : OptionsWithDepth options depth) :
    unpackDepth options = .ok depth := by
  obtain ⟨hlen, hd⟩ := hopt
  have hd' : options[Gen.depthIndex]? = some depth := by simpa [Gen.depthIndex] using hd
  simp [unpackDepth, hlen, Gen.optionNames, hd']

theorem mkRecord_of_frame (f : Frame) (ex : Exec) :
    mkRecord (localsOfFrame f) (f.gname.bind id) ex = recordOf f ex := by
  simp [mkRecord, localsOfFrame, recordOf, evalLocal, Gen.recName, Gen.recFunction, Gen.recLine,
    Gen.recModule, Gen.recFileName, Gen.recFilePath, Gen.recThreadId, Gen.recThreadName,
    Gen.recProcessId, Gen.recProcessName, Gen.recTime, Gen.recElapsed, Gen.elapsed]

theorem lookupName_total (g : Option (Option Str)) : lookupName g = .ok (g.bind id) := by
  cases g <;> simp [lookupName, Gen.missingNameIsNone]

/-- `_log` on a stack whose first `k` frames are library frames, with `frameIndex depth = k + d`:
the record is the one of the user's `d`-th frame -/
theorem logCore_selects (pre us : List Frame) (options : List Int) (depth : Int) (d : Nat)
    (f : Frame) (ex : Exec)
    (hopt : OptionsWithDepth options depth)
    (hidx : (Gen.frameIndex depth).toNat = pre.length + d)
    (hf : us[d]? = some f) :
    logCore (pre ++ us) options ex = .ok (recordOf f ex) := by
  have hsel : (pre ++ us)[(Gen.frameIndex depth).toNat]? = some f := by
    rw [hidx, index_skips_pushed_frames]; exact hf
  have hl : selectLocals (pre ++ us) depth = .ok (localsOfFrame f) := by
    unfold selectLocals getFrame; rw [hsel]
  unfold logCore
  rw [unpackDepth_ok options depth hopt]
  simp only [hl, lookupName_total]
  exact congrArg _ (mkRecord_of_frame f ex)

/-- the same stack shape with the index beyond the stack: the placeholder record, not a failure -/
theorem logCore_beyond (pre us : List Frame) (options : List Int) (depth : Int) (d : Nat) (ex : Exec)
    (hopt : OptionsWithDepth options depth)
    (hidx : (Gen.frameIndex depth).toNat = pre.length + d)
    (hbeyond : us.length ≤ d) :
    logCore (pre ++ us) options ex = .ok (placeholderRecord ex) := by
  have hsel : (pre ++ us)[(Gen.frameIndex depth).toNat]? = none := by
    rw [hidx, index_skips_pushed_frames]; simpa using hbeyond
  have hl : selectLocals (pre ++ us) depth = .ok placeholderLocals := by
    unfold selectLocals getFrame; rw [hsel]; simp [Gen.beyondStackHandled]
  have hph : mkRecord placeholderLocals none ex = placeholderRecord ex := by
    have h1 : basename Gen.placeholderFile = "<unknown>".toList := by decide
    have h3 : Gen.placeholderFunction = "<unknown>".toList := by decide
    have h4 : Gen.placeholderFile = "<unknown>".toList := by decide
    have h5 : Gen.placeholderLine = 0 := by decide
    simp only [mkRecord, placeholderLocals, evalLocal, Gen.recName, Gen.recFunction, Gen.recLine,
      Gen.recModule, Gen.recFileName, Gen.recFilePath, Gen.recThreadId, Gen.recThreadName,
      Gen.recProcessId, Gen.recProcessName, Gen.recTime, Gen.recElapsed, Gen.elapsed, h1]
    rw [h3, h4, h5]
    rfl
  unfold logCore
  rw [unpackDepth_ok options depth hopt]
  simp only [hl, lookupName_total]
  exact congrArg _ hph

/-! ### the generated tables -/

/-- GENERATED obligation: every documented logging method is in the table, each reaches `_log`
through exactly one frame (its own), and each hands `_log` options whose depth slot is the
logger's (`exception()` rebuilds the tuple from `_options[1:]`) -/
theorem all_methods_same_distance :
    Gen.methods.map (·.name) =
      ["trace", "debug", "info", "success", "warning", "error", "critical", "exception", "log"].map String.toList ∧
    (∀ m ∈ Gen.methods, m.chain.length = 1) ∧
    (∀ m ∈ Gen.methods, ∀ (c : Int) (opts : List Int), opts.length = 9 →
        (m.opts.eval c opts).length = 9 ∧ (m.opts.eval c opts)[Gen.depthIndex]? = opts[Gen.depthIndex]?) := by
  refine ⟨by decide, by decide, ?_⟩
  intro m hm c opts hlen
  have : m.opts = .selfOptions ∨ m.opts = .prependDrop 1 1 := by
    revert m; decide
  rcases this with h | h <;> rw [h]
  · simp [OptExpr.eval, hlen]
  · match opts, hlen with
    | [a0, a1, a2, a3, a4, a5, a6, a7, a8], _ => simp [OptExpr.eval, Gen.depthIndex]

/-- the options tuple built in `Logger.__init__` is the one `_log` unpacks; `depth` sits in the same
slot there, in `Catcher.__exit__`'s unpacking and in its `catch_options` -/
theorem options_layout_consistent :
    Gen.initOptionNames = Gen.optionNames ∧ Gen.optionNames.length = 9 ∧
    Gen.optionNames[Gen.depthIndex]? = some "depth".toList ∧
    catchUnpackDepthIdx = some Gen.depthIndex ∧ catchRepackDepthIdx = some Gen.depthIndex ∧
    Gen.catchUnpackPrefix.length = Gen.catchRepackPrefix.length := by decide

/-- the frame constants: `get_frame(depth + 2)`; the decorator adds exactly one -/
theorem frame_constants (depth : Int) :
    Gen.frameIndex depth = depth + 2 ∧ Gen.catchDepth true depth = depth + 1 ∧
    Gen.catchDepth false depth = depth := by
  simp [Gen.frameIndex, Gen.catchDepth]

/-! ### the property, per entry point -/

/-- every logging method (direct, or on a logger derived by bind/patch/opt: only `_options`
matters), every user stack, every depth inside the stack: the record identifies the frame `depth`
levels above the frame that made the logging call -/
theorem frame_is_caller_plus_depth (lib : Str → Frame) (m : MethodRow) (hm : m ∈ Gen.methods)
    (opts : List Int) (d : Nat) (hopt : OptionsWithDepth opts d)
    (us : List Frame) (f : Frame) (hf : us[d]? = some f) (ex : Exec) :
    logViaMethod lib m opts us ex = .ok (recordOf f ex) := by
  obtain ⟨_, hdist, hpres⟩ := all_methods_same_distance
  have h1 := hdist m hm
  obtain ⟨hl, hk⟩ := hpres m hm 1 opts hopt.1
  unfold logViaMethod stackAtLog
  rw [← List.cons_append]
  apply logCore_selects (depth := (d : Int)) (d := d) (hf := hf)
  · exact ⟨hl, by simpa [Gen.depthIndex, hopt.2] using hk⟩
  · simp [Gen.frameIndex, h1]; omega

/-- … and beyond the stack the placeholders are used instead of failing -/
theorem beyond_stack_placeholders (lib : Str → Frame) (m : MethodRow) (hm : m ∈ Gen.methods)
    (opts : List Int) (d : Nat) (hopt : OptionsWithDepth opts d)
    (us : List Frame) (hbeyond : us.length ≤ d) (ex : Exec) :
    logViaMethod lib m opts us ex = .ok (placeholderRecord ex) := by
  obtain ⟨_, hdist, hpres⟩ := all_methods_same_distance
  have h1 := hdist m hm
  obtain ⟨hl, hk⟩ := hpres m hm 1 opts hopt.1
  unfold logViaMethod stackAtLog
  rw [← List.cons_append]
  apply logCore_beyond (depth := (d : Int)) (d := d) (hbeyond := hbeyond)
  · exact ⟨hl, by simpa [Gen.depthIndex, hopt.2] using hk⟩
  · simp [Gen.frameIndex, h1]; omega

/-- a selected frame whose globals have no `__name__` (or `None`): `name` is `None`, every other
field still identifies the frame, nothing fails -/
theorem missing_name_is_none (lib : Str → Frame) (m : MethodRow) (hm : m ∈ Gen.methods)
    (opts : List Int) (d : Nat) (hopt : OptionsWithDepth opts d)
    (us : List Frame) (f : Frame) (hf : us[d]? = some f)
    (hname : f.gname = none ∨ f.gname = some none) (ex : Exec) :
    ∃ r, logViaMethod lib m opts us ex = .ok r ∧ r.name = .optStr none ∧
      r.function = .str f.func ∧ r.line = .int f.line ∧ r.filePath = .str f.file := by
  refine ⟨recordOf f ex, frame_is_caller_plus_depth lib m hm opts d hopt us f hf ex, ?_, rfl, rfl, rfl⟩
  rcases hname with h | h <;> simp [recordOf, h]

/-- catch() reached through `with`, or as a decorator of a function / generator / coroutine /
async generator (asend): the chains of `Gen.catchRows` and the decorator increment cancel, so the
record identifies the frame `depth` levels above the user's frame adjacent to the library frames
(the caller of the decorated function, resp. the frame containing the `with` block) -/
theorem catch_identifies_user_frame (lib : Str → Frame) (w : CatchRow) (hw : w ∈ Gen.catchRows)
    (hshape : w.shape ≠ "async with".toList)
    (opts : List Int) (d : Nat) (hopt : OptionsWithDepth opts d)
    (us : List Frame) (f : Frame) (hf : us[d]? = some f) (ex : Exec) :
    logViaCatch lib w opts us ex = .ok (recordOf f ex) := by
  obtain ⟨hlen, hd⟩ := hopt
  have hcases : (w.chain.length = 2 ∧ w.fromDecorator = true) ∨ (w.chain.length = 1 ∧ w.fromDecorator = false) := by
    revert w; decide
  obtain ⟨_, _, _, hi, hj, _⟩ := options_layout_consistent
  have hn : Gen.catchUnpackPrefix.length = 3 := by decide
  have hn' : Gen.catchRepackPrefix.length = 3 := by decide
  match opts, hlen with
  | [a0, a1, a2, a3, a4, a5, a6, a7, a8], _ =>
    simp at hd
    subst hd
    unfold logViaCatch stackAtLog
    rcases hcases with ⟨hc, hfd⟩ | ⟨hc, hfd⟩
    · have : catchOptions w.fromDecorator [a0, (d : Int), a2, a3, a4, a5, a6, a7, a8] =
          .ok [1, (d : Int) + 1, 1, a3, a4, a5, a6, a7, a8] := by
        rw [hfd]; simp [catchOptions, hi, hj, hn, hn', Gen.catchDepth, Gen.depthIndex, List.range, List.range.loop]
      simp only [this]
      rw [← List.cons_append]
      apply logCore_selects (depth := (d : Int) + 1) (d := d) (hf := hf)
      · exact ⟨rfl, rfl⟩
      · simp [Gen.frameIndex, hc]; omega
    · have : catchOptions w.fromDecorator [a0, (d : Int), a2, a3, a4, a5, a6, a7, a8] =
          .ok [1, (d : Int), 1, a3, a4, a5, a6, a7, a8] := by
        rw [hfd]; simp [catchOptions, hi, hj, hn, hn', Gen.catchDepth, Gen.depthIndex, List.range, List.range.loop]
      simp only [this]
      rw [← List.cons_append]
      apply logCore_selects (depth := (d : Int)) (d := d) (hf := hf)
      · exact ⟨rfl, rfl⟩
      · simp [Gen.frameIndex, hc]; omega

end C17
