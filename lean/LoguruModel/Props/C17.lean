import LoguruModel.Frames.Spec
/-
C17 – property theorems (only the theorems and their non-vacuity examples live here).
Every statement is about the GENERATED constants of `Frames.Gen` (what `/repo/loguru/_logger.py`
says now): the `depth + K` constant, the decorator increment, the chains of library frames of every
entry point, the placeholders, the sources of the record fields.
-/
namespace C17
open Py Frames Frames.Spec

/-! ### the index arithmetic -/

/-- selecting index `|pre| + d` of `pre ++ us` selects index `d` of `us` – for every stack -/
theorem index_skips_pushed_frames (pre us : List Frame) (d : Nat) :
    (pre ++ us)[pre.length + d]? = us[d]? := by
  rw [List.getElem?_append_right (by omega)]; congr 1; omega

theorem unpackDepth_ok (options : List Int) (depth : Int) (hopt : OptionsWithDepth options depth) :
    unpackDepth options = .ok depth := by
  obtain ⟨hlen, hd⟩ := hopt
  have hd' : options[Gen.depthIndex]? = some depth := by simpa [Gen.depthIndex] using hd
  simp [unpackDepth, hlen, Gen.optionNames, hd']

theorem mkRecord_of_frame (f : Frame) (ex : Exec) :
    mkRecord (localsOfFrame f) (f.gname.bind id) ex = recordOf f ex := by
  simp [mkRecord, localsOfFrame, recordOf, evalLocal, Gen.recName, Gen.recFunction, Gen.recLine,
    Gen.recModule, Gen.recFileName, Gen.recFilePath, Gen.recThreadId, Gen.recThreadName,
    Gen.recProcessId, Gen.recProcessName, Gen.recTime, Gen.recElapsed, Gen.elapsed]

theorem lookupName_total (g : Option (Option Str)) : lookupName g = .ok (g.bind id) := by
  cases g <;> simp [lookupName, Gen.missingNameIsNone]

/-- `_log` on a stack whose first `k` frames are library frames, with `frameIndex depth = k + d`:
the record is the one of the user's `d`-th frame -/
theorem logCore_selects (pre us : List Frame) (options : List Int) (depth : Int) (d : Nat)
    (f : Frame) (ex : Exec)
    (hopt : OptionsWithDepth options depth)
    (hidx : (Gen.frameIndex depth).toNat = pre.length + d)
    (hf : us[d]? = some f) :
    logCore (pre ++ us) options ex = .ok (recordOf f ex) := by
  have hsel : (pre ++ us)[(Gen.frameIndex depth).toNat]? = some f := by
    rw [hidx, index_skips_pushed_frames]; exact hf
  have hl : selectLocals (pre ++ us) depth = .ok (localsOfFrame f) := by
    unfold selectLocals getFrame; rw [hsel]
  unfold logCore
  rw [unpackDepth_ok options depth hopt]
  simp only [hl, lookupName_total]
  exact congrArg _ (mkRecord_of_frame f ex)

/-- the same stack shape with the index beyond the stack: the placeholder record, not a failure -/
theorem logCore_beyond (pre us : List Frame) (options : List Int) (depth : Int) (d : Nat) (ex : Exec)
    (hopt : OptionsWithDepth options depth)
    (hidx : (Gen.frameIndex depth).toNat = pre.length + d)
    (hbeyond : us.length ≤ d) :
    logCore (pre ++ us) options ex = .ok (placeholderRecord ex) := by
  have hsel : (pre ++ us)[(Gen.frameIndex depth).toNat]? = none := by
    rw [hidx, index_skips_pushed_frames]; simpa using hbeyond
  have hl : selectLocals (pre ++ us) depth = .ok placeholderLocals := by
    unfold selectLocals getFrame; rw [hsel]; simp [Gen.beyondStackHandled]
  have hph : mkRecord placeholderLocals none ex = placeholderRecord ex := by
    have h1 : basename Gen.placeholderFile = "<unknown>".toList := by decide
    have h3 : Gen.placeholderFunction = "<unknown>".toList := by decide
    have h4 : Gen.placeholderFile = "<unknown>".toList := by decide
    have h5 : Gen.placeholderLine = 0 := by decide
    simp only [mkRecord, placeholderLocals, evalLocal, Gen.recName, Gen.recFunction, Gen.recLine,
      Gen.recModule, Gen.recFileName, Gen.recFilePath, Gen.recThreadId, Gen.recThreadName,
      Gen.recProcessId, Gen.recProcessName, Gen.recTime, Gen.recElapsed, Gen.elapsed, h1]
    rw [h3, h4, h5]
    rfl
  unfold logCore
  rw [unpackDepth_ok options depth hopt]
  simp only [hl, lookupName_total]
  exact congrArg _ hph

/-! ### the generated tables -/

/-- GENERATED obligation: every documented logging method is in the table, each reaches `_log`
through exactly one frame (its own), and each hands `_log` options whose depth slot is the
logger's (`exception()` rebuilds the tuple from `_options[1:]`) -/
theorem all_methods_same_distance :
    Gen.methods.map (·.name) =
      ["trace", "debug", "info", "success", "warning", "error", "critical", "exception", "log"].map String.toList ∧
    (∀ m ∈ Gen.methods, m.chain.length = 1) ∧
    (∀ m ∈ Gen.methods, ∀ (c : Int) (opts : List Int), opts.length = 9 →
        (m.opts.eval c opts).length = 9 ∧ (m.opts.eval c opts)[Gen.depthIndex]? = opts[Gen.depthIndex]?) := by
  refine ⟨by decide, by decide, ?_⟩
  intro m hm c opts hlen
  have : m.opts = .selfOptions ∨ m.opts = .prependDrop 1 1 := by
    revert m; decide
  rcases this with h | h <;> rw [h]
  · simp [OptExpr.eval, hlen]
  · match opts, hlen with
    | [a0, a1, a2, a3, a4, a5, a6, a7, a8], _ => simp [OptExpr.eval, Gen.depthIndex]

/-- the options tuple built in `Logger.__init__` has the arity `_log` unpacks; the slot that receives
`opt(depth=…)` is the slot `_log` reads as depth, and `depth` sits in the same slot in `Catcher.__exit__`'s unpacking and in its `catch_options` -/
theorem options_layout_consistent :
    Gen.initOptionNames.length = Gen.optionNames.length ∧ Gen.initDepthIndex = Gen.depthIndex ∧
    Gen.optionNames.length = 9 ∧
    Gen.optionNames[Gen.depthIndex]? = some "depth".toList ∧
    catchUnpackDepthIdx = some Gen.depthIndex ∧ catchRepackDepthIdx = some Gen.depthIndex ∧
    Gen.catchUnpackPrefix.length = Gen.catchRepackPrefix.length := by decide

/-- the frame constants: `get_frame(depth + 2)`; the decorator adds exactly one, `_frames` is added as is and defaults to 0 -/
theorem frame_constants (depth : Int) :
    Gen.frameIndex depth = depth + 2 ∧ Gen.catchDepth true 0 depth = depth + 1 ∧
    Gen.catchDepth false 0 depth = depth ∧ Gen.catchDepth false 1 depth = depth + 1 ∧
    Gen.exitFramesDefault = 0 := by
  refine ⟨?_, ?_, ?_, ?_, by decide⟩
  · unfold Gen.frameIndex; omega
  all_goals (unfold Gen.catchDepth; first | omega | (simp; done) | (simp; omega))

/-- the decorator increment and `_frames` for arbitrary arguments -/
theorem catchDepth_eq (fd : Bool) (fr depth : Int) :
    Gen.catchDepth fd fr depth = depth + (if fd then 1 else 0) + fr := by
  cases fd <;> unfold Gen.catchDepth <;> first | omega | (simp; done) | (simp; omega)

/-! ### the property, per entry point -/

/-- every logging method (direct, or on a logger derived by bind/patch/opt: only `_options`
matters), every user stack, every depth inside the stack: the record identifies the frame `depth`
levels above the frame that made the logging call -/
theorem frame_is_caller_plus_depth (lib : Str → Frame) (m : MethodRow) (hm : m ∈ Gen.methods)
    (opts : List Int) (d : Nat) (hopt : OptionsWithDepth opts d)
    (us : List Frame) (f : Frame) (hf : us[d]? = some f) (ex : Exec) :
    logViaMethod lib m opts us ex = .ok (recordOf f ex) := by
  obtain ⟨_, hdist, hpres⟩ := all_methods_same_distance
  have h1 := hdist m hm
  obtain ⟨hl, hk⟩ := hpres m hm 1 opts hopt.1
  unfold logViaMethod stackAtLog
  rw [← List.cons_append]
  apply logCore_selects (depth := (d : Int)) (d := d) (hf := hf)
  · exact ⟨hl, by simpa [Gen.depthIndex, hopt.2] using hk⟩
  · rw [(frame_constants (d : Int)).1]; simp [h1]; omega

/-- … and beyond the stack the placeholders are used instead of failing -/
theorem beyond_stack_placeholders (lib : Str → Frame) (m : MethodRow) (hm : m ∈ Gen.methods)
    (opts : List Int) (d : Nat) (hopt : OptionsWithDepth opts d)
    (us : List Frame) (hbeyond : us.length ≤ d) (ex : Exec) :
    logViaMethod lib m opts us ex = .ok (placeholderRecord ex) := by
  obtain ⟨_, hdist, hpres⟩ := all_methods_same_distance
  have h1 := hdist m hm
  obtain ⟨hl, hk⟩ := hpres m hm 1 opts hopt.1
  unfold logViaMethod stackAtLog
  rw [← List.cons_append]
  apply logCore_beyond (depth := (d : Int)) (d := d) (hbeyond := hbeyond)
  · exact ⟨hl, by simpa [Gen.depthIndex, hopt.2] using hk⟩
  · rw [(frame_constants (d : Int)).1]; simp [h1]; omega

/-- a selected frame whose globals have no `__name__` (or `None`): `name` is `None`, every other
field still identifies the frame, nothing fails -/
theorem missing_name_is_none (lib : Str → Frame) (m : MethodRow) (hm : m ∈ Gen.methods)
    (opts : List Int) (d : Nat) (hopt : OptionsWithDepth opts d)
    (us : List Frame) (f : Frame) (hf : us[d]? = some f)
    (hname : f.gname = none ∨ f.gname = some none) (ex : Exec) :
    ∃ r, logViaMethod lib m opts us ex = .ok r ∧ r.name = .optStr none ∧
      r.function = .str f.func ∧ r.line = .int f.line ∧ r.filePath = .str f.file := by
  refine ⟨recordOf f ex, frame_is_caller_plus_depth lib m hm opts d hopt us f hf ex, ?_, rfl, rfl, rfl⟩
  rcases hname with h | h <;> simp [recordOf, h]

/-- GENERATED obligation: in every row of `Gen.catchRows` the number of library frames between
`_log` and the user's frame is exactly what the row's depth adjustments compensate:
1 (`__exit__`) + 1 if the Catcher is a decorator's + the `_frames` the row passes -/
theorem catch_rows_balanced :
    ∀ w ∈ Gen.catchRows, (w.chain.length : Int) = 1 + (if w.fromDecorator then 1 else 0) + w.frames ∧ 0 ≤ w.frames := by
  decide

/-- FULL statement: every catch() shape – `with`, `async with`, decorator of a function / generator /
coroutine / async generator (driven by `asend` or by `async for`/`anext`) – identifies the frame
`depth` levels above the user's frame adjacent to the library frames (the frame containing the
block, resp. the caller / iterator of the decorated function). -/
def catch_all_shapes_statement : Prop :=
  ∀ (lib : Str → Frame) (w : CatchRow), w ∈ Gen.catchRows →
  ∀ (opts : List Int) (d : Nat), OptionsWithDepth opts d →
  ∀ (us : List Frame) (f : Frame), us[d]? = some f → ∀ ex : Exec,
    logViaCatch lib w opts us ex = .ok (recordOf f ex)

theorem catchOptions_ok (fd : Bool) (fr a0 d a2 a3 a4 a5 a6 a7 a8 : Int) :
    catchOptions fd fr [a0, d, a2, a3, a4, a5, a6, a7, a8] = .ok [1, Gen.catchDepth fd fr d, 1, a3, a4, a5, a6, a7, a8] := by
  obtain ⟨_, _, _, _, hi, hj, _⟩ := options_layout_consistent
  have hn : Gen.catchUnpackPrefix.length = 3 := by decide
  have hn' : Gen.catchRepackPrefix.length = 3 := by decide
  simp [catchOptions, hi, hj, hn, hn', Gen.depthIndex, List.range, List.range.loop]

/-- the full statement holds of the current code (all seven rows of the generated table) -/
theorem catch_all_shapes : catch_all_shapes_statement := by
  intro lib w hw opts d hopt us f hf ex
  obtain ⟨hlen, hd⟩ := hopt
  obtain ⟨hbal, hfr⟩ := catch_rows_balanced w hw
  match opts, hlen with
  | [a0, a1, a2, a3, a4, a5, a6, a7, a8], _ =>
    simp at hd
    subst hd
    unfold logViaCatch stackAtLog
    simp only [catchOptions_ok]
    rw [← List.cons_append]
    apply logCore_selects (depth := Gen.catchDepth w.fromDecorator w.frames (d : Int)) (d := d) (hf := hf)
    · exact ⟨rfl, rfl⟩
    · have hfi := (frame_constants (Gen.catchDepth w.fromDecorator w.frames (d : Int))).1
      rw [hfi, catchDepth_eq]
      simp only [List.length_cons, List.length_map]
      cases hfd : w.fromDecorator <;> simp [hfd] at hbal ⊢ <;> omega

theorem catch_identifies_user_frame (lib : Str → Frame) (w : CatchRow) (hw : w ∈ Gen.catchRows)
    (opts : List Int) (d : Nat) (hopt : OptionsWithDepth opts d)
    (us : List Frame) (f : Frame) (hf : us[d]? = some f) (ex : Exec) :
    logViaCatch lib w opts us ex = .ok (recordOf f ex) :=
  catch_all_shapes lib w hw opts d hopt us f hf ex

/-- … and beyond the stack every catch() shape uses the placeholders instead of failing -/
theorem catch_beyond_stack_placeholders (lib : Str → Frame) (w : CatchRow) (hw : w ∈ Gen.catchRows)
    (opts : List Int) (d : Nat) (hopt : OptionsWithDepth opts d)
    (us : List Frame) (hbeyond : us.length ≤ d) (ex : Exec) :
    logViaCatch lib w opts us ex = .ok (placeholderRecord ex) := by
  obtain ⟨hlen, hd⟩ := hopt
  obtain ⟨hbal, hfr⟩ := catch_rows_balanced w hw
  match opts, hlen with
  | [a0, a1, a2, a3, a4, a5, a6, a7, a8], _ =>
    simp at hd
    subst hd
    unfold logViaCatch stackAtLog
    simp only [catchOptions_ok]
    rw [← List.cons_append]
    apply logCore_beyond (depth := Gen.catchDepth w.fromDecorator w.frames (d : Int)) (d := d) (hbeyond := hbeyond)
    · exact ⟨rfl, rfl⟩
    · have hfi := (frame_constants (Gen.catchDepth w.fromDecorator w.frames (d : Int))).1
      rw [hfi, catchDepth_eq]
      simp only [List.length_cons, List.length_map]
      cases hfd : w.fromDecorator <;> simp [hfd] at hbal ⊢ <;> omega

/-- DESIGN names: catch() as a decorator identifies the caller of the decorated function … -/
theorem decorator_identifies_caller_of_decorated (lib : Str → Frame) (w : CatchRow) (hw : w ∈ Gen.catchRows)
    (_hdec : w.fromDecorator = true)
    (opts : List Int) (d : Nat) (hopt : OptionsWithDepth opts d)
    (caller : List Frame) (f : Frame) (hf : caller[d]? = some f) (ex : Exec) :
    logViaCatch lib w opts caller ex = .ok (recordOf f ex) :=
  catch_all_shapes lib w hw opts d hopt caller f hf ex

/-- … and as a context manager (`with` and `async with`) the frame containing the block -/
theorem context_manager_identifies_block_frame (lib : Str → Frame) (w : CatchRow) (hw : w ∈ Gen.catchRows)
    (_hshape : w.shape = "with".toList ∨ w.shape = "async with".toList)
    (opts : List Int) (d : Nat) (hopt : OptionsWithDepth opts d)
    (block : List Frame) (f : Frame) (hf : block[d]? = some f) (ex : Exec) :
    logViaCatch lib w opts block ex = .ok (recordOf f ex) :=
  catch_all_shapes lib w hw opts d hopt block f hf ex

/-- the table has a decorator row for every kind of callable `Catcher.__call__` distinguishes (the
async generator both through `asend` and through `__anext__`, which the wrapper class defines itself)
and the two context-manager rows (non-vacuity of the theorems above) -/
theorem catch_rows_present :
    (Gen.catchRows.filter (·.fromDecorator)).map (·.shape) =
      ["coroutine", "generator", "asyncgen.asend", "asyncgen.__anext__", "function"].map String.toList ∧
    (Gen.catchRows.filter (fun w => !w.fromDecorator)).map (·.shape) = ["with", "async with"].map String.toList ∧
    "__anext__".toList ∈ Gen.asyncGenWrapperMethods := by
  decide

/-- regression (finding F23, fixed by ee1ea9d): `async with logger.catch()` at depth 0 names the
frame containing the block, not loguru's own `__aexit__` frame; replayed on the implementation by
harness/c17.py (corpus witness `drive_block`) -/
theorem async_with_witness :
    let lib : Str → Frame := fun fn => { gname := some (some "loguru._logger".toList), file := "_logger.py".toList, func := fn, line := 0 }
    let user : Frame := { gname := some (some "app".toList), file := "app.py".toList, func := "block".toList, line := 3 }
    ∀ w ∈ Gen.catchRows, w.shape = "async with".toList →
      logViaCatch lib w [0, 0, 0, 0, 0, 0, 1, 0, 0] [user] ⟨1, [], 2, [], 10, 3⟩ = .ok (recordOf user ⟨1, [], 2, [], 10, 3⟩) ∧
      w.chain = ["__exit__".toList, "__aexit__".toList] ∧ w.frames = 1 := by
  intro lib user w hw hshape
  refine ⟨catch_all_shapes lib w hw _ 0 ⟨rfl, rfl⟩ [user] user rfl _, ?_⟩
  revert hshape; revert w; decide

/-- regression (finding F24, fixed by 2911d6a): the `async for` path pushes no frame beyond `asend` -/
theorem asyncgen_anext_witness :
    ∀ w ∈ Gen.catchRows, w.shape = "asyncgen.__anext__".toList → w.chain = ["__exit__".toList, "asend".toList] := by
  decide

/-! ### one Catcher object shared by several actors: the depth arithmetic is per call (class of seed C17-l) -/
/-- GENERATED obligation: `Catcher.__exit__` takes the extra-frame correction of the `async with` protocol from a
parameter of the call, and no method assigns an attribute of the (shared) Catcher object after construction -/
theorem exit_frames_are_per_call : Gen.exitFramesSrc = .param ∧ Gen.catcherLaterWrites = [] := by decide

theorem sharedStep_param_inv (flag : Bool) (d : Int) (proto : Nat → Proto) (st : Int × List (Nat × Int)) (x : SStep)
    (hinv : ∀ p ∈ st.2, p.2 = Gen.catchDepth flag (protoFrames (proto p.1)) d) :
    ∀ p ∈ (sharedStep .param flag d proto st x).2, p.2 = Gen.catchDepth flag (protoFrames (proto p.1)) d := by
  obtain ⟨extra, out⟩ := st
  cases x with
  | enter a => simpa [sharedStep] using hinv
  | leave a => simpa [sharedStep] using hinv
  | exit a =>
    intro p hp
    simp only [sharedStep, List.mem_append, List.mem_singleton] at hp
    rcases hp with hp | hp
    · exact hinv p hp
    · subst hp; rfl

theorem foldl_param_inv (flag : Bool) (d : Int) (proto : Nat → Proto) (sched : List SStep) (st : Int × List (Nat × Int))
    (hinv : ∀ p ∈ st.2, p.2 = Gen.catchDepth flag (protoFrames (proto p.1)) d) :
    ∀ p ∈ (sched.foldl (sharedStep .param flag d proto) st).2, p.2 = Gen.catchDepth flag (protoFrames (proto p.1)) d := by
  induction sched generalizing st with
  | nil => simpa using hinv
  | cons x xs ih => exact ih _ (sharedStep_param_inv flag d proto st x hinv)

/-- ONE Catcher object used by any number of actors (threads, tasks, re-entrant uses) through `with` and `async with`
in ANY interleaving of their steps: every exit computes the depth its own protocol calls for – no exit sees the
correction of another one -/
theorem shared_catcher_exits_independent (flag : Bool) (d : Int) (proto : Nat → Proto) (sched : List SStep) :
    ∀ p ∈ (runShared Gen.exitFramesSrc flag d proto sched).2,
      p.2 = Gen.catchDepth flag (protoFrames (proto p.1)) d := by
  rw [exit_frames_are_per_call.1]
  exact foldl_param_inv flag d proto sched _ (by simp)

/-- the shape that keeps the correction on the object is REFUTED: while actor 0 is inside `async with`, actor 1 leaving a
plain `with` on the same object computes depth + 1 (its record would name the caller of the block's function) -/
theorem shared_state_shape_refuted :
    let proto : Nat → Proto := fun a => if a = 0 then .async else .sync
    (1, (1 : Int)) ∈ (runShared .selfAttr false 0 proto [.enter 0, .exit 1, .exit 0, .leave 0]).2 ∧
    Gen.catchDepth false (protoFrames (proto 1)) 0 = 0 := by
  decide

/-- … so that, whatever the interleaving, the record of each actor identifies ITS OWN frame: the frame `d` above the
frame containing that actor's block -/
theorem shared_catcher_identifies_each_actors_frame (lib : Str → Frame) (d : Nat) (proto : Nat → Proto)
    (sched : List SStep) (us : Nat → List Frame) (a3 a4 a5 a6 a7 a8 : Int) (ex : Exec)
    (p : Nat × Int) (hp : p ∈ (runShared Gen.exitFramesSrc false (d : Int) proto sched).2)
    (f : Frame) (hf : (us p.1)[d]? = some f) :
    let chain := match proto p.1 with
      | .sync => ["__exit__".toList]
      | .async => ["__exit__".toList, "__aexit__".toList]
    logCore (stackAtLog lib chain (us p.1)) [1, p.2, 1, a3, a4, a5, a6, a7, a8] ex = .ok (recordOf f ex) := by
  have hdep := shared_catcher_exits_independent false (d : Int) proto sched p hp
  intro chain
  have hasync : asyncRowFrames = 1 := by decide
  have hdef : Gen.exitFramesDefault = 0 := by decide
  unfold stackAtLog
  rw [← List.cons_append]
  apply logCore_selects (depth := p.2) (d := d) (hf := hf)
  · exact ⟨rfl, rfl⟩
  · rw [(frame_constants p.2).1, hdep, catchDepth_eq]
    cases hpr : proto p.1 <;> simp [chain, hpr, protoFrames, hasync, hdef] <;> omega

example : (runShared .param false 0 (fun a => if a = 0 then .async else .sync) [.enter 0, .exit 1, .exit 0, .leave 0]).2
    = [(1, 0), (0, 1)] := by decide

/-! ### `get_frame_fallback` agrees with `sys._getframe` (finding F22, fixed by 3b5d8d8) -/

theorem fallbackWalk_eq_drop (n : Nat) (stack : List Frame) :
    fallbackWalk Gen.fallbackBreaksOnNone n stack = .ok (stack.drop n) := by
  induction n generalizing stack with
  | zero => simp [fallbackWalk]
  | succ n ih =>
    cases stack with
    | nil => simp [fallbackWalk, Gen.fallbackBreaksOnNone]
    | cons f rest => simp [fallbackWalk, ih]

/-- for every stack and every n ≥ 0 the pure-Python fallback returns the frame `sys._getframe(n)`
returns and raises ValueError exactly when it does (so `_log`'s `except ValueError` covers it) -/
theorem fallback_agrees_with_sys_getframe (stack : List Frame) (n : Nat) :
    getFrameFallback stack n = (getFrame stack (n : Int)).map some := by
  unfold getFrameFallback getFrame
  rw [fallbackWalk_eq_drop]
  simp only [Int.toNat_natCast]
  cases h : stack.drop n with
  | nil =>
    have : stack[n]? = none := by
      have := List.drop_eq_nil_iff.mp h
      simpa using this
    simp [this, Gen.fallbackRaisesOnNone, Except.map]
  | cons f rest =>
    have : stack[n]? = some f := by
      have h2 := congrArg List.head? h
      simpa [List.head?_drop] using h2
    simp [this, Except.map]

/-! ### `opt(depth=…)` whatever other options accompany it -/

/-- GENERATED obligation: every return path of `opt()` – the final `Logger(...)` and every delegation
such as the branch of a deprecated spelling – hands its own `depth` parameter on -/
theorem opt_forwards_depth : ∀ p ∈ Gen.optPaths, ∀ d : Int, optDepth p.2 d = d := by
  have h : ∀ p ∈ Gen.optPaths, p.2 = DepthFwd.param := by decide
  intro p hp d
  rw [h p hp]; rfl

/-- `logger.opt(depth=d, <any other options>).<method>(…)`: whichever return path of `opt()` is taken
and whatever options the logger had before, the record identifies the frame `d` levels above the caller -/
theorem opt_then_log_identifies_frame (lib : Str → Frame) (p : Str × DepthFwd) (hp : p ∈ Gen.optPaths)
    (m : MethodRow) (hm : m ∈ Gen.methods) (opts : List Int) (hlen : opts.length = 9) (d : Nat)
    (us : List Frame) (f : Frame) (hf : us[d]? = some f) (ex : Exec) :
    logViaMethod lib m (optOptions p.2 d opts) us ex = .ok (recordOf f ex) := by
  apply frame_is_caller_plus_depth lib m hm _ d ?_ us f hf ex
  have hidx : Gen.initDepthIndex = 1 := by decide
  refine ⟨by simp [optOptions, hlen], ?_⟩
  simp [optOptions, hidx, opt_forwards_depth p hp, hlen]

/-! ### derived loggers: every history of `bind` / `patch` / `opt` from the root logger -/
/-- GENERATED obligation: `bind` and `patch` rebuild the options with the depth slot untouched, `opt`
puts its `depth` parameter into the depth slot; each keeps the arity -/
theorem bind_patch_keep_depth_opt_sets_it (opts : List Int) (hlen : opts.length = 9) (d fresh : Int) :
    (∃ o, deriveWith Gen.bindArgs d fresh opts = .ok o ∧ o.length = 9 ∧ o[1]? = opts[1]?) ∧
    (∃ o, deriveWith Gen.patchArgs d fresh opts = .ok o ∧ o.length = 9 ∧ o[1]? = opts[1]?) ∧
    (∃ o, deriveWith Gen.optArgs d fresh opts = .ok o ∧ o.length = 9 ∧ o[1]? = some d) := by
  match opts, hlen with
  | [a0, a1, a2, a3, a4, a5, a6, a7, a8], _ =>
    refine ⟨?_, ?_, ?_⟩ <;>
      simp [deriveWith, mapE, evalSrc, construct, Gen.bindArgs, Gen.patchArgs, Gen.optArgs, Gen.ctorSlots]


/-- one step of a derivation history carries the depth the documentation says -/
theorem applyDeriv_depth (fresh : Int) (opts : List Int) (d0 : Int) (hopt : OptionsWithDepth opts d0)
    (x : Deriv) (hx : ∀ d fwd, x = .opt d fwd → fwd ∈ Gen.optPaths.map (·.2)) :
    ∃ o, applyDeriv fresh opts x = .ok o ∧ OptionsWithDepth o (specDepth [x] d0) := by
  obtain ⟨hlen, hd⟩ := hopt
  cases x with
  | bind =>
    obtain ⟨⟨o, h1, h2, h3⟩, _, _⟩ := bind_patch_keep_depth_opt_sets_it opts hlen 0 fresh
    exact ⟨o, h1, h2, by simpa [specDepth, hd] using h3⟩
  | patch =>
    obtain ⟨_, ⟨o, h1, h2, h3⟩, _⟩ := bind_patch_keep_depth_opt_sets_it opts hlen 0 fresh
    exact ⟨o, h1, h2, by simpa [specDepth, hd] using h3⟩
  | opt d fwd =>
    have hmem := hx d fwd rfl
    obtain ⟨p, hp, hp2⟩ := List.mem_map.mp hmem
    have hfw : optDepth fwd d = d := by rw [← hp2]; exact opt_forwards_depth p hp d
    obtain ⟨_, _, ⟨o, h1, h2, h3⟩⟩ := bind_patch_keep_depth_opt_sets_it opts hlen (optDepth fwd d) fresh
    exact ⟨o, h1, h2, by simpa [specDepth, hfw] using h3⟩

theorem specDepth_cons (x : Deriv) (xs : List Deriv) (d0 : Int) :
    specDepth (x :: xs) d0 = specDepth xs (specDepth [x] d0) := by
  cases x <;> simp [specDepth]

/-- for EVERY history of derivations – any number of `bind`, `patch` and `opt(depth=…, <any options>)` calls in any
order, each `opt` leaving through any return path the source has – on a logger with any well-formed options: no step
fails and the resulting logger carries the depth of the last `opt` (the original depth when there is none) -/
theorem derivations_carry_last_opt_depth (fresh : Int) (ds : List Deriv) (hds : PathsOfSource ds)
    (opts : List Int) (d0 : Int) (hopt : OptionsWithDepth opts d0) :
    ∃ o, runDerivs fresh ds opts = .ok o ∧ OptionsWithDepth o (specDepth ds d0) := by
  induction ds generalizing opts d0 with
  | nil => exact ⟨opts, rfl, hopt⟩
  | cons x xs ih =>
    obtain ⟨o1, h1, hopt1⟩ := applyDeriv_depth fresh opts d0 hopt x
      (fun d fwd h => hds d fwd (by simp [h]))
    obtain ⟨o, h2, hopt2⟩ := ih (fun d fwd h => hds d fwd (List.mem_cons_of_mem _ h)) o1 _ hopt1
    refine ⟨o, ?_, by rw [specDepth_cons]; exact hopt2⟩
    simp [runDerivs, h1, h2]

/-- GENERATED obligation: the root logger `loguru.logger` is constructed with depth 0 (and with as many options as
`_log` unpacks) -/
theorem root_logger_depth_zero (fresh : Int) :
    ∃ o, rootOptions fresh = .ok o ∧ OptionsWithDepth o 0 := by
  have h : rootOptions fresh = .ok [fresh, 0, fresh, fresh, fresh, fresh, fresh, fresh, fresh] := by
    simp [rootOptions, deriveWith, mapE, evalSrc, construct, Gen.rootArgs, Gen.ctorSlots, Gen.rootDepth]
  exact ⟨_, h, rfl, rfl⟩

/-- `loguru.logger.<any history of bind / patch / opt>.<any method>(…)`: the record identifies the frame `d` levels
above the caller, `d` being the depth of the history's last `opt` (0 without one) – end to end from the constants of
`loguru/__init__.py` through the regenerated derivations to `_log` -/
theorem derived_logger_identifies_frame (lib : Str → Frame) (fresh : Int) (ds : List Deriv) (hds : PathsOfSource ds)
    (m : MethodRow) (hm : m ∈ Gen.methods) (d : Nat) (hd : specDepth ds 0 = (d : Int))
    (us : List Frame) (f : Frame) (hf : us[d]? = some f) (ex : Exec) :
    ∃ o, derivedFromRoot fresh ds = .ok o ∧ logViaMethod lib m o us ex = .ok (recordOf f ex) := by
  obtain ⟨o0, h0, hopt0⟩ := root_logger_depth_zero fresh
  obtain ⟨o, h1, hopt1⟩ := derivations_carry_last_opt_depth fresh ds hds o0 0 hopt0
  rw [hd] at hopt1
  exact ⟨o, by simp [derivedFromRoot, h0, h1], frame_is_caller_plus_depth lib m hm o d hopt1 us f hf ex⟩

/-- … beyond the stack the placeholders … -/
theorem derived_logger_beyond_stack (lib : Str → Frame) (fresh : Int) (ds : List Deriv) (hds : PathsOfSource ds)
    (m : MethodRow) (hm : m ∈ Gen.methods) (d : Nat) (hd : specDepth ds 0 = (d : Int))
    (us : List Frame) (hbeyond : us.length ≤ d) (ex : Exec) :
    ∃ o, derivedFromRoot fresh ds = .ok o ∧ logViaMethod lib m o us ex = .ok (placeholderRecord ex) := by
  obtain ⟨o0, h0, hopt0⟩ := root_logger_depth_zero fresh
  obtain ⟨o, h1, hopt1⟩ := derivations_carry_last_opt_depth fresh ds hds o0 0 hopt0
  rw [hd] at hopt1
  exact ⟨o, by simp [derivedFromRoot, h0, h1], beyond_stack_placeholders lib m hm o d hopt1 us hbeyond ex⟩

/-- … and `catch()` taken from any derived logger (every shape of the table) identifies the frame `d` above the block's
frame / the caller of the decorated function -/
theorem derived_logger_catch_identifies_frame (lib : Str → Frame) (fresh : Int) (ds : List Deriv) (hds : PathsOfSource ds)
    (w : CatchRow) (hw : w ∈ Gen.catchRows) (d : Nat) (hd : specDepth ds 0 = (d : Int))
    (us : List Frame) (f : Frame) (hf : us[d]? = some f) (ex : Exec) :
    ∃ o, derivedFromRoot fresh ds = .ok o ∧ logViaCatch lib w o us ex = .ok (recordOf f ex) := by
  obtain ⟨o0, h0, hopt0⟩ := root_logger_depth_zero fresh
  obtain ⟨o, h1, hopt1⟩ := derivations_carry_last_opt_depth fresh ds hds o0 0 hopt0
  rw [hd] at hopt1
  exact ⟨o, by simp [derivedFromRoot, h0, h1], catch_all_shapes lib w hw o d hopt1 us f hf ex⟩

example : PathsOfSource [.bind, .opt 3 .param, .patch, .opt 1 .param, .bind] ∧
    specDepth [.bind, .opt 3 .param, .patch, .opt 1 .param, .bind] 0 = 1 := by
  refine ⟨?_, rfl⟩
  intro d fwd h
  have : fwd = .param := by
    simp at h; rcases h with h | h <;> exact h.2
  rw [this]; decide
example : derivedFromRoot 7 [.bind, .opt 3 .param, .patch] = .ok [7, 3, 7, 7, 7, 7, 7, 7, 7] := by rfl

/-! ### thread, process, time, elapsed; totality -/

/-- whatever frame is selected (inside the stack, beyond it, even for a negative depth): the call
does not fail, and thread / process / time are those of the executing context and
`elapsed = now - start_time` -/
theorem never_fails_and_identifies_context (stack : List Frame) (options : List Int) (depth : Int)
    (hopt : OptionsWithDepth options depth) (ex : Exec) :
    ∃ r, logCore stack options ex = .ok r ∧
      r.threadId = .int ex.threadId ∧ r.threadName = .str ex.threadName ∧
      r.processId = .int ex.processId ∧ r.processName = .str ex.processName ∧
      r.time = .int ex.now ∧ r.elapsed = .int (ex.now - ex.start) := by
  unfold logCore
  rw [unpackDepth_ok options depth hopt]
  have hsel : ∃ l, selectLocals stack depth = .ok l := by
    unfold selectLocals getFrame
    cases stack[(Gen.frameIndex depth).toNat]? with
    | some f => exact ⟨_, rfl⟩
    | none => exact ⟨placeholderLocals, by simp [Gen.beyondStackHandled]⟩
  obtain ⟨l, hl⟩ := hsel
  simp only [hl, lookupName_total]
  refine ⟨_, rfl, ?_⟩
  simp [mkRecord, evalLocal, Gen.recThreadId, Gen.recThreadName, Gen.recProcessId, Gen.recProcessName,
    Gen.recTime, Gen.recElapsed, Gen.elapsed]

/-- every entry point inherits totality: a logging method on any stack with any depth ≥ 0 … -/
theorem methods_never_fail (lib : Str → Frame) (m : MethodRow) (hm : m ∈ Gen.methods)
    (opts : List Int) (depth : Int) (hopt : OptionsWithDepth opts depth) (us : List Frame) (ex : Exec) :
    ∃ r, logViaMethod lib m opts us ex = .ok r := by
  obtain ⟨_, _, hpres⟩ := all_methods_same_distance
  obtain ⟨hl, hk⟩ := hpres m hm 1 opts hopt.1
  have hopt' : OptionsWithDepth (m.opts.eval 1 opts) depth :=
    ⟨hl, by simpa [Gen.depthIndex, hopt.2] using hk⟩
  obtain ⟨r, hr, _⟩ := never_fails_and_identifies_context (stackAtLog lib m.chain us) _ depth hopt' ex
  exact ⟨r, hr⟩

/-- GENERATED obligation: `_log` looks the calling thread and the calling process up on every call -/
theorem context_looked_up_per_call : Gen.threadLookup = .perCall ∧ Gen.processLookup = .perCall := by decide

/-- for EVERY history of logging calls – any contexts, i.e. any interleaving of threads, child
processes, renamings of threads and processes between calls, whatever the context at import and
whatever earlier calls cached – each call reads exactly the context it is made in -/
theorem context_fresh_every_call (imported : Exec) (cache : List (Int × Exec)) (history : List Exec) :
    runHistory imported cache history = history.map some := by
  induction history generalizing cache with
  | nil => rfl
  | cons now rest ih =>
    unfold runHistory
    cases cache.lookup now.threadId <;>
      simp [effectiveExec, lookupCtx, Gen.threadLookup, Gen.processLookup, ih]

/-- the history model with the generated policies is the general one instantiated -/
theorem runHistory_eq_with (imported : Exec) (cache : List (Int × Exec)) (history : List Exec) :
    runHistory imported cache history = runHistoryWith Gen.threadLookup Gen.processLookup imported cache history := by
  induction history generalizing cache with
  | nil => rfl
  | cons now rest ih =>
    unfold runHistory runHistoryWith
    cases cache.lookup now.threadId <;> simp [effectiveExec, effectiveExecWith, ih]

/-- anything remembered per thread (or at import) is REFUTED by `os.fork()`: the child runs in the forking thread – same
thread ident, same thread-locals, same module globals – but is another process; a record made there with a process kept
from the thread's first call (or from import) carries the PARENT's pid -/
theorem cache_across_fork_refuted :
    let parent : Exec := ⟨7, "MainThread".toList, 100, "MainProcess".toList, 10, 0⟩
    let child : Exec := ⟨7, "MainThread".toList, 101, "MainProcess".toList, 20, 0⟩
    (runHistoryWith .perCall .cachedPerThread parent [] [parent, child]).map (Option.map (·.processId)) = [some 100, some 100] ∧
    (runHistoryWith .perCall .atImport parent [] [parent, child]).map (Option.map (·.processId)) = [some 100, some 100] ∧
    (runHistoryWith .perCall .perCall parent [] [parent, child]).map (Option.map (·.processId)) = [some 100, some 101] := by
  decide

/-- GENERATED obligation: `aware_now()` takes one reading of the clock and derives the tzinfo from that very reading
through the cache-free `_get_tzinfo` -/
theorem time_zone_looked_up_per_call : Gen.tzLookup = .perCall := by decide

/-- for EVERY history of calls – whatever the local UTC offset was at import, at the first call and at each later call
(DST switches, `time.tzset()` in between) – the `time` of each record carries the offset in force at ITS call -/
theorem time_offset_fresh_every_call (imported : Int) (first : Option Int) (history : List Int) :
    runOffsets Gen.tzLookup imported first history = history.map some := by
  rw [time_zone_looked_up_per_call]
  induction history generalizing first with
  | nil => cases first <;> rfl
  | cons now rest ih =>
    cases first <;> simp [runOffsets, lookupVal, ih]

/-- a tzinfo kept from the first call (or from import) is refuted by a history with one change of the offset -/
theorem cached_offset_refuted :
    runOffsets .cachedPerThread 0 none [3600, 7200] ≠ [some 3600, some 7200] ∧
    runOffsets .atImport 0 none [3600] ≠ [some 3600] := by decide

example : runOffsets .perCall 0 none [3600, 7200, 3600] = [some 3600, some 7200, some 3600] := by decide

/-- `elapsed` never decreases over any sequence of calls whose clock readings do not decrease
(the hypothesis is the wall clock's, not the code's) -/
theorem elapsed_monotone_if_clock_monotone (start : Int) (readings : List Int)
    (hclock : readings.Pairwise (· ≤ ·)) :
    (readings.map (fun now => Gen.elapsed now start)).Pairwise (· ≤ ·) := by
  rw [List.pairwise_map]
  exact hclock.imp (by intro a b h; simp only [Gen.elapsed]; omega)

/-- … and it is non-negative for calls made after the module was imported -/
theorem elapsed_nonneg (start now : Int) (h : start ≤ now) : 0 ≤ Gen.elapsed now start := by
  simp only [Gen.elapsed]; omega

/-! ### the real `sys._getframe`: C `int` conversion of the index (finding F30) -/
/-- GENERATED obligation: the handler of the `get_frame` try in `_log` covers OverflowError as well (F30) -/
theorem overflow_handled : Gen.overflowHandled = true ∧ Gen.beyondStackHandled = true := by decide

/-- inside the C `int` range the interpreter's `sys._getframe` is the mathematical one -/
theorem getFrameC_eq_in_range (stack : List Frame) (n : Int) (h1 : cIntMin ≤ n) (h2 : n ≤ cIntMax) :
    getFrameC stack n = getFrame stack n := by
  unfold getFrameC
  have : ¬ (n < cIntMin ∨ cIntMax < n) := by omega
  simp [this]

theorem selectLocalsC_eq_in_range (stack : List Frame) (depth : Int)
    (h1 : cIntMin ≤ Gen.frameIndex depth) (h2 : Gen.frameIndex depth ≤ cIntMax) :
    selectLocalsC stack depth = selectLocals stack depth := by
  unfold selectLocalsC selectLocals
  rw [getFrameC_eq_in_range stack _ h1 h2]
  unfold getFrame
  cases stack[(Gen.frameIndex depth).toNat]? <;> rfl

/-- whenever the index handed to `sys._getframe` is a C int – in particular for every depth inside a real stack – `_log`
with the real `sys._getframe` is the `_log` the index theorems speak about -/
theorem logCoreC_eq_logCore_in_range (stack : List Frame) (options : List Int) (depth : Int) (ex : Exec)
    (hopt : OptionsWithDepth options depth)
    (h1 : cIntMin ≤ Gen.frameIndex depth) (h2 : Gen.frameIndex depth ≤ cIntMax) :
    logCoreC stack options ex = logCore stack options ex := by
  unfold logCoreC logCore
  rw [unpackDepth_ok options depth hopt]
  simp only [selectLocalsC_eq_in_range stack depth h1 h2]

theorem mkRecord_placeholder (ex : Exec) : mkRecord placeholderLocals none ex = placeholderRecord ex := by
  have h1 : basename Gen.placeholderFile = "<unknown>".toList := by decide
  have h3 : Gen.placeholderFunction = "<unknown>".toList := by decide
  have h4 : Gen.placeholderFile = "<unknown>".toList := by decide
  have h5 : Gen.placeholderLine = 0 := by decide
  simp only [mkRecord, placeholderLocals, evalLocal, Gen.recName, Gen.recFunction, Gen.recLine,
    Gen.recModule, Gen.recFileName, Gen.recFilePath, Gen.recThreadId, Gen.recThreadName,
    Gen.recProcessId, Gen.recProcessName, Gen.recTime, Gen.recElapsed, Gen.elapsed, h1]
  rw [h3, h4, h5]
  rfl

/-- an index outside the C `int` range (depth ≥ 2³¹-2, or ≤ -2³¹-3): `sys._getframe` raises OverflowError before it
looks at any frame, and `_log` answers with the placeholder record – whatever the stack -/
theorem overflowing_depth_uses_placeholders (stack : List Frame) (options : List Int) (depth : Int) (ex : Exec)
    (hopt : OptionsWithDepth options depth)
    (hout : Gen.frameIndex depth < cIntMin ∨ cIntMax < Gen.frameIndex depth) :
    logCoreC stack options ex = .ok (placeholderRecord ex) := by
  unfold logCoreC
  rw [unpackDepth_ok options depth hopt]
  have hl : selectLocalsC stack depth = .ok placeholderLocals := by
    unfold selectLocalsC getFrameC
    simp [hout, overflow_handled.1]
  simp only [hl, lookupName_total]
  exact congrArg _ (mkRecord_placeholder ex)

/-- `_log` with the real `sys._getframe` never fails: for EVERY stack and EVERY integer depth (2⁶³, -2⁷⁰, …) a record
is produced whose thread / process / time are the executing context's -/
theorem never_fails_any_integer_depth (stack : List Frame) (options : List Int) (depth : Int)
    (hopt : OptionsWithDepth options depth) (ex : Exec) :
    ∃ r, logCoreC stack options ex = .ok r ∧
      r.threadId = .int ex.threadId ∧ r.threadName = .str ex.threadName ∧
      r.processId = .int ex.processId ∧ r.processName = .str ex.processName ∧
      r.time = .int ex.now ∧ r.elapsed = .int (ex.now - ex.start) := by
  by_cases hout : Gen.frameIndex depth < cIntMin ∨ cIntMax < Gen.frameIndex depth
  · exact ⟨_, overflowing_depth_uses_placeholders stack options depth ex hopt hout, rfl, rfl, rfl, rfl, rfl, rfl⟩
  · rw [logCoreC_eq_logCore_in_range stack options depth ex hopt (by omega) (by omega)]
    exact never_fails_and_identifies_context stack options depth hopt ex

/-- every logging method, EVERY depth beyond the stack – `len(stack)`, 2³¹-3, 2³¹-2, 2⁶³, … – yields the placeholder
record with the real `sys._getframe` (below 2³¹-2 through ValueError, from there on through OverflowError) -/
theorem beyond_stack_placeholders_every_depth (lib : Str → Frame) (m : MethodRow) (hm : m ∈ Gen.methods)
    (opts : List Int) (d : Nat) (hopt : OptionsWithDepth opts d)
    (us : List Frame) (hbeyond : us.length ≤ d) (ex : Exec) :
    logViaMethodC lib m opts us ex = .ok (placeholderRecord ex) := by
  obtain ⟨_, _, hpres⟩ := all_methods_same_distance
  obtain ⟨hl, hk⟩ := hpres m hm 1 opts hopt.1
  have hopt' : OptionsWithDepth (m.opts.eval 1 opts) (d : Int) :=
    ⟨hl, by simpa [Gen.depthIndex, hopt.2] using hk⟩
  have hfi := (frame_constants (d : Int)).1
  unfold logViaMethodC
  by_cases hout : cIntMax < Gen.frameIndex (d : Int)
  · exact overflowing_depth_uses_placeholders _ _ _ ex hopt' (Or.inr hout)
  · rw [logCoreC_eq_logCore_in_range _ _ (d : Int) ex hopt' (by rw [hfi]; unfold cIntMin; omega) (by omega)]
    exact beyond_stack_placeholders lib m hm opts d hopt us hbeyond ex

/-- … and a frame inside a stack of realistic size (index within the C int range) is identified as before -/
theorem frame_is_caller_plus_depth_real_getframe (lib : Str → Frame) (m : MethodRow) (hm : m ∈ Gen.methods)
    (opts : List Int) (d : Nat) (hopt : OptionsWithDepth opts d) (hreal : (d : Int) + 2 ≤ cIntMax)
    (us : List Frame) (f : Frame) (hf : us[d]? = some f) (ex : Exec) :
    logViaMethodC lib m opts us ex = .ok (recordOf f ex) := by
  obtain ⟨_, _, hpres⟩ := all_methods_same_distance
  obtain ⟨hl, hk⟩ := hpres m hm 1 opts hopt.1
  have hopt' : OptionsWithDepth (m.opts.eval 1 opts) (d : Int) :=
    ⟨hl, by simpa [Gen.depthIndex, hopt.2] using hk⟩
  have hfi := (frame_constants (d : Int)).1
  unfold logViaMethodC
  rw [logCoreC_eq_logCore_in_range _ _ (d : Int) ex hopt' (by rw [hfi]; unfold cIntMin; omega) (by rw [hfi]; exact hreal)]
  exact frame_is_caller_plus_depth lib m hm opts d hopt us f hf ex

/-- every catch() shape, every depth beyond the stack up to any size: placeholders (the decorator / `_frames`
increments can push the index over 2³¹-1 as well) -/
theorem catch_beyond_stack_placeholders_every_depth (lib : Str → Frame) (w : CatchRow) (hw : w ∈ Gen.catchRows)
    (opts : List Int) (d : Nat) (hopt : OptionsWithDepth opts d)
    (us : List Frame) (hbeyond : us.length ≤ d) (ex : Exec) :
    logViaCatchC lib w opts us ex = .ok (placeholderRecord ex) := by
  have hold := catch_beyond_stack_placeholders lib w hw opts d hopt us hbeyond ex
  obtain ⟨hlen, hd⟩ := hopt
  obtain ⟨hbal, hfr⟩ := catch_rows_balanced w hw
  match opts, hlen with
  | [a0, a1, a2, a3, a4, a5, a6, a7, a8], _ =>
    simp at hd
    subst hd
    unfold logViaCatchC
    unfold logViaCatch at hold
    simp only [catchOptions_ok] at hold ⊢
    have hopt' : OptionsWithDepth [1, Gen.catchDepth w.fromDecorator w.frames (d : Int), 1, a3, a4, a5, a6, a7, a8]
        (Gen.catchDepth w.fromDecorator w.frames (d : Int)) := ⟨rfl, rfl⟩
    have hfi := (frame_constants (Gen.catchDepth w.fromDecorator w.frames (d : Int))).1
    have hnn : 0 ≤ Gen.catchDepth w.fromDecorator w.frames (d : Int) := by
      rw [catchDepth_eq]; cases w.fromDecorator <;> simp <;> omega
    by_cases hout : cIntMax < Gen.frameIndex (Gen.catchDepth w.fromDecorator w.frames (d : Int))
    · exact overflowing_depth_uses_placeholders _ _ _ ex hopt' (Or.inr hout)
    · rw [logCoreC_eq_logCore_in_range _ _ _ ex hopt' (by rw [hfi]; unfold cIntMin; omega) (by omega)]
      exact hold

/-- regression (finding F30, fixed by 3f4f1c9): `logger.opt(depth=2**31 - 2).<method>(…)` and `opt(depth=2**63)` yield
the placeholder record instead of raising OverflowError – replayed on the implementation (corpus 011–013) -/
theorem huge_depth_witness (lib : Str → Frame) (us : List Frame) (ex : Exec) :
    ∀ m ∈ Gen.methods,
      logViaMethodC lib m [0, 2147483646, 0, 0, 0, 0, 1, 0, 0] us ex = .ok (placeholderRecord ex) ∧
      logViaMethodC lib m [0, 9223372036854775808, 0, 0, 0, 0, 1, 0, 0] us ex = .ok (placeholderRecord ex) := by
  intro m hm
  obtain ⟨_, _, hpres⟩ := all_methods_same_distance
  constructor
  · obtain ⟨hl, hk⟩ := hpres m hm 1 [0, 2147483646, 0, 0, 0, 0, 1, 0, 0] rfl
    exact overflowing_depth_uses_placeholders _ _ 2147483646 ex ⟨hl, by simpa [Gen.depthIndex] using hk⟩
      (Or.inr (by rw [(frame_constants _).1]; decide))
  · obtain ⟨hl, hk⟩ := hpres m hm 1 [0, 9223372036854775808, 0, 0, 0, 0, 1, 0, 0] rfl
    exact overflowing_depth_uses_placeholders _ _ 9223372036854775808 ex ⟨hl, by simpa [Gen.depthIndex] using hk⟩
      (Or.inr (by rw [(frame_constants _).1]; decide))

example : getFrameC [] 2147483648 = .error .other ∧ getFrame [] 2147483648 = .error .valueError := ⟨rfl, rfl⟩
example : cIntMax < Gen.frameIndex 2147483646 ∧ ¬ cIntMax < Gen.frameIndex 2147483645 := by decide

/-- GENERATED obligation: in a handler format `{thread}` and `{process}` render the IDENTIFIER of the calling thread /
process and `{file}` the file name (the `__format__` methods of `_recattrs.py`) -/
theorem record_objects_format_as_identifier :
    Gen.recFormat = [("file".toList, "name".toList), ("thread".toList, "id".toList), ("process".toList, "id".toList)] := by
  decide

/-- every catch() shape with the real `sys._getframe`: a frame inside a stack of realistic size is identified -/
theorem catch_all_shapes_real_getframe (lib : Str → Frame) (w : CatchRow) (hw : w ∈ Gen.catchRows)
    (opts : List Int) (d : Nat) (hopt : OptionsWithDepth opts d) (hreal : (d : Int) + 4 ≤ cIntMax)
    (us : List Frame) (f : Frame) (hf : us[d]? = some f) (ex : Exec) :
    logViaCatchC lib w opts us ex = .ok (recordOf f ex) := by
  have hch : w.chain.length ≤ 3 := (show ∀ w ∈ Gen.catchRows, w.chain.length ≤ 3 by decide) w hw
  have hold := catch_all_shapes lib w hw opts d hopt us f hf ex
  obtain ⟨hlen, hd⟩ := hopt
  obtain ⟨hbal, hfr⟩ := catch_rows_balanced w hw
  match opts, hlen with
  | [a0, a1, a2, a3, a4, a5, a6, a7, a8], _ =>
    simp at hd
    subst hd
    unfold logViaCatchC
    unfold logViaCatch at hold
    simp only [catchOptions_ok] at hold ⊢
    have hopt' : OptionsWithDepth [1, Gen.catchDepth w.fromDecorator w.frames (d : Int), 1, a3, a4, a5, a6, a7, a8]
        (Gen.catchDepth w.fromDecorator w.frames (d : Int)) := ⟨rfl, rfl⟩
    have hfi := (frame_constants (Gen.catchDepth w.fromDecorator w.frames (d : Int))).1
    have hcd := catchDepth_eq w.fromDecorator w.frames (d : Int)
    have hb : Gen.catchDepth w.fromDecorator w.frames (d : Int) = (d : Int) + (w.chain.length : Int) - 1 := by
      rw [hcd]; cases hfd : w.fromDecorator <;> simp [hfd] at hbal ⊢ <;> omega
    rw [logCoreC_eq_logCore_in_range _ _ _ ex hopt' (by rw [hfi, hb]; unfold cIntMin; omega)
      (by rw [hfi, hb]; unfold cIntMax at hreal ⊢; omega)]
    exact hold

/-! ### what `depth` means: dropping frames -/

/-- logging with depth `d` is logging with depth 0 from the stack with `d` frames removed – a
wrapper that logs with `opt(depth=1)` is indistinguishable from its caller logging directly -/
theorem depth_is_stack_drop (lib : Str → Frame) (m : MethodRow) (hm : m ∈ Gen.methods)
    (a0 a2 a3 a4 a5 a6 a7 a8 : Int) (d : Nat) (us : List Frame) (ex : Exec) :
    logViaMethod lib m [a0, (d : Int), a2, a3, a4, a5, a6, a7, a8] us ex =
    logViaMethod lib m [a0, 0, a2, a3, a4, a5, a6, a7, a8] (us.drop d) ex := by
  cases hf : us[d]? with
  | some f =>
    rw [frame_is_caller_plus_depth lib m hm _ d ⟨rfl, rfl⟩ us f hf ex,
        frame_is_caller_plus_depth lib m hm _ 0 ⟨rfl, rfl⟩ (us.drop d) f (by simpa using hf) ex]
  | none =>
    have hlen : us.length ≤ d := by simpa using hf
    rw [beyond_stack_placeholders lib m hm _ d ⟨rfl, rfl⟩ us hlen ex,
        beyond_stack_placeholders lib m hm _ 0 ⟨rfl, rfl⟩ (us.drop d) (by simp; omega) ex]

/-! ### file name and module -/

theorem basenameGo_spec (acc p : Str) :
    (∃ pre, acc ++ p = pre ++ basenameGo acc p) ∧ ('/' ∉ acc → '/' ∉ basenameGo acc p) := by
  induction p generalizing acc with
  | nil => exact ⟨⟨[], by simp [basenameGo]⟩, by simp [basenameGo]⟩
  | cons c cs ih =>
    unfold basenameGo
    by_cases hc : c = '/'
    · simp only [hc, ↓reduceIte]
      obtain ⟨⟨pre, hpre⟩, hno⟩ := ih []
      refine ⟨⟨acc ++ '/' :: pre, ?_⟩, fun _ => hno (by simp)⟩
      have hcs : cs = pre ++ basenameGo [] cs := by simpa using hpre
      rw [List.append_assoc, List.cons_append, ← hcs]
    · simp only [hc, ↓reduceIte]
      obtain ⟨⟨pre, hpre⟩, hno⟩ := ih (acc ++ [c])
      refine ⟨⟨pre, by simpa using hpre⟩, fun h => hno ?_⟩
      simp [h]; exact fun h' => hc h'.symm

/-- `file.name` is the part of `file.path` after the last '/': a suffix without '/' -/
theorem file_name_is_last_component (p : Str) :
    (∃ pre, p = pre ++ basename p) ∧ '/' ∉ basename p := by
  obtain ⟨⟨pre, h⟩, hno⟩ := basenameGo_spec [] p
  exact ⟨⟨pre, by simpa [basename] using h⟩, by simpa [basename] using hno (by simp)⟩

theorem splitLastDot_spec (s a b : Str) (h : splitLastDot s = some (a, b)) : s = a ++ '.' :: b ∧ '.' ∉ b := by
  induction s generalizing a b with
  | nil => simp [splitLastDot] at h
  | cons c cs ih =>
    unfold splitLastDot at h
    cases hs : splitLastDot cs with
    | some ab =>
      obtain ⟨a', b'⟩ := ab
      simp only [hs, Option.some.injEq, Prod.mk.injEq] at h
      obtain ⟨rfl, rfl⟩ := h
      obtain ⟨h1, h2⟩ := ih a' b' hs
      exact ⟨by simp [← h1], h2⟩
    | none =>
      simp only [hs] at h
      by_cases hc : c = '.'
      · simp only [hc, ↓reduceIte, Option.some.injEq, Prod.mk.injEq] at h
        obtain ⟨rfl, rfl⟩ := h
        refine ⟨by simp [hc], ?_⟩
        clear ih
        induction cs with
        | nil => simp
        | cons x xs ihx =>
          unfold splitLastDot at hs
          cases hx : splitLastDot xs with
          | some ab => simp [hx] at hs
          | none =>
            simp only [hx] at hs
            by_cases hxd : x = '.'
            · simp [hxd] at hs
            · simp only [List.mem_cons, not_or]
              exact ⟨fun h => hxd h.symm, ihx hx⟩
      · simp [hc] at h

/-- `module` is `file.name` without its last extension: a prefix of it, and what was cut starts
with the last '.' of the name -/
theorem module_is_file_name_without_extension (name : Str) :
    stem name = name ∨ ∃ ext, name = stem name ++ '.' :: ext ∧ '.' ∉ ext := by
  unfold stem
  cases h : splitLastDot name with
  | none => simp
  | some ab =>
    obtain ⟨a, b⟩ := ab
    simp only
    split
    · exact Or.inl rfl
    · exact Or.inr ⟨b, splitLastDot_spec name a b h⟩

/-! ### non-vacuity -/

example : ∃ m, m ∈ Gen.methods ∧ m.name = "exception".toList ∧ m.opts = .prependDrop 1 1 := by decide
example : OptionsWithDepth [0, 3, 0, 0, 0, 0, 1, 0, 0] 3 := ⟨rfl, rfl⟩
example :
    let lib : Str → Frame := fun fn => ⟨some (some "loguru._logger".toList), "_logger.py".toList, fn, 0⟩
    let f0 : Frame := ⟨some (some "app".toList), "/srv/app.py".toList, "handler".toList, 10⟩
    let f1 : Frame := ⟨none, "<string>".toList, "<module>".toList, 1⟩
    ∀ m ∈ Gen.methods,
      logViaMethod lib m [0, 1, 0, 0, 0, 0, 1, 0, 0] [f0, f1] ⟨7, [], 8, [], 100, 40⟩
        = .ok (recordOf f1 ⟨7, [], 8, [], 100, 40⟩) ∧
      (recordOf f1 ⟨7, [], 8, [], 100, 40⟩).name = .optStr none ∧
      (recordOf f0 ⟨7, [], 8, [], 100, 40⟩).module = .str "app".toList := by
  intro lib f0 f1 m hm
  exact ⟨frame_is_caller_plus_depth lib m hm _ 1 ⟨rfl, rfl⟩ [f0, f1] f1 rfl _, by decide, by decide⟩
example : [1, 5, 5, 9].Pairwise (· ≤ ·) := by decide

end C17
