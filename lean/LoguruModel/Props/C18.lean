import LoguruModel.FileSink.CompLemmas
import LoguruModel.FileSink.RenamePathLemmas
import LoguruModel.FileSink.RotateUsable
/-!
C18 – compression is lossless (relative to the codec contract), removes the source only after success,
never overwrites.  Only property theorems and non-vacuity examples.  `compression` is the model of
`Compression.compression`, interpreted over the statement order GENERATED from /repo; every theorem
holds for every directory, every file content, every collision chain and every fault vector.
-/
namespace C18
open FileSink Py

/-- the codec behind an archive format: an oracle with the contract `decompress ∘ compress = id`
(checked on every archive by harness/c18.py, not proved) -/
structure Codec (β : Type) where
  enc : List Nat → β
  dec : β → Option (List Nat)
  contract : ∀ c, dec (enc c) = some c

/-- **archive_roundtrip**: after a successful `Compression.compression` the archive `<file>.<ext>` holds
exactly the closed file's content (under the file's base name for tar/zip, see `member_is_basename`), the
source no longer exists, and any codec satisfying the contract gives the content back. -/
theorem archive_roundtrip {β} (codec : Codec β) (k : CompKind) (p : Name) (ct : Nat) (w w' : W) (e : Entry) (u : Unit)
    (he : w.fs.get p = some e) (h : compression k p ct w = (.ok u, w')) :
    w'.fs.get (.arc p) = some (.arch (innerOf k p) e.content) ∧ w'.fs.get p = none ∧
    codec.dec (codec.enc e.content) = some e.content := by
  have := compression_exact k p ct w.fs w rfl
  rw [h] at this
  obtain ⟨⟨e', he', harc⟩, hp, _⟩ := this
  rw [he] at he'; cases he'
  exact ⟨harc, hp, codec.contract _⟩

theorem member_is_basename (p : Name) :
    innerOf .add p = .member p ∧ innerOf .write p = .member p ∧ innerOf .copy p = .stream := by
  simp [innerOf, Gen.memberIsBasename]

/-- **source_removed_only_after_success**: whatever primitive fails inside `Compression.compression`
(ctime, collision rename, opening the source or the archive, copying, the final remove), the source file
is still there with unchanged content. -/
theorem source_removed_only_after_success (k : CompKind) (p : Name) (ct : Nat) (w w' : W) (err : Err)
    (h : compression k p ct w = (.error err, w')) : w'.fs.get p = w.fs.get p := by
  have := compression_exact k p ct w.fs w rfl
  rw [h] at this
  exact this.1

/-- **compression_swallows_no_fault**: `Compression.compression` returns normally only if NONE of the
primitives it performed failed – whatever the kind of failure (the model's fault is any `OSError`, the errno is
not looked at: ENOSPC, EDQUOT, EIO, EACCES … are all the same `true` bit).  With `archive_roundtrip` this
gives: a failure at any step of archive creation is reported and leaves the source in place. -/
theorem compression_swallows_no_fault (k : CompKind) (p : Name) (ct : Nat) (w w' : W) (u : Unit)
    (h : compression k p ct w = (.ok u, w')) :
    ∃ consumed, w.faults = consumed ++ w'.faults ∧ ∀ b ∈ consumed, b = false := by
  have := compression_nf w.faults k p ct w ⟨[], rfl, by intro b hb; cases hb⟩
  rw [h] at this
  exact this

/-- contrapositive, in the form the property states it: if some primitive of the compression fails (the first
`true` bit is reached), the call raises and the source file is untouched -/
theorem compression_fault_reported (k : CompKind) (p : Name) (ct : Nat) (w : W) (n : Nat)
    (hfault : w.faults = List.replicate n false ++ [true]) :
    (∃ e, (compression k p ct w).1 = .error e ∧ (compression k p ct w).2.fs.get p = w.fs.get p) ∨
    (compression k p ct w).2.faults ≠ [] := by
  match hm : compression k p ct w with
  | (.error e, w') =>
    exact Or.inl ⟨e, rfl, source_removed_only_after_success k p ct w w' e hm⟩
  | (.ok u, w') =>
    refine Or.inr ?_
    obtain ⟨consumed, h1, h2⟩ := compression_swallows_no_fault k p ct w w' u hm
    intro hnil
    have hnil' : w'.faults = [] := hnil
    rw [hnil', List.append_nil] at h1
    have : true ∈ consumed := by rw [← h1, hfault]; simp
    exact absurd (h2 true this) (by decide)

/-- **existing_archive_renamed_not_overwritten**: an archive already present under the target name is,
in every outcome, still available unchanged – under its own name (failure before the rename) or under a
name that did not exist before (`generate_rename_path`: creation date, then a counter of any length). -/
theorem existing_archive_renamed_not_overwritten (k : CompKind) (p : Name) (ct : Nat) (w : W) (a : Entry)
    (ha : w.fs.get (.arc p) = some a) :
    (compression k p ct w).2.fs.get (.arc p) = some a ∨
    ∃ r, w.fs.get r = none ∧ (compression k p ct w).2.fs.get r = some a := by
  have := compression_exact k p ct w.fs w rfl
  match hm : compression k p ct w with
  | (.ok u, w') =>
    rw [hm] at this
    exact Or.inr (this.2.2 a ha)
  | (.error e, w') =>
    rw [hm] at this
    exact this.2 a ha

/-- a successful compression always moved the old archive away (never left under the target name) -/
theorem existing_archive_moved_on_success (k : CompKind) (p : Name) (ct : Nat) (w w' : W) (a : Entry) (u : Unit)
    (ha : w.fs.get (.arc p) = some a) (h : compression k p ct w = (.ok u, w')) :
    ∃ r, w.fs.get r = none ∧ w'.fs.get r = some a := by
  have := compression_exact k p ct w.fs w rfl
  rw [h] at this
  exact this.2.2 a ha

/-- **callable_once_with_current_path** (1): `_terminate_file` hands the compression the path under which
the closed file exists *now* – the renamed path when the same-name rename happened – for every fault
vector. -/
theorem callable_gets_current_path (o : Orc) (rotating : Bool) (n : Name) (e : Entry) :
    Triple (fun w => w.fs.get n = some e) (rotatePrep o rotating (some n))
      (fun old w' => ∃ q, old = some q ∧ w'.fs.get q = some e) (fun _ => True) := by
  have hI : Insens (fun w => w.fs.get n = some e) := insens_fs (fun fs => fs.get n = some e)
  unfold rotatePrep
  refine Triple.ite (fun _ => ?_) (fun _ => Triple.post (Triple.ret _) (fun a w h => ⟨n, h.1, h.2⟩))
  refine Triple.seq (tick_specE hI (fun _ _ => trivial) _) ?_
  unfold renameSame
  refine Triple.ite (fun hc => ?_) (fun _ => Triple.post (Triple.ret _) (fun a w h => ⟨n, h.1, h.2⟩))
  have hn : createPath o = n := by simpa using hc
  rw [hn]
  refine Triple.seq (Triple.conseq (getCtime_spec hI _) (fun _ h => h) (fun _ _ h => h) (fun _ _ => trivial))
    (Triple.bindGet (fun w1 => ?_))
  refine Triple.withPre ?_
  rintro w ⟨rfl, hg⟩
  cases hgr : genRename w.fs (fun c => Name.ren n o.ct1 c) with
  | none => exact Triple.throw' _ (fun _ _ => trivial)
  | some r =>
    refine Triple.bind (Q := fun _ w' => w'.fs.get r = some e) ?_ (fun _ => ?_)
    · refine Triple.conseq (rename_exact n r w.fs) (fun w' h => by rw [h]) ?_ (fun _ _ => trivial)
      rintro _ w' ⟨e', he', hw'⟩
      rw [hg] at he'; cases he'
      rw [hw']; simp [get_set]
    · exact Triple.post (Triple.ret _) (fun a w h => ⟨r, h.1, h.2⟩)

/-- **callable_once_with_current_path** (2): a callable compression is invoked exactly once for the closed
file, with that path -/
theorem callable_called_once (cfg : Cfg) (o : Orc) (q : Name) (w : W) (hc : cfg.comp = some .callable) :
    (compressOld cfg o (some q) w).2.trace = Ev.compcall q :: w.trace := by
  simp only [compressOld, hc, tick]
  split <;> rfl

/-- **compression_only_at_rotation_or_final_stop**: a stop of a sink that has a rotation function only
closes the file (no compression, no retention) -/
theorem compression_only_at_rotation_or_final_stop (cfg : Cfg) (o : Orc) (hr : cfg.hasRot = true) :
    terminate cfg o false = (do let w ← getW; whenM w.cur.isSome closeFile) := by
  funext w
  simp only [terminate, rotatePrep, whenM, hr, bind_apply, getW_apply, Bool.false_eq_true, ↓reduceIte,
    Bool.not_true, Bool.or_self, pure_apply, Gen.termCloseTest, Gen.termPrepTest, Gen.termFinishTest,
    Gen.termRecreateTest]
  split
  · rename_i h; exact h.symm
  · rename_i h; exact h.symm

/-! ### format table (`_make_compression_function`) -/

/-- **format_table_total** (1): exactly the nine documented formats, each with its way of producing the
archive and its opener mode -/
theorem format_table :
    Gen.formatTable.map (fun r => (r.1, r.2.1, r.2.2.2.1)) =
      [("gz".toList, .copy, "wb".toList), ("bz2".toList, .copy, "wb".toList), ("xz".toList, .copy, "wb".toList),
       ("lzma".toList, .copy, "wb".toList), ("tar".toList, .add, "w:".toList), ("tar.gz".toList, .add, "w:gz".toList),
       ("tar.bz2".toList, .add, "w:bz2".toList), ("tar.xz".toList, .add, "w:xz".toList),
       ("zip".toList, .write, "w".toList)] ∧
    Gen.formatTable.map (fun r => r.2.2.2.2) =
      [[], [], "format=lzma.FORMAT_XZ".toList, "format=lzma.FORMAT_ALONE".toList, [], [], [], [],
       "compression=zipfile.ZIP_DEFLATED".toList] := by decide

def formatNames : List Str := Gen.formatTable.map (·.1)

theorem lookup_some_iff (ext : Str) (tbl : List (Str × CompKind × Str × Str × Str)) :
    (lookupFormat ext tbl).isSome = true ↔ ext ∈ tbl.map (·.1) := by
  induction tbl with
  | nil => simp [lookupFormat]
  | cons r rest ih =>
    obtain ⟨n, k, o, m, x⟩ := r
    simp only [lookupFormat, List.map_cons, List.mem_cons]
    by_cases h : ext = n
    · subst h; simp
    · have hb : (ext == n) = false := by simp [h]
      simp only [hb, Bool.false_eq_true, ↓reduceIte, h, false_or]
      exact ih

/-- **format_table_total** (2): a string is accepted iff its normal form (`.strip().lstrip('.')`) is one of
the nine names; anything else is `ValueError` at `add()`; the archive suffix is `"." + ext` -/
theorem parse_total (s : Str) :
    (normFormat s ∈ formatNames → ∃ k, parseCompression s = .ok (k, '.' :: normFormat s)) ∧
    (normFormat s ∉ formatNames → parseCompression s = .error .valueError) := by
  constructor
  · intro h
    have := (lookup_some_iff (normFormat s) Gen.formatTable).2 h
    unfold parseCompression
    cases hl : lookupFormat (normFormat s) Gen.formatTable with
    | none => rw [hl] at this; cases this
    | some km => exact ⟨km.1, rfl⟩
  · intro h
    unfold parseCompression
    cases hl : lookupFormat (normFormat s) Gen.formatTable with
    | none => rfl
    | some km =>
      have := (lookup_some_iff (normFormat s) Gen.formatTable).1 (by rw [hl]; rfl)
      exact absurd this h

theorem lstripBy_all (p : Char → Bool) (a b : Str) (h : ∀ c ∈ a, p c = true) :
    lstripBy p (a ++ b) = lstripBy p b := by
  induction a with
  | nil => rfl
  | cons c cs ih =>
    have hc := h c (by simp)
    simp only [List.cons_append, lstripBy, hc, ↓reduceIte]
    exact ih (fun x hx => h x (by simp [hx]))

theorem lstripBy_stop (p : Char → Bool) (c : Char) (cs : Str) (h : p c = false) :
    lstripBy p (c :: cs) = c :: cs := by
  simp [lstripBy, h]

/-- **format_table_total** (3): spellings with surrounding white space and leading dots denote the same
format: for a core `c :: mid ++ [d]`-shaped or one-character name that neither starts with a space or dot
nor ends with a space -/
theorem spelling_invariance (pre post : Str) (ndots : Nat) (c : Char) (body : Str)
    (hpre : ∀ x ∈ pre, isSpace x = true) (hpost : ∀ x ∈ post, isSpace x = true)
    (hc1 : isSpace c = false) (hc2 : c ≠ '.')
    (hlast : ∀ d, (c :: body).reverse.head? = some d → isSpace d = false) :
    normFormat (pre ++ List.replicate ndots '.' ++ (c :: body) ++ post) = c :: body := by
  unfold normFormat rstripBy
  have hdotsp : isSpace '.' = false := by decide
  -- strip the left white space
  have h1 : lstripBy isSpace (pre ++ List.replicate ndots '.' ++ (c :: body) ++ post) =
      List.replicate ndots '.' ++ (c :: body) ++ post := by
    rw [List.append_assoc, List.append_assoc, lstripBy_all isSpace pre _ hpre]
    cases ndots with
    | zero => simp [lstripBy_stop isSpace c _ hc1]
    | succ n => simp [List.replicate_succ, lstripBy_stop isSpace '.' _ hdotsp]
  rw [h1]
  -- strip the right white space
  have h2 : (lstripBy isSpace (List.replicate ndots '.' ++ (c :: body) ++ post).reverse).reverse =
      List.replicate ndots '.' ++ (c :: body) := by
    rw [List.reverse_append, lstripBy_all isSpace post.reverse _ (fun x hx => hpost x (by simpa using hx))]
    cases hrev : (List.replicate ndots '.' ++ (c :: body)).reverse with
    | nil => simp at hrev
    | cons d ds =>
      have hd : isSpace d = false := by
        apply hlast
        have : (c :: body).reverse.head? = (List.replicate ndots '.' ++ (c :: body)).reverse.head? := by
          rw [List.reverse_append]
          cases hb : (c :: body).reverse with
          | nil => simp at hb
          | cons y ys => simp
        rw [this, hrev]; rfl
      rw [lstripBy_stop isSpace d ds hd, ← hrev, List.reverse_reverse]
  rw [h2]
  -- strip the dots
  have hdots : ∀ x ∈ List.replicate ndots '.', (Gen.lstripChars.contains x) = true := by
    intro x hx
    rw [List.eq_of_mem_replicate hx]; decide
  rw [lstripBy_all _ _ _ hdots]
  apply lstripBy_stop
  simp [Gen.lstripChars, hc2]

def normalName : Str → Bool
  | [] => false
  | c :: body => !isSpace c && c != '.' &&
      (match (c :: body).reverse.head? with | some d => !isSpace d | none => true)

/-- the nine names meet the side conditions of `spelling_invariance` -/
theorem names_are_normal : formatNames.all normalName = true := by decide

/-- hence every documented format may be written with surrounding white space and leading dots -/
theorem spelling_of_table (n : Str) (hn : n ∈ formatNames) (pre post : Str) (ndots : Nat)
    (hpre : ∀ x ∈ pre, isSpace x = true) (hpost : ∀ x ∈ post, isSpace x = true) :
    normFormat (pre ++ List.replicate ndots '.' ++ n ++ post) = n := by
  have h := List.all_eq_true.1 names_are_normal n hn
  cases n with
  | nil => simp [normalName] at h
  | cons c body =>
    simp only [normalName, Bool.and_eq_true, Bool.not_eq_true', bne_iff_ne, ne_eq] at h
    obtain ⟨⟨h1, h2⟩, h3⟩ := h
    refine spelling_invariance pre post ndots c body hpre hpost h1 h2 ?_
    intro d hd
    rw [hd] at h3
    simpa using h3

example : parseCompression " .tar.gz\n".toList = .ok (.add, ".tar.gz".toList) := rfl
example : parseCompression "rar".toList = .error .valueError := rfl
example : parseCompression "gz.".toList = .error .valueError := rfl

/-- non-vacuity of the compression theorems: a collision chain (target and first renamed name taken) -/
example :
    let p := Name.ren (.base 0) 5 1
    let w : W := { fs := [(p, .file [1, 2]), (.arc p, .file [7]), (.arc (.ren p 6 1), .file [8])], faults := [] }
    (compression .add p 6 w).2.fs.get (.arc p) = some (.arch (.member p) [1, 2]) ∧
    (compression .add p 6 w).2.fs.get (.arc (.ren p 6 2)) = some (.file [7]) ∧
    (compression .add p 6 w).2.fs.get (.arc (.ren p 6 1)) = some (.file [8]) ∧
    (compression .add p 6 w).2.fs.get p = none := by decide +kernel

/-- … and a fault at the copy step: source intact, old archive safe under the fresh name -/
example :
    let p := Name.ren (.base 0) 5 1
    let w : W := { fs := [(p, .file [1, 2]), (.arc p, .file [7])], faults := [false, false, false, true] }
    (compression .add p 6 w).2.fs.get p = some (.file [1, 2]) ∧
    (compression .add p 6 w).2.fs.get (.arc (.ren p 6 1)) = some (.file [7]) ∧
    (compression .add p 6 w).2.fs.get (.arc p) = some (.arch .broken []) := by decide +kernel

/-! ### round 5: the name an existing archive is moved to, on path strings -/

/-- **collision_rename_target**: `Compression.compression` moves an existing `<file>.<ext>` to
`generate_rename_path(root, ext_before + ext, ctime)` with `root, ext_before = splitext(path_in)`.  For EVERY set of
existing paths that name (templates regenerated from /repo) exists, is not an existing path, is neither the
source `path_in = root + ext_before` nor the archive target `path_out = path_in + ext`, and carries the least
free counter – collision chains of any length and with any holes. -/
theorem collision_rename_target (existing : List Str) (root extBefore ext date : Str) :
    ∃ k, generateRenamePath existing root date (extBefore ++ ext) = some (candStr root date (extBefore ++ ext) (1 + k)) ∧
      candStr root date (extBefore ++ ext) (1 + k) ∉ existing ∧
      (∀ j, j < k → candStr root date (extBefore ++ ext) (1 + j) ∈ existing) ∧
      candStr root date (extBefore ++ ext) (1 + k) ≠ (root ++ extBefore) ++ ext ∧
      candStr root date (extBefore ++ ext) (1 + k) ≠ root ++ extBefore := by
  unfold generateRenamePath
  cases h : probeLoop (fun s => existing.contains s) (candStr root date (extBefore ++ ext)) (existing.length + 1)
      Gen.renameFirstCounter with
  | none =>
    have hall := probeLoop_none _ _ _ _ h
    have := pigeonhole_list (candStr root date (extBefore ++ ext)) (candStr_injective root date (extBefore ++ ext))
      Gen.renameFirstCounter (existing.length + 1) existing (fun i hi => by simpa using hall i hi)
    omega
  | some r =>
    obtain ⟨k, h1, h2, h3⟩ := probeLoop_some _ _ _ _ r h
    refine ⟨k, by rw [h1]; rfl, ?_, ?_, ?_, ?_⟩
    · have : ¬ (existing.contains (candStr root date (extBefore ++ ext) (1 + k)) = true) := by
        rw [show (1 + k) = Gen.renameFirstCounter + k from rfl, h2]; simp
      simpa using this
    · intro j hj
      have := h3 j hj
      simpa [Gen.renameFirstCounter] using this
    · rw [List.append_assoc]; exact candStr_ne_source root date (extBefore ++ ext) _
    · intro he
      have hl := congrArg List.length he
      by_cases hc : 1 + k = 1
      · rw [hc, candStr_first] at hl; simp at hl; omega
      · rw [candStr_loop _ _ _ _ hc] at hl; simp at hl; omega

/-- non-vacuity: `app.D.log.gz` and `app.D.2.log.gz` exist – the old archive goes to counter 3 -/
example :
    generateRenamePath ["app.log.gz".toList, "app.D.log.gz".toList, "app.D.2.log.gz".toList] "app".toList "D".toList
      (".log".toList ++ ".gz".toList) = some "app.D.3.log.gz".toList := by decide +kernel

/-! ### round 5: the compress functions as primitive sequences regenerated from /repo -/

/-- tie G (round 5): what the `with` nests of the three compress functions do, in execution order – the source is
opened FIRST and in BINARY mode by `copy_compress` (bytes are copied, whatever the sink's encoding and whatever line
ends the content has), the archive is opened before the transfer, tar/zip members are stored under the base name,
the archive is closed before the source -/
theorem compress_primitives :
    Gen.compressPrims .copy = [.openSource true, .openArchive, .transfer false, .closeArchive, .closeSource] ∧
    Gen.compressPrims .add = [.openArchive, .transfer true, .closeArchive] ∧
    Gen.compressPrims .write = [.openArchive, .transfer true, .closeArchive] := by decide

/-- **compress_function_is_generated**: the compress function every theorem of this file speaks about is the
interpreter of `Gen.compressPrims`; it equals the hand-written primitive sequence (`compressFnHand`) -/
theorem compress_function_is_generated (k : CompKind) (p out : Name) :
    compressFn k p out = seqM ((Gen.compressPrims k).map (cPrim k p out)) ∧
    compressFn k p out = compressFnHand k p out :=
  ⟨rfl, compressFn_eq k p out⟩

/-- **compression_succeeds_without_faults**: with no fault pending, `Compression.compression` of an existing file
returns normally – for every directory, i.e. every collision chain (the counter loop always finds a free name) – and
then, by `archive_roundtrip`, the archive holds exactly the file's content and the source is gone. -/
theorem compression_succeeds_without_faults (k : CompKind) (p : Name) (ct : Nat) (w : W) (e : Entry)
    (hf : w.faults = []) (hc : w.closed = false) (he : w.fs.get p = some e) :
    ∃ w', compression k p ct w = (.ok (), w') ∧
      w'.fs.get (.arc p) = some (.arch (innerOf k p) e.content) ∧ w'.fs.get p = none := by
  have hp : w.fs.has p = true := (has_iff _ _).2 ⟨e, he⟩
  have h := compression_GF k p ct w.fs hp w ⟨hf, hc, rfl⟩
  match hm : compression k p ct w with
  | (.ok u, w') =>
    refine ⟨w', rfl, ?_⟩
    have := archive_roundtrip (β := List Nat) ⟨id, some, fun _ => rfl⟩ k p ct w w' e u he hm
    exact ⟨this.1, this.2.1⟩
  | (.error err, w') => rw [hm] at h; exact h.elim

end C18
