import LoguruModel.FileSink.OrderLemmas
import LoguruModel.FileSink.UsableLemmas
import LoguruModel.FileSink.CompLemmas
/-!
C08 – file sink loses nothing across rotation / compression / retention, even under injected faults.
Only property theorems and their non-vacuity examples.  Every statement quantifies over ALL
configurations, operation sequences (with their rotation / clock / ctime / retention oracles),
initial directories and fault vectors; the model follows the *generated* statement orders and file
mode (`FileSink.Gen`), so an edit of `/repo/loguru/_file_sink.py` re-opens these proofs.
-/
namespace C08
open FileSink Py

/-- the sink starts on an arbitrary directory, with an arbitrary fault vector -/
def start (fs : FS) (faults : List Bool) (nid : Nat) : W := { fs := fs, faults := faults, nextId := nid }

/-- **no_message_lost**: after any history and any faults, every acknowledged message can still be read
from a file or an archive, unless retention / the environment deleted the file that held it, or it was
written through a handle whose file the environment had removed (never the case with `watch`, see
`harness/c08.py` monitors). -/
theorem no_message_lost (cfg : Cfg) (ops : List Op) (fs : FS) (faults : List Bool) (nid : Nat) :
    let w := run cfg ops (start fs faults nid)
    ∀ m ∈ w.written, m ∈ w.deleted ∨ m ∈ w.orphaned ∨ Holds w.fs m :=
  (run_inv cfg ops (start fs faults nid) ⟨(by intro m hm; cases hm), rfl⟩).1

/-- **rename_never_overwrites** (with `compress_target_fresh`): no `os.rename` target and no archive
opened for writing ever existed at the moment of the call, for any history and any faults. -/
theorem rename_never_overwrites (cfg : Cfg) (ops : List Op) (fs : FS) (faults : List Bool) (nid : Nat) :
    (run cfg ops (start fs faults nid)).clobbered = [] :=
  (run_inv cfg ops (start fs faults nid) ⟨(by intro m hm; cases hm), rfl⟩).2

/-- **order_preserved** (within files): after any history and any faults every file and every archive holds
its message ids in strictly increasing order, i.e. in logging order (ids are call numbers), provided the
initial directory did (pre-existing content below the first id).  Order *across* files is judged on the
real directory by harness/c08.py. -/
theorem order_preserved (cfg : Cfg) (ops : List Op) (fs : FS) (faults : List Bool) (nid : Nat)
    (h0 : OrdF fs nid) :
    let w := run cfg ops (start fs faults nid)
    ∀ n e, w.fs.get n = some e → e.content.Pairwise (· < ·) ∧ ∀ x ∈ e.content, x < w.nextId :=
  run_ord cfg ops (start fs faults nid) h0

/-- the name `generate_rename_path` returns does not exist (any directory, any candidate family) -/
theorem rename_target_fresh (fs : FS) (cand : Nat → Name) (r : Name) (h : genRename fs cand = some r) :
    fs.has r = false ∧ ∃ c, Gen.renameFirstCounter ≤ c ∧ r = cand c :=
  renameLoop_fresh fs cand _ _ r h

/-- **probe_complete_fresh**: the freshness of the rename target only needs the existence test of the
counter loop to be COMPLETE (it may say "taken" too often, never too rarely).  Names are abstract here: the
statement covers every path, whatever characters it contains (glob metacharacters included). -/
theorem probe_complete_fresh (fs : FS) (taken : Name → Bool) (hcomplete : ∀ n, fs.has n = true → taken n = true)
    (cand : Nat → Name) (fuel c : Nat) (r : Name) (h : renameLoopP taken cand fuel c = some r) :
    fs.has r = false := by
  have := renameLoopP_not_taken taken cand fuel c r h
  cases hr : fs.has r with
  | false => rfl
  | true => rw [hcomplete r hr] at this; cases this

/-- the code's loop is the instance `taken = os.path.exists` (the shape of `generate_rename_path` is pinned by
the extractor) -/
theorem code_probe_is_exists (fs : FS) (cand : Nat → Name) :
    genRename fs cand = renameLoopP fs.has cand (fs.length + 1) Gen.renameFirstCounter :=
  renameLoop_eq fs cand _ _

/-- **probe_incomplete_refuted**: ANY existence test that misses the first candidate although it exists makes
the loop return an existing name – the following `os.rename` then overwrites it.  (This is the shape of a scan
of the taken names by an unescaped glob pattern in a directory whose name contains `[…]`.) -/
theorem probe_incomplete_refuted (fs : FS) (taken : Name → Bool) (cand : Nat → Name) (fuel c : Nat)
    (hex : fs.has (cand c) = true) (hmiss : taken (cand c) = false) :
    renameLoopP taken cand (fuel + 1) c = some (cand c) ∧ fs.has (cand c) = true := by
  simp [renameLoopP, hmiss, hex]

/-- witness for the refutation: with a probe that sees nothing, the rotated file of an earlier run is replaced
and its content is gone -/
theorem probe_incomplete_witness :
    let old := Name.ren (.base 0) 5 1
    let w : W := { fs := [(.base 0, .file [1]), (old, .file [7])], faults := [] }
    renameLoopP (fun _ => false) (fun c => Name.ren (.base 0) 5 c) 3 1 = some old ∧
    (rename (.base 0) old w).2.clobbered = [old] ∧
    (rename (.base 0) old w).2.fs.get old = some (.file [1]) := by decide +kernel

theorem del_length_lt (fs : FS) (n : Name) (h : fs.has n = true) : (fs.del n).length < fs.length := by
  induction fs with
  | nil => simp [FS.has] at h
  | cons p rest ih =>
    obtain ⟨k, e⟩ := p
    by_cases hk : k = n
    · subst hk
      simp only [FS.del, List.filter_cons, bne_self_eq_false, Bool.false_eq_true, ↓reduceIte, List.length_cons]
      exact Nat.lt_succ_of_le (List.length_filter_le _ _)
    · have hb : (n == k) = false := by simp [Ne.symm hk]
      have hr : FS.has rest n = true := by
        simpa [FS.has, List.lookup_cons, hb] using h
      have hkn : (k != n) = true := by simp [hk]
      simp only [FS.del, List.filter_cons, hkn, ↓reduceIte, List.length_cons]
      exact Nat.succ_lt_succ (ih hr)

theorem pigeonhole (cand : Nat → Name) (hinj : ∀ a b, cand a = cand b → a = b) (c : Nat) :
    ∀ (k : Nat) (fs : FS), (∀ i, i < k → fs.has (cand (c + i)) = true) → k ≤ fs.length := by
  intro k
  induction k with
  | zero => intro fs _; exact Nat.zero_le _
  | succ k ih =>
    intro fs h
    have hlast := h k (Nat.lt_succ_self k)
    have := ih (fs.del (cand (c + k))) (by
      intro i hi
      have hne : cand (c + i) ≠ cand (c + k) := fun e => by have := hinj _ _ e; omega
      have hi' := h i (Nat.lt_succ_of_lt hi)
      obtain ⟨e, he⟩ := (has_iff _ _).1 hi'
      exact (has_iff _ _).2 ⟨e, by simp [get_del, hne, he]⟩)
    have := del_length_lt fs _ hlast
    omega

theorem renameLoop_none (fs : FS) (cand : Nat → Name) (fuel c : Nat)
    (h : renameLoop fs cand fuel c = none) : ∀ i, i < fuel → fs.has (cand (c + i)) = true := by
  induction fuel generalizing c with
  | zero => intro i hi; omega
  | succ f ih =>
    simp only [renameLoop] at h
    by_cases hc : fs.has (cand c) = true
    · simp only [hc, ↓reduceIte] at h
      intro i hi
      cases i with
      | zero => simpa using hc
      | succ j =>
        have := ih (c + 1) h j (by omega)
        have e : c + 1 + j = c + (j + 1) := by omega
        rw [e] at this; exact this
    · simp [hc] at h

/-- **the counter loop of `generate_rename_path` terminates within |dir|+1 steps** whenever distinct
counters give distinct names (they do: the counter is printed in the name) -/
theorem genRename_terminates (fs : FS) (cand : Nat → Name) (hinj : ∀ a b, cand a = cand b → a = b) :
    (genRename fs cand).isSome = true := by
  cases h : genRename fs cand with
  | some r => rfl
  | none =>
    have := pigeonhole cand hinj _ _ fs (renameLoop_none fs cand _ _ h)
    omega

/-- the two candidate families the code uses are injective in the counter -/
theorem candidates_injective (n : Name) (d : Nat) :
    (∀ a b, Name.ren n d a = Name.ren n d b → a = b) ∧
    (∀ a b, Name.arc (Name.ren n d a) = Name.arc (Name.ren n d b) → a = b) := by
  constructor <;> intro a b h <;> injection h with h <;> first | exact (by injection h) | assumption

/-- tie G: the sink opens its file in append mode, `_close_file` flushes, forgets the file object, then
closes it, and `Compression.compression` removes the source last -/
theorem generated_shape :
    Gen.fileMode = "a".toList ∧
    Gen.closeOrder = [.bindFile, .flush, .resetFile, .resetPath, .resetDev, .resetIno, .close] ∧
    Gen.compressionOrder = [.pathOut, .collisionRename, .compress, .removeSource] ∧
    Gen.terminateOrder = [.close, .newPath, .mkdirs, .sameNameRename, .compression, .retention, .createFile] ∧
    Gen.writeOrder = [.lazyCreate, .reopen, .rotationTest, .terminate, .writeMessage] ∧
    Gen.makedirsExistOk = true ∧ Gen.createPathAbsolute = true := by decide

/-- **never_holds_closed_file**: whatever fails – in particular `file.close()` itself – the sink never keeps
a closed file object (`_close_file` forgets the object before closing it, generated order `Gen.closeOrder`). -/
theorem never_holds_closed_file (cfg : Cfg) (ops : List Op) (fs : FS) (faults : List Bool) (nid : Nat) :
    (run cfg ops (start fs faults nid)).closed = false :=
  run_notClosed cfg ops (start fs faults nid) rfl

/-- **sink_usable_after_any_fault**: after ANY history (logging calls, stops, restarts, external deletions,
with any faults at any primitives – whatever half-finished rotation, compression or retention preceded), a
logging call during which no fault is injected is acknowledged.  Remaining explicit guards: no rotation is due
in that call and `watch` is off (with a rotation due the outcome also depends on the retention oracle; those
cases are judged on the implementation by the monitor of harness/c08.py). -/
theorem sink_usable_after_any_fault (cfg : Cfg) (ops : List Op) (fs : FS) (faults : List Bool) (nid : Nat) (o : Orc)
    (hf : (run cfg ops (start fs faults nid)).faults = []) (hr : o.rot = false) (hw : cfg.watch = false) :
    isOk (writeBody cfg o (run cfg ops (start fs faults nid))).1 = true :=
  write_ok_of_good cfg o _ hf (never_holds_closed_file cfg ops fs faults nid) hr hw

def witnessCfg : Cfg := { hasRot := true, comp := none, hasRet := false, watch := false, nglob := 4 }
def witnessOrc (rot : Bool) : Orc := { rot := rot, clk := 0, ct1 := 5, ct2 := 6, ret := [] }
/-- first message, then a rotation whose `file.close()` (7th primitive) fails -/
def witnessW : W :=
  run witnessCfg [.write (witnessOrc false), .write (witnessOrc true)]
    (start [] [false, false, false, false, false, false, true] 0)

/-- regression of finding F26 (fixed in e6154e8; before the fix the last component was a `ValueError`): a
fault at `file.close()` during a rotation leaves no file object behind and the next message is acknowledged
into the same file.  Replayed on the implementation by harness/c08.py (corpus/C08/002). -/
theorem close_fault_regression :
    witnessW.faults = [] ∧ witnessW.trace.head? = some Ev.close ∧ witnessW.closed = false ∧ witnessW.cur = none ∧
    isOk (writeBody witnessCfg (witnessOrc false) witnessW).1 = true ∧
    (writeBody witnessCfg (witnessOrc false) witnessW).2.fs.get (.base 0) = some (.file [0, 2]) := by decide +kernel

/-- non-vacuity: a history with a rotation, a collision and a compression acknowledges messages that end
up in an archive -/
example :
    let cfg : Cfg := { hasRot := true, comp := some (.fmt .add), hasRet := false, watch := false, nglob := 4 }
    let o : Orc := { rot := false, clk := 0, ct1 := 5, ct2 := 6, ret := [] }
    let w := run cfg [.write o, .write { o with rot := true }] (start [(.arc (.ren (.base 0) 5 1), .file [99])] [] 0)
    w.written = [1, 0] ∧ w.fs.get (.arc (.ren (.base 0) 5 1)) = some (.arch (.member (.ren (.base 0) 5 1)) [0]) ∧
    w.fs.get (.arc (.ren (.ren (.base 0) 5 1) 6 1)) = some (.file [99]) := by decide +kernel

end C08
