import LoguruModel.FileSink.OrderLemmas
import LoguruModel.FileSink.UsableLemmas
import LoguruModel.FileSink.CompLemmas
import LoguruModel.FileSink.WatchLemmas
import LoguruModel.FileSink.RenamePathLemmas
import LoguruModel.FileSink.RotateUsable
/-!
C08 – file sink loses nothing across rotation / compression / retention, even under injected faults.
Only property theorems and their non-vacuity examples.  Every statement quantifies over ALL
configurations, operation sequences (with their rotation / clock / ctime / retention oracles),
initial directories and fault vectors; the model follows the *generated* statement orders and file
mode (`FileSink.Gen`), so an edit of `/repo/loguru/_file_sink.py` re-opens these proofs.
-/
namespace C08
open FileSink Py

/-- the sink starts on an arbitrary directory, with an arbitrary fault vector -/
def start (fs : FS) (faults : List Bool) (nid : Nat) : W := { fs := fs, faults := faults, nextId := nid }

/-- **no_message_lost**: after any history and any faults, every acknowledged message can still be read
from a file or an archive, unless retention / the environment deleted the file that held it, or it was
written through a handle whose file the environment had removed (never the case with `watch`, see
`harness/c08.py` monitors). -/
theorem no_message_lost (cfg : Cfg) (ops : List Op) (fs : FS) (faults : List Bool) (nid : Nat) :
    let w := run cfg ops (start fs faults nid)
    ∀ m ∈ w.written, m ∈ w.deleted ∨ m ∈ w.orphaned ∨ Holds w.fs m :=
  (run_inv cfg ops (start fs faults nid) ⟨(by intro m hm; cases hm), rfl⟩).1

/-- **rename_never_overwrites** (with `compress_target_fresh`): no `os.rename` target and no archive
opened for writing ever existed at the moment of the call, for any history and any faults. -/
theorem rename_never_overwrites (cfg : Cfg) (ops : List Op) (fs : FS) (faults : List Bool) (nid : Nat) :
    (run cfg ops (start fs faults nid)).clobbered = [] :=
  (run_inv cfg ops (start fs faults nid) ⟨(by intro m hm; cases hm), rfl⟩).2

/-- **order_preserved** (within files): after any history and any faults every file and every archive holds
its message ids in strictly increasing order, i.e. in logging order (ids are call numbers), provided the
initial directory did (pre-existing content below the first id).  Order *across* files is judged on the
real directory by harness/c08.py. -/
theorem order_preserved (cfg : Cfg) (ops : List Op) (fs : FS) (faults : List Bool) (nid : Nat)
    (h0 : OrdF fs nid) :
    let w := run cfg ops (start fs faults nid)
    ∀ n e, w.fs.get n = some e → e.content.Pairwise (· < ·) ∧ ∀ x ∈ e.content, x < w.nextId :=
  run_ord cfg ops (start fs faults nid) h0

/-- the name `generate_rename_path` returns does not exist (any directory, any candidate family) -/
theorem rename_target_fresh (fs : FS) (cand : Nat → Name) (r : Name) (h : genRename fs cand = some r) :
    fs.has r = false ∧ ∃ c, Gen.renameFirstCounter ≤ c ∧ r = cand c :=
  renameLoop_fresh fs cand _ _ r h

/-- **probe_complete_fresh**: the freshness of the rename target only needs the existence test of the
counter loop to be COMPLETE (it may say "taken" too often, never too rarely).  Names are abstract here: the
statement covers every path, whatever characters it contains (glob metacharacters included). -/
theorem probe_complete_fresh (fs : FS) (taken : Name → Bool) (hcomplete : ∀ n, fs.has n = true → taken n = true)
    (cand : Nat → Name) (fuel c : Nat) (r : Name) (h : renameLoopP taken cand fuel c = some r) :
    fs.has r = false := by
  have := renameLoopP_not_taken taken cand fuel c r h
  cases hr : fs.has r with
  | false => rfl
  | true => rw [hcomplete r hr] at this; cases this

/-- the code's loop is the instance `taken = os.path.exists` (the shape of `generate_rename_path` is pinned by
the extractor) -/
theorem code_probe_is_exists (fs : FS) (cand : Nat → Name) :
    genRename fs cand = renameLoopP fs.has cand (fs.length + 1) Gen.renameFirstCounter :=
  renameLoop_eq fs cand _ _

/-- **probe_incomplete_refuted**: ANY existence test that misses the first candidate although it exists makes
the loop return an existing name – the following `os.rename` then overwrites it.  (This is the shape of a scan
of the taken names by an unescaped glob pattern in a directory whose name contains `[…]`.) -/
theorem probe_incomplete_refuted (fs : FS) (taken : Name → Bool) (cand : Nat → Name) (fuel c : Nat)
    (hex : fs.has (cand c) = true) (hmiss : taken (cand c) = false) :
    renameLoopP taken cand (fuel + 1) c = some (cand c) ∧ fs.has (cand c) = true := by
  simp [renameLoopP, hmiss, hex]

/-- witness for the refutation: with a probe that sees nothing, the rotated file of an earlier run is replaced
and its content is gone -/
theorem probe_incomplete_witness :
    let old := Name.ren (.base 0) 5 1
    let w : W := { fs := [(.base 0, .file [1]), (old, .file [7])], faults := [] }
    renameLoopP (fun _ => false) (fun c => Name.ren (.base 0) 5 c) 3 1 = some old ∧
    (rename (.base 0) old w).2.clobbered = [old] ∧
    (rename (.base 0) old w).2.fs.get old = some (.file [1]) := by decide +kernel

theorem del_length_lt (fs : FS) (n : Name) (h : fs.has n = true) : (fs.del n).length < fs.length := by
  induction fs with
  | nil => simp [FS.has] at h
  | cons p rest ih =>
    obtain ⟨k, e⟩ := p
    by_cases hk : k = n
    · subst hk
      simp only [FS.del, List.filter_cons, bne_self_eq_false, Bool.false_eq_true, ↓reduceIte, List.length_cons]
      exact Nat.lt_succ_of_le (List.length_filter_le _ _)
    · have hb : (n == k) = false := by simp [Ne.symm hk]
      have hr : FS.has rest n = true := by
        simpa [FS.has, List.lookup_cons, hb] using h
      have hkn : (k != n) = true := by simp [hk]
      simp only [FS.del, List.filter_cons, hkn, ↓reduceIte, List.length_cons]
      exact Nat.succ_lt_succ (ih hr)

theorem pigeonhole (cand : Nat → Name) (hinj : ∀ a b, cand a = cand b → a = b) (c : Nat) :
    ∀ (k : Nat) (fs : FS), (∀ i, i < k → fs.has (cand (c + i)) = true) → k ≤ fs.length := by
  intro k
  induction k with
  | zero => intro fs _; exact Nat.zero_le _
  | succ k ih =>
    intro fs h
    have hlast := h k (Nat.lt_succ_self k)
    have := ih (fs.del (cand (c + k))) (by
      intro i hi
      have hne : cand (c + i) ≠ cand (c + k) := fun e => by have := hinj _ _ e; omega
      have hi' := h i (Nat.lt_succ_of_lt hi)
      obtain ⟨e, he⟩ := (has_iff _ _).1 hi'
      exact (has_iff _ _).2 ⟨e, by simp [get_del, hne, he]⟩)
    have := del_length_lt fs _ hlast
    omega

theorem renameLoop_none (fs : FS) (cand : Nat → Name) (fuel c : Nat)
    (h : renameLoop fs cand fuel c = none) : ∀ i, i < fuel → fs.has (cand (c + i)) = true := by
  induction fuel generalizing c with
  | zero => intro i hi; omega
  | succ f ih =>
    simp only [renameLoop] at h
    by_cases hc : fs.has (cand c) = true
    · simp only [hc, ↓reduceIte] at h
      intro i hi
      cases i with
      | zero => simpa using hc
      | succ j =>
        have := ih (c + 1) h j (by omega)
        have e : c + 1 + j = c + (j + 1) := by omega
        rw [e] at this; exact this
    · simp [hc] at h

/-- **the counter loop of `generate_rename_path` terminates within |dir|+1 steps** whenever distinct
counters give distinct names (they do: the counter is printed in the name) -/
theorem genRename_terminates (fs : FS) (cand : Nat → Name) (hinj : ∀ a b, cand a = cand b → a = b) :
    (genRename fs cand).isSome = true := by
  cases h : genRename fs cand with
  | some r => rfl
  | none =>
    have := pigeonhole cand hinj _ _ fs (renameLoop_none fs cand _ _ h)
    omega

/-- the two candidate families the code uses are injective in the counter -/
theorem candidates_injective (n : Name) (d : Nat) :
    (∀ a b, Name.ren n d a = Name.ren n d b → a = b) ∧
    (∀ a b, Name.arc (Name.ren n d a) = Name.arc (Name.ren n d b) → a = b) := by
  constructor <;> intro a b h <;> injection h with h <;> first | exact (by injection h) | assumption

/-- tie G: the sink opens its file in append mode, `_close_file` flushes, forgets the file object, then
closes it, and `Compression.compression` removes the source last -/
theorem generated_shape :
    Gen.fileMode = "a".toList ∧
    Gen.closeOrder = [.bindFile, .flush, .resetFile, .resetPath, .resetDev, .resetIno, .close] ∧
    Gen.compressionOrder = [.pathOut, .collisionRename, .compress, .removeSource] ∧
    Gen.terminateOrder = [.close, .newPath, .mkdirs, .sameNameRename, .compression, .retention, .createFile] ∧
    Gen.writeOrder = [.lazyCreate, .reopen, .rotationTest, .terminate, .writeMessage] ∧
    Gen.makedirsExistOk = true ∧ Gen.createPathAbsolute = true := by decide

/-- **never_holds_closed_file**: whatever fails – in particular `file.close()` itself – the sink never keeps
a closed file object (`_close_file` forgets the object before closing it, generated order `Gen.closeOrder`). -/
theorem never_holds_closed_file (cfg : Cfg) (ops : List Op) (fs : FS) (faults : List Bool) (nid : Nat) :
    (run cfg ops (start fs faults nid)).closed = false :=
  run_notClosed cfg ops (start fs faults nid) rfl

/-- **sink_usable_after_any_fault**: after ANY history (logging calls, stops, restarts, external deletions,
with any faults at any primitives – whatever half-finished rotation, compression or retention preceded), a
logging call during which no fault is injected is acknowledged.  Remaining explicit guards: no rotation is due
in that call and `watch` is off (with a rotation due the outcome also depends on the retention oracle; those
cases are judged on the implementation by the monitor of harness/c08.py). -/
theorem sink_usable_after_any_fault (cfg : Cfg) (ops : List Op) (fs : FS) (faults : List Bool) (nid : Nat) (o : Orc)
    (hf : (run cfg ops (start fs faults nid)).faults = []) (hr : o.rot = false) (hw : cfg.watch = false) :
    isOk (writeBody cfg o (run cfg ops (start fs faults nid))).1 = true :=
  write_ok_of_good cfg o _ hf (never_holds_closed_file cfg ops fs faults nid) hr hw

def witnessCfg : Cfg := { hasRot := true, comp := none, hasRet := false, watch := false, nglob := 4 }
def witnessOrc (rot : Bool) : Orc := { rot := rot, clk := 0, ct1 := 5, ct2 := 6, ret := [] }
/-- first message, then a rotation whose `file.close()` (7th primitive) fails -/
def witnessW : W :=
  run witnessCfg [.write (witnessOrc false), .write (witnessOrc true)]
    (start [] [false, false, false, false, false, false, true] 0)

/-- regression of finding F26 (fixed in e6154e8; before the fix the last component was a `ValueError`): a
fault at `file.close()` during a rotation leaves no file object behind and the next message is acknowledged
into the same file.  Replayed on the implementation by harness/c08.py (corpus/C08/002). -/
theorem close_fault_regression :
    witnessW.faults = [] ∧ witnessW.trace.head? = some Ev.close ∧ witnessW.closed = false ∧ witnessW.cur = none ∧
    isOk (writeBody witnessCfg (witnessOrc false) witnessW).1 = true ∧
    (writeBody witnessCfg (witnessOrc false) witnessW).2.fs.get (.base 0) = some (.file [0, 2]) := by decide +kernel

/-- non-vacuity: a history with a rotation, a collision and a compression acknowledges messages that end
up in an archive -/
example :
    let cfg : Cfg := { hasRot := true, comp := some (.fmt .add), hasRet := false, watch := false, nglob := 4 }
    let o : Orc := { rot := false, clk := 0, ct1 := 5, ct2 := 6, ret := [] }
    let w := run cfg [.write o, .write { o with rot := true }] (start [(.arc (.ren (.base 0) 5 1), .file [99])] [] 0)
    w.written = [1, 0] ∧ w.fs.get (.arc (.ren (.base 0) 5 1)) = some (.arch (.member (.ren (.base 0) 5 1)) [0]) ∧
    w.fs.get (.arc (.ren (.ren (.base 0) 5 1) 6 1)) = some (.file [99]) := by decide +kernel

/-! ### round 5: `watch=True` – the re-open path `_reopen_if_needed` -/

/-- tie G (round 5): the re-open test is `missing or dev differs or ino differs`, the branch closes, re-creates
the directories and the file in this order, `_create_file` records the identity, `stop()` re-opens (under
`watch`) before terminating -/
theorem generated_shape_watch :
    (∀ a b c, Gen.reopenNeeded a b c = (a || b || c)) ∧
    Gen.reopenOrder = [.close, .mkdirs, .create] ∧ Gen.createRecordsIdentity = true ∧
    Gen.stopOrder = [.reopen, .terminate] := by
  refine ⟨fun a b c => rfl, ?_, ?_, ?_⟩ <;> decide

/-- **watch_never_orphans**: with `watch=True`, after ANY history – logging calls, stops, restarts, the
environment deleting or replacing the log file between any two calls – and ANY faults, no acknowledged message
was ever written through a handle whose file is no longer the one the path names.  (The proof runs through
`Gen.reopenNeeded` / `Gen.reopenOrder` / `Gen.closeOrder`: it is re-checked against the current
`_reopen_if_needed` and `_close_file`.) -/
theorem watch_never_orphans (cfg : Cfg) (hw : cfg.watch = true) (ops : List Op) (fs : FS) (faults : List Bool)
    (nid : Nat) : (run cfg ops (start fs faults nid)).orphaned = [] :=
  (run_WI cfg hw ops (start fs faults nid) ⟨rfl, fun h => by cases h⟩).1

/-- **watch_no_message_lost**: hence, with `watch=True`, `no_message_lost` holds without its "written through a
detached handle" escape: every acknowledged message is readable from a file or archive of the directory unless
retention or the environment deleted the file that held it. -/
theorem watch_no_message_lost (cfg : Cfg) (hw : cfg.watch = true) (ops : List Op) (fs : FS) (faults : List Bool)
    (nid : Nat) :
    let w := run cfg ops (start fs faults nid)
    ∀ m ∈ w.written, m ∈ w.deleted ∨ Holds w.fs m := by
  intro w m hm
  rcases no_message_lost cfg ops fs faults nid m hm with h | h | h
  · exact Or.inl h
  · have : w.orphaned = [] := watch_never_orphans cfg hw ops fs faults nid
    rw [this] at h; cases h
  · exact Or.inr h

/-- **watch_write_lands_in_named_file**: with `watch=True`, after any history and faults, an acknowledged logging
call has appended its message to the file that the sink's path names at that moment (the file was re-created
first if the environment had deleted or replaced it; a rotation in the same call ends with the new file). -/
theorem watch_write_lands_in_named_file (cfg : Cfg) (hw : cfg.watch = true) (ops : List Op) (fs : FS)
    (faults : List Bool) (nid : Nat) (o : Orc) (u : Unit) (w' : W)
    (h : writeBody cfg o (run cfg ops (start fs faults nid)) = (.ok u, w')) :
    ∃ p e, w'.cur = some p ∧ w'.fs.get p = some e ∧ w'.nextId ∈ e.content := by
  have := writeBody_watch cfg o hw _ (run_WI cfg hw ops (start fs faults nid) ⟨rfl, fun h => by cases h⟩)
  rw [h] at this
  exact this.2

/-- non-vacuity and necessity of `watch`: the environment deletes the file between two calls; with `watch` the
second message lands in a re-created `app.log`, without it the message is acknowledged but orphaned -/
example :
    let o : Orc := { rot := false, clk := 0, ct1 := 5, ct2 := 6, ret := [] }
    let ops := [Op.write o, .extDelete (.base 0), .write o]
    let on : Cfg := { hasRot := false, comp := none, hasRet := false, watch := true, nglob := 4 }
    let off : Cfg := { on with watch := false }
    (run on ops (start [] [] 0)).fs.get (.base 0) = some (.file [1]) ∧ (run on ops (start [] [] 0)).orphaned = [] ∧
    (run on ops (start [] [] 0)).written = [1, 0] ∧
    (run off ops (start [] [] 0)).fs.get (.base 0) = none ∧ (run off ops (start [] [] 0)).orphaned = [1] := by
  decide +kernel

/-- **sink_usable_after_any_fault_watch**: the usability theorem without its `watch = false` guard – after ANY
history and faults a logging call during which no fault is injected and no rotation is due is acknowledged,
whether or not the file has to be re-opened first. -/
theorem sink_usable_after_any_fault_watch (cfg : Cfg) (ops : List Op) (fs : FS) (faults : List Bool) (nid : Nat)
    (o : Orc) (hf : (run cfg ops (start fs faults nid)).faults = []) (hr : o.rot = false) :
    isOk (writeBody cfg o (run cfg ops (start fs faults nid))).1 = true :=
  write_ok_of_good' cfg o _ hf (never_holds_closed_file cfg ops fs faults nid) hr

example :
    let o : Orc := { rot := false, clk := 0, ct1 := 5, ct2 := 6, ret := [] }
    let on : Cfg := { hasRot := true, comp := none, hasRet := false, watch := true, nglob := 4 }
    let w := run on [Op.write o, .extReplace (.base 0)] (start [] [false, false, false, true] 0)
    w.faults = [] ∧ isOk (writeBody on o w).1 = true ∧ (writeBody on o w).2.fs.get (.base 0) = some (.file [1]) := by
  decide +kernel

/-! ### round 5: `generate_rename_path` on path STRINGS (templates regenerated from the format strings) -/

/-- tie G (round 5): the two templates of `generate_rename_path`, as read from the source -/
theorem generated_rename_templates :
    Gen.renameFirstTemplate = [.arg 0, .lit ".".toList, .arg 1, .arg 2] ∧
    Gen.renameLoopTemplate = [.arg 0, .lit ".".toList, .arg 1, .lit ".".toList, .arg 3, .arg 2] ∧
    Gen.renameFirstCounter = 1 ∧ Gen.renameCounterStep = 1 := by decide

/-- **rename_candidates_distinct**: for every root, date text and extension, distinct counters give distinct
paths (the first one is the name without counter); this is the fact the abstract model assumes through the
constructor `Name.ren` (`candidates_injective`), proved here for the real templates and Python's decimal `str(int)`. -/
theorem rename_candidates_distinct (root date ext : Str) (a b : Nat)
    (h : candStr root date ext a = candStr root date ext b) : a = b :=
  candStr_injective root date ext a b h

/-- **generate_rename_path_least_free**: for EVERY set of existing paths (given as a list: any size, any holes in
the counter sequence, any other names), every root, date and extension, the loop terminates within
|existing|+1 probes and returns the candidate with the LEAST counter that does not exist: it is not an existing
path, and every candidate with a smaller counter exists. -/
theorem generate_rename_path_least_free (existing : List Str) (root date ext : Str) :
    ∃ k, generateRenamePath existing root date ext = some (candStr root date ext (1 + k)) ∧
      candStr root date ext (1 + k) ∉ existing ∧ ∀ j, j < k → candStr root date ext (1 + j) ∈ existing := by
  unfold generateRenamePath
  cases h : probeLoop (fun s => existing.contains s) (candStr root date ext) (existing.length + 1)
      Gen.renameFirstCounter with
  | none =>
    have hall := probeLoop_none _ _ _ _ h
    have := pigeonhole_list (candStr root date ext) (candStr_injective root date ext) Gen.renameFirstCounter
      (existing.length + 1) existing (fun i hi => by simpa using hall i hi)
    omega
  | some r =>
    obtain ⟨k, h1, h2, h3⟩ := probeLoop_some _ _ _ _ r h
    refine ⟨k, by rw [h1]; rfl, ?_, ?_⟩
    · have : ¬ (existing.contains (candStr root date ext (1 + k)) = true) := by
        rw [show (1 + k) = Gen.renameFirstCounter + k from rfl, h2]; simp
      simpa using this
    · intro j hj
      have := h3 j hj
      simpa [Gen.renameFirstCounter] using this

/-- the returned path is never the path that is about to be renamed (`old_path = root + ext`) -/
theorem generate_rename_path_not_source (existing : List Str) (root date ext r : Str)
    (h : generateRenamePath existing root date ext = some r) : r ≠ root ++ ext := by
  obtain ⟨k, hk, _, _⟩ := generate_rename_path_least_free existing root date ext
  rw [hk] at h
  cases h
  exact candStr_ne_source root date ext _

/-- the loop of the abstract model (`rename_target_fresh`, `genRename_terminates`) is this same loop -/
theorem code_probe_is_probeLoop (fs : FS) (cand : Nat → Name) :
    genRename fs cand = probeLoop fs.has cand (fs.length + 1) Gen.renameFirstCounter := by
  rw [code_probe_is_exists, renameLoopP_eq_probeLoop]

/-- non-vacuity: counters 1, 2 and 4 taken (a hole at 3), unrelated names around, ten and more rotations
(the counter gains a digit) -/
example :
    generateRenamePath ["app.D.log".toList, "app.D.2.log".toList, "app.D.4.log".toList, "app.log".toList,
        "app.D.3.log.gz".toList] "app".toList "D".toList ".log".toList = some "app.D.3.log".toList ∧
    generateRenamePath [] "a.b".toList "D".toList [] = some "a.b.D".toList ∧
    candStr "app".toList "D".toList ".log".toList 10 = "app.D.10.log".toList := by decide +kernel

/-! ### round 5: usability of a call in which a rotation IS due -/

/-- **sink_usable_after_any_fault_rotation**: after ANY history and faults, a logging call during which no fault is
injected is acknowledged ALSO WHEN A ROTATION IS DUE in it – the whole chain close → new path → same-name rename
through `generate_rename_path` → compression (collision rename of any chain length, compress, remove the source) →
retention → new file → write runs through – under two explicit guards: the retention policy deletes nothing in this
call (`noDel`: what a policy deletes is an oracle of the model), and the file being closed is still in the
directory (automatic with `watch=True`, where it is re-created first, and when the sink holds no file). -/
theorem sink_usable_after_any_fault_rotation (cfg : Cfg) (ops : List Op) (fs : FS) (faults : List Bool) (nid : Nat)
    (o : Orc) (hf : (run cfg ops (start fs faults nid)).faults = [])
    (hret : cfg.hasRet = false ∨ noDel o.ret = true)
    (hthere : cfg.watch = true ∨
      ∀ p, (run cfg ops (start fs faults nid)).cur = some p → (run cfg ops (start fs faults nid)).fs.has p = true) :
    isOk (writeBody cfg o (run cfg ops (start fs faults nid))).1 = true :=
  write_ok_rotation_due cfg o _ hf (never_holds_closed_file cfg ops fs faults nid) hret hthere

/-- both guards are needed: (1) without `watch`, after the environment deleted the file, a due same-name rotation
fails at `get_ctime`; (2) a retention policy that removes a file that is not there fails the call -/
theorem rotation_guards_needed :
    let o : Orc := { rot := false, clk := 0, ct1 := 5, ct2 := 6, ret := [] }
    let cfg : Cfg := { hasRot := true, comp := none, hasRet := true, watch := false, nglob := 4 }
    let w := run cfg [Op.write o, .extDelete (.base 0)] (start [] [] 0)
    let w2 := run cfg [Op.write o] (start [] [] 0)
    isOk (writeBody cfg { o with rot := true } w).1 = false ∧
    isOk (writeBody cfg { o with rot := true, ret := [.del (.other 9)] } w2).1 = false ∧
    isOk (writeBody cfg { o with rot := true, ret := [.stat] } w2).1 = true := by decide +kernel

/-- non-vacuity: after a history with a fault, a due rotation with tar compression over a collision chain -/
example :
    let o : Orc := { rot := false, clk := 0, ct1 := 5, ct2 := 6, ret := [.stat, .stat] }
    let cfg : Cfg := { hasRot := true, comp := some (.fmt .add), hasRet := true, watch := true, nglob := 4 }
    let fs0 : FS := [(.arc (.ren (.base 0) 5 1), .file [70]), (.arc (.ren (.ren (.base 0) 5 1) 6 1), .file [71])]
    let w := run cfg [Op.write o, .extReplace (.base 0)] (start fs0 [false, false, true] 0)
    w.faults = [] ∧ isOk (writeBody cfg { o with rot := true } w).1 = true ∧
    (writeBody cfg { o with rot := true } w).2.fs.get (.arc (.ren (.ren (.base 0) 5 1) 6 2)) = some (.file [70]) := by
  decide +kernel

/-- **retention_before_new_file**: in every configuration (any rotation / compression / retention, `watch` on or off)
and for every retention oracle – whatever set of names the policy removes in this call, even the new path's own
name – a logging call that is acknowledged has appended its message to the file the sink's path names afterwards:
`_terminate_file` runs retention BEFORE it creates the new file.  Hypothesis: the handle the sink holds (if any) is
the file its path names (`Landed`; automatic after `add()`, and re-established by `_reopen_if_needed` under `watch`). -/
theorem retention_before_new_file (cfg : Cfg) (o : Orc) (w w' : W) (u : Unit)
    (hinv : WI w) (hl : cfg.watch = true ∨ Landed w) (h : writeBody cfg o w = (.ok u, w')) :
    ∃ p e, w'.cur = some p ∧ w'.fs.get p = some e ∧ w'.nextId ∈ e.content := by
  have := writeBody_lands cfg o w ⟨hinv, hl⟩
  rw [h] at this
  exact this.2

/-- non-vacuity: the retention policy deletes a file that already sits under the NEW path (and the rotated old file);
the message still lands in the (re-created) new file -/
example :
    let o : Orc := { rot := false, clk := 0, ct1 := 5, ct2 := 6, ret := [] }
    let cfg : Cfg := { hasRot := true, comp := none, hasRet := true, watch := false, nglob := 4 }
    let w := run cfg [Op.write o] (start [(.base 1, .file [77])] [] 0)
    let r := writeBody cfg { o with rot := true, clk := 1, ret := [.stat, .del (.base 1), .del (.base 0)] } w
    WI w ∧ Landed w ∧ isOk r.1 = true ∧ r.2.deleted = [0, 77] ∧ r.2.fs = [(.base 1, .file [1])] := by
  refine ⟨⟨rfl, fun h => by cases h⟩, ?_, ?_⟩
  · intro p hp
    have : p = .base 0 := by
      have h0 : (run { hasRot := true, comp := none, hasRet := true, watch := false, nglob := 4 }
        [Op.write { rot := false, clk := 0, ct1 := 5, ct2 := 6, ret := [] }] (start [(.base 1, .file [77])] [] 0)).cur
          = some (.base 0) := by decide +kernel
      rw [h0] at hp; cases hp; rfl
    subst this
    decide +kernel
  · decide +kernel

/-! ### round 5: the guards of `_terminate_file` as regenerated kernels -/

/-- tie G (round 5): the guards of `_terminate_file` the model evaluates are the Bool kernels translated from the
source: close iff a file is open, prepare the new path iff rotating, compress/retain iff `is_rotating or
self._rotation_function is None`, retain iff a retention function exists, re-create iff rotating -/
theorem generated_terminate_guards :
    (∀ f, Gen.termCloseTest f = f) ∧ (∀ r, Gen.termPrepTest r = r) ∧
    (∀ r h, Gen.termFinishTest r h = (r || !h)) ∧ (∀ h, Gen.termRetainTest h = h) ∧
    (∀ r, Gen.termRecreateTest r = r) :=
  ⟨fun _ => rfl, fun _ => rfl, fun _ _ => rfl, fun _ => rfl, fun _ => rfl⟩

/-- **retention_only_at_rotation_or_final_stop**: stopping a sink that has a rotation function leaves the directory
exactly as it is – no compression, no retention, no rename, no new file – under every fault vector (through the
generated guards: `_terminate_file(is_rotating=False)` with a rotation function only closes the file). -/
theorem retention_only_at_rotation_or_final_stop (cfg : Cfg) (o : Orc) (hr : cfg.hasRot = true) (w : W) :
    (terminate cfg o false w).2.fs = w.fs := by
  have hterm : terminate cfg o false = (do let w ← getW; whenM w.cur.isSome closeFile) := by
    funext w
    simp only [terminate, rotatePrep, whenM, hr, bind_apply, getW_apply, Bool.false_eq_true, ↓reduceIte,
      Bool.not_true, Bool.or_self, pure_apply, Gen.termCloseTest, Gen.termPrepTest, Gen.termFinishTest,
      Gen.termRecreateTest]
    split
    · rename_i h; exact h.symm
    · rename_i h; exact h.symm
  rw [hterm]
  have ht : Triple (fun x => x.fs = w.fs) (do let w ← getW; whenM w.cur.isSome closeFile)
      (fun _ x => x.fs = w.fs) (fun x => x.fs = w.fs) :=
    Triple.bindGet (fun w0 => Triple.pre (Triple.whenM (fun _ => closeFile_fs w.fs)) (fun _ h => h.2))
  exact Triple.snd ht w rfl

example :
    let o : Orc := { rot := false, clk := 0, ct1 := 5, ct2 := 6, ret := [.del (.base 0)] }
    let cfg : Cfg := { hasRot := true, comp := some (.fmt .copy), hasRet := true, watch := false, nglob := 4 }
    let w := run cfg [Op.write o] (start [] [] 0)
    (terminate cfg o false w).2.fs = [(.base 0, .file [0])] ∧ (terminate cfg o false w).2.cur = none := by
  decide +kernel

/-- tie G (round 5, seed C08-p): the catch mechanism through which every failed file operation is reported is PER
CALL – no method of `ErrorInterceptor` but `__init__` assigns an attribute of `self` (no state survives a report,
nothing is shared between two threads reporting at once) and the only early return of `print` is the `sys.stderr`
guard.  "Every message without a report is readable" (`no_message_lost`, whose `written` are the calls that did not
raise inside the sink) reaches the user only through this reporter; the two-thread stream of harness/c08.py
(`report_race`) judges it on the implementation. -/
theorem generated_shape_reporter : Gen.reporterStateless = true ∧ Gen.reporterEarlyReturns = 1 := by decide

end C08
